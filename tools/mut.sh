#!/bin/sh
# usage: tools/mut.sh <PROP> <file-in-repo> <sed-expression> [worktree]
# applies a one-line mutation to a scratch worktree, checks it compiles, runs the quick check, restores.
P="$1"; F="$2"; E="$3"; WT="${4:-/tmp/wt-main}"
[ -d "$WT" ] || git -C /repo worktree add -q "$WT" HEAD
git -C "$WT" checkout -q --detach main 2>/dev/null
sed -i "$E" "$WT/$F"
if git -C "$WT" diff --quiet; then echo "MUTANT NOT APPLIED"; exit 3; fi
(cd "$WT" && GOFLAGS=-mod=mod go build ./... ) || { echo "MUTANT DOES NOT COMPILE"; git -C "$WT" checkout -- .; exit 3; }
cd /verif && VERIF_REPO="$WT" ./check "$P" 2>&1 | grep -E "VIOLATION|tier=|INCONCLUSIVE|KNOWN" | head -${MUTLINES:-3}
echo "exit=$?"
git -C "$WT" checkout -- .
