"""Orchestration library for the iscp-go TLA+ verification framework.

Pipeline per check:  TLC on L1 spec (design + script generation)  ->  Go harness replays
scripts on the real library and records NDJSON traces  ->  TLC validates the traces against
the property monitor / component trace spec  ->  verdicts, evidence, exit code.

Exit codes: 0 held; 1 violation (prints VIOLATION line); 2 inconclusive (never a violation).
"""
import atexit
import hashlib
import json
import os
import re
import shutil
import subprocess
import sys
import time

VERIF = os.path.dirname(os.path.dirname(os.path.abspath(__file__)))
REPO = os.environ.get("VERIF_REPO", "/repo")
SPEC = os.path.join(VERIF, "spec")
HARNESS = os.path.join(VERIF, "harness")
WORKROOT = os.path.join(VERIF, ".work")
# evidence is about /repo itself; runs against another tree (mutation / seeded-change runs) keep theirs in scratch
EVID = os.path.join(VERIF, "evidence") if REPO == "/repo" else os.path.join(WORKROOT, "mut-evidence")
GOENV = dict(GOFLAGS="-mod=mod", GOPROXY="off", GOSUMDB="off", GOTOOLCHAIN="local")
TLC_CP = "/opt/veriftools/tla/tla2tools.jar:/opt/veriftools/tla/CommunityModules-deps.jar"


TRACE_TEMPLATE = """---- MODULE Trace_@MON@ ----
(* generated: generic trace driver. The trace recorded from the real code is consumed one
   event per step; the monitor state is advanced by MonStep; at the end of every scenario
   slice the verdict (set of violated clauses) and statistics are printed. *)
EXTENDS @MON@, IOUtils
TraceLog == ndJsonDeserialize(IOEnv.VERIF_TRACE)
VARIABLES tl, mon
tvars == <<tl, mon>>
TraceInit == tl = 1 /\\ mon = MonInit
TraceNext == /\\ tl <= Len(TraceLog)
             /\\ LET e == TraceLog[tl] IN
                  IF e.ev = "Reset" THEN mon' = MonReset(e)
                  ELSE IF e.ev = "End"
                       THEN /\\ PrintT("VERDICT " \\o ToJson([sc |-> e.sc, bad |-> MonVerdict(mon), stats |-> MonStats(mon)]))
                            /\\ mon' = mon
                       ELSE mon' = MonStep(mon, e)
             /\\ tl' = tl + 1
TraceSpec == TraceInit /\\ [][TraceNext]_tvars
TraceAccepted == TLCGet("stats").diameter = Len(TraceLog) + 1
====
"""


class Inconclusive(Exception):
    pass


def log(*a):
    print(*a, flush=True)


class TlcResult:
    def __init__(self):
        self.ok = False
        self.generated = 0
        self.distinct = 0
        self.depth = 0
        self.violated = None
        self.error = None
        self.printed = []  # strings printed by PrintT (unquoted)
        self.out = ""
        self.wall = 0.0
        self.coverage = {}


def parse_tlc(out):
    r = TlcResult()
    r.out = out
    m = None
    for m in re.finditer(r"(\d+) states generated, (\d+) distinct states found", out):
        pass
    if m:
        r.generated, r.distinct = int(m.group(1)), int(m.group(2))
    m = re.search(r"depth of the complete state graph search is (\d+)", out)
    if m:
        r.depth = int(m.group(1))
    m = re.search(r"Invariant (\S+) is violated", out)
    if m:
        r.violated = m.group(1)
    m = re.search(r"Action property (\S+) is violated|Temporal properties were violated|property (\S+) is violated", out)
    if m and not r.violated:
        r.violated = m.group(1) or m.group(2) or "temporal"
    if "Deadlock reached" in out and not r.violated:
        r.violated = "Deadlock"
    errs = [l for l in out.splitlines() if l.startswith("Error:")]
    if errs and not r.violated:
        # find a more descriptive block
        idx = out.find("Error:")
        r.error = out[idx:idx + 1500]
    for l in out.splitlines():
        l = l.strip()
        if l.startswith('"') and l.endswith('"') and len(l) >= 2:
            try:
                r.printed.append(json.loads(l))
            except Exception:
                r.printed.append(l[1:-1])
    r.ok = ("Model checking completed. No error has been found." in out or "Finished in" in out) and not r.violated and not r.error
    if "Model checking completed. No error has been found." not in out and "-simulate" not in out:
        # simulation mode / interrupted: ok only when no error lines
        pass
    return r


class Ctx:
    def __init__(self, pid, tier=None, seed=None, level="model_checking"):
        self.pid = pid
        self.tier = tier or os.environ.get("VERIF_TIER", "quick")
        if self.tier not in ("quick", "thorough"):
            self.tier = "quick"
        try:
            self.seed = int(seed if seed is not None else os.environ.get("VERIF_SEED", "1"))
        except ValueError:
            self.seed = 1
        self.level = level
        self.t0 = time.time()
        self.work = os.path.join(WORKROOT, "%s.%d" % (pid, os.getpid()))
        os.makedirs(self.work, exist_ok=True)
        atexit.register(self._cleanup)
        self.vh = None
        self.cov = {"states": 0, "transitions": 0, "traces_validated_against_impl": 0, "samples": [],
                    "l1": [], "scenarios_run": 0, "scenarios_inconclusive": 0, "events": 0, "clauses": {}}
        self.assumptions = []
        self.violations = []   # (scenario id, clause, replay path)
        self.known_hits = []
        self.notes = []
        self.keep_work = bool(os.environ.get("VERIF_KEEP"))

    # ------------------------------------------------------------------ infra
    def _cleanup(self):
        if not self.keep_work:
            shutil.rmtree(self.work, ignore_errors=True)

    def quick(self):
        return self.tier == "quick"

    def build_harness(self, cmd=None):
        """Build the harness runner. cmd = directory name under harness/cmd (default "vh")."""
        explicit = cmd is not None
        cmd = cmd or getattr(self, "harness_cmd", "vh")
        if explicit:
            # an additional harness command next to the check's main one (kept per command)
            if not hasattr(self, "vhs"):
                self.vhs = {}
            if cmd in self.vhs:
                return self.vhs[cmd]
        elif self.vh:
            return self.vh
        env = dict(os.environ)
        env.update(GOENV)
        hdir = HARNESS
        if os.path.realpath(REPO) != "/repo":
            # mutation testing against a scratch worktree: build a private copy of the harness module
            # whose replace directive points at that tree (VERIF_REPO=<dir>)
            hdir = os.path.join(self.work, "harness")
            shutil.copytree(HARNESS, hdir, dirs_exist_ok=True)
            gm = open(os.path.join(hdir, "go.mod")).read().replace("=> /repo", "=> " + os.path.realpath(REPO))
            open(os.path.join(hdir, "go.mod"), "w").write(gm)
        try:
            shutil.copy(os.path.join(REPO, "go.sum"), os.path.join(hdir, "go.sum"))
        except Exception as e:
            raise Inconclusive("cannot copy go.sum: %s" % e)
        out = os.path.join(self.work, "vh-" + cmd if explicit else "vh")
        t = time.time()
        tags = "verif"
        if cmd.rsplit("-", 1)[-1] in ("gorilla", "nhooyr"):
            tags += "," + cmd.rsplit("-", 1)[-1]       # the repository selects its WebSocket backend by build tag (wire/enable_*.go)
        p = subprocess.run(["go1.26", "build", "-tags", tags, "-o", out, "./cmd/" + cmd], cwd=hdir, env=env,
                           stdout=subprocess.PIPE, stderr=subprocess.STDOUT, text=True)
        if p.returncode != 0:
            log(p.stdout[-4000:])
            raise Inconclusive("harness build failed (does /repo compile with -tags verif?)")
        log("[%s] harness built in %.1fs" % (self.pid, time.time() - t))
        if explicit:
            self.vhs[cmd] = out
        else:
            self.vh = out
        return out

    def tlc(self, module, cfg=None, workers=16, timeout=900, simulate=None, depth=None, env=None, extra=None,
            heap=None, name=None, deadlock=True, soft_timeout=False):
        """Run TLC on spec/<module>.tla with spec/<cfg> in a scratch copy of the spec dir."""
        scratch = os.path.join(self.work, "tlc-%s-%d" % (name or module, int(time.time() * 1000) % 100000000))
        # other checks may add/remove generated cfg files in spec/ while we copy: ignore files that vanish
        os.makedirs(scratch, exist_ok=True)
        for fn in os.listdir(SPEC):
            if fn.endswith((".tla", ".cfg")):
                try:
                    shutil.copy(os.path.join(SPEC, fn), os.path.join(scratch, fn))
                except (FileNotFoundError, shutil.Error, OSError):
                    pass
        cmd = ["java", "-XX:+UseParallelGC", "-Xss64m", "-Xmx%s" % (heap or os.environ.get("VERIF_TLC_HEAP", "8g"))]
        cmd += ["-cp", TLC_CP, "tlc2.TLC", "-workers", str(workers), "-metadir", os.path.join(scratch, "md"),
                "-seed", str(self.seed), "-noGenerateSpecTE"]
        if cfg:
            cmd += ["-config", cfg]
        if simulate:
            cmd += ["-simulate", simulate]
        if depth:
            cmd += ["-depth", str(depth)]
        if not deadlock:
            cmd += ["-deadlock"]
        if extra:
            cmd += extra
        cmd.append(module + ".tla")
        e = dict(os.environ)
        if env:
            e.update(env)
        t = time.time()
        try:
            p = subprocess.run(cmd, cwd=scratch, env=e, stdout=subprocess.PIPE, stderr=subprocess.STDOUT, text=True,
                               timeout=timeout)
            out = p.stdout
        except subprocess.TimeoutExpired as ex:
            out = (ex.stdout or b"").decode() if isinstance(ex.stdout, bytes) else (ex.stdout or "")
            shutil.rmtree(scratch, ignore_errors=True)
            if soft_timeout and "is violated" not in out and "Error:" not in out:
                # an exhaustive run cut short by its time budget (a loaded machine): no violation in what was explored; the caller
                # records the run as truncated (evidence: complete = false) instead of failing the whole check
                r = parse_tlc(out)
                for m in re.finditer(r"Progress\(\d+\)[^\n]*?([\d,]+) states generated[^\n]*?([\d,]+) distinct states found", out):
                    r.generated, r.distinct = int(m.group(1).replace(",", "")), int(m.group(2).replace(",", ""))
                r.ok, r.truncated, r.wall = True, True, time.time() - t
                return r
            raise Inconclusive("TLC timed out after %ds on %s/%s" % (timeout, module, cfg))
        r = parse_tlc(out)
        r.wall = time.time() - t
        shutil.rmtree(scratch, ignore_errors=True)
        return r

    def l1(self, module, cfg, label=None, workers=16, timeout=900, must_hold=True, **kw):
        """Exhaustive model check of an L1 configuration; records states/transitions.
        An L1 failure is a spec/design problem, never a code violation: exit 2."""
        r = self.tlc(module, cfg, workers=workers, timeout=timeout, soft_timeout=must_hold, **kw)
        ent = {"module": module, "cfg": cfg, "generated": r.generated, "distinct": r.distinct, "depth": r.depth,
               "wall_s": round(r.wall, 1), "ok": r.ok}
        if getattr(r, "truncated", False):
            ent["complete"] = False
            self.notes.append("L1 %s/%s: exploration cut short by its time budget of %d s after %d distinct states (no violation in what was "
                              "explored; not exhaustive for this configuration)" % (module, cfg, timeout, r.distinct))
        self.cov["l1"].append(ent)
        self.cov["states"] += r.distinct
        self.cov["transitions"] += r.generated
        log("[%s] L1 %s/%s: %d generated, %d distinct, depth %d, %.1fs, ok=%s" % (
            self.pid, module, cfg, r.generated, r.distinct, r.depth, r.wall, r.ok))
        if must_hold and not r.ok:
            log(r.out[-3000:])
            raise Inconclusive("L1 model check failed for %s/%s: %s" % (module, cfg, r.violated or r.error or "unknown"))
        return r

    def inductive(self, module, indinv="IndInv", safety="Safety", timeout=1200):
        """Unbounded-depth safety by an inductive invariant (Apalache): Init => IndInv, IndInv /\\ Next => IndInv' and
        IndInv => Safety.  Like an L1 failure, a failing obligation is a spec/design problem (exit 2), never a code violation;
        a run cut short by its time budget is recorded as not complete."""
        scratch = os.path.join(self.work, "apalache-" + module)
        os.makedirs(scratch, exist_ok=True)
        shutil.copy(os.path.join(SPEC, module + ".tla"), scratch)
        obligations = [("init", ["--init=Init", "--inv=" + indinv, "--length=0"]),
                       ("step", ["--init=IndInit", "--inv=" + indinv, "--length=1"]),
                       ("implies", ["--init=IndInit", "--inv=" + safety, "--length=0"])]
        ent = {"module": module, "cfg": "apalache inductive invariant %s => %s" % (indinv, safety), "generated": 0, "distinct": 0,
               "depth": 0, "ok": True, "obligations": {}}
        t0 = time.time()
        env = dict(os.environ, JAVA_OPTS="-Xmx8g")
        for name, args in obligations:
            t = time.time()
            try:
                p = subprocess.run(["apalache-mc", "check"] + args + ["--out-dir=" + os.path.join(scratch, "out"), module + ".tla"],
                                   cwd=scratch, env=env, stdout=subprocess.PIPE, stderr=subprocess.STDOUT, text=True, timeout=timeout)
                out = p.stdout
            except subprocess.TimeoutExpired:
                ent["obligations"][name] = "timeout after %d s" % timeout
                ent["complete"] = False
                self.notes.append("inductive %s/%s: obligation cut short by its time budget of %d s (not proved in this run)" % (module, name, timeout))
                continue
            if "The outcome is: NoError" in out and "EXITCODE: OK" in out:
                ent["obligations"][name] = "proved in %.0f s" % (time.time() - t)
            else:
                ent["ok"] = False
                ent["obligations"][name] = "FAILED"
                log(out[-3000:])
                self.cov["l1"].append(ent)
                shutil.rmtree(scratch, ignore_errors=True)
                raise Inconclusive("inductive invariant obligation '%s' of %s failed (spec problem, not a code violation)" % (name, module))
        ent["wall_s"] = round(time.time() - t0, 1)
        self.cov["l1"].append(ent)
        shutil.rmtree(scratch, ignore_errors=True)
        log("[%s] inductive %s: %s (%.0fs)" % (self.pid, module, ent["obligations"], ent["wall_s"]))
        return ent

    # ------------------------------------------------------------- scenarios
    def run_scenarios(self, scs, name="sc", par=16, isolate=False, timeout=1800, child_timeout=60, cmd=None):
        hcmd = cmd      # (the name cmd is reused for the argument vector below)
        vh = self.build_harness(cmd)
        self.last_run = {"harness_cmd": cmd or getattr(self, "harness_cmd", "vh"), "isolate": bool(isolate)}
        inp = os.path.join(self.work, name + ".json")
        outp = os.path.join(self.work, name + ".ndjson")
        with open(inp, "w") as f:
            json.dump(scs, f)
        cmd = [vh, "run", "-in", inp, "-out", outp, "-par", str(par), "-childTimeoutS", str(child_timeout)]
        if isolate:
            cmd.append("-isolate")
        t = time.time()
        try:
            p = subprocess.run(cmd, stdout=subprocess.PIPE, stderr=subprocess.PIPE, text=True, timeout=timeout)
        except subprocess.TimeoutExpired:
            raise Inconclusive("harness timed out running %d scenarios (%s)" % (len(scs), name))
        if p.returncode != 0 or not os.path.exists(outp):
            # a crash of the whole harness process (e.g. a library goroutine panicking) is
            # not attributable without isolation: re-run isolated to find the culprit
            log("[%s] harness exited %d on %s; stderr tail:\n%s" % (self.pid, p.returncode, name, p.stderr[-1500:]))
            if not isolate:
                log("[%s] re-running %s isolated (one process per scenario)" % (self.pid, name))
                out = self.run_scenarios(scs, name=name + "-iso", par=par, isolate=True, timeout=timeout,
                                         child_timeout=child_timeout, cmd=hcmd)
                # the crash is real-code behaviour: if no isolated child dies the same way it is not attributable to a scenario and
                # the run must not be reported as "held" (finish() turns it into exit 2 unless a violation explains it)
                died = False
                with open(out) as f:
                    for line in f:
                        if '"ev":"Exit"' in line.replace(" ", "") and '"status":0' not in line.replace(" ", ""):
                            died = True
                            break
                if not died and "github.com/aptpod/iscp-go/" in p.stderr:
                    head = [l for l in p.stderr.splitlines() if l.startswith(("fatal error", "panic:"))]
                    self.unreproduced_crash = (head[0] if head else "crash") + " | " + " <- ".join(
                        l.split("(")[0].strip() for l in p.stderr.splitlines() if l.startswith("github.com/aptpod/iscp-go/"))[:400]
                return out
            raise Inconclusive("harness failed on %s" % name)
        self.cov["scenarios_run"] += len(scs)
        log("[%s] ran %d scenarios (%s) in %.1fs: %s" % (self.pid, len(scs), name, time.time() - t, p.stdout.strip()))
        return outp

    def validate(self, trace, mon, consts=None, timeout=900, extra_env=None, reset_with_state=False):
        """Validate a (concatenated) trace file against monitor module `mon` (spec/<mon>.tla defining
        MonInit, MonReset(e), MonStep(m, e), MonVerdict(m), MonStats(m)) with the generic trace driver.
        Returns ({sc: verdict-dict}, TlcResult)."""
        env = {"VERIF_TRACE": trace}
        if extra_env:
            env.update(extra_env)
        self.last_validate = {"mon": mon, "consts": consts, "reset_with_state": reset_with_state}
        tm = "Trace_" + mon
        with open(os.path.join(SPEC, tm + ".tla"), "w") as f:
            f.write(TRACE_TEMPLATE.replace("@MON@", mon).replace("MonReset(e)", "MonResetM(mon, e)" if reset_with_state else "MonReset(e)"))
        with open(os.path.join(SPEC, tm + ".cfg"), "w") as f:
            f.write("SPECIFICATION TraceSpec\nPOSTCONDITION TraceAccepted\nCHECK_DEADLOCK FALSE\n")
            if consts:
                f.write("CONSTANTS\n")
                for k, v in consts.items():
                    f.write("  %s = %s\n" % (k, v))
        r = self.tlc(tm, tm + ".cfg", workers=1, timeout=timeout, env=env, name="val-" + mon)
        verdicts = {}
        for s in r.printed:
            if isinstance(s, str) and s.startswith("VERDICT "):
                try:
                    v = json.loads(s[len("VERDICT "):])
                except Exception:
                    continue
                verdicts[v["sc"]] = v
        if not r.ok:
            log(r.out[-3000:])
            raise Inconclusive("trace validation with %s did not complete: %s" % (mon, r.violated or r.error or "?"))
        return verdicts, r

    # --------------------------------------------------------------- verdicts
    def load_trace(self, trace):
        by = {}
        order = []
        with open(trace) as f:
            for line in f:
                line = line.strip()
                if not line:
                    continue
                e = json.loads(line)
                sc = e.get("sc", "?")
                if sc not in by:
                    by[sc] = []
                    order.append(sc)
                by[sc].append(e)
        return by, order

    def known(self):
        try:
            with open(os.path.join(VERIF, "known_findings.json")) as f:
                return [k for k in json.load(f) if k.get("property") == self.pid and k.get("status") == "known"]
        except FileNotFoundError:
            return []

    def judge(self, scs, trace, verdicts, clause_filter=None):
        """Turn monitor verdicts into violations / known findings / inconclusives."""
        by, order = self.load_trace(trace)
        scmap = {s["id"]: s for s in scs}
        known = self.known()
        nvalid = 0
        for sc in order:
            evs = by[sc]
            self.cov["events"] += len(evs)
            inc = [e for e in evs if e.get("ev") == "Inconclusive"]
            v = verdicts.get(sc)
            if v is None:
                self.cov["scenarios_inconclusive"] += 1
                self.notes.append("no verdict for %s" % sc)
                continue
            bad = list(v.get("bad", []))
            if clause_filter:
                bad = [b for b in bad if clause_filter(sc, b)]
            if inc and not bad:
                self.cov["scenarios_inconclusive"] += 1
                continue
            if inc and bad:
                # a violation in a run whose premises failed is not trusted
                self.cov["scenarios_inconclusive"] += 1
                self.notes.append("%s: clauses %s ignored (run inconclusive: %s)" % (sc, bad, inc[0].get("why")))
                continue
            nvalid += 1
            for k, n in (v.get("stats") or {}).items():
                if isinstance(n, int):
                    self.cov["clauses"][k] = self.cov["clauses"].get(k, 0) + n
            for clause in bad:
                hit = None
                for kf in known:
                    m = kf.get("match", {})
                    if m.get("clause") and m["clause"] != clause:
                        continue
                    if m.get("scenario") and not re.search(m["scenario"], sc):
                        continue
                    hit = kf
                    break
                if hit:
                    self.known_hits.append((hit, sc, clause))
                else:
                    # at most 25 replay files per run (the first ones are the most useful)
                    path = self.write_replay(scmap.get(sc), evs, clause) if len(self.violations) < 25 else os.path.join(EVID, "replays", "(not-written)")
                    self.violations.append((sc, clause, path))
        self.cov["traces_validated_against_impl"] += nvalid
        if len(self.cov["samples"]) < 3 and order:
            for sc in order[:2]:
                evs = by[sc]
                self.cov["samples"].append({"scenario": scmap.get(sc, {"id": sc}), "trace_len": len(evs),
                                            "trace_head": evs[:6], "verdict": verdicts.get(sc)})
        return nvalid

    def write_replay(self, sc, evs, clause):
        d = os.path.join(EVID, "replays")
        os.makedirs(d, exist_ok=True)
        sid = re.sub(r"[^A-Za-z0-9_.-]", "_", (sc or {}).get("id", "unknown"))[:80]
        path = os.path.join(d, "%s-%s.json" % (self.pid, sid))
        with open(path, "w") as f:
            json.dump({"property": self.pid, "clause": clause, "scenario": sc, "how": dict(getattr(self, "last_run", {}), **getattr(self, "last_validate", {})),
                       "trace": evs}, f, indent=1)
        return path

    # --------------------------------------------------------------- finish
    def finish(self, rule=None, extra_cov=None, exhaustive=None):
        wall = time.time() - self.t0
        cov = self.cov
        if extra_cov:
            cov.update(extra_cov)
        if rule:
            cov["rule"] = rule
        if exhaustive is not None:
            cov["exhaustive"] = exhaustive
        cov["evaluations"] = max(cov.get("evaluations", 0), cov["scenarios_run"])
        cov.setdefault("distinct_nontrivial", cov["traces_validated_against_impl"])
        cov["known_findings_hit"] = sorted({"%s: %s" % (k["key"], k["what"]) for k, _, _ in self.known_hits})
        if getattr(self, "unreproduced_crash", None):
            self.notes.append("library crash in the shared harness process, not reproduced in isolation: " + self.unreproduced_crash)
        cov["notes"] = self.notes[:20]
        if not cov["samples"]:
            cov["samples"] = [{"note": "no scenario sample recorded"}]
        ev = {"property_id": self.pid, "tier": self.tier, "seed": self.seed, "level": self.level, "coverage": cov,
              "assumptions": self.assumptions, "wall_s": round(wall, 1), "violations": len(self.violations)}
        os.makedirs(EVID, exist_ok=True)
        with open(os.path.join(EVID, "%s.json" % self.pid), "w") as f:
            json.dump(ev, f, indent=1, default=str)
        seen = set()
        for k, sc, clause in self.known_hits:
            if k["key"] in seen:
                continue
            seen.add(k["key"])
            n = len([1 for kk, _, _ in self.known_hits if kk["key"] == k["key"]])
            log("KNOWN-FINDING: property=%s %s [%s; %d scenario(s), e.g. %s clause %s]" % (
                self.pid, k["what"], k["key"], n, sc, clause))
        for sc, clause, path in self.violations[:20]:
            log("VIOLATION property=%s replay=%s  (scenario %s, clause %s)" % (self.pid, path, sc, clause))
        log("[%s] tier=%s seed=%d L1 states=%d transitions=%d scenarios=%d validated=%d inconclusive=%d violations=%d wall=%.1fs" % (
            self.pid, self.tier, self.seed, cov["states"], cov["transitions"], cov["scenarios_run"],
            cov["traces_validated_against_impl"], cov["scenarios_inconclusive"], len(self.violations), wall))
        if self.violations:
            sys.exit(1)
        if getattr(self, "unreproduced_crash", None):
            log("[%s] INCONCLUSIVE: the library crashed the harness process and no isolated scenario reproduced it: %s" % (self.pid, self.unreproduced_crash))
            sys.exit(2)
        run = cov["scenarios_run"]
        if run and cov["scenarios_inconclusive"] > max(2, run // 3):
            log("[%s] INCONCLUSIVE: %d of %d scenarios inconclusive" % (self.pid, cov["scenarios_inconclusive"], run))
            sys.exit(2)
        sys.exit(0)


def main_wrap(fn):
    """Run a check function, mapping Inconclusive to exit 2."""
    try:
        fn()
    except Inconclusive as e:
        log("INCONCLUSIVE: %s" % e)
        sys.exit(2)
    except SystemExit:
        raise
    except BaseException as e:      # a bug in the machinery is never a violation
        import traceback
        traceback.print_exc()
        log("INCONCLUSIVE: internal error: %r" % (e,))
        sys.exit(2)


def pick(items, n, seed, core=0):
    """Deterministic sample: first `core` items + seed-selected others, n total."""
    import random
    if len(items) <= n:
        return list(items)
    rnd = random.Random(seed)
    head = list(items[:core])
    rest = list(items[core:])
    rnd.shuffle(rest)
    return head + rest[: max(0, n - len(head))]
