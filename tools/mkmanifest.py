#!/usr/bin/env python3
"""Writes MANIFEST.json from the table below (single source of truth for the registered checks)."""
import json, os, subprocess
V = os.path.dirname(os.path.dirname(os.path.abspath(__file__)))

CHECKS = {
 "C01": dict(cat="model_checking", ref="§6 C01",
   technique="implementation-shaped TLA+ spec Upstream.tla exhaustively model-checked by TLC per flush policy; environment projections of TLC behaviours replayed on a real iscp upstream against the in-memory broker; recorded traces judged by TLC with the TLA+ property monitor MonC01",
   text="Design level: every interleaving of 2-3 writes from two writers, explicit flushes, per-chunk sender goroutines, broker acks of any subset/order/duplicate with alias grants, the three-hop ack path and Close is enumerated; conservation, numbering, close totals, no-chunk-after-close, alias-after-grant, hook soundness hold in every state. Code level: scripts (TLC simulation of a larger configuration plus a gated family that forces the write order of concurrent chunk senders) run on the real library; the monitor checks the exactly-once multiset law per data id with order, sequence numbering, close totals, alias discipline, both hooks and chunk-after-close on every trace.",
   note="Trusted: in-memory synchronous pipe transport and scripted broker of the harness; monitor premise (no fault, Close returned nil, writes returned before Close); payload sizes <= 12 bytes in quick tier."),
 "C17": dict(cat="model_checking", ref="§6 C17",
   technique="TLA+ transcription of Validate / CompressConfig / key-value, URL and QUIC codecs (NegotiationCore.tla); TLC enumerates the whole parameter grid and a finite set of corruption operators and checks RoundTrip / InvalidRejected / PeersAgree on the model; every grid point is pushed through the real functions and compared with the model by TLC (MonC17)",
   text="Exhaustive over the stated finite grid (encoding x compression type x level x window bits x reconnect x transport id x group fields: 13312 points quick, 85800 thorough) plus 341-561 corruptions of the binary / key-value forms; model-vs-code equality of validity verdict, canonical form, every carrier round trip and the derived compression configuration for two different bases and both ends of a connection.",
   note="Arbitrary key/value maps and arbitrary byte strings are not covered (fuzzing); level/window ranges are judged only when a compression type is named (weaker reading, Validate documents `case \"\": ok`)."),
 "C14": dict(cat="model_checking", ref="§6 C14",
   technique="TLA+ component spec (SegmentCore/Segment.tla) exhaustively model-checked by TLC; every complete path of the generator configurations replayed lock-step on the real SendTo/ReadBuffers; traces validated by TLC against the same Apply function (MonC14)",
   text="All operation sequences (send, deliver in every order, lose every subset, tick, expire, malformed datagram) of up to 3 in-flight messages are enumerated by TLC on the model and the invariants (exact-or-nothing, nothing-if-missing, forgotten-after-expiry, oversize refused) hold in every state; every complete path is replayed on the real code and each recorded step (emitted datagram headers/payload slices, value handed up, reassembly-table projection, crash) is compared by TLC with the model state.",
   note="Trusted: harness byte-pattern generator and table projection; duplicates of datagrams are outside the stated quantifier; QUIC/WebTransport datagram plumbing around internal/segment is not exercised in the quick tier."),
}

NA = [
 ("C09", "data-race freedom is a property of Go memory accesses under the Go memory model; a TLA+ model of channels and locks cannot observe an unsynchronised access and would be bound to the code only by transcription (DESIGN §7)"),
 ("C11", "field-by-field codec fidelity over the message grammar has no state machine to model; transcribing the converters into TLA+ would verify the transcription, not the code (DESIGN §7)"),
 ("C12", "robustness to arbitrary bytes is a fuzzing target; TLC cannot enumerate byte strings and a spec cannot bind to panics inside generated protobuf code (DESIGN §7)"),
]

def main():
    hooks = subprocess.run(["git", "-C", "/repo", "log", "--format=%h", "--grep=^verif:"], stdout=subprocess.PIPE, text=True).stdout.split()
    m = {
     "version": 1,
     "setup_cmd": "cd /verif && ./setup.sh",
     "hooks": {"guard": "verif", "enable": "go1.26 build -tags verif (GOFLAGS=-mod=mod GOPROXY=off GOSUMDB=off GOTOOLCHAIN=local); the harness module /verif/harness replaces github.com/aptpod/iscp-go with /repo",
               "baseline_off_cmd": "cd /repo && go test -mod=mod -vet=off -count=1 -timeout 25m ./...",
               "source_commits": hooks, "add_only": True},
     "engines": [{"name": "tlc+harness", "path": "/verif/check", "serves_properties": sorted(CHECKS),
                  "kind_free_text": "TLA+ specs in /verif/spec checked by TLC; Go harness /verif/harness replays TLC-generated scripts on the real library and records NDJSON traces; TLC validates the traces against TLA+ monitors/component specs"}],
     "checks": [],
     "not_applicable": [{"property_id": p, "reason": r} for p, r in NA],
     "notes": "Exit 0 held / 1 violation / 2 inconclusive. Known findings: /verif/known_findings.json. See DESIGN.md.",
    }
    claimed = set(CHECKS)
    for pid in sorted(CHECKS):
        c = CHECKS[pid]
        m["checks"].append({
          "property_id": pid,
          "quick_cmd": "./check %s --tier quick" % pid,
          "thorough_cmd": "./check %s --tier thorough" % pid,
          "evidence_file": "/verif/evidence/%s.json" % pid,
          "replay_cmd_template": "./check %s --replay {path}" % pid,
          "engine": "tlc+harness",
          "level_claimed": {"category": c["cat"], "text": c["text"], "design_ref": c["ref"]},
          "level_note": c["note"],
          "technique": c["technique"],
        })
    props = [json.loads(l)["id"] for l in open(os.path.join(V, "properties.jsonl"))]
    na = {p for p, _ in NA}
    for p in props:
        if p not in claimed and p not in na:
            m["not_applicable"].append({"property_id": p, "reason": "not yet covered by a registered check in this revision (work in progress; see DESIGN.md §6 for the plan)"})
    json.dump(m, open(os.path.join(V, "MANIFEST.json"), "w"), indent=1)
    print("MANIFEST.json:", len(m["checks"]), "checks,", len(m["not_applicable"]), "not applicable")

if __name__ == "__main__":
    main()
