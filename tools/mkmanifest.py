#!/usr/bin/env python3
"""Writes MANIFEST.json from the table below (single source of truth for the registered checks)."""
import json, os, subprocess
V = os.path.dirname(os.path.dirname(os.path.abspath(__file__)))

CHECKS = {
 "C15": dict(cat="model_checking", ref="§6 C15",
   technique="timed TLA+ spec Keepalive.tla (ticks of T/4, Go ticker semantics, pong delay classes around the timeout, broker pings) model-checked by TLC; model scripts restricted to delays away from the bound replayed on the real iscp connection with recorder timestamps; traces judged by the TLA+ monitor MonC15",
   text="Design: DetectWithinBound, DetectAfterSilence, NoSpuriousClose, NoEarlyClose, PongEchoesId, PingPacing, RecoveryImmediate (+ liveness RecoveryFollows) for interval/timeout ratios from I<T to I=3T; the exact boundary (pong at T-1 tick, T, T+1 tick) is explored by the model only. Code: silence from the k-th ping, delayed pongs (0, T/2, 3T, never), live windows of 10 intervals with concurrent traffic, broker pings with colliding ids, announcement of whole-second values (truncation) incl. reconnect.",
   note="Real time: slack 250 ms + 50 %; a SpuriousClose verdict is suppressed when the stall detector of the harness reports a scheduling stall around it; no lower bounds on detection time are asserted."),
 "C16": dict(cat="model_checking", ref="§6 C16",
   technique="implementation-shaped TLA+ spec E2ECall.tla (call-id generator, ack/reply waiter maps, inboxes, dispatcher loops, three caller kinds) model-checked by TLC; environment projections and a fixed core family replayed on the real connection; traces judged by the TLA+ monitor MonC16",
   text="Design: CallIdsFresh, AckToOwnerOnly, ReplyToOwnerOnly, InboxOnceInOrder, NegativeAckOnlyThatCaller, DeliverNonBlocking for 3 concurrent callers with acks/replies in any order, duplicates, unknown ids, negative acks, reconnect between call and ack. Code: all 6 ack orders and reply-before-ack orders for 3 callers, duplicate/unknown/negative acks, 8 concurrent callers, full reply inbox, reconnect; the monitor checks call-id uniqueness, per-caller ack/ reply attribution with payload checksums, inbox order and error isolation.",
   note="More than 1024 undelivered inbox items are outside the judged obligations; quick configurations use SYMMETRY and an eager-registration reduction that is sound because call ids are fresh (the thorough configuration explores every interleaving)."),
 "C07": dict(cat="model_checking", ref="§6 C07",
   technique="(a) TLA+ component spec SentStorage.tla model-checked by TLC (Frame as invariant and action property) and every maximal operation sequence replayed lock-step on both real stores (MonC07a); (b) relational TLA+ monitor MonC07 over paired runs on the real connection: stream P alone vs interleaved with another stream Q, with and without a link failure",
   text="(a) all Store/Remove/List/Clear sequences to depth 4-5 on 2-3 streams: an operation on one stream leaves List of every other stream unchanged, results and lists equal the model. (b) P in {reliable upstream, unreliable upstream, downstream} x Q in {upstreams of every QoS, same data ids with reordered acks, closed before the cut, resume refused, downstream}: P's chunks, retransmissions, API returns, hook reports, close totals, resume/closed notifications, read results and acknowledgements are equal in both runs; nothing addressed to Q's alias shows up at P.",
   note="P's script is made deterministic around the cut (awaits); projections are normalised for arrival order, incarnation and alias numbers; the data race in Clear (map swap under the read lock) is C09's subject."),
 "C08": dict(cat="fault_enumeration", ref="§6 C08",
   technique="TLA+ spec Blocking.tla (every wait as the disjunction of its wake-up events, wireConnMu and downstreams.mu with acquire/release steps, adversary, context deadlines) checked by TLC for EveryCallReturns (liveness under fairness of library steps and timers), NoOverrun, NoLockLeak; fault-enumerated scenario family replayed on the real library under a watchdog; call durations judged against their governing bounds by the TLA+ monitor MonC08",
   text="Every request kind x broker behaviour at that message {drop, late, soon, misaddress, disconnect, refuse}; waits that only context / close timeout / keep-alive can end; completely silent broker with deadline-less calls; two concurrent calls (mutex convoy); misaddressed traffic (unknown aliases, source nodes, request and call ids); each followed by a probe sequence showing that dispatching still works. The as-coded model variants violate the properties (thorough tier sanity).",
   note="The path-complete lock-release lemma (every control-flow path of every locking function) is not decided: it is a static-analysis statement; the model covers the two locks whose leak/convoy stalls callers. iscp.Connect has no context and is not judged. Slack = 350 ms + 50 %."),
 "C05": dict(cat="model_checking", ref="§6 C05",
   technique="TLA+ spec ConnLifecycle.tla with explicit condition-variable semantics (parked / woken waiters re-check later) model-checked by TLC in the as-coded and repaired variants; fault-enumerated, model-derived and gated (verifhook scheduling point) scenario families replayed on the real connection with real streams; traces judged by the TLA+ monitor MonC05",
   text="Design: with 2 outages, dial failures, resume refusals and an API caller, TokenPerDial, NoStreamDetached, CallersSurvive, NotificationsOnce hold in every state of the repaired model; the as-coded model yields the missed-outage counterexample, which is forced on the real code by holding the watcher goroutine at its start. Code: stream sets of both directions x dial outcome sequences x redial delay {0, 40 ms} x API request {none, during, interrupted} x optional second outage, plus TLC-simulated environment scripts; after recovery every stream is probed; the monitor checks fresh token per dial, resume per stream with original id/alias on the last incarnation or reported closed, request re-sent, notification counts.",
   note="In-memory dial is faster than any network (fast-redial variant); keep-alive 100 ms / 100 ms; the spurious-outage-by-stale-error schedule of send() found by reading is modelled but has no natural gate and is not claimed."),
 "C10": dict(cat="model_checking", ref="§6 C10",
   technique="ConnLifecycle.tla with Close at every point model-checked by TLC (NoPanic, NoDialAfterClose, NoCallerParkedWhenClosed, NoSupervisorParkedWhenClosed, SilentAfterDisconnect); scenario families with Close at scripted and TLC-chosen points replayed one child process each with a goroutine census; traces judged by the TLA+ monitor MonC10",
   text="Design: Close racing reconnect (dial, handshake, status swap), resume and API callers explored exhaustively; the as-coded model violates exactly the four invariants whose defects were repaired. Code: Close while idle / with open streams / with pending calls / during a gated redial (both outcomes) / during an unanswered resume / concurrently with stream Close / repeated; afterwards every API is called on the closed objects; the monitor checks sentinel errors within 1.5 s, nothing but keep-alive after Disconnect, no dial after Close, closed notifications at most once, empty goroutine census, process alive.",
   note="Repeated/concurrent Close may return anything (weaker reading); census = goroutines with a library frame and no harness frame after the broker side was closed."),
 "C06": dict(cat="model_checking", ref="§6 C06",
   technique="implementation-shaped TLA+ spec ReqReply.tla (id generator, replyCh map, dispatcher, N callers, cancellation) model-checked by TLC; all maximal environment scripts for 3 callers and simulated ones for 4-8 replayed on wire.Connect over the in-memory pipe with a barrier broker; traces judged by the TLA+ monitor MonC06",
   text="Design: IdsDistinctAndEven, OwnResponseOnly, SpuriousHarmless, CancelDoesNotSteal, DispatcherNeverBlocks for 3 callers (+ ping) over all response permutations, duplicates, spurious ids and cancellation points. Code: the broker collects all requests then answers in the scripted permutation with duplicates / unknown ids / delays; responses are stamped with request id and caller tag; the monitor checks id uniqueness and parity per connection, own-response-only, undisturbed bystanders, cancellation.",
   note="Request ids restart at 0 on every wire incarnation (uniqueness is per connection); wire level (wire.Connect), seven request kinds."),
 "C13": dict(cat="model_checking", ref="§6 C13",
   technique="TLA+ specs WsWindowCore / StreamFramingCore (dictionary synchronisation, trimming, writer exclusivity, length-prefix framing) model-checked by TLC; TLC enumerates mode x level x window-bits x message-class sequences replayed lock-step on a real websocket.New pair (and quic stream transport over an in-memory connection) with window buffers, counters, raw frames and an independent compress/flate decoder compared by the TLA+ monitor MonC13; the same model applied by MonC13r to the real transport over the three real WebSocket backends (loopback echo server) and to reliable + datagram writers running concurrently on a real quic transport",
   text="Stateful part decided by the model: DictionariesEqual, WindowIsSuffix, ReadEqualsWrite, NoInterleave, NoReaderRefused (reader contract of the backends), NoCorruptMessage (encoders of stream and datagram writers) for all message-length class sequences to depth 6; byte fidelity of DEFLATE is the replay oracle only.",
   note="The QUIC transport runs over an in-memory connection (quic-go's network path is exercised only under the WebTransport transport, over loopback); the in-memory Conn serialises Writer() like the default coder backend and keeps the strict (coder, nhooyr) or lenient (gorilla) reader contract; the real backends run over loopback TCP with messages below 32 KiB."),
 "C03": dict(cat="model_checking", ref="§6 C03",
   technique="implementation-shaped TLA+ spec Downstream.tla (three critical sections of ReadDataPoints, alias tables, queue) model-checked by TLC; environment projections replayed on a real downstream against the in-memory broker; traces judged by the TLA+ monitor MonC03; metadata path modelled stage by stage in DownMeta.tla (per-source order, filter lists with repeated nodes), its scripts replayed on a real downstream",
   text="Design: OnceEach, InOrderSingleReader, ResolvedRight (alias forms incl. pre-registered and never-announced aliases) hold over all chunk sequences up to 3 chunks x 2 upstreams x 2 data ids x full/alias forms with arbitrary read timing. Code: TLC-simulated broker sequences (full/alias switch-over at any point, bogus aliases, pre-registered ids) and metadata from two source nodes are replayed; the k-th read must equal the k-th chunk sent (sequence number, points with checksums, upstream info, data ids) or be an error for a bogus alias; metadata per source in order with acks.",
   note="Broker never guesses an unannounced alias (step skipped); no link failure in this property's families; queue never above 8 outstanding items."),
 "C04": dict(cat="model_checking", ref="§6 C04",
   technique="Downstream.tla (ack buffers, flushAck, final flush on Close, resume) model-checked by TLC; scripts incl. a cut/resume family replayed on a real downstream; traces judged by the TLA+ monitor MonC04",
   text="Design: AckIdsIncrease, AckAtMostOnce, AckOnlyReturned, AckAllAtClose, alias injectivity, AnnounceAtMostOnce/AllAtClose, NoAckAfterClose over all interleavings of reads, ack ticks and Close. Code: every DownstreamChunkAck at the broker is folded by the monitor: ids strictly increasing (from 1 without faults), each read result acknowledged at most once / exactly once after a nil Close (also across a resume), announcements functional and injective with pre-registered ids, nothing after the close request.",
   note="Reads concurrent with Close are outside the judged obligations (weaker reading); ack flush interval 20 ms (250 ms in the resume family)."),
 "C02": dict(cat="model_checking", ref="§6 C02",
   technique="Upstream.tla with link failures, redial, resume (conflict-then-ok), reliable retransmission model-checked by TLC; environment projections of TLC behaviours with 1-2 failures replayed on a real reliable upstream; traces judged by the TLA+ monitor MonC02",
   text="Design: every position of 1 (quick) / 2 (thorough) link failures relative to writes, cuts, sender goroutines, acks in flight, resume and retransmission is enumerated; a stored chunk leaves the store only after its result, and every cut chunk has reached the broker whenever the system is quiescent and healthy. Code: fault scripts from TLC simulation run against the in-memory broker which severs the pipe at the scripted points; the monitor checks per point: received with the original payload under the sequence number first given, never under two numbers, no sequence number reused for other content on any incarnation, unacknowledged chunks retransmitted on a later incarnation after a resume with the original stream id, close totals.",
   note="Slow-redial assumption (40 ms) so that stream watchers observe the outage (fast redial is C05's subject); the broker acks only on the incarnation where it received the chunk; ack-timeout path not modelled."),
 "C20": dict(cat="model_checking", ref="§6 C20",
   technique="Upstream.tla per flush policy model-checked by TLC (barrier / boundary invariants); TLC-generated write/flush histories replayed sequentially (chunk partition predicted by the TLA+ monitor MonC20 from the history) and concurrently with State() sampling; timed interval-policy scenarios",
   text="Design: SizePolicyBound, NoneCutsOnlyOnDemand, ImmediateCutsEveryWrite, Conservation, NoEmptyChunk and SnapshotConservation hold in every state of the per-policy configurations. Code: for sequential histories the monitor computes the exact chunk partition (strictly-greater threshold rule, everything buffered is cut) and compares it with what the broker received; Flush barrier and State() snapshot laws are checked on every returned Flush / sampled snapshot; interval latency with slack.",
   note="Interval policies are real-time (1.5 x interval + 250 ms slack); concurrent histories are judged only on barrier/snapshot/emptiness clauses."),
 "C18": dict(cat="model_checking", ref="§6 C18",
   technique="implementation-shaped TLA+ spec ReconnectTransportCore.tla (write loop, read loop, reconnect with budget, ping filter) model-checked by TLC; all maximal environment scripts replayed on reconnect.Dial with scripted underlying transports; whole-history TLA+ monitor MonC18",
   text="Design: accepted-exactly-once, order, redial id/flag, ping filtering and no-block-after-budget/close hold in every state of the fixed model (and TLC finds the blocked-Write counterexample in the as-coded model). Code: failure sequences on read / write / redial / handshake with 1-2 writers and both budget outcomes are replayed; every Read/Write runs under a watchdog; the monitor checks lost/duplicated/reordered writes, redial parameters, ping handling and blocked calls.",
   note="Watchdog = script end + 2 s; concurrent writes have no mutual ordering obligation."),
 "C19": dict(cat="model_checking", ref="§6 C19",
   technique="TLA+ spec MultiTransportCore.tla with asynchronous selection application model-checked by TLC; scripts replayed on multi.NewTransport with scripted members and all scheduler kinds; set-of-possible-states TLA+ monitor MonC19 (silent ApplySel steps)",
   text="Design: WritesToCurrent, ReadsOnce, CloseClosesAll, CountersAreSums, UnknownIdHarmless over all member sets, initial ids and selection sequences incl. non-members and the empty id. Code: every script is replayed with event, NIC, polling (scripted / round-robin / last-used) schedulers; the monitor accepts exactly the outcomes some serialisation of pending selections explains; unknown-id scenarios run one process each so that a library panic is observed as ProcessDied.",
   note="Joint bound 4 selections x 3 writes x 3 member reads not finished in 15 min: thorough runs two complementary bounds."),
 "C01": dict(cat="model_checking", ref="§6 C01",
   technique="implementation-shaped TLA+ spec Upstream.tla exhaustively model-checked by TLC per flush policy; environment projections of TLC behaviours replayed on a real iscp upstream against the in-memory broker; recorded traces judged by TLC with the TLA+ property monitor MonC01",
   text="Design level: every interleaving of 2-3 writes from two writers, explicit flushes, per-chunk sender goroutines, broker acks of any subset/order/duplicate with alias grants, the three-hop ack path and Close is enumerated; conservation, numbering, close totals, no-chunk-after-close, alias-after-grant, hook soundness hold in every state. Code level: scripts (TLC simulation of a larger configuration plus a gated family that forces the write order of concurrent chunk senders) run on the real library; the monitor checks the exactly-once multiset law per data id with order, sequence numbering, close totals, alias discipline, both hooks and chunk-after-close on every trace.",
   note="Trusted: in-memory synchronous pipe transport and scripted broker of the harness; monitor premise (no fault, Close returned nil, writes returned before Close); payload sizes <= 12 bytes in quick tier."),
 "C17": dict(cat="model_checking", ref="§6 C17",
   technique="TLA+ transcription of Validate / CompressConfig / key-value, URL and QUIC codecs (NegotiationCore.tla); TLC enumerates the whole parameter grid and a finite set of corruption operators and checks RoundTrip / InvalidRejected / PeersAgree on the model; every grid point is pushed through the real functions and compared with the model by TLC (MonC17)",
   text="Exhaustive over the stated finite grid (encoding x compression type x level x window bits x reconnect x transport id x group fields: 13312 points quick, 85800 thorough) plus 341-561 corruptions of the binary / key-value forms; model-vs-code equality of validity verdict, canonical form, every carrier round trip and the derived compression configuration for two different bases and both ends of a connection.",
   note="Arbitrary key/value maps and arbitrary byte strings are not covered (fuzzing); level/window ranges are judged only when a compression type is named (weaker reading, Validate documents `case \"\": ok`)."),
 "C14": dict(cat="model_checking", ref="§6 C14",
   technique="TLA+ component spec (SegmentCore/Segment.tla) exhaustively model-checked by TLC; every complete path of the generator configurations replayed lock-step on the real SendTo/ReadBuffers; traces validated by TLC against the same Apply function (MonC14)",
   text="All operation sequences (send, deliver in every order, lose every subset, tick, expire, malformed datagram) of up to 3 in-flight messages are enumerated by TLC on the model and the invariants (exact-or-nothing, nothing-if-missing, forgotten-after-expiry, oversize refused) hold in every state; every complete path is replayed on the real code and each recorded step (emitted datagram headers/payload slices, value handed up, reassembly-table projection, crash) is compared by TLC with the model state.",
   note="Trusted: harness byte-pattern generator and table projection; duplicates of datagrams are outside the stated quantifier; QUIC/WebTransport datagram plumbing around internal/segment is not exercised in the quick tier."),
}

NA = [
 ("C09", "data-race freedom is a property of Go memory accesses under the Go memory model; a TLA+ model of channels and locks cannot observe an unsynchronised access and would be bound to the code only by transcription (DESIGN §7)"),
 ("C11", "field-by-field codec fidelity over the message grammar has no state machine to model; transcribing the converters into TLA+ would verify the transcription, not the code (DESIGN §7)"),
 ("C12", "robustness to arbitrary bytes is a fuzzing target; TLC cannot enumerate byte strings and a spec cannot bind to panics inside generated protobuf code (DESIGN §7)"),
]

def main():
    hooks = subprocess.run(["git", "-C", "/repo", "log", "--format=%h", "--grep=^verif:"], stdout=subprocess.PIPE, text=True).stdout.split()
    m = {
     "version": 1,
     "setup_cmd": "cd /verif && ./setup.sh",
     "hooks": {"guard": "verif", "enable": "go1.26 build -tags verif (GOFLAGS=-mod=mod GOPROXY=off GOSUMDB=off GOTOOLCHAIN=local); the harness module /verif/harness replaces github.com/aptpod/iscp-go with /repo",
               "baseline_off_cmd": "cd /repo && go test -mod=mod -vet=off -count=1 -timeout 25m ./...",
               "source_commits": hooks, "add_only": True},
     "engines": [{"name": "tlc+harness", "path": "/verif/check", "serves_properties": sorted(CHECKS),
                  "kind_free_text": "TLA+ specs in /verif/spec checked by TLC; Go harness /verif/harness replays TLC-generated scripts on the real library and records NDJSON traces; TLC validates the traces against TLA+ monitors/component specs"}],
     "checks": [],
     "not_applicable": [{"property_id": p, "reason": r} for p, r in NA],
     "notes": "Exit 0 held / 1 violation / 2 inconclusive. Known findings: /verif/known_findings.json. See DESIGN.md.",
    }
    claimed = set(CHECKS)
    for pid in sorted(CHECKS):
        c = CHECKS[pid]
        m["checks"].append({
          "property_id": pid,
          "quick_cmd": "./check %s --tier quick" % pid,
          "thorough_cmd": "./check %s --tier thorough" % pid,
          "evidence_file": "/verif/evidence/%s.json" % pid,
          "replay_cmd_template": "./check %s --replay {path}" % pid,
          "engine": "tlc+harness",
          "level_claimed": {"category": c["cat"], "text": c["text"], "design_ref": c["ref"]},
          "level_note": c["note"],
          "technique": c["technique"],
        })
    props = [json.loads(l)["id"] for l in open(os.path.join(V, "properties.jsonl"))]
    na = {p for p, _ in NA}
    for p in props:
        if p not in claimed and p not in na:
            m["not_applicable"].append({"property_id": p, "reason": "not yet covered by a registered check in this revision (work in progress; see DESIGN.md §6 for the plan)"})
    json.dump(m, open(os.path.join(V, "MANIFEST.json"), "w"), indent=1)
    print("MANIFEST.json:", len(m["checks"]), "checks,", len(m["not_applicable"]), "not applicable")

if __name__ == "__main__":
    main()
