#!/usr/bin/env python3
"""Re-executes the scenario of a replay file (written by a check when it reports a VIOLATION) on the current /repo tree and
judges the new trace with the same TLA+ monitor.  usage: ./check Cxx --replay evidence/replays/<file>.json
exit 1 if the monitor still reports a clause, 0 if the scenario now passes, 2 if inconclusive."""
import json, sys, os
sys.path.insert(0, os.path.dirname(os.path.abspath(__file__)))
from vlib import Ctx, main_wrap, Inconclusive, log


def run():
    path = sys.argv[1]
    r = json.load(open(path))
    how = r.get("how") or {}
    sc = r["scenario"]
    if not sc or not how.get("mon"):
        raise Inconclusive("replay file has no scenario / monitor information")
    ctx = Ctx(r["property"] + "-replay")
    ctx.harness_cmd = how.get("harness_cmd", "vh")
    scs = [sc]
    trace = ctx.run_scenarios(scs, "replay", par=1, isolate=how.get("isolate", False))
    verdicts, _ = ctx.validate(trace, how["mon"], consts=how.get("consts"), reset_with_state=how.get("reset_with_state", False))
    v = verdicts.get(sc["id"], {})
    bad = v.get("bad", [])
    if how.get("tracespec") == "DownMeta":
        # the violation was a trace that no behaviour of DownMeta.tla explains: validate the new trace against the specification as well
        import downscripts as D
        by, _ = ctx.load_trace(trace)
        if D.trace_validate_meta(ctx, how["filters"], {sc["id"]: D.meta_trace_lines(by.get(sc["id"], []), sc["id"])}):
            bad = bad + ["TraceRejected"]
    log("replay of %s (property %s, originally clause %s): clauses now = %s" % (sc["id"], r["property"], r.get("clause"), bad))
    if how.get("reset_with_state"):
        log("note: relational clauses need the paired solo run; only the direct clauses are evaluated in a replay")
    if bad:
        log("VIOLATION property=%s replay=%s" % (r["property"], path))
        sys.exit(1)
    sys.exit(0)


if __name__ == "__main__":
    main_wrap(run)
