"""Scenario construction for the connection life-cycle properties (C05, C10): translation of ConnLifecycle.tla
environment scripts and enumerated fault families."""
import os
from vlib import SPEC

CFG = """SPECIFICATION Spec
CONSTANTS
  Streams = {%(streams)s}
  Callers = {%(callers)s}
  MaxFaults = %(faults)d
  MaxDialFails = %(dialfails)d
  MaxResumeNg = %(resumeng)d
  WatcherByEpoch = %(epoch)s
  HookCurrent = %(hook)s
  SwapGuarded = %(guard)s
  SupervisorOrClosed = %(guard)s
  RetryByEpoch = %(guard)s
  AllowClose = %(close)s
  EpochBeforeResume = %(ebr)s
  HalfBroken = %(half)s
  HandlerCloses = %(hcl)s
  MaxConflicts = %(conflicts)d
  RetryStopsOnClosedErr = %(rsc)s
  ConflictFatal = %(cfatal)s
  CloseJoinsMain = %(cjm)s
%(view)s
INVARIANTS %(invs)s
%(constraint)s
CHECK_DEADLOCK FALSE
"""
INVS = "TokenPerDial NoStreamDetached CallersSurvive NotificationsOnce NoPanic NoDialAfterClose NoCallerParkedWhenClosed NoSupervisorParkedWhenClosed SilentAfterDisconnect NoSelfJoin ConflictNeverFatal SupervisorAlive"
NG = 17  # StreamNotFound


def b(x):
    return "TRUE" if x else "FALSE"


def q(xs):
    return ", ".join('"%s"' % x for x in xs)


def write_cfg(name, streams=("S1", "S2"), callers=("P1",), faults=1, dialfails=1, resumeng=1, fixed=True, close=True, view=True,
              invs=INVS, gen=False, epoch_before_resume=True, half=False, handler_closes=False, close_joins_main=False, conflicts=0, conflict_fatal=False, retry_stops_on_closed_err=False):
    with open(os.path.join(SPEC, name), "w") as f:
        f.write(CFG % dict(streams=q(streams), callers=q(callers), faults=faults, dialfails=dialfails, resumeng=resumeng,
                           epoch=b(fixed), hook=b(fixed), guard=b(fixed), close=b(close), view="VIEW View" if view else "",
                           invs=invs, constraint="CONSTRAINT GenPrint" if gen else "", ebr=b(epoch_before_resume), half=b(half), hcl=b(handler_closes), cjm=b(close_joins_main), conflicts=conflicts, cfatal=b(conflict_fatal), rsc=b(retry_stops_on_closed_err)))
    return name


STREAM_OBJ = {"S1": ("U1", "up"), "S2": ("D1", "down"), "S3": ("U2", "up"), "S8": ("U9", "up"), "S9": ("D9", "down")}


def prelude(streams, conn):
    steps = [{"a": "connect", "must": True}]
    for s in streams:
        obj, kind = STREAM_OBJ[s]
        if kind == "up":
            steps.append({"a": "openUp", "obj": obj, "qos": "reliable", "must": True, "closeTimeoutMs": 1500})
        else:
            steps.append({"a": "openDown", "obj": obj, "qos": "reliable", "srcs": ["n1"], "ackFlushMs": 20, "must": True})
    return steps


def probes(streams, tokbase=900):
    st = [{"a": "mark", "mode": "settle"}]
    for k, s in enumerate(streams):
        obj, kind = STREAM_OBJ[s]
        if kind == "up":
            st += [{"a": "write", "g": "PR", "obj": obj, "id": "A", "pts": [[tokbase + k, 8]], "ctxMs": 1500, "wait": True},
                   {"a": "flush", "g": "PR", "obj": obj, "ctxMs": 1500, "wait": True},
                   {"a": "ack", "obj": obj, "all": True}]
        else:
            st += [{"a": "sendChunk", "obj": obj, "up": "X", "upF": "info", "upAl": 0, "seq": tokbase + k,
                    "groups": [{"f": "id", "id": "A", "al": 0, "pts": [[tokbase + k, 8]]}]},
                   {"a": "read", "g": "PR", "obj": obj, "ctxMs": 1500, "wait": True}]
    st.append({"a": "sendMeta", "g": "PR", "tag": 99, "ctxMs": 1500, "wait": True})
    return st


def teardown(streams, close_conn=True):
    st = [{"a": "quiesce"}]
    for s in streams:
        obj, kind = STREAM_OBJ[s]
        st.append({"a": "closeUp" if kind == "up" else "closeDown", "g": "TD", "obj": obj, "ctxMs": 1500, "wait": True})
        if kind == "up":
            pass
    if close_conn:
        st += [{"a": "closeConn", "g": "TD", "ctxMs": 1500, "wait": True}]
    st += [{"a": "quiesce", "ms": 60}]
    return st


def from_model_script(sid, script, streams=("S1", "S2"), dial_delay=40, ping=(100, 100)):
    """ConnLifecycle.tla environment script -> scenario."""
    conn = {"pingMs": list(ping), "dialDelayMs": dial_delay}
    steps = prelude(streams, conn)
    # pre-scan: dial outcomes and refused resumes are scripted before the first cut
    plan = []
    ng = {}
    for op in script:
        if op["a"] == "dial":
            plan.append({"do": "ok" if op["ok"] else "fail", "delayMs": dial_delay})
        elif op["a"] == "resumeResp" and not op["ok"]:
            ng[op["st"]] = True
    if plan:
        steps.append({"a": "dialPlan", "dial": plan})
    for s in ng:
        obj, kind = STREAM_OBJ[s]
        steps.append({"a": "rule", "rule": {"on": "UpstreamResumeRequest" if kind == "up" else "DownstreamResumeRequest", "do": "code", "arg": NG}})
    ncut = 0
    tag = 0
    closed = False
    for op in script:
        a = op["a"]
        if a == "cut":
            ncut += 1
            steps.append({"a": "cut"})
        elif a == "wfail":
            ncut += 1
            steps.append({"a": "rule", "rule": {"on": "*", "inc": -1, "do": "failWrite"}})
        elif a == "dial" and op["ok"]:
            steps.append({"a": "await", "ev": "Reconnected", "n": len([x for x in steps if x.get("ev") == "Reconnected"]) + 1, "ms": 4000})
        elif a == "api":
            tag += 1
            steps.append({"a": "sendMeta", "g": op["g"] + str(tag), "tag": tag, "ctxMs": 3000})
        elif a == "close":
            closed = True
            steps.append({"a": "closeConn", "g": "CL", "ctxMs": 2000})
    if not closed:
        steps += [{"a": "sleep", "ms": 200}] + probes(streams) + teardown(streams)
    else:
        steps += [{"a": "join", "obj": "CL"}, {"a": "quiesce", "ms": 60}]
    return {"id": sid, "kind": "iscp", "conn": conn, "steps": steps}


def enumerated(tag, quick):
    """fault-enumerated family: streams x api in flight x dial outcomes x redial delay x resume outcome x second failure."""
    scs = []
    delays = [0, 40]
    stream_sets = [(), ("S1",), ("S2",), ("S1", "S2"), ("S1", "S2", "S3")]
    for delay in delays:
        for ss in stream_sets:
            for dial in (["ok"], ["fail", "ok"]):
                for api in ("none", "during", "held", "heldOpenDown", "heldOpenUp"):
                    for second in ((False,) if quick and (len(ss) != 2 or api != "none") else (False, True)):
                        conn = {"pingMs": [100, 100], "dialDelayMs": delay}
                        steps = prelude(ss, conn)
                        plan = [{"do": d, "delayMs": delay} for d in dial]
                        if second:
                            plan += [{"do": "ok", "delayMs": delay}]
                        steps.append({"a": "dialPlan", "dial": plan})
                        if api == "held":
                            # a request the broker received but never answered on the dying incarnation: answered on the next one? no -- the
                            # response is lost with the connection; the caller must re-send after recovery
                            steps += [{"a": "rule", "rule": {"on": "UpstreamMetadata", "nth": 1, "do": "drop"}},
                                      {"a": "sendMeta", "g": "H1", "tag": 7, "ctxMs": 3000},
                                      {"a": "await", "ev": "BRecvReq", "match": {"kind": "UpstreamMetadata", "tag": 7}, "ms": 1000}]
                        if api == "heldOpenDown":
                            # an OpenDownstream whose request reached the broker but whose response is lost with the connection: it must be
                            # re-sent after recovery and the stream must then receive data
                            steps += [{"a": "rule", "rule": {"on": "DownstreamOpenRequest", "nth": 1, "do": "drop"}},
                                      {"a": "openDown", "g": "H1", "obj": "D9", "qos": "reliable", "srcs": ["n9"], "ackFlushMs": 20, "ctxMs": 3000},
                                      {"a": "await", "ev": "BRecvReq", "match": {"kind": "DownstreamOpenRequest", "sid": "d%d" % (2 if "S2" in ss else 1)}, "ms": 1000}]
                        if api == "heldOpenUp":
                            nup = len([x for x in ss if STREAM_OBJ[x][1] == "up"]) + 1
                            steps += [{"a": "rule", "rule": {"on": "UpstreamOpenRequest", "nth": 1, "do": "drop"}},
                                      {"a": "openUp", "g": "H1", "obj": "U9", "qos": "reliable", "ctxMs": 3000, "closeTimeoutMs": 1500},
                                      {"a": "await", "ev": "BRecvReq", "match": {"kind": "UpstreamOpenRequest", "session": "U9"}, "ms": 1000}]
                        steps.append({"a": "cut"})
                        if api == "during":
                            # requests issued while the transport is dead but the loss is not yet detected: they are interrupted by the outage
                            steps += [{"a": "sleep", "ms": 5}, {"a": "sendMeta", "g": "P1", "tag": 5, "ctxMs": 3000},
                                      {"a": "openUp", "g": "P2", "obj": "U9", "qos": "unreliable", "ctxMs": 3000, "closeTimeoutMs": 1500},
                                      {"a": "openDown", "g": "P3", "obj": "D9", "qos": "reliable", "srcs": ["n9"], "ackFlushMs": 20, "ctxMs": 3000}]
                        steps.append({"a": "await", "ev": "Reconnected", "n": 1, "ms": 4000})
                        if second:
                            steps += [{"a": "sleep", "ms": 3 if delay == 0 else 60}, {"a": "cut"}, {"a": "await", "ev": "Reconnected", "n": 2, "ms": 4000}]
                        allss = tuple(ss) + (("S8", "S9") if api == "during" else ("S9",) if api == "heldOpenDown" else ("S8",) if api == "heldOpenUp" else ())
                        if api in ("heldOpenDown", "heldOpenUp"):
                            steps.append({"a": "join", "obj": "H1"})
                        steps += [{"a": "sleep", "ms": 250}] + probes(allss) + teardown(allss)
                        scs.append({"id": "%s/enum/d%d/%s/%s/%s/%s" % (tag, delay, "+".join(ss) or "none", "-".join(dial), api, "2nd" if second else "1"),
                                    "kind": "iscp", "conn": conn, "steps": steps})
    return scs


def gated(tag):
    """the schedule of the TLC counterexample to NoStreamDetached (as-coded model): the watcher goroutine of a stream is not yet (re-)waiting
    when an outage begins and ends; it is held at its start (verifhook point) across the whole outage."""
    scs = []
    for s_, point in (("S1", "upstream.watch.start"), ("S2", "downstream.watch.start")):
        for nth in (1, 2):
            for delay in (0, 40):
                conn = {"pingMs": [100, 100], "dialDelayMs": delay}
                ss = ("S1", "S2")
                steps = [{"a": "holdPoint", "mode": point, "n": nth, "gate": "w"}] + prelude(ss, conn)
                if nth == 2:
                    steps += [{"a": "cut"}, {"a": "await", "ev": "Reconnected", "n": 1, "ms": 4000}, {"a": "sleep", "ms": 150}]
                steps += [{"a": "await", "ev": "PointHeld", "ms": 1500, "must": True}, {"a": "cut"},
                          {"a": "await", "ev": "Reconnected", "n": nth, "ms": 4000}, {"a": "sleep", "ms": 50},
                          {"a": "release", "gate": "w"}, {"a": "sleep", "ms": 300}]
                steps += probes(ss) + teardown(ss)
                scs.append({"id": "%s/gated/%s/nth%d/d%d" % (tag, s_, nth, delay), "kind": "iscp", "conn": conn, "steps": steps})
    return scs


def handshake_refused(tag):
    """the broker refuses the connect request of the first redial attempt(s) with a non-success result (e.g. AuthFailed = 8): the client
    retries with a fresh token and recovers."""
    scs = []
    for n in (1, 2):
        for delay in (0, 40):
            conn = {"pingMs": [100, 100], "dialDelayMs": delay}
            ss = ("S1", "S2")
            steps = prelude(ss, conn) + [{"a": "rule", "rule": {"on": "ConnectRequest", "do": "codes", "codes": [8] * n + [1]}},
                                         {"a": "cut"}, {"a": "await", "ev": "Reconnected", "n": 1, "ms": 5000}, {"a": "sleep", "ms": 250}]
            steps += probes(ss) + teardown(ss)
            scs.append({"id": "%s/handshakeRefused/%d/d%d" % (tag, n, delay), "kind": "iscp", "conn": conn, "steps": steps})
    return scs


def handshake_cut(tag):
    """the transport of a redial attempt comes up but is lost during the connect handshake (the broker cuts it when it receives the
    connect request / the client-side write of the connect request fails): the attempt counts as failed, the client dials again (with a
    fresh token) and recovers."""
    scs = []
    for do in ("cutOnRecv", "cutBefore", "cutAfter"):
        for n in (1, 2):
            for delay in (0, 40):
                conn = {"pingMs": [100, 100], "dialDelayMs": delay}
                ss = ("S1", "S2")
                steps = prelude(ss, conn) + [{"a": "rule", "rule": {"on": "ConnectRequest", "inc": 2 + k, "do": do}} for k in range(n)]
                steps += [{"a": "cut"}, {"a": "sendMeta", "g": "P1", "tag": 8, "ctxMs": 4000},
                          {"a": "await", "ev": "Reconnected", "n": 1, "ms": 5000}, {"a": "join", "obj": "P1"}, {"a": "sleep", "ms": 250}]
                steps += probes(ss) + teardown(ss)
                scs.append({"id": "%s/handshakeCut/%s/%d/d%d" % (tag, do, n, delay), "kind": "iscp", "conn": conn, "steps": steps})
    return scs


def reconnected_handler(tag):
    """the application's Reconnected handler does real work: (a) it sends a request on the connection (base time again), (b) it takes its
    time while a request that was issued during the outage waits to be sent again. Neither may block the connection."""
    scs = []
    for delay in (0, 40):
        ss = ("S1", "S2")
        conn = {"pingMs": [100, 100], "dialDelayMs": delay, "onReconnected": "sendMeta"}
        steps = prelude(ss, conn) + [{"a": "cut"}, {"a": "await", "ev": "Reconnected", "n": 1, "ms": 4000}, {"a": "sleep", "ms": 300}]
        steps += probes(ss) + teardown(ss)
        scs.append({"id": "%s/reconnectedHandler/sends/d%d" % (tag, delay), "kind": "iscp", "conn": conn, "steps": steps})
        conn = {"pingMs": [100, 100], "dialDelayMs": delay}
        steps = [{"a": "holdHandler", "mode": "Reconnected", "n": 1, "gate": "rh"}] + prelude(ss, conn)
        steps += [{"a": "dialPlan", "dial": [{"do": "ok", "gate": "g1"}]}, {"a": "cut"},
                  {"a": "await", "ev": "Dial", "match": {"n": 2}, "ms": 3000, "must": True},
                  {"a": "sendMeta", "g": "P1", "tag": 5, "ctxMs": 1500}, {"a": "sleep", "ms": 30}, {"a": "release", "gate": "g1"},
                  {"a": "await", "ev": "HandlerHeld", "ms": 3000, "must": True}, {"a": "join", "obj": "P1"}, {"a": "release", "gate": "rh"}, {"a": "sleep", "ms": 250}]
        steps += probes(ss) + teardown(ss)
        scs.append({"id": "%s/reconnectedHandler/slow/d%d" % (tag, delay), "kind": "iscp", "conn": conn, "steps": steps})
        # the application's stream-resumed handlers take their time: the streams work meanwhile
        conn = {"pingMs": [100, 100], "dialDelayMs": delay}
        steps = [{"a": "holdHandler", "mode": "UpResumed", "n": 1, "gate": "sh"}, {"a": "holdHandler", "mode": "DownResumed", "n": 1, "gate": "sh"}] + prelude(ss, conn)
        steps += [{"a": "cut"}, {"a": "await", "ev": "Reconnected", "n": 1, "ms": 4000}, {"a": "await", "ev": "HandlerHeld", "ms": 2000, "must": True}, {"a": "sleep", "ms": 200}]
        steps += probes(ss) + [{"a": "release", "gate": "sh"}, {"a": "sleep", "ms": 50}] + teardown(ss)
        scs.append({"id": "%s/reconnectedHandler/slowResumed/d%d" % (tag, delay), "kind": "iscp", "conn": conn, "steps": steps})
    return scs


def close_during_outage(tag):
    """a stream is closed by the application while the connection is being re-established (the redial is held at a gate): the Close
    returns within its bound, the other streams are resumed and work, the closed stream stays closed."""
    scs = []
    for victim, rest in (("S1", ("S2", "S3")), ("S2", ("S1", "S3"))):
        for delay in (0, 40):
            conn = {"pingMs": [100, 100], "dialDelayMs": delay}
            ss = ("S1", "S2", "S3")
            obj, kind = STREAM_OBJ[victim]
            steps = prelude(ss, conn) + [{"a": "dialPlan", "dial": [{"do": "ok", "gate": "g1"}]}, {"a": "cut"},
                                         {"a": "await", "ev": "Dial", "match": {"n": 2}, "ms": 3000, "must": True}, {"a": "sleep", "ms": 30},
                                         {"a": "closeUp" if kind == "up" else "closeDown", "g": "CV", "obj": obj, "ctxMs": 1500, "wait": True},
                                         {"a": "release", "gate": "g1"}, {"a": "await", "ev": "Reconnected", "n": 1, "ms": 4000}, {"a": "sleep", "ms": 250}]
            steps += probes(rest) + teardown(rest)
            scs.append({"id": "%s/closeDuringOutage/%s/d%d" % (tag, victim, delay), "kind": "iscp", "conn": conn, "steps": steps})
    return scs


def resume_overlap(tag):
    """a second outage is decided while the resume request of the first one is still unanswered: the client-side write of an application
    request fails on the new connection (its read direction keeps working), the application's Disconnected handler takes its time, and
    the broker answers the held resume request in the meantime. The stream then believes it is resumed - on a connection that is
    being replaced: it must be resumed once more on the next connection (ConnLifecycle.tla: the stream's epoch is read before the
    resume exchange, so the later outage is noticed)."""
    scs = []
    for ss, kind in ((("S1",), "UpstreamResumeRequest"), (("S2",), "DownstreamResumeRequest"), (("S1", "S2"), "UpstreamResumeRequest"),
                     (("S1", "S2"), "DownstreamResumeRequest")):
        for delay in (0, 40):
            conn = {"pingMs": [2000, 2000], "dialDelayMs": delay}
            steps = [{"a": "holdHandler", "mode": "Disconnected", "n": 2, "gate": "d"}] + prelude(ss, conn)
            steps += [{"a": "rule", "rule": {"on": kind, "nth": 1, "do": "hold", "arg": 1}},
                      {"a": "cut"}, {"a": "await", "ev": "Reconnected", "n": 1, "ms": 4000, "must": True},
                      {"a": "await", "ev": "Fault", "match": {"do": "hold", "on": kind}, "ms": 2000, "must": True},
                      {"a": "rule", "rule": {"on": "UpstreamMetadata", "inc": 2, "do": "failWrite"}},
                      {"a": "sendMeta", "g": "P1", "tag": 7, "ctxMs": 4000},
                      {"a": "await", "ev": "HandlerHeld", "ms": 2000, "must": True},
                      {"a": "release", "gate": "hold1"}, {"a": "sleep", "ms": 60},
                      {"a": "release", "gate": "d"}, {"a": "await", "ev": "Reconnected", "n": 2, "ms": 4000},
                      {"a": "join", "obj": "P1"}, {"a": "sleep", "ms": 300}]
            steps += probes(ss) + teardown(ss)
            scs.append({"id": "%s/resumeOverlap/%s/%s/d%d" % (tag, "+".join(ss), kind[:2], delay), "kind": "iscp", "conn": conn, "steps": steps})
    return scs


def resume_conflict(tag):
    """the broker answers the first resume request(s) of a stream with ResumeRequestConflict (18: it has not noticed the death of the old
    connection yet - what a fast redial meets) and accepts the next attempt: the stream resumes under its original id / alias and keeps
    working; nothing is reported closed."""
    scs = []
    for ss, kind in ((("S1",), "UpstreamResumeRequest"), (("S2",), "DownstreamResumeRequest"), (("S1", "S2"), "DownstreamResumeRequest"),
                     (("S1", "S2"), "UpstreamResumeRequest")):
        for n in (1, 2):
            conn = {"pingMs": [100, 100], "dialDelayMs": 0}
            steps = prelude(ss, conn) + [{"a": "rule", "rule": {"on": kind, "do": "codes", "codes": [18] * n + [1]}},
                                         {"a": "cut"}, {"a": "await", "ev": "Reconnected", "n": 1, "ms": 4000, "must": True},
                                         {"a": "sleep", "ms": 400 + 300 * n}]
            steps += probes(ss) + teardown(ss)
            scs.append({"id": "%s/resumeConflict/%s/%s/%d" % (tag, "+".join(ss), kind[:2], n), "kind": "iscp", "conn": conn, "steps": steps})
    return scs


def c10_family(tag, quick):
    """Close at every interesting point: idle, streams open, calls pending, reconnect dialling (gated), resume in progress;
    stream close vs connection close in both orders; repeated and concurrent Close; then calls on the closed objects; census."""
    scs = []
    tail = [{"a": "sleep", "ms": 100}, {"a": "closeBroker"}, {"a": "census", "ms": 2000}, {"a": "quiesce", "ms": 50}]

    def after_conn_calls():
        return [{"a": "sendMeta", "g": "A1", "tag": 31, "ctxMs": 3000, "wait": True},
                {"a": "openUp", "g": "A1", "obj": "U8", "qos": "reliable", "ctxMs": 3000, "wait": True},
                {"a": "openDown", "g": "A1", "obj": "D8", "qos": "reliable", "srcs": ["n1"], "ctxMs": 3000, "wait": True},
                {"a": "call", "g": "A1", "tag": 32, "ctxMs": 3000, "wait": True},
                {"a": "recvCall", "g": "A1", "ctxMs": 3000, "wait": True},
                {"a": "sleep", "ms": 150},
                {"a": "write", "g": "A1", "obj": "U1", "id": "A", "pts": [[50, 4]], "ctxMs": 3000, "wait": True},
                {"a": "flush", "g": "A1", "obj": "U1", "ctxMs": 3000, "wait": True},
                {"a": "read", "g": "A1", "obj": "D1", "ctxMs": 3000, "wait": True},
                {"a": "readMeta", "g": "A1", "obj": "D1", "ctxMs": 3000, "wait": True},
                {"a": "closeUp", "g": "A1", "obj": "U1", "ctxMs": 3000, "wait": True},
                {"a": "closeDown", "g": "A1", "obj": "D1", "ctxMs": 3000, "wait": True},
                {"a": "closeConn", "g": "A1", "ctxMs": 3000, "wait": True},
                {"a": "closeConn", "g": "A2", "ctxMs": 3000}, {"a": "closeConn", "g": "A3", "ctxMs": 3000},
                {"a": "join", "obj": "A2"}, {"a": "join", "obj": "A3"}]

    def base(conn=None):
        return prelude(("S1", "S2"), conn or {}) + [{"a": "ackMode", "mode": "auto"},
               {"a": "write", "g": "W", "obj": "U1", "id": "A", "pts": [[1, 4]], "wait": True}, {"a": "flush", "g": "W", "obj": "U1", "wait": True}]

    # A: connection closed with streams left open, then every kind of call
    scs.append({"id": tag + "/afterConnClose/streamsOpen", "kind": "iscp", "conn": {},
                "steps": base() + [{"a": "closeConn", "g": "C", "ctxMs": 2000, "wait": True}] + after_conn_calls() + tail})
    # B: stream close first, calls on closed streams, then connection close
    scs.append({"id": tag + "/afterStreamClose", "kind": "iscp", "conn": {},
                "steps": base() + [{"a": "closeUp", "g": "C", "obj": "U1", "ctxMs": 2000, "wait": True},
                                   {"a": "closeDown", "g": "C", "obj": "D1", "ctxMs": 2000, "wait": True},
                                   {"a": "write", "g": "A1", "obj": "U1", "id": "A", "pts": [[51, 4]], "ctxMs": 3000, "wait": True},
                                   {"a": "flush", "g": "A1", "obj": "U1", "ctxMs": 3000, "wait": True},
                                   {"a": "read", "g": "A1", "obj": "D1", "ctxMs": 3000, "wait": True},
                                   {"a": "closeUp", "g": "A1", "obj": "U1", "ctxMs": 3000, "wait": True},
                                   {"a": "closeDown", "g": "A1", "obj": "D1", "ctxMs": 3000, "wait": True},
                                   {"a": "sendMeta", "g": "A1", "tag": 33, "ctxMs": 3000, "wait": True},
                                   {"a": "closeConn", "g": "C", "ctxMs": 2000, "wait": True}] + after_conn_calls() + tail})
    # C: connection close with pending calls (a request the broker never answers, a blocked read, a blocked receive)
    scs.append({"id": tag + "/pendingCalls", "kind": "iscp", "conn": {},
                "steps": base() + [{"a": "rule", "rule": {"on": "UpstreamMetadata", "do": "drop"}},
                                   {"a": "sendMeta", "g": "P1", "tag": 34, "ctxMs": 4000}, {"a": "read", "g": "P2", "obj": "D1", "ctxMs": 4000},
                                   {"a": "recvCall", "g": "P3", "ctxMs": 4000}, {"a": "recvReply", "g": "P4", "ctxMs": 4000},
                                   {"a": "await", "ev": "BRecvReq", "match": {"kind": "UpstreamMetadata"}, "ms": 1000}, {"a": "sleep", "ms": 30},
                                   {"a": "closeConn", "g": "C", "ctxMs": 2000, "wait": True},
                                   {"a": "join", "obj": "P1"}, {"a": "join", "obj": "P2"}, {"a": "join", "obj": "P3"}, {"a": "join", "obj": "P4"}]
                         + after_conn_calls() + tail})
    # D: Close while reconnect() is between dial and status swap (gated dial), ok and failing dial, fast and slow
    for outcome in ("ok", "fail"):
        for hold_ms in (30, 150):
            conn = {"pingMs": [100, 100]}
            scs.append({"id": "%s/closeDuringRedial/%s/%d" % (tag, outcome, hold_ms), "kind": "iscp", "conn": conn,
                        "steps": base(conn) + [{"a": "dialPlan", "dial": [{"do": outcome, "gate": "g1"}]}, {"a": "cut"},
                                               {"a": "await", "ev": "Dial", "match": {"n": 2}, "ms": 3000, "must": True},
                                               {"a": "closeConn", "g": "C", "ctxMs": 3000}, {"a": "sleep", "ms": hold_ms},
                                               {"a": "release", "gate": "g1"}, {"a": "join", "obj": "C"}, {"a": "sleep", "ms": 100}]
                                 + after_conn_calls() + tail})
    # E: Close while a stream's resume exchange is unanswered
    for kind in ("UpstreamResumeRequest", "DownstreamResumeRequest"):
        conn = {"pingMs": [100, 100], "dialDelayMs": 40}
        scs.append({"id": "%s/closeDuringResume/%s" % (tag, kind), "kind": "iscp", "conn": conn,
                    "steps": base(conn) + [{"a": "rule", "rule": {"on": kind, "do": "drop"}}, {"a": "cut"},
                                           {"a": "await", "ev": "BRecvReq", "match": {"kind": kind}, "ms": 3000, "must": True},
                                           {"a": "closeConn", "g": "C", "ctxMs": 3000, "wait": True}] + after_conn_calls() + tail})
    # E2: an Open whose response arrives while Close is already under way (Close is held in the write of its Disconnect): whatever Open
    #     returns, a stream it hands out must end with the connection (writes / reads fail, nothing left running)
    for what, kind in (("openUp", "UpstreamOpenRequest"), ("openDown", "DownstreamOpenRequest")):
        call = {"a": "openUp", "g": "P1", "obj": "U8", "qos": "reliable", "ctxMs": 4000} if what == "openUp" else \
               {"a": "openDown", "g": "P1", "obj": "D8", "qos": "reliable", "srcs": ["n1"], "ctxMs": 4000}
        use = [{"a": "write", "g": "A2", "obj": "U8", "id": "A", "pts": [[60, 4]], "ctxMs": 2000, "wait": True},
               {"a": "flush", "g": "A2", "obj": "U8", "ctxMs": 2000, "wait": True}] if what == "openUp" else \
              [{"a": "read", "g": "A2", "obj": "D8", "ctxMs": 700, "wait": True}]
        scs.append({"id": "%s/openAcrossClose/%s" % (tag, what), "kind": "iscp", "conn": {},
                    "steps": base() + [{"a": "rule", "rule": {"on": kind, "nth": 1, "do": "hold", "arg": 1}}, call,
                                       {"a": "await", "ev": "Fault", "match": {"do": "hold", "on": kind}, "ms": 2000, "must": True},
                                       {"a": "rule", "rule": {"on": "Disconnect", "do": "holdWrite", "gate": "dw"}},
                                       {"a": "closeConn", "g": "C", "ctxMs": 2500},
                                       {"a": "await", "ev": "Fault", "match": {"do": "holdWrite", "on": "Disconnect"}, "ms": 2000, "must": True},
                                       {"a": "release", "gate": "hold1"}, {"a": "sleep", "ms": 40}, {"a": "release", "gate": "dw"},
                                       {"a": "join", "obj": "C"}, {"a": "join", "obj": "P1"}, {"a": "sleep", "ms": 50}] + use + after_conn_calls() + tail})
    # F: concurrent Close of stream and connection; Close of an idle connection; double Close of a stream
    scs.append({"id": tag + "/concurrentClose", "kind": "iscp", "conn": {},
                "steps": base() + [{"a": "closeUp", "g": "C1", "obj": "U1", "ctxMs": 2000}, {"a": "closeConn", "g": "C2", "ctxMs": 2000},
                                   {"a": "closeDown", "g": "C3", "obj": "D1", "ctxMs": 2000}, {"a": "closeConn", "g": "C4", "ctxMs": 2000},
                                   {"a": "join", "obj": "C1"}, {"a": "join", "obj": "C2"}, {"a": "join", "obj": "C3"}, {"a": "join", "obj": "C4"}]
                         + after_conn_calls() + tail})
    scs.append({"id": tag + "/idleClose", "kind": "iscp", "conn": {},
                "steps": [{"a": "connect", "must": True}, {"a": "closeConn", "g": "C", "ctxMs": 2000, "wait": True},
                          {"a": "sendMeta", "g": "A1", "tag": 35, "ctxMs": 3000, "wait": True},
                          {"a": "closeConn", "g": "A1", "ctxMs": 3000, "wait": True}] + tail})
    scs.append({"id": tag + "/doubleStreamClose", "kind": "iscp", "conn": {},
                "steps": base() + [{"a": "closeUp", "g": "C1", "obj": "U1", "ctxMs": 2000}, {"a": "closeUp", "g": "C2", "obj": "U1", "ctxMs": 2000},
                                   {"a": "closeDown", "g": "C3", "obj": "D1", "ctxMs": 2000}, {"a": "closeDown", "g": "C4", "obj": "D1", "ctxMs": 2000},
                                   {"a": "join", "obj": "C1"}, {"a": "join", "obj": "C2"}, {"a": "join", "obj": "C3"}, {"a": "join", "obj": "C4"},
                                   {"a": "closeConn", "g": "C", "ctxMs": 2000, "wait": True}] + tail})
    # the application's Disconnected handler closes the connection itself: after the user's Close, and after the broker refused every redial
    conn = {"onDisconnected": "closeConn"}
    scs.append({"id": tag + "/closeFromHandler/userClose", "kind": "iscp", "conn": conn,
                "steps": base(conn) + [{"a": "closeConn", "g": "C", "ctxMs": 2000, "wait": True}, {"a": "sleep", "ms": 100}] + after_conn_calls() + tail})
    scs.append({"id": tag + "/closeFromHandler/idle", "kind": "iscp", "conn": conn,
                "steps": [{"a": "connect", "must": True}, {"a": "closeConn", "g": "C", "ctxMs": 2000, "wait": True}, {"a": "sleep", "ms": 100},
                          {"a": "sendMeta", "g": "A1", "tag": 35, "ctxMs": 3000, "wait": True},
                          {"a": "closeConn", "g": "A1", "ctxMs": 3000, "wait": True}] + tail})
    # a write that passed the connection's send guard is still inside the transport (held at a gate) when Close is called: whatever
    # happens to it, it must not reach the broker after the Disconnect
    for kind, call in (("UpstreamCall", {"a": "call", "g": "P1", "tag": 37, "ctxMs": 3000}),
                       ("UpstreamMetadata", {"a": "sendMeta", "g": "P1", "tag": 38, "ctxMs": 3000}),
                       ("UpstreamChunk", {"a": "flush", "g": "P1", "obj": "U1", "ctxMs": 3000})):
        pre = [{"a": "write", "g": "W", "obj": "U1", "id": "A", "pts": [[2, 4]], "wait": True}] if kind == "UpstreamChunk" else []
        scs.append({"id": "%s/writeAcrossClose/%s" % (tag, kind), "kind": "iscp", "conn": {},
                    "steps": base() + pre + [{"a": "rule", "rule": {"on": kind, "do": "holdWrite", "gate": "hw", "nth": 1}}, call,
                                             {"a": "await", "ev": "Fault", "match": {"do": "holdWrite", "on": kind}, "ms": 2000, "must": True},
                                             {"a": "closeConn", "g": "C", "ctxMs": 2500}, {"a": "sleep", "ms": 150},
                                             {"a": "release", "gate": "hw"}, {"a": "join", "obj": "C"}, {"a": "join", "obj": "P1"}, {"a": "sleep", "ms": 100}]
                             + after_conn_calls() + tail})
    # a stream Close whose close request the broker refuses (StreamNotFound) or never answers (Close ends by its context): Close has
    # returned - with an error -, the stream is closed all the same: later calls fail with the stream-closed error
    for how, rule, ctxms in (("refused", {"do": "code", "arg": NG}, 2000), ("unanswered", {"do": "drop"}, 300)):
        use = [{"a": "sleep", "ms": 100},
               {"a": "write", "g": "A1", "obj": "U1", "id": "A", "pts": [[52, 4]], "ctxMs": 3000, "wait": True},
               {"a": "flush", "g": "A1", "obj": "U1", "ctxMs": 3000, "wait": True},
               {"a": "read", "g": "A1", "obj": "D1", "ctxMs": 3000, "wait": True},
               {"a": "closeUp", "g": "A1", "obj": "U1", "ctxMs": 3000, "wait": True},
               {"a": "closeDown", "g": "A1", "obj": "D1", "ctxMs": 3000, "wait": True}]
        scs.append({"id": "%s/streamCloseFails/%s" % (tag, how), "kind": "iscp", "conn": {},
                    "steps": base() + [{"a": "rule", "rule": dict(rule, on="UpstreamCloseRequest", nth=1)}, {"a": "rule", "rule": dict(rule, on="DownstreamCloseRequest", nth=1)},
                                       {"a": "closeUp", "g": "C", "obj": "U1", "ctxMs": ctxms, "wait": True},
                                       {"a": "closeDown", "g": "C", "obj": "D1", "ctxMs": ctxms, "wait": True}] + use
                             + [{"a": "closeConn", "g": "C", "ctxMs": 2000, "wait": True}] + after_conn_calls() + tail})
    # two overlapping Close calls on one stream: the first one's close request is still unanswered when the second call is made
    scs.append({"id": tag + "/overlappingStreamClose", "kind": "iscp", "conn": {},
                "steps": [{"a": "holdHandler", "mode": "DownClosed", "n": 1, "gate": "hd"}, {"a": "holdHandler", "mode": "UpClosed", "n": 1, "gate": "hd"}]
                         + base() + [{"a": "rule", "rule": {"on": "DownstreamCloseRequest", "nth": 1, "do": "hold", "arg": 4}},
                                   {"a": "rule", "rule": {"on": "UpstreamCloseRequest", "nth": 1, "do": "hold", "arg": 5}},
                                   {"a": "closeDown", "g": "C3", "obj": "D1", "ctxMs": 2500},
                                   {"a": "await", "ev": "Fault", "match": {"do": "hold", "on": "DownstreamCloseRequest"}, "ms": 2000, "must": True},
                                   {"a": "closeDown", "g": "C4", "obj": "D1", "ctxMs": 2500},
                                   {"a": "closeUp", "g": "C1", "obj": "U1", "ctxMs": 2500},
                                   {"a": "await", "ev": "Fault", "match": {"do": "hold", "on": "UpstreamCloseRequest"}, "ms": 2000, "must": True},
                                   {"a": "closeUp", "g": "C2", "obj": "U1", "ctxMs": 2500}, {"a": "sleep", "ms": 80},
                                   {"a": "release", "gate": "hold4"}, {"a": "release", "gate": "hold5"},
                                   {"a": "join", "obj": "C1"}, {"a": "join", "obj": "C2"}, {"a": "join", "obj": "C3"}, {"a": "join", "obj": "C4"}, {"a": "sleep", "ms": 100},
                                   {"a": "release", "gate": "hd"}, {"a": "sleep", "ms": 200},     # (the application's closed handlers took their time)
                                   {"a": "closeConn", "g": "C", "ctxMs": 2000, "wait": True}] + tail})
    return scs
