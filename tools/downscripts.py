"""Translation of Downstream.tla environment scripts into harness scenarios; cfg generation."""
import os
from vlib import SPEC

CFG = """SPECIFICATION Spec
CONSTANTS
  Ups = {%(ups)s}
  DataIds = {"A", "B"}
  PreReg <- %(prereg)s
  DedupPreReg = %(dedup)s
  MaxChunks = %(maxc)d
  Readers = {%(readers)s}
  Cap = %(cap)d
  MaxFaults = %(faults)d
  UpAliasByValue = %(byvalue)s
  RequeueOnDeadLink = %(requeue)s
  Bogus = %(bogus)s
  ReleaseOnCloseMeta = %(rel)s
%(view)s
INVARIANTS %(invs)s
%(constraint)s
CHECK_DEADLOCK FALSE
"""
INVS = "OnceEach InOrderSingleReader ResolvedRight AckIdsIncrease AckAtMostOnce AckOnlyReturned AckAllAtClose UpAliasInjective IdAliasInjective AnnounceAtMostOnce AnnounceAllAtClose NoAckAfterClose"


def q(xs):
    return ", ".join('"%s"' % x for x in xs)


def write_cfg(name, ups=("X", "Y"), prereg="PreRegA", maxc=3, readers=("R1",), cap=2, faults=0, byvalue=True, requeue=False,
              bogus=True, view=True, invs=INVS, gen=False, dedup=True, release_on_close_meta=False):
    with open(os.path.join(SPEC, name), "w") as f:
        f.write(CFG % dict(ups=q(ups), prereg=prereg, maxc=maxc, readers=q(readers), cap=cap, faults=faults,
                           byvalue="TRUE" if byvalue else "FALSE", requeue="TRUE" if requeue else "FALSE",
                           bogus="TRUE" if bogus else "FALSE", dedup="TRUE" if dedup else "FALSE", rel="TRUE" if release_on_close_meta else "FALSE", view="VIEW View" if view else "", invs=invs,
                           constraint="CONSTRAINT GenPrint" if gen else ""))
    return name


def to_scenario(sid, script, prereg=("A",), qos="reliable", conn=None, ack_flush_ms=20, read_ctx_ms=1200):
    steps = [{"a": "connect", "must": True},
             {"a": "openDown", "obj": "D1", "qos": qos, "srcs": ["n1", "n2"], "ids": list(prereg), "ackFlushMs": ack_flush_ms, "must": True}]
    readers = set()
    for op in script:
        a = op["a"]
        if a == "sendChunk":
            g = {"f": op["idF"], "id": op["id"], "al": (99 if op["idAl"] == 99 else -1) if op["idF"] == "al" else 0,
                 "pts": [[op["k"], 4 + (op["k"] % 3)]]}
            steps.append({"a": "sendChunk", "obj": "D1", "up": op["up"], "upF": op["upF"],
                          "upAl": (99 if op["upAl"] == 99 else -1) if op["upF"] == "alias" else 0, "seq": op["k"], "groups": [g]})
        elif a == "read":
            readers.add(op["g"])
            steps.append({"a": "read", "g": op["g"], "obj": "D1", "ctxMs": read_ctx_ms})
        elif a == "ackTick":
            steps.append({"a": "sleep", "ms": ack_flush_ms + 15})
        elif a == "close":
            for r in sorted(readers):
                steps.append({"a": "join", "obj": r})
            steps.append({"a": "closeDown", "g": "C", "obj": "D1", "ctxMs": 3000, "wait": True})
        elif a == "cut":
            steps.append({"a": "cut"})
        elif a == "redial":
            steps.append({"a": "await", "ev": "DownResumed", "ms": 4000})
    steps += [{"a": "quiesce"}, {"a": "downState", "obj": "D1"}, {"a": "closeConn", "g": "main2", "wait": True, "ctxMs": 2000}, {"a": "quiesce", "ms": 50}]
    return {"id": sid, "kind": "iscp", "conn": conn or {}, "steps": steps}


META_CFG = """SPECIFICATION %(spec)s
CONSTANTS
  Srcs = {%(srcs)s}
  Filters <- %(filters)s
  NMeta = %(n)d
  Cap = %(cap)d
  InboxCap = %(inbox)d
  SharedSub = %(shared)s
  RecordScript = %(record)s
%(invs)s
%(constraint)s
CHECK_DEADLOCK FALSE
"""
META_INVS = "PerSourceOrder OnceEach OnlySent OnlySubscribed AckMatches NoDropWithinCap AllDeliveredWhenQuiet OrphanEmpty"
META_FILTERS = {"F_1": ["n1"], "F_12": ["n1", "n2"], "F_11": ["n1", "n1"], "F_121": ["n1", "n2", "n1"], "F_111": ["n1", "n1", "n1"]}


def write_meta_cfg(name, srcs=("n1", "n2", "zz"), filters="F_121", n=4, cap=4, inbox=2, shared=False, invs=META_INVS, gen=False, live=False):
    with open(os.path.join(SPEC, name), "w") as f:
        f.write(META_CFG % dict(spec="FairSpec" if live else "Spec", srcs=q(srcs), filters=filters, n=n, cap=cap, inbox=inbox,
                                shared="TRUE" if shared else "FALSE", record="TRUE" if gen else "FALSE",
                                invs=("PROPERTIES EventuallyAll" if live else "INVARIANTS " + invs),
                                constraint="CONSTRAINT GenPrint" if gen else ""))
    return name


def meta_to_scenario(sid, script, filters):
    """script: sendMeta / readMeta ops printed by DownMeta.tla; the downstream is opened with one filter per entry of `filters`."""
    steps = [{"a": "connect", "must": True},
             {"a": "openDown", "obj": "D1", "qos": "reliable", "srcs": list(filters), "ids": ["A"], "ackFlushMs": 20, "must": True}]
    for op in script:
        if op["a"] == "sendMeta":
            steps.append({"a": "sendDownMeta", "obj": "D1", "src": op["src"], "tag": 500 + op["tag"]})
        elif op["a"] == "readMeta":
            steps.append({"a": "readMeta", "g": "R2", "obj": "D1", "ctxMs": 1200, "wait": True})
    # one more read that waits: nothing further may come (and nothing may be missing)
    steps += [{"a": "readMeta", "g": "R2", "obj": "D1", "ctxMs": 250, "wait": True},
              {"a": "closeDown", "g": "C", "obj": "D1", "ctxMs": 3000, "wait": True}, {"a": "quiesce"},
              {"a": "closeConn", "g": "main2", "wait": True, "ctxMs": 2000}, {"a": "quiesce", "ms": 50}]
    return {"id": sid, "kind": "iscp", "conn": {}, "steps": steps}


TRACE_META_CFG = """SPECIFICATION TraceSpec
CONSTANTS
  Srcs = {"n1", "n2", "zz"}
  Filters <- %(filters)s
  NMeta = 1000000
  Cap = 1024
  InboxCap = 8
  SharedSub = FALSE
  RecordScript = FALSE
VIEW TraceView
CONSTRAINT HighWater
POSTCONDITION TraceAccepted
CHECK_DEADLOCK FALSE
"""


def meta_trace_lines(evs, sid):
    """reduce the recorded events of one downmeta scenario to the input lines of TraceDownMeta.tla"""
    import json
    out = [json.dumps({"ev": "Reset", "sc": sid})]
    for e in evs:
        if e.get("ev") == "BSendMeta":
            out.append(json.dumps({"ev": "BSendMeta", "sc": sid, "src": e.get("src", ""), "tag": e.get("tag", 0)}))
        elif e.get("ev") == "ApiRet" and e.get("op") == "ReadMeta" and e.get("err") in ("", "ctx"):
            out.append(json.dumps({"ev": "ReadMeta", "sc": sid, "err": e["err"], "src": e.get("src", ""), "tag": e.get("tag", 0)}))
    return out


def trace_validate_meta(ctx, fl, per_scenario):
    """Validate the reduced traces (dict scenario id -> lines, in order) of the scenarios opened with filter list `fl` against
    TraceDownMeta.tla. Returns the ids of the scenarios whose trace no behaviour of the specification explains."""
    import re
    from vlib import Inconclusive
    rejected = []
    todo = list(per_scenario.items())
    while todo:
        lines, owner = [], []
        for sid, ls in todo:
            lines += ls
            owner += [sid] * len(ls)
        path = os.path.join(ctx.work, "tracemeta-%s.ndjson" % fl)
        with open(path, "w") as f:
            f.write("\n".join(lines) + "\n")
        cfg = "TraceDownMeta_%s.cfg" % fl
        with open(os.path.join(SPEC, cfg), "w") as f:
            f.write(TRACE_META_CFG % dict(filters=fl))
        r = ctx.tlc("TraceDownMeta", cfg, workers=1, timeout=900, env={"VERIF_TRACE": path}, name="tracemeta-" + fl)
        os.remove(os.path.join(SPEC, cfg))
        hw = None
        for s in r.printed:
            m = re.match(r"HIGHWATER (\d+) OF (\d+)", s) if isinstance(s, str) else None
            if m:
                hw, total = int(m.group(1)), int(m.group(2))
        if hw is None:
            raise Inconclusive("trace validation against TraceDownMeta did not complete: %s" % (r.error or r.violated or "no high-water mark"))
        ctx.cov["states"] += r.distinct
        ctx.cov["transitions"] += r.generated
        if hw >= total:
            break
        bad = owner[hw - 1]          # the event at position hw could not be consumed by any behaviour
        rejected.append(bad)
        todo = [(sid, ls) for sid, ls in todo if sid != bad]
    return rejected
