"""Translation of Downstream.tla environment scripts into harness scenarios; cfg generation."""
import os
from vlib import SPEC

CFG = """SPECIFICATION Spec
CONSTANTS
  Ups = {%(ups)s}
  DataIds = {"A", "B"}
  PreReg <- %(prereg)s
  DedupPreReg = %(dedup)s
  MaxChunks = %(maxc)d
  Readers = {%(readers)s}
  Cap = %(cap)d
  MaxFaults = %(faults)d
  UpAliasByValue = %(byvalue)s
  RequeueOnDeadLink = %(requeue)s
  Bogus = %(bogus)s
%(view)s
INVARIANTS %(invs)s
%(constraint)s
CHECK_DEADLOCK FALSE
"""
INVS = "OnceEach InOrderSingleReader ResolvedRight AckIdsIncrease AckAtMostOnce AckOnlyReturned AckAllAtClose UpAliasInjective IdAliasInjective AnnounceAtMostOnce AnnounceAllAtClose NoAckAfterClose"


def q(xs):
    return ", ".join('"%s"' % x for x in xs)


def write_cfg(name, ups=("X", "Y"), prereg="PreRegA", maxc=3, readers=("R1",), cap=2, faults=0, byvalue=True, requeue=False,
              bogus=True, view=True, invs=INVS, gen=False, dedup=True):
    with open(os.path.join(SPEC, name), "w") as f:
        f.write(CFG % dict(ups=q(ups), prereg=prereg, maxc=maxc, readers=q(readers), cap=cap, faults=faults,
                           byvalue="TRUE" if byvalue else "FALSE", requeue="TRUE" if requeue else "FALSE",
                           bogus="TRUE" if bogus else "FALSE", dedup="TRUE" if dedup else "FALSE", view="VIEW View" if view else "", invs=invs,
                           constraint="CONSTRAINT GenPrint" if gen else ""))
    return name


def to_scenario(sid, script, prereg=("A",), qos="reliable", conn=None, ack_flush_ms=20, read_ctx_ms=1200):
    steps = [{"a": "connect", "must": True},
             {"a": "openDown", "obj": "D1", "qos": qos, "srcs": ["n1", "n2"], "ids": list(prereg), "ackFlushMs": ack_flush_ms, "must": True}]
    readers = set()
    for op in script:
        a = op["a"]
        if a == "sendChunk":
            g = {"f": op["idF"], "id": op["id"], "al": (99 if op["idAl"] == 99 else -1) if op["idF"] == "al" else 0,
                 "pts": [[op["k"], 4 + (op["k"] % 3)]]}
            steps.append({"a": "sendChunk", "obj": "D1", "up": op["up"], "upF": op["upF"],
                          "upAl": (99 if op["upAl"] == 99 else -1) if op["upF"] == "alias" else 0, "seq": op["k"], "groups": [g]})
        elif a == "read":
            readers.add(op["g"])
            steps.append({"a": "read", "g": op["g"], "obj": "D1", "ctxMs": read_ctx_ms})
        elif a == "ackTick":
            steps.append({"a": "sleep", "ms": ack_flush_ms + 15})
        elif a == "close":
            for r in sorted(readers):
                steps.append({"a": "join", "obj": r})
            steps.append({"a": "closeDown", "g": "C", "obj": "D1", "ctxMs": 3000, "wait": True})
        elif a == "cut":
            steps.append({"a": "cut"})
        elif a == "redial":
            steps.append({"a": "await", "ev": "DownResumed", "ms": 4000})
    steps += [{"a": "quiesce"}, {"a": "downState", "obj": "D1"}, {"a": "closeConn", "g": "main2", "wait": True, "ctxMs": 2000}, {"a": "quiesce", "ms": 50}]
    return {"id": sid, "kind": "iscp", "conn": conn or {}, "steps": steps}
