#!/bin/bash
# Regression over the filed seeds: apply each seeded/<id>/patch.diff to a scratch worktree of /repo and run the quick check of the
# property it breaks against that tree; a seed whose check reports no VIOLATION is listed as LOST.
# usage: tools/seedregress.sh <slot> <nslots>   (runs the seeds whose index mod nslots == slot; results in .work/regress-<slot>.log)
slot=${1:-0}; n=${2:-1}
wt=/tmp/wt-reg-$slot
cd /verif
git -C /repo worktree remove --force $wt 2>/dev/null
git -C /repo worktree add -q --detach $wt main || exit 2
out=.work/regress-$slot.log; : > $out
i=0
for d in seeded/seed-*; do
  i=$((i+1)); [ $((i % n)) -eq $slot ] || continue
  id=$(basename $d); prop=$(echo $id | sed 's/seed-\(C[0-9]*\)-.*/\1/')
  (cd $wt && git reset -q --hard main && git clean -fdq && git apply /verif/$d/patch.diff) || { echo "$id APPLYFAIL" >> $out; continue; }
  v=$(VERIF_REPO=$wt ./check $prop 2>&1 | grep -c "^VIOLATION")
  if [ "$v" -gt 0 ]; then echo "$id caught $v" >> $out; else echo "$id LOST" >> $out; fi
done
git -C /repo worktree remove --force $wt
echo done >> $out
