#!/usr/bin/env python3
"""Write /verif/.work/seedprompts/<Cxx-n>.txt: the prompt for an independent adversary (sub-agent) that seeds one change.
The prompt contains ONLY the property text, generic instructions, and one-line summaries of earlier seeds for diversity -
nothing about /verif's machinery. usage: mkseedprompt.py C14-5 "look-for hint" """
import glob, json, os, sys

sid, look = sys.argv[1], (sys.argv[2] if len(sys.argv) > 2 else "")
pid = sid.split("-")[0]
prop = None
for l in open("/verif/properties.jsonl"):
    p = json.loads(l)
    if p["id"] == pid:
        prop = p
prev = []
for m in sorted(glob.glob("/verif/seeded/seed-%s-*/meta.json" % pid)):
    try:
        prev.append(json.load(open(m)).get("summary", "")[:150])
    except Exception:
        pass
tmpl = open("/verif/.work/seedprompts/C08-5.txt").read()
head = tmpl.split("The library is supposed to satisfy")[0].replace("C08-5", sid)
tail = tmpl.split("Also write a demonstration:")[1].replace("C08-5", sid).replace('"property": "C08"', '"property": "%s"' % pid)
mid = tmpl.split("Your task: produce ONE realistic change")[1].split("HINT (to diversify")[0]
body = 'The library is supposed to satisfy this semantic property (%s — "%s"):\n\nSTATEMENT: %s\n\nQUANTIFIER: %s\n\nCODE ANCHORS: %s\n\n' % (
    pid, prop["title"], prop["statement"], prop["quantifier"]["text"], ", ".join(prop["anchors"]["files"]))
hint = "HINT (to diversify across several adversaries): Already studied by earlier adversaries, do NOT reuse any of these ideas: " + " ; ".join(prev)
if look:
    hint += " — Look for something new: " + look
out = head + body + "Your task: produce ONE realistic change" + mid + hint + "\n\nAlso write a demonstration:" + tail
os.makedirs("/verif/.work/seedprompts", exist_ok=True)
open("/verif/.work/seedprompts/%s.txt" % sid, "w").write(out)
print(sid, len(out))
