#!/bin/sh
# usage: tools/seedcheck.sh <seed-worktree> <PROP> [more props...]
# Confirms an independently seeded change (patch applies to a clean tree at /repo HEAD, compiles, the package tests pass, the
# demonstration fails with it and passes without it), runs our quick check(s) against it, and files it under /verif/seeded/.
GO=go1.26; export GOFLAGS=-mod=mod GOPROXY=off GOSUMDB=off GOTOOLCHAIN=local
SEED="$1"; shift
ID=$(basename "$SEED")
OUT=/verif/seeded/$ID
WT=/tmp/wt-seedcheck
mkdir -p "$OUT"
cp "$SEED/SEED/patch.diff" "$SEED/SEED/demo_test.go" "$SEED/SEED/meta.json" "$OUT/" 2>/dev/null
[ -d "$WT" ] || git -C /repo worktree add -q "$WT" HEAD
git -C "$WT" checkout -q --detach main; git -C "$WT" reset -q --hard main; git -C "$WT" clean -qfd
DEMO_DIR=$(grep -o '"demo_cmd"[^,]*' "$OUT/meta.json" | grep -o '\./[a-z/]*' | head -1)
[ -z "$DEMO_DIR" ] && DEMO_DIR=./iscp/
DEMO_RUN=$(grep -o "\-run '[^']*'" "$OUT/meta.json" | head -1 | sed "s/-run '//; s/'//")
[ -z "$DEMO_RUN" ] && DEMO_RUN=$(grep -o '\-run [A-Za-z0-9_|^$]*' "$OUT/meta.json" | head -1 | sed 's/-run //')
cp "$OUT/demo_test.go" "$WT/$DEMO_DIR/seed_demo_test.go"
echo "== demo WITHOUT the change (must pass)"; (cd "$WT" && $GO test -count=1 -run "$DEMO_RUN" "$DEMO_DIR" 2>&1 | tail -2)
(cd "$WT" && git apply "$OUT/patch.diff") || { echo "PATCH DOES NOT APPLY"; exit 3; }
echo "== build"; (cd "$WT" && $GO build ./... && echo ok)
echo "== demo WITH the change (must fail)"; (cd "$WT" && $GO test -count=1 -run "$DEMO_RUN" "$DEMO_DIR" 2>&1 | tail -2)
rm -f "$WT/$DEMO_DIR/seed_demo_test.go"
echo "== suite with the change"; (cd "$WT" && $GO test -count=1 ./... 2>&1 | grep -E "^(FAIL|--- FAIL)" | head -5; echo "suite done")
for P in "$@"; do
  echo "== our check $P against the change"
  (cd /verif && VERIF_REPO="$WT" ./check "$P" 2>&1 | grep -E "VIOLATION|tier=|INCONCLUSIVE|KNOWN" | head -4)
done
git -C "$WT" reset -q --hard main; git -C "$WT" clean -qfd
