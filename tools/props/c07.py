"""C07 -- streams that share a connection are isolated from each other.
Part (a): the sent-chunk store (lock-step against SentStorage.tla, see c07a.py).
Part (b): paired runs on one connection: P alone vs P interleaved with Q; P's projection must not change."""
import os
from vlib import Ctx, main_wrap, pick, SPEC, Inconclusive
import upscripts as U
import c07a

CONN = {"pingMs": [100, 100], "dialDelayMs": 40}
NG = 17


def p_upstream(qos):
    """P: an upstream whose script is deterministic around the cut (awaits instead of races)."""
    o = {"a": "openUp", "obj": "P", "qos": qos, "must": True, "closeTimeoutMs": 2000}
    return {
        "open": [o],
        "before": [{"a": "write", "g": "WP", "obj": "P", "id": "A", "pts": [[1, 8]], "wait": True}, {"a": "flush", "g": "WP", "obj": "P", "wait": True},
                   {"a": "ack", "obj": "P", "seqs": [1], "ms": 1500}, {"a": "await", "ev": "HookAfter", "match": {"seq": 1}, "ms": 1500},
                   {"a": "write", "g": "WP", "obj": "P", "id": "B", "pts": [[2, 8], [3, 0]], "wait": True}, {"a": "flush", "g": "WP", "obj": "P", "wait": True},
                   {"a": "await", "ev": "BRecvChunk", "match": {"seq": 2}, "ms": 1500, "must": True}, {"a": "sleep", "ms": 20}],
        "after": [{"a": "sleep", "ms": 150}, {"a": "ack", "obj": "P", "all": True}, {"a": "sleep", "ms": 30},
                  {"a": "write", "g": "WP", "obj": "P", "id": "A", "pts": [[4, 8]], "ctxMs": 2000, "wait": True},
                  {"a": "flush", "g": "WP", "obj": "P", "ctxMs": 2000, "wait": True}, {"a": "sleep", "ms": 30}, {"a": "ack", "obj": "P", "all": True},
                  {"a": "closeUp", "g": "CP", "obj": "P", "ctxMs": 3000}, {"a": "ackUntilIdle", "obj": "P", "src": "CP", "ms": 3000}, {"a": "join", "obj": "CP"}],
    }


def p_upstream_ticker():
    """P: an upstream with the DEFAULT flush policy (interval 100 ms or 10000 bytes) that never calls Flush: its points leave by the ticker.
    State() is sampled 600 ms after each write: nothing may still be buffered - whatever other streams do with their tickers."""
    w = lambda t: [{"a": "write", "g": "WP", "obj": "P", "id": "A", "pts": [[t, 8]], "ctxMs": 2000, "wait": True}, {"a": "sleep", "ms": 600}, {"a": "state", "obj": "P"},
                   {"a": "ack", "obj": "P", "all": True}, {"a": "sleep", "ms": 30}]
    return {
        "open": [{"a": "openUp", "obj": "P", "qos": "reliable", "policy": {"k": "default"}, "must": True, "closeTimeoutMs": 2000}],
        "before": w(1) + w(2),
        "after": [{"a": "sleep", "ms": 150}] + w(3) + w(4) + [{"a": "closeUp", "g": "CP", "obj": "P", "ctxMs": 3000}, {"a": "ackUntilIdle", "obj": "P", "src": "CP", "ms": 3000},
                                                           {"a": "join", "obj": "CP"}],
    }


def p_downstream():
    o = {"a": "openDown", "obj": "P", "qos": "reliable", "srcs": ["n1"], "ackFlushMs": 20, "must": True}
    ch = lambda k, up, f: {"a": "sendChunk", "obj": "P", "up": up, "upF": f, "upAl": -1 if f == "alias" else 0, "seq": k,
                           "groups": [{"f": "id", "id": "A", "al": 0, "pts": [[k, 6]]}]}
    rd = {"a": "read", "g": "RP", "obj": "P", "ctxMs": 1500, "wait": True}
    return {
        "open": [o],
        "before": [ch(1, "X", "info"), dict(rd), {"a": "sleep", "ms": 45}, ch(2, "X", "alias"), dict(rd), ch(3, "Y", "info"), dict(rd), {"a": "sleep", "ms": 45}],
        "after": [{"a": "sleep", "ms": 150}, ch(4, "Y", "alias"), dict(rd), ch(5, "X", "alias"), dict(rd), {"a": "sleep", "ms": 45},
                  {"a": "closeDown", "g": "CP", "obj": "P", "ctxMs": 3000, "wait": True}],
    }


def p_downstream_late():
    """P: a downstream that is opened only after the connection has recovered (next to streams that survived the outage)."""
    ch = lambda k: {"a": "sendChunk", "obj": "P", "up": "X", "upF": "info", "upAl": 0, "seq": k, "groups": [{"f": "id", "id": "A", "al": 0, "pts": [[k, 6]]}]}
    rd = {"a": "read", "g": "RP", "obj": "P", "ctxMs": 1500, "wait": True}
    return {
        "open": [], "before": [],
        "after": [{"a": "sleep", "ms": 200}, {"a": "openDown", "g": "OP", "obj": "P", "qos": "reliable", "srcs": ["n1"], "ackFlushMs": 20, "ctxMs": 2000, "wait": True},
                  ch(1), dict(rd), ch(2), dict(rd), {"a": "sleep", "ms": 45}, {"a": "closeDown", "g": "CP", "obj": "P", "ctxMs": 3000, "wait": True}],
    }


def q_variants():
    """Q scripts: (open steps, steps before the cut, rules, steps after the recovery)."""
    wq = lambda tok: [{"a": "write", "g": "WQ", "obj": "Q", "id": "A", "pts": [[tok, 8]], "ctxMs": 2000, "wait": True},
                      {"a": "flush", "g": "WQ", "obj": "Q", "ctxMs": 2000, "wait": True}]
    v = {}
    v["none"] = ([], [], [], [])
    for qos in ("unreliable", "reliable", "partial"):
        v["up-" + qos] = ([{"a": "openUp", "obj": "Q", "qos": qos, "must": True, "closeTimeoutMs": 1000}], wq(101) + wq(102), [],
                          [{"a": "sleep", "ms": 100}] + wq(103) + [{"a": "ack", "obj": "Q", "all": True}])
    v["up-same-ids-acked"] = ([{"a": "openUp", "obj": "Q", "qos": "reliable", "must": True, "closeTimeoutMs": 1000}],
                              wq(101) + [{"a": "ack", "obj": "Q", "seqs": [1], "aliases": {"A": 77, "B": 78}}] + wq(102) + [{"a": "ack", "obj": "Q", "seqs": [2, 1]}], [],
                              wq(103) + [{"a": "ack", "obj": "Q", "all": True}, {"a": "closeUp", "g": "CQ", "obj": "Q", "ctxMs": 1500, "wait": True}])
    # Q uses the library's default flush policy as well (the same policy instance as a P that does not choose one) and is closed early
    v["up-default-closed-early"] = ([{"a": "openUp", "obj": "Q", "qos": "unreliable", "policy": {"k": "default"}, "must": True, "closeTimeoutMs": 500}],
                                    [{"a": "write", "g": "WQ", "obj": "Q", "id": "A", "pts": [[101, 8]], "ctxMs": 2000, "wait": True}, {"a": "sleep", "ms": 250},
                                     {"a": "ack", "obj": "Q", "all": True}, {"a": "closeUp", "g": "CQ", "obj": "Q", "ctxMs": 1500, "wait": True}], [], [])
    v["up-default"] = ([{"a": "openUp", "obj": "Q", "qos": "reliable", "policy": {"k": "default"}, "must": True, "closeTimeoutMs": 1000}],
                       [{"a": "write", "g": "WQ", "obj": "Q", "id": "A", "pts": [[101, 8]], "ctxMs": 2000, "wait": True}], [],
                       [{"a": "sleep", "ms": 100}, {"a": "write", "g": "WQ", "obj": "Q", "id": "A", "pts": [[102, 8]], "ctxMs": 2000, "wait": True}, {"a": "sleep", "ms": 250},
                        {"a": "ack", "obj": "Q", "all": True}, {"a": "closeUp", "g": "CQ", "obj": "Q", "ctxMs": 1500, "wait": True}])
    v["up-closed-before-cut"] = ([{"a": "openUp", "obj": "Q", "qos": "unreliable", "must": True, "closeTimeoutMs": 500}],
                                 wq(101) + [{"a": "ack", "obj": "Q", "all": True}, {"a": "closeUp", "g": "CQ", "obj": "Q", "ctxMs": 1500, "wait": True}], [], [])
    v["up-resume-refused"] = ([{"a": "openUp", "obj": "Q", "qos": "unreliable", "must": True, "closeTimeoutMs": 500}], wq(101),
                              [{"a": "rule", "rule": {"on": "UpstreamResumeRequest", "do": "code", "arg": NG, "nth": 1, "obj": "Q"}}], [{"a": "sleep", "ms": 100}])
    v["down"] = ([{"a": "openDown", "obj": "Q", "qos": "reliable", "srcs": ["n2"], "ackFlushMs": 20, "must": True}],
                 [{"a": "sendChunk", "obj": "Q", "up": "Z", "upF": "info", "upAl": 0, "seq": 1, "groups": [{"f": "id", "id": "A", "al": 0, "pts": [[201, 6]]}]},
                  {"a": "read", "g": "RQ", "obj": "Q", "ctxMs": 1500, "wait": True}], [],
                 [{"a": "sendChunk", "obj": "Q", "up": "Z", "upF": "info", "upAl": 0, "seq": 2, "groups": [{"f": "id", "id": "A", "al": 0, "pts": [[202, 6]]}]},
                  {"a": "read", "g": "RQ", "obj": "Q", "ctxMs": 1500, "wait": True}, {"a": "closeDown", "g": "CQ", "obj": "Q", "ctxMs": 1500, "wait": True}])
    # Q's close request stays unanswered while P carries traffic: P must not wait for Q's close
    v["down-close-pending"] = (v["down"][0], v["down"][1], [{"a": "rule", "rule": {"on": "DownstreamCloseRequest", "do": "hold", "arg": 2, "nth": 1, "obj": "Q"}}],
                               [{"a": "closeDown", "g": "CQ", "obj": "Q", "ctxMs": 4000},
                                {"a": "release", "gate": "hold2"}, {"a": "join", "obj": "CQ"}])
    v["up-close-pending"] = ([{"a": "openUp", "obj": "Q", "qos": "reliable", "must": True, "closeTimeoutMs": 500}], wq(101) + [{"a": "ack", "obj": "Q", "all": True}],
                             [{"a": "rule", "rule": {"on": "UpstreamCloseRequest", "do": "hold", "arg": 3, "nth": 1, "obj": "Q"}}],
                             [{"a": "closeUp", "g": "CQ", "obj": "Q", "ctxMs": 4000},
                              {"a": "release", "gate": "hold3"}, {"a": "join", "obj": "CQ"}])
    # Q is opened the moment the connection is back, while P (a survivor) is resuming
    v["down-open-at-recovery"] = ([], [], [], [{"a": "openDown", "g": "OQ", "obj": "Q", "qos": "reliable", "srcs": ["n2"], "ackFlushMs": 20, "ctxMs": 2000, "wait": True}]
                                  + v["down"][3])
    v["down-resume-refused"] = (v["down"][0], v["down"][1], [{"a": "rule", "rule": {"on": "DownstreamResumeRequest", "do": "code", "arg": NG, "nth": 1, "obj": "Q"}}], [{"a": "sleep", "ms": 100}])
    return v


def pair(pname, p, qname, q, cut):
    def build(role, q):
        qopen, qbefore, qrules, qafter = q
        # P is always opened first so that its alias / stream numbering does not depend on Q
        steps = [{"a": "connect", "must": True}] + p["open"] + qopen + qrules + p["before"][:len(p["before"]) // 2] + qbefore + p["before"][len(p["before"]) // 2:]
        if cut:
            steps += [{"a": "cut"}, {"a": "await", "ev": "Reconnected", "ms": 4000, "must": True}]
        steps += qafter[:1] + p["after"] + qafter[1:] + [{"a": "quiesce"}, {"a": "closeConn", "g": "X", "ctxMs": 2000, "wait": True}, {"a": "quiesce", "ms": 50}]
        return {"id": "C07/pair/%s/%s/%s/%s" % (pname, qname, "cut" if cut else "nocut", role), "kind": "iscp", "conn": dict(CONN), "steps": steps, "p": {"role": role}}
    return [build("solo", ([], [], [], [])), build("with", q)]


def run():
    ctx = Ctx("C07")
    quick = ctx.quick()
    ctx.assumptions += [
        "relational check: P's script is identical in the solo and in the interleaved run and deterministic around the cut (awaits instead of races); "
        "P's projection is normalised for arrival order, incarnation and alias numbers",
        "slow redial (40 ms) so that both streams observe the outage and resume side by side",
    ]
    n_a = c07a.run(ctx)          # part (a): store lock-step (L1 SentStorage + replay), judged into the same evidence
    # part (b)
    cfg = U.write_cfg("Upstream_c07.cfg", policy="none", maxw=2, sizes=(1,), zero=False, reliable=True, faults=1, dups=0, acks=2, grants=False,
                      conflicts=0, writers=("W1",), flushers=("F1",), invs=U.INV_C02)
    ctx.l1("Upstream", cfg, timeout=1200)
    os.remove(os.path.join(SPEC, cfg))
    scs = []
    qs = q_variants()
    for pname, p in (("up-reliable", p_upstream("reliable")), ("up-unreliable", p_upstream("unreliable")), ("down", p_downstream()), ("down-late", p_downstream_late()),
                     ("up-ticker", p_upstream_ticker())):
        for qname, q in qs.items():
            if qname == "none":
                continue
            if pname == "down-late" and qname not in ("down", "up-reliable"):
                continue
            if pname == "up-ticker" and qname not in ("up-default-closed-early", "up-default", "up-reliable", "up-resume-refused"):
                continue
            if pname != "up-ticker" and qname in ("up-default-closed-early", "up-default"):
                continue
            for cut in (True, False):
                if qname == "down-open-at-recovery" and not cut:
                    continue
                if quick and not cut and (pname == "down-late" or qname not in ("up-unreliable", "down", "up-same-ids-acked", "down-close-pending", "up-close-pending")):
                    continue
                scs += pair(pname, p, qname, q, cut)
    trace = ctx.run_scenarios(scs, "c07", par=1 if False else 6)
    # the solo and the interleaved run of a pair must be adjacent and in this order in the trace file (run_scenarios keeps scenario order)
    verdicts, _ = ctx.validate(trace, "MonC07", reset_with_state=True)
    ctx.judge(scs, trace, verdicts)
    # (c) a closed stream's wire-level identity (its stream alias) is handed to a new stream: the new stream is served as if the old one had never existed
    ar = U.alias_reuse_scenarios("C07")
    atrace = ctx.run_scenarios(ar, "c07ar", par=3)
    averdicts, _ = ctx.validate(atrace, "MonC01")
    ctx.judge(ar, atrace, averdicts)
    ctx.finish(rule="(a) every maximal Store/Remove/List/Clear sequence of the generator configurations of SentStorage.tla replayed lock-step on both real stores; "
                    "(b) paired runs: P in {reliable upstream, unreliable upstream, downstream} alone vs interleaved with Q in {unreliable/reliable/partial upstream, "
                    "upstream with the same data ids and reordered acks, upstream closed before the cut, upstream/downstream whose resume is refused, downstream} "
                    "with and without a link failure; non-trivial = verdict produced")


if __name__ == "__main__":
    main_wrap(run)
