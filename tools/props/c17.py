"""C17 -- negotiation parameters round-trip and both peers derive the same settings."""
import json
import os
import re
from vlib import Ctx, Inconclusive, main_wrap, pick, SPEC, log

GRID_Q = dict(enc='{"", "json", "proto", "bogus"}', comp='{"", "per-message", "context-takeover", "bogus"}',
              lvl="LvlAll", win="WinQ", tid='{"", "t", "a\\"b\\\\c&d=e <f>", "x+y%2Fz 100%", "LLLLLLLLLLLLLLLLLLLLLLLLLLLLLLLLLLLLLLLLLLLLLLLLLLLLLLLLLLLLLLLLLLLLLLLLLLLLLLLLLLLLLLLLLLLLLLLLLLLLLLLLLLLLLLLLLLLLLLLLLLLLLLLLLL"}', grp="{0, 1}", bases="{1, 2, 3, 4}")
GRID_T = dict(enc='{"", "json", "proto", "bogus", "JSON"}', comp='{"", "per-message", "context-takeover", "bogus", "Per-Message"}',
              lvl="LvlAll", win="WinT", tid='{"", "t", "a\\"b\\\\c&d=e <f>", "x+y%2Fz 100%", "LLLLLLLLLLLLLLLLLLLLLLLLLLLLLLLLLLLLLLLLLLLLLLLLLLLLLLLLLLLLLLLLLLLLLLLLLLLLLLLLLLLLLLLLLLLLLLLLLLLLLLLLLLLLLLLLLLLLLLLLLLLLLLLLLL", "MMMMMMMMMMMMMMMMMMMMMMMMMMMMMMMMMMMMMMMMMMMMMMMMMMMMMMMMMMMMMMMMMMMMMMMMMMMMMMMMMMMMMMMMMMMMMMMMMMMMMMMMMMMMMMMMMMMMMMMMMMMMMMMMMMMMMMMMMMMMMMMMMMMMMMMMMMMMMMMMMMMMMMMMMMMMMMMMMMMMMMMMMMMMMMMMMMMMMMMMMMMMMMMMMMMMMMMMMMMMMMMMMMMMMMMMMMMMMMMMMMMMMMMMMMMMMMMMMMMMMMMMMMMMMMMMMMMMMMMMMMMMMMMMMMMMMMMMMMMM"}', grp="{0, 1, 2, 3}", bases="{1, 2, 3, 4, 5, 6}")

CFG_TMPL = """SPECIFICATION Spec
CONSTANTS
  EncVals = %(enc)s
  CompVals = %(comp)s
  LvlVals <- %(lvl)s
  WinVals <- %(win)s
  RcVals = {FALSE, TRUE}
  TidVals = %(tid)s
  GrpVals = %(grp)s
  CorruptBaseIds = %(bases)s
  StrictKV = %(strict)s
INVARIANTS RoundTrip InvalidRejected PeersAgree BothEnds Modelled
CONSTRAINT GenPrint
CHECK_DEADLOCK FALSE
"""

# StrictKV=1: additionally claim that the already-decoded carriers (key/value map, URL values) reject
# invalid UTF-8 values and that the key/value map rejects an empty key (diagnostic reading, off by default)
STRICT = "TRUE" if os.environ.get("C17_STRICT_KV") else "FALSE"


def opt(o):
    return "nil" if not o else str(o[0])


def sc_id(op, tids, bases):
    m = op["match"]
    if op["a"] == "grid":
        return "C17/grid/%s.%s.l%s.w%s.r%d.t%d.g%s-%d-%d" % (m["enc"] or "_", m["comp"] or "_", opt(m["lvl"]), opt(m["win"]),
                                                            1 if m["rc"] else 0, tids.index(m["tid"]), m["tgid"] or "_",
                                                            m["tgcount"], m["tgidx"])
    return "C17/corrupt/%s.%s.b%d.i%d.o%d" % (m["carrier"], m["kind"], bases.index(json.dumps(m["pairs"])), m["idx"], m["off"])


def gen(ctx, grid, name):
    """Every grid point and every corruption as a one-operation scenario, with the model's expected outputs."""
    cfg = "Negotiation_gen_%s.cfg" % name
    with open(os.path.join(SPEC, cfg), "w") as f:
        f.write(CFG_TMPL % dict(grid, strict=STRICT))
    try:
        r = ctx.l1("Negotiation", cfg, timeout=900)
    finally:
        os.remove(os.path.join(SPEC, cfg))
    items = []
    for s in r.printed:
        if isinstance(s, str) and s.startswith("SCRIPT "):
            items.append(json.loads(s[7:]))
    tids = sorted({it["steps"][0]["match"]["tid"] for it in items if it["steps"][0]["a"] == "grid"})
    bases = sorted({json.dumps(it["steps"][0]["match"]["pairs"]) for it in items if it["steps"][0]["a"] == "corrupt"})
    scs = []
    for it in items:
        scs.append({"id": sc_id(it["steps"][0], tids, bases), "kind": "negotiation", "p": {"expect": it["expect"]}, "steps": it["steps"]})
    scs.sort(key=lambda s: s["id"])
    if len({s["id"] for s in scs}) != len(scs):
        raise Inconclusive("scenario ids are not unique")
    if len(scs) != r.distinct - 1:
        raise Inconclusive("TLC printed %d scripts for %d operations" % (len(scs), r.distinct - 1))
    return scs


def run():
    ctx = Ctx("C17")
    ctx.harness_cmd = "vhnegotiation"
    ctx.assumptions += [
        "level / window-bits ranges are claimed only when a compression type is named (Validate's `case \"\": // ok`); "
        "sets without a type and with an out-of-range level/window are counted (stat uncheckedNoType), not judged",
        "round trip is judged on a fresh zero value: Unmarshal(Marshal(p)) = p for every p the model calls valid",
        "a disabled configuration carries no mode/level/window (compress.Config doc): configurations are compared through Eff()",
        "PeersDisagree: dialer side = p.CompressConfig(BaseA) without Validate (as the dialers do), accepting side = "
        "Unmarshal from each carrier, Validate, CompressConfig(BaseB); only for sets naming type, level and window",
        "invalid UTF-8 is claimed for the QUIC binary form, the empty key for QUIC and URL values; for the already decoded "
        "key/value map / URL values only with C17_STRICT_KV=1 (not part of the verdict by default)",
        "arbitrary key/value maps and arbitrary byte strings are NOT claimed: only the grid and the finite corruption operators "
        "(truncate at every offset, zero-length key, duplicated key, invalid UTF-8 in key / value, length field larger than the rest, "
        "URL: empty key / two values / no value, key/value: non-numeric, empty, fractional number, bad boolean)",
    ]
    # L1: the model's own invariants over the whole grid and every corruption
    ctx.l1("Negotiation", "Negotiation_q.cfg")
    if not ctx.quick():
        ctx.l1("Negotiation", "Negotiation_t.cfg", timeout=1200)
    scs = gen(ctx, GRID_Q if ctx.quick() else GRID_T, "q" if ctx.quick() else "t")
    ngrid = len([s for s in scs if "/grid/" in s["id"]])
    log("[C17] %d grid points, %d corruptions" % (ngrid, len(scs) - ngrid))
    trace = ctx.run_scenarios(scs, "c17", par=16)
    verdicts, r = ctx.validate(trace, "MonC17", consts={"EncVals": "{}", "CompVals": "{}", "LvlVals": "{}", "WinVals": "{}",
                                                        "RcVals": "{}", "TidVals": "{}", "GrpVals": "{}", "CorruptBaseIds": "{}",
                                                        "StrictKV": STRICT}, timeout=1800)
    broken = [sc for sc, v in verdicts.items() if "HarnessLayout" in v.get("bad", [])]
    if broken:
        raise Inconclusive("harness and model disagree about the corrupted byte layout in %d scenarios, e.g. %s" % (len(broken), broken[0]))
    ctx.judge(scs, trace, verdicts)
    ctx.finish(rule="scenarios = every point of the grid encoding x compression type x level x window bits x reconnect x transport id x "
                    "transport-group fields and every corruption operator application enumerated by TLC from Negotiation.tla (one operation "
                    "each), executed on the real Validate / MarshalKeyValues / UnmarshalKeyValues / websocket+webtransport URL values / "
                    "quic Marshal+Unmarshal / CompressConfig; non-trivial = scenario whose NegOp event was compared with the model's "
                    "expected outputs by MonC17 (stats: valid, invalid, named, dialer, mustReject, prefixCut)",
               exhaustive=True)


if __name__ == "__main__":
    main_wrap(run)
