"""C01 -- upstream delivers every accepted data point exactly once, intact and accounted."""
import os
from vlib import Ctx, main_wrap, pick, SPEC
import upscripts as U


def run():
    ctx = Ctx("C01")
    ctx.assumptions += [
        "in-memory synchronous pipe transport: a client Write returns nil iff the broker read the message (loss-free link)",
        "writes concurrent with Close are outside the property's premise (history of calls that returned, followed by Close)",
        "ack-hook obligation: first result of every acknowledged chunk reported, never more reports than results sent "
        "(duplicate results racing the close may be dropped by design of the asynchronous dispatcher)",
    ]
    quick = ctx.quick()
    scs = []
    policies = ["none", "size", "immediate"] + ([] if quick else ["interval"])
    for pol in policies:
        # L1: exhaustive check of the design for this policy
        # thorough bounds fitted to measured state counts (16 M distinct states / 4.5 min for policy none with 3 writes; the other
        # policies need one dimension less to finish: no explicit flusher, no duplicate acks)
        cfg = U.write_cfg("Upstream_c01_%s.cfg" % pol, policy=pol, maxw=2 if quick else 3, sizes=(1, 3) if pol == "size" else (1,),
                          zero=(pol == "none" and not quick), dups=1 if (quick or pol == "none") else 0, acks=2,
                          flushers=("F1",) if pol == "none" else (), grants=(pol != "size"))
        ctx.l1("Upstream", cfg, timeout=1500)
        os.remove(os.path.join(SPEC, cfg))
        # scripts: random complete behaviours of a larger configuration (environment projection)
        gcfg = U.write_cfg("Upstream_c01_gen_%s.cfg" % pol, policy=pol, maxw=4, sizes=(1, 3), zero=True, dups=1, acks=3,
                           view=False, gen=True)
        r = ctx.tlc("Upstream", gcfg, workers=1, simulate="num=%d" % (150 if quick else 1500), depth=120, timeout=600)
        os.remove(os.path.join(SPEC, gcfg))
        if r.violated or r.error:
            from vlib import Inconclusive
            raise Inconclusive("simulation failed: %s" % (r.violated or r.error))
        scripts = U.scripts_of(r)
        scripts = pick(scripts, 40 if quick else 400, ctx.seed)
        for qos in (["reliable"] if quick else ["reliable", "unreliable", "partial"]):
            for k, sc in enumerate(scripts):
                scs.append(U.to_scenario("C01/%s/%s/%d" % (pol, qos, k), sc, policy=pol, qos=qos))
        # the same scripts over the JSON wire encoding (WithConnEncoding): payloads, elapsed times, ids and aliases survive it
        for k, sc in enumerate(scripts[:8] if quick else scripts[:100]):
            scs.append(U.to_scenario("C01/%s/json/%d" % (pol, k), sc, policy=pol, qos="reliable", conn={"encoding": "json"}))
        # the same scripts against a broker that reports a failure result for every odd-numbered chunk
        for k, sc in enumerate(scripts[:10] if quick else scripts):
            scs.append(U.to_scenario("C01/%s/rejected/%d" % (pol, k), sc, policy=pol, qos="reliable", reject=True))
        # unreliable QoS over a transport that offers a separate unreliable path (second in-memory pipe = AsUnreliable): the chunks
        # travel over the datagram-like path, acks and requests over the reliable one
        for k, sc in enumerate(scripts[:6] if quick else scripts):
            scs.append(U.to_scenario("C01/%s/unreliable-path/%d" % (pol, k), sc, policy=pol, qos="unreliable", conn={"unreliable": True}))
    scs += U.alias_reuse_scenarios("C01") + U.early_grant_scenarios("C01") + U.slow_ack_scenarios("C01") + U.empty_payload_scenarios("C01")
    # coupling spec <-> monitor (UpstreamMon.tla): the monitor MonC01 is fed, inside TLC, with the event stream an observer derives from
    # every behaviour of Upstream.tla; its safety clauses never fire and its final verdict is empty in every terminal state
    for pol in (["none"] if quick else ["none", "size", "immediate"]):
        cfg = U.write_cfg("UpstreamMon_c01_%s.cfg" % pol, policy=pol, maxw=2, sizes=(1, 3) if pol == "size" else (1,), dups=1, acks=2,
                          flushers=("F1",), mon=True, invs="MonSafetyHolds MonFinalHolds MonPremiseMet")
        ctx.l1("UpstreamMon", cfg, timeout=1500)
        os.remove(os.path.join(SPEC, cfg))
    # gated family: the transport completes concurrent chunk writes in a scripted order (hold chunk j while the later
    # ones go through and are acknowledged, then Close, then release) -- the schedule of the TLC counterexample to
    # NoChunkAfterClose found with CloseShortcut = TRUE (fixed in /repo, kept as regression)
    for n in (2, 3):
        for j in range(1, n):
            steps = [{"a": "connect", "must": True}, {"a": "openUp", "obj": "U1", "qos": "reliable", "must": True},
                     {"a": "rule", "rule": {"on": "UpstreamChunk", "seq": j, "do": "holdWrite", "gate": "g"}}]
            for k in range(1, n + 1):
                steps += [{"a": "write", "g": "W1", "obj": "U1", "id": "A", "pts": [[k, 8]]}, {"a": "flush", "g": "W1", "obj": "U1", "wait": True}]
            others = [k for k in range(1, n + 1) if k != j]
            steps += [{"a": "ack", "obj": "U1", "seqs": others, "ms": 1000},
                      {"a": "await", "ev": "HookAfter", "match": {"seq": n}, "ms": 1000}, {"a": "sleep", "ms": 20},
                      {"a": "closeUp", "g": "C", "obj": "U1", "ctxMs": 4000},
                      {"a": "await", "ev": "BRecvReq", "match": {"kind": "UpstreamCloseRequest"}, "ms": 300},
                      {"a": "release", "gate": "g"},
                      {"a": "ackUntilIdle", "obj": "U1", "src": "C", "ms": 4000}, {"a": "join", "obj": "C"}, {"a": "quiesce"},
                      {"a": "closeConn", "g": "main2", "wait": True, "ctxMs": 2000}, {"a": "quiesce", "ms": 50}]
            scs.append({"id": "C01/gated/hold%dof%d" % (j, n), "kind": "iscp", "conn": {}, "steps": steps})
    trace = ctx.run_scenarios(scs, "c01", par=16)
    verdicts, r = ctx.validate(trace, "MonC01")
    ctx.judge(scs, trace, verdicts)
    # many short-lived streams: write, then Close at once (judged per stream by MonC01m)
    wtc = U.write_then_close_scenarios("C01", rounds=250 if quick else 1000)
    trace2 = ctx.run_scenarios(wtc, "c01wtc", par=5)
    verdicts2, _ = ctx.validate(trace2, "MonC01m")
    ctx.judge(wtc, trace2, verdicts2)
    ctx.finish(rule="scenarios = environment projections (writes from 2 writers, explicit flushes, ticks, broker acks of any subset/order "
                    "with duplicates and alias grants, close) of random complete behaviours of Upstream.tla, replayed on a real "
                    "iscp upstream against the in-memory broker; distinct scripts only; non-trivial = premise of C01 held (no fault, "
                    "Close returned nil) and the monitor produced a verdict")


if __name__ == "__main__":
    main_wrap(run)
