"""C13 -- transports keep message boundaries, bytes and order in every compression mode."""
import json
import os
import random
import shutil
import time

from vlib import Ctx, Inconclusive, main_wrap, pick, SPEC, log

INVS = ("NoReaderRefused DictionariesEqual HeadDecodable ReadEqualsWrite InOrder NoInterleave NoDecodeFailure "
        "WindowIsSuffix NoWindowWithoutTakeover")

CFG_TMPL = """SPECIFICATION Spec
CONSTANTS
  MaxMsgs = %(maxmsgs)d
  Classes <- %(classes)s
  NWriters = %(nwriters)d
  Conc = %(conc)s
  Excl = %(excl)s
  WinLock = %(winlock)s
  Fault = "%(fault)s"
  ReadPolicy = "%(policy)s"
  StrictBackend = %(strict)s
  DrainAfterDecode = %(drain)s
  Modes <- %(modes)s
  Levels <- %(levels)s
  Bits <- %(bits)s
%(view)s
INVARIANTS %(invs)s
%(constraint)s
CHECK_DEADLOCK FALSE
"""

DEFAULTS = dict(maxmsgs=3, classes="ClassesAll", nwriters=1, conc="FALSE", excl="TRUE", winlock="TRUE", fault="none",
                policy="any", strict="TRUE", drain="TRUE", modes="ModesCt", levels="LevelsOne", bits="BitsOne", view="", invs=INVS, constraint="")

MON_CONSTS = {"MaxMsgs": 0, "Classes": "{}", "NWriters": 4, "Conc": "FALSE", "Excl": "TRUE", "WinLock": "TRUE",
              "Fault": '"none"', "ReadPolicy": '"any"', "StrictBackend": "TRUE", "DrainAfterDecode": "TRUE"}

CONTENTS = ["rep", "rnd", "mix"]
RCHUNKS = [0, 1, 7, 4096, 65536]


def retry(fn, *a, **kw):
    """Other checks add/remove files under spec/ and harness/ while vlib copies those trees; a copy that trips over a
    vanished file is retried (it is an infrastructure hiccup, never a verdict)."""
    for attempt in range(4):
        try:
            return fn(*a, **kw)
        except (shutil.Error, OSError) as e:
            log("[C13] retry after infrastructure error: %s" % str(e)[:200])
            time.sleep(1 + attempt)
    raise Inconclusive("infrastructure error persisted (concurrent modification of spec/ or harness/)")


def write_cfg(name, **kw):
    """Generator / sensitivity configurations are ordinary files of spec/ (rewritten only when their content differs and
    never removed, so that concurrent checks copying spec/ are not disturbed)."""
    d = dict(DEFAULTS)
    d.update(kw)
    cfg = "WsWindow_%s.cfg" % name
    path = os.path.join(SPEC, cfg)
    text = CFG_TMPL % d
    try:
        same = open(path).read() == text
    except OSError:
        same = False
    if not same:
        with open(path + ".tmp", "w") as f:
            f.write(text)
        os.replace(path + ".tmp", path)
    return cfg


def gen(ctx, name, **kw):
    """Run a generator configuration (no VIEW, CONSTRAINT GenPrint): every complete path is one script."""
    cfg = write_cfg("gen_%s_%s" % (name, "q" if ctx.quick() else "t"), constraint="CONSTRAINT GenPrint", **kw)
    r = retry(ctx.l1, "WsWindow", cfg, timeout=900)
    out = []
    for s in r.printed:
        if isinstance(s, str) and s.startswith("SCRIPT "):
            out.append(json.loads(s[7:]))
    out.sort(key=lambda sc: json.dumps(sc, sort_keys=True))   # TLC worker scheduling must not influence sampling
    return out


def sensitivity(ctx, name, expect, **kw):
    """A seeded model fault / weakened environment assumption must be caught by TLC (evidence that the
    specification is sensitive to exactly the mistakes the replay is meant to find)."""
    cfg = write_cfg("sens_" + name, view="VIEW StView", **kw)
    r = retry(ctx.l1, "WsWindow", cfg, must_hold=False, timeout=300)
    if r.violated != expect:
        raise Inconclusive("sensitivity run %s: expected violation of %s, TLC reported %s" % (name, expect, r.violated or r.error or "no error"))
    ctx.notes.append("model sensitivity: %s violates %s as expected" % (name, expect))


def class_len(cls, mode, bits, rnd):
    """Byte length of a message of the given class relative to the real window 2^bits. Lengths sit around 0, the window
    size, the DEFLATE window (32 KiB) and the stored-block limit (64 KiB)."""
    if cls == "z":
        return 0
    if mode != "ct":
        bits = 15          # no dictionary: take the classes relative to the DEFLATE window
    w = 1 << bits
    if bits > 20:          # the window never fills
        return {"lt": rnd.choice([1, 9, 32767]), "eq": rnd.choice([32768, 65535]),
                "gt": rnd.choice([65536, 65537]), "gg": rnd.choice([131073, 262149])}[cls]
    if cls == "lt":
        return rnd.choice([w - 1, max(w // 2, 1), 1]) if w > 1 else 0
    if cls == "eq":
        return w
    if cls == "gt":
        return rnd.choice([w + 1, w + 2, 2 * w - 1 if w > 2 else w + 1])
    return rnd.choice([2 * w + 1, 3 * w + 7, w + 65536, max(4 * w, 65537)])


def to_scenario(ctx, sid, script, idx, kind="wswindow", fam="seq", bits_override=None, excl=1):
    cfg = script[0]
    mode, level, bits = cfg["mode"], cfg["code"], cfg["n"]
    if bits_override is not None and mode == "ct":
        bits = bits_override
    rnd = random.Random(ctx.seed * 1000003 + idx)
    steps = []
    for op in script[1:]:
        st = {"a": op["a"]}
        if "tag" in op:
            st["tag"] = op["tag"]
        if op["a"] in ("write", "start"):
            n = class_len(op["mode"], mode, bits, rnd)
            if fam == "gated":
                n = max(n, 8)
            st["n"] = n
        steps.append(st)
    p = {"mode": mode, "level": level, "bits": bits, "content": CONTENTS[idx % 3], "rchunk": rnd.choice(RCHUNKS),
         "seed": rnd.randrange(1, 250), "fam": fam, "excl": excl, "backend": "gorilla" if idx % 4 == 3 else "coder"}
    return {"id": sid, "kind": kind, "p": p, "steps": steps}


def race_scenarios(ctx, n_ws, n_quic):
    scs = []
    rnd = random.Random(ctx.seed * 7919 + 13)
    lens_pool = [[64, 300, 8, 2000], [8], [1000, 33000, 20], [70000, 9, 40000], [256, 255, 257, 511, 513]]
    for i in range(n_ws):
        mode = ["ct", "ct", "pm", "off"][i % 4]
        p = {"mode": mode, "level": 0 if mode == "off" else rnd.choice([1, 2, 5, 6, 9]), "bits": rnd.choice([0, 1, 8, 9, 15, 32]) if mode == "ct" else 0,
             "content": CONTENTS[i % 3], "rchunk": rnd.choice(RCHUNKS), "seed": rnd.randrange(1, 250), "fam": "race", "excl": 1,
             "writers": 2 + i % 3, "per": rnd.choice([3, 5, 8]), "lens": rnd.choice(lens_pool), "backend": "gorilla" if i % 5 == 4 else "coder"}
        scs.append({"id": "C13/race/%d" % i, "kind": "wswindow", "p": p, "steps": []})
    for i in range(n_quic):
        mode = ["pm", "off"][i % 2]
        p = {"mode": mode, "level": 0 if mode == "off" else rnd.choice([1, 4, 6, 9]), "bits": 0,
             "content": CONTENTS[i % 3], "rchunk": rnd.choice(RCHUNKS), "seed": rnd.randrange(1, 250), "fam": "race", "excl": 1,
             "writers": 2 + i % 3, "per": rnd.choice([3, 5, 8]), "lens": rnd.choice(lens_pool)}
        scs.append({"id": "C13/qrace/%d" % i, "kind": "quicstream", "p": p, "steps": []})
    return scs


def big_scenarios(ctx):
    """Empty and multi-megabyte messages in one stream, every mode."""
    scs = []
    mb = 1 << 20
    lens_q = [0, mb + 3, 5, 0, 3 * mb + 1]
    lens_t = [0, 4 * mb + 7, 1, 0, 8 * mb, 65536, 2 * mb - 1]
    cfgs = [("off", 0, 0), ("pm", 1, 0), ("pm", 6, 0), ("ct", 6, 15), ("ct", 1, 32), ("ct", 9, 8)]
    if not ctx.quick():
        cfgs += [("pm", 9, 0), ("ct", 2, 16), ("ct", 6, 32), ("ct", 9, 15), ("ct", 4, 0), ("ct", 6, 20)]
    for i, (mode, level, bits) in enumerate(cfgs):
        for kind in ("wswindow", "quicstream"):
            if kind == "quicstream" and mode == "ct":
                continue
            lens = lens_q if ctx.quick() else lens_t
            steps = []
            for j, n in enumerate(lens):
                steps.append({"a": "write", "tag": 1, "n": n})
                if j % 2 == 1:
                    steps += [{"a": "read"}, {"a": "read"}]
            if len(lens) % 2 == 1:
                steps.append({"a": "read"})
            p = {"mode": mode, "level": level, "bits": bits, "content": CONTENTS[i % 3], "rchunk": [0, 4096, 65536][i % 3],
                 "seed": 40 + i, "fam": "seq", "excl": 1, "backend": "gorilla" if i % 3 == 2 else "coder"}
            scs.append({"id": "C13/big/%s/%d" % ("ws" if kind == "wswindow" else "quic", i), "kind": kind, "p": p, "steps": steps})
    return scs


def real_scenarios(ctx):
    """The real transport over each of the three real backends, dialled over loopback to an echo server that fragments its messages
    (data frames + empty final frame, as Conn.Writer of coder / nhooyr does) or sends one frame per message."""
    scs = []
    q = ctx.quick()
    cfgs = [("off", 0, 0), ("pm", 1, 0), ("pm", 6, 0), ("ct", 6, 15), ("ct", 1, 9), ("ct", 9, 32)]
    if not q:
        cfgs += [("pm", 9, 0), ("ct", 2, 8), ("ct", 5, 0), ("ct", 6, 1), ("pm", 3, 0), ("ct", 9, 15), ("off", 0, 15), ("ct", 0, 15)]
    lens_pool = [[150, 27000, 3, 0, 5000, 20000], [0, 0, 1, 600], [511, 513, 512, 29000, 2], [9000, 9000, 9000, 100]]
    k = 0
    for backend in ("coder", "gorilla", "nhooyr"):
        for server in ("frag", "single"):
            for ci, (mode, level, bits) in enumerate(cfgs):
                for pattern in ("pingpong", "lazy", "pairs"):
                    lens = lens_pool[(k + ci) % len(lens_pool)]
                    steps = []
                    if pattern == "pingpong":
                        for n in lens:
                            steps += [{"a": "write", "n": n}, {"a": "read"}]
                    elif pattern == "lazy":
                        steps = [{"a": "write", "n": n} for n in lens] + [{"a": "read"}] * len(lens)
                    else:
                        for j in range(0, len(lens), 2):
                            pair = lens[j:j + 2]
                            steps += [{"a": "write", "n": n} for n in pair] + [{"a": "read"}] * len(pair)
                    p = {"mode": mode, "level": level, "bits": bits, "backend": backend, "server": server, "content": CONTENTS[k % 3], "seed": 60 + k}
                    scs.append({"id": "C13/real/%s-%s/%s-%d-%d/%s" % (backend, server, mode, level, bits, pattern), "kind": "wsreal", "p": p, "steps": steps})
                    k += 1
    return scs


def wt_scenarios(ctx):
    """the real webtransport.Transport over a real WebTransport session (quic-go over loopback UDP) to a stream-echo server: empty, small,
    random and multi-megabyte highly repetitive messages in every compression mode it has (off, per message)."""
    scs = []
    mb = 1 << 20
    cfgs = [("off", 0), ("pm", 1), ("pm", 6), ("pm", 9)] if ctx.quick() else [("off", 0)] + [("pm", l) for l in range(1, 10)]
    lens = [150, 0, 10240, 300000, mb, 4 * mb + 5, 40]
    for i, (mode, level) in enumerate(cfgs):
        for j, content in enumerate(("rep", "rnd") if ctx.quick() else CONTENTS):
            steps = []
            for n in lens:
                steps += [{"a": "write", "n": n}, {"a": "read"}]
            steps += [{"a": "write", "n": 2000}, {"a": "write", "n": 70000}, {"a": "read"}, {"a": "read"}]
            scs.append({"id": "C13/wt/%s-%d/%s" % (mode, level, content), "kind": "wtreal",
                        "p": {"mode": mode, "level": level, "bits": 0, "content": content, "seed": 90 + 2 * i + j, "server": "stream", "backend": "webtransport"}, "steps": steps})
    return scs


def mix_scenarios(ctx):
    """reliable writers concurrent with datagram writers on one quic transport (StreamFraming with DWriters > 0)."""
    scs = []
    cfgs = [("pm", 6, 1, 1), ("pm", 1, 2, 1), ("pm", 9, 1, 2), ("off", 0, 2, 2)]
    if not ctx.quick():
        cfgs += [("pm", 6, 3, 2), ("pm", 4, 1, 1), ("pm", 2, 2, 2), ("pm", 6, 1, 3)]
    for i, (mode, level, writers, dwriters) in enumerate(cfgs):
        for j, lens in enumerate([[70000, 100000, 66000], [130000], [2000, 90000]]):
            p = {"mode": mode, "level": level, "writers": writers, "dwriters": dwriters, "per": 40 if ctx.quick() else 120, "lens": lens,
                 "seed": 80 + 3 * i + j, "content": CONTENTS[(i + j) % 3], "rchunk": [0, 4096, 65536][j]}
            scs.append({"id": "C13/qmix/%s-%d-w%d-d%d/%d" % (mode, level, writers, dwriters, j), "kind": "quicmix", "p": p, "steps": []})
    return scs


def run():
    ctx = Ctx("C13")
    ctx.harness_cmd = "vhwswindow"
    q = ctx.quick()
    ctx.assumptions += [
        "DEFLATE is not modelled: decode succeeds iff the frame's dictionary equals the reader's; byte fidelity for levels 1-9 is "
        "the oracle of the replay (Read result == written bytes) and of the independent decoder (compress/flate with its own "
        "dictionary bookkeeping: last min(total, 2^windowBits) bytes of the concatenated plaintext)",
        "the in-memory websocket.Conn keeps the two reader contracts of the backends: strict (coder - the default -, nhooyr: the next Reader() "
        "is refused until the previous message's reader reported the end of the message; a message written through Writer() is data frames "
        "plus an empty final frame, so the end is only seen by a Read call after the last data byte) and lenient (gorilla: the rest is discarded); "
        "the in-memory websocket.Conn serialises Writer() until Close() exactly like the default backend (github.com/coder/websocket); "
        "Transport.Write takes no lock of its own, so writer exclusivity is an assumption about the backend, not a fact about the transport "
        "(WsWindowConc with Excl=FALSE violates NoInterleave/HeadDecodable in the model)",
        "window sizes 2^31 and 2^32 are represented by 2^31-1 in the model (TLC integers); no scenario writes that many bytes",
        "QUIC: the real transport/quic.Transport runs over an in-memory quic.Connection (one byte pipe per unidirectional stream, "
        "arbitrary read fragmentation); the WebTransport transport runs over a real WebTransport session (quic-go over loopback UDP, "
        "self-signed certificate) against a stream-echo server (family wt); quic-go's network path under the QUIC transport itself is not exercised",
        "real WebSocket backends (family real): websocket.New over coder / gorilla / nhooyr connections dialled over loopback TCP to an echo "
        "server (fragmenting or single-frame); the one transport is writer and reader; messages stay below 32 KiB (the echo side's default "
        "read limit is lifted, the sizes keep the lazy pattern inside the socket buffers)",
    ]
    # ---- L1: exhaustive model checks
    retry(ctx.l1, "WsWindow", "WsWindow_q.cfg")
    retry(ctx.l1, "WsWindow", "WsWindowConc_q.cfg")
    retry(ctx.l1, "StreamFraming", "StreamFraming_q.cfg")
    # one compressor per transport instead of one per message: harmless between the reliable writers (send lock), corrupts messages as
    # soon as a datagram writer (no lock) runs concurrently
    r = retry(ctx.l1, "StreamFraming", "StreamFraming_sharedenc.cfg", must_hold=False)
    if r.violated != "NoCorruptMessage":
        raise Inconclusive("StreamFraming with a shared encoder and a datagram writer should violate NoCorruptMessage, got %s" % (r.violated or r.error))
    retry(ctx.l1, "StreamFraming", "StreamFraming_sharedenc_nodgram.cfg")
    # the reader contract of the backends: before the repair (DrainAfterDecode = FALSE) a strict backend (coder, nhooyr) refuses the
    # second compressed message; a lenient one (gorilla) does not care
    sensitivity(ctx, "nodrain_strict", "NoReaderRefused", modes="ModesPmCt", drain="FALSE", strict="TRUE")
    retry(ctx.l1, "WsWindow", write_cfg("nodrain_lenient", view="VIEW StView", modes="ModesAll", drain="FALSE", strict="FALSE"))
    if not q:
        retry(ctx.l1, "WsWindow", "WsWindow_t.cfg", timeout=1200)
        retry(ctx.l1, "WsWindow", "WsWindowConc_t.cfg", timeout=1200)
        retry(ctx.l1, "StreamFraming", "StreamFraming_t.cfg")
        # the window lock is redundant when the backend serialises writers
        retry(ctx.l1, "WsWindow", write_cfg("nolock", view="VIEW StView", conc="TRUE", nwriters=2, classes="ClassesConc", winlock="FALSE"))
        sensitivity(ctx, "nonexcl", "NoInterleave", conc="TRUE", nwriters=2, classes="ClassesConc", excl="FALSE")
        sensitivity(ctx, "nonexcl_decode", "HeadDecodable", conc="TRUE", nwriters=2, classes="ClassesConc", excl="FALSE",
                    invs="HeadDecodable NoDecodeFailure ReadEqualsWrite")
        sensitivity(ctx, "noTrimReader", "DictionariesEqual", fault="noTrimReader")
        sensitivity(ctx, "readerWPlus1", "DictionariesEqual", fault="readerWPlus1")
        sensitivity(ctx, "noTrimWriter", "WindowIsSuffix", fault="noTrimWriter")
        r = retry(ctx.l1, "StreamFraming", "StreamFraming_nolock.cfg", must_hold=False)
        if r.violated != "FramingIntact":
            raise Inconclusive("StreamFraming without the send lock should violate FramingIntact, got %s" % (r.violated or r.error))
        ctx.notes.append("model sensitivity: StreamFraming without sendMu violates FramingIntact as expected")

    # ---- scripts from TLC
    scs = []
    k = 0

    def add(fam_name, scripts, n_quick, n_thorough=None, core=0, **kw):
        nonlocal k
        chosen = pick(scripts, n_quick, ctx.seed, core=core) if q else (
            pick(scripts, n_thorough, ctx.seed) if n_thorough else scripts)
        for i, s in enumerate(chosen):
            scs.append(to_scenario(ctx, "C13/%s/%d" % (fam_name, i), s, k, **kw))
            k += 1
        log("[C13] family %s: %d scripts generated, %d used" % (fam_name, len(scripts), len(chosen)))

    # configuration grid: mode x level 0..9 x window bits x all class sequences (read after every write)
    grid = gen(ctx, "grid", maxmsgs=2 if q else 3, policy="eager", modes="ModesAll", levels="LevelsAll",
               bits="BitsGrid" if q else "BitsGridT")
    add("grid", grid, 500)
    # the same scripts (modes without dictionary) on the QUIC stream transport
    qgrid = [s for s in grid if s[0]["mode"] != "ct"]
    add("qgrid", qgrid, 100, kind="quicstream")
    # deep class sequences in context-takeover mode
    deep = gen(ctx, "deep", maxmsgs=4 if q else 6, policy="eager")
    for b, nq, nt in ((8, 120, None), (1, 40, 3000), (15, 40, 3000), (0, 20, 1000)):
        add("deep%d" % b, deep, nq, nt, bits_override=b)
    lazy = gen(ctx, "lazy", maxmsgs=4 if q else 5, policy="lazy")
    add("lazy", lazy, 60, bits_override=9)
    anyp = gen(ctx, "any", maxmsgs=3 if q else 4, policy="any")
    add("any", anyp, 100, bits_override=8)
    add("any1", anyp, 40, 4000, bits_override=1)
    # gated concurrent writers: every interleaving of Writer()/encode/write/Close of two goroutines and the reader
    gated = gen(ctx, "gated", maxmsgs=2 if q else 3, conc="TRUE", nwriters=2, classes="ClassesOne" if q else "ClassesConc",
                policy="any", modes="ModesPmCt" if not q else "ModesCt")
    add("gated", gated, 120, 25000, fam="gated", bits_override=8)
    scs += race_scenarios(ctx, 24 if q else 200, 16 if q else 120)
    scs += big_scenarios(ctx)

    # diagnostic (never a verdict): a backend that does NOT serialise Writer() -- two writers, the frame encoded second is
    # closed (put on the wire) first.  The model predicts that the reader cannot decode it (HeadDecodable fails).
    diag = {"id": "C13/diag/nonexcl", "kind": "wswindow",
            "p": {"mode": "ct", "level": 6, "bits": 15, "content": "rep", "rchunk": 0, "seed": 7, "fam": "gated", "excl": 0},
            "steps": [{"a": "start", "tag": 1, "n": 300}, {"a": "start", "tag": 2, "n": 300},
                      {"a": "acq", "tag": 1}, {"a": "enc", "tag": 1}, {"a": "emit", "tag": 1},
                      {"a": "acq", "tag": 2}, {"a": "enc", "tag": 2}, {"a": "emit", "tag": 2},
                      {"a": "rel", "tag": 2}, {"a": "rel", "tag": 1}, {"a": "read"}, {"a": "read"}]}
    scs.append(diag)
    retry(ctx.build_harness)
    trace = ctx.run_scenarios(scs, "c13", par=8, timeout=1500)
    verdicts, r = retry(ctx.validate, trace, "MonC13", consts=MON_CONSTS, timeout=1200)
    for sc, v in list(verdicts.items()):
        if "ScriptNotEnabled" in v.get("bad", []):
            ctx.notes.append("%s: a scripted step was not enabled in the model (script/harness problem) -- not judged" % sc)
            del verdicts[sc]
    dv = verdicts.get(diag["id"])
    if dv is not None:
        ctx.notes.append("diagnostic %s (backend without writer exclusivity, outside the property's premises): model verdict %s -- "
                         "%s" % (diag["id"], sorted(dv.get("bad", [])),
                                 "the real transport fails exactly where the model predicts" if "ModelInvariant" in dv.get("bad", [])
                                 and len(dv.get("bad", [])) > 1 else "no divergence observed"))
    ctx.judge(scs, trace, verdicts, clause_filter=lambda sc, b: not sc.startswith("C13/diag/"))
    # the real backends over loopback
    real = real_scenarios(ctx)
    nreal = 0
    for backend in ("coder", "gorilla", "nhooyr"):     # one harness binary per backend (a backend package registers itself on import)
        part = [s for s in real if s["p"]["backend"] == backend]
        trace2 = ctx.run_scenarios(part, "c13real-" + backend, par=8, timeout=1500, cmd="vhwsreal-" + backend)
        verdicts2, _ = retry(ctx.validate, trace2, "MonC13r", consts=MON_CONSTS, timeout=1200)
        nreal += ctx.judge(part, trace2, verdicts2)
    mix = mix_scenarios(ctx)
    trace3 = ctx.run_scenarios(mix, "c13mix", par=4, timeout=1500)
    verdicts3, _ = retry(ctx.validate, trace3, "MonC13r", consts=MON_CONSTS, timeout=1200)
    ctx.judge(mix, trace3, verdicts3)
    wt = wt_scenarios(ctx)
    trace4 = ctx.run_scenarios(wt, "c13wt", par=4, timeout=1500)
    verdicts4, _ = retry(ctx.validate, trace4, "MonC13r", consts=MON_CONSTS, timeout=1200)
    nwt = ctx.judge(wt, trace4, verdicts4)
    if nwt < len(wt) // 2:
        raise Inconclusive("only %d of %d WebTransport scenarios could be judged (no loopback UDP?)" % (nwt, len(wt)))
    if nreal < len(real) // 2:
        raise Inconclusive("only %d of %d real-backend scenarios could be judged (no loopback listener?)" % (nreal, len(real)))
    if ctx.violations:
        by = {}
        for sc, clause, _ in ctx.violations:
            key = "%s@%s" % (clause, sc.split("/")[1])
            by[key] = by.get(key, 0) + 1
        log("[C13] violations by clause@family: %s" % json.dumps(by, sort_keys=True))
        ctx.notes.append("violations by clause@family: %s" % json.dumps(by, sort_keys=True))
    ctx.finish(rule="scenarios = complete paths of the generator configurations of WsWindow.tla (configuration grid mode x level 0..9 x "
                    "window bits x message-class sequences; deep class sequences; eager/lazy/any read interleavings; gated interleavings "
                    "of two concurrent writers) replayed lock-step on a real websocket.New pair (in-memory Conn) and a real quic.New pair "
                    "(in-memory Connection), plus free-running concurrent writers and multi-megabyte messages, plus the same model applied to the "
                    "real transport over the three real WebSocket backends against a loopback echo server; non-trivial = scenario "
                    "whose trace was consumed completely by the monitor with a verdict",
               exhaustive=not q)


def run_guarded():
    try:
        run()
    except (Inconclusive, SystemExit):
        raise
    except Exception as e:      # an orchestration error is never a verdict about the code
        raise Inconclusive("orchestration error: %r" % (e,))


if __name__ == "__main__":
    main_wrap(run_guarded)
