"""C08 -- no API call blocks forever: context, close timeout and keep-alive bound every wait."""
import os
from vlib import Ctx, main_wrap, pick, SPEC, Inconclusive

CTX = 300
PROBE_CTX = 2000


def blocking_cfg(name, kinds, leak, wakes, held, buffered=True, hook_under_lock=False, wake_under_lock=True):
    b = lambda x: "TRUE" if x else "FALSE"
    with open(os.path.join(SPEC, name), "w") as f:
        f.write("SPECIFICATION Spec\nCONSTANTS\n  Kinds <- %s\n  LeakRLock = %s\n  CloseWaitWakes = %s\n  MuHeldDuringWait = %s\n  ResultChBuffered = %s\n  HookUnderLock = %s\n  Hooks = %s\n  WakeUnderLock = %s\n  MaxMeta = 2\n"
                "INVARIANTS NoLockLeak NoOverrun NoStuckHandOver NoHookUnderLock NoLostWakeup\nPROPERTIES EveryCallReturns\nCHECK_DEADLOCK FALSE\n" % (kinds, b(leak), b(wakes), b(held), b(buffered), b(hook_under_lock), b(kinds == "KindsC"), b(wake_under_lock)))
    return name


def probes():
    return [{"a": "mark", "mode": "probe"}, {"a": "clearRules"}, {"a": "silent", "mode": "off"}, {"a": "pongOff", "mode": "off"},
            {"a": "ackMode", "mode": "auto"}, {"a": "callAckMode", "mode": "auto"},
            {"a": "sendMeta", "g": "PR", "tag": 90, "ctxMs": PROBE_CTX, "wait": True},
            {"a": "sendCall", "callID": "probe-call", "tag": 191}, {"a": "recvCall", "g": "PR", "ctxMs": PROBE_CTX, "wait": True},
            {"a": "openDown", "g": "PR", "obj": "DP", "qos": "reliable", "srcs": ["n1"], "ctxMs": PROBE_CTX, "wait": True},
            {"a": "closeDown", "g": "PR", "obj": "DP", "ctxMs": PROBE_CTX, "wait": True},
            {"a": "openUp", "g": "PR", "obj": "UP", "qos": "reliable", "ctxMs": PROBE_CTX, "closeTimeoutMs": 1000, "wait": True},
            {"a": "write", "g": "PR", "obj": "UP", "id": "A", "pts": [[77, 4]], "ctxMs": PROBE_CTX, "wait": True},
            {"a": "flush", "g": "PR", "obj": "UP", "ctxMs": PROBE_CTX, "wait": True},
            {"a": "closeUp", "g": "PR", "obj": "UP", "ctxMs": PROBE_CTX, "wait": True},
            {"a": "closeConn", "g": "PR", "ctxMs": PROBE_CTX, "wait": True}, {"a": "quiesce", "ms": 50}]


ADV = [("drop", {"do": "drop"}), ("late", {"do": "delay", "arg": 900}), ("soon", {"do": "delay", "arg": 100}), ("misaddr", {"do": "misaddr"}),
       ("disconnect", {"do": "cutOnRecv"}), ("refuse", {"do": "code", "arg": 19})]

REQS = [  # (name, message kind, setup steps, the call under test)
    ("openUp", "UpstreamOpenRequest", [], {"a": "openUp", "g": "T", "obj": "U1", "qos": "reliable", "ctxMs": CTX}),
    ("openDown", "DownstreamOpenRequest", [], {"a": "openDown", "g": "T", "obj": "D1", "qos": "reliable", "srcs": ["n1"], "ctxMs": CTX}),
    ("sendMeta", "UpstreamMetadata", [], {"a": "sendMeta", "g": "T", "tag": 1, "ctxMs": CTX}),
    ("closeUpReq", "UpstreamCloseRequest", [{"a": "openUp", "obj": "U1", "qos": "reliable", "closeTimeoutMs": 200, "must": True}],
     {"a": "closeUp", "g": "T", "obj": "U1", "ctxMs": CTX}),
    ("closeDownReq", "DownstreamCloseRequest", [{"a": "openDown", "obj": "D1", "qos": "reliable", "srcs": ["n1"], "ackFlushMs": 20, "must": True}],
     {"a": "closeDown", "g": "T", "obj": "D1", "ctxMs": CTX}),
]


def family(quick):
    scs = []
    conn = {"pingMs": [200, 100]}
    base = [{"a": "connect", "must": True}]
    # (1) every request kind x every adversary behaviour at its message
    for name, kind, setup, call in REQS:
        for aname, rule in ADV:
            steps = base + setup + [{"a": "rule", "rule": dict(rule, on=kind, nth=1)}, dict(call), {"a": "join", "obj": "T"}, {"a": "sleep", "ms": 150}]
            if aname == "late":
                steps.append({"a": "sleep", "ms": 800})
            scs.append({"id": "C08/req/%s/%s" % (name, aname), "kind": "iscp", "conn": dict(conn), "steps": steps + probes()})
    # (2) waits that only a context / close timeout / keep-alive can end
    up = [{"a": "openUp", "obj": "U1", "qos": "reliable", "closeTimeoutMs": 250, "must": True}, {"a": "ackMode", "mode": "manual"},
          {"a": "write", "g": "W", "obj": "U1", "id": "A", "pts": [[1, 4]], "wait": True}, {"a": "flush", "g": "W", "obj": "U1", "wait": True}]
    scs.append({"id": "C08/wait/closeUp-neverAcked-closeTimeout", "kind": "iscp", "conn": dict(conn),
                "steps": base + up + [{"a": "closeUp", "g": "T", "obj": "U1", "ctxMs": 3000, "boundMs": 250, "wait": True}] + probes()})
    scs.append({"id": "C08/wait/closeUp-neverAcked-ctx", "kind": "iscp", "conn": dict(conn),
                "steps": base + [{"a": "openUp", "obj": "U1", "qos": "reliable", "closeTimeoutMs": 5000, "must": True}] + up[1:]
                + [{"a": "closeUp", "g": "T", "obj": "U1", "ctxMs": CTX, "wait": True}] + probes()})
    # the acknowledgement never comes AND the broker ignores the close request: the context that was used up by the first wait (or that
    # was already done at the call) still bounds the second one
    drop_close = [{"a": "rule", "rule": {"on": "UpstreamCloseRequest", "do": "drop"}}]
    scs.append({"id": "C08/wait/closeUp-neverAcked-ctx-closeDropped", "kind": "iscp", "conn": dict(conn),
                "steps": base + [{"a": "openUp", "obj": "U1", "qos": "reliable", "closeTimeoutMs": 5000, "must": True}] + up[1:] + drop_close
                + [{"a": "closeUp", "g": "T", "obj": "U1", "ctxMs": CTX, "wait": True}] + probes()})
    scs.append({"id": "C08/wait/closeUp-doneCtx-closeDropped", "kind": "iscp", "conn": dict(conn),
                "steps": base + [{"a": "openUp", "obj": "U1", "qos": "reliable", "closeTimeoutMs": 5000, "must": True}] + drop_close
                + [{"a": "closeUp", "g": "T", "obj": "U1", "ctxMs": -1, "boundMs": 50, "wait": True}] + probes()})
    scs.append({"id": "C08/wait/closeDown-doneCtx-closeDropped", "kind": "iscp", "conn": dict(conn),
                "steps": base + [{"a": "openDown", "obj": "D1", "qos": "reliable", "srcs": ["n1"], "ackFlushMs": 20, "must": True},
                                 {"a": "rule", "rule": {"on": "DownstreamCloseRequest", "do": "drop"}},
                                 {"a": "closeDown", "g": "T", "obj": "D1", "ctxMs": -1, "boundMs": 50, "wait": True}] + probes()})
    dn = [{"a": "openDown", "obj": "D1", "qos": "reliable", "srcs": ["n1"], "ackFlushMs": 20, "must": True}]
    for op in ("read", "readMeta"):
        scs.append({"id": "C08/wait/%s-noData" % op, "kind": "iscp", "conn": dict(conn),
                    "steps": base + dn + [{"a": op, "g": "T", "obj": "D1", "ctxMs": CTX, "wait": True}] + probes()})
    for op in ("recvCall", "recvReply"):
        scs.append({"id": "C08/wait/%s-noData" % op, "kind": "iscp", "conn": dict(conn),
                    "steps": base + [{"a": op, "g": "T", "ctxMs": CTX, "wait": True}] + probes()})
    for op, mode in (("call", "manual"), ("callWait", "auto"), ("replyCall", "manual")):
        scs.append({"id": "C08/wait/%s-unanswered" % op, "kind": "iscp", "conn": dict(conn),
                    "steps": base + [{"a": "callAckMode", "mode": mode}, {"a": op, "g": "T", "tag": 3, "reqID": "x", "ctxMs": CTX, "wait": True}] + probes()})
    # write / flush while the stream is between two connections (outage with a hanging redial)
    scs.append({"id": "C08/wait/write-flush-during-outage", "kind": "iscp", "conn": dict(conn, dialDelayMs=40),
                "steps": base + [{"a": "openUp", "obj": "U1", "qos": "reliable", "closeTimeoutMs": 250, "must": True},
                                 {"a": "dialPlan", "dial": [{"do": "ok", "gate": "g1"}]}, {"a": "cut"},
                                 {"a": "await", "ev": "Dial", "match": {"n": 2}, "ms": 3000, "must": True}, {"a": "sleep", "ms": 50},
                                 {"a": "write", "g": "T", "obj": "U1", "id": "A", "pts": [[2, 4]], "ctxMs": CTX, "wait": True},
                                 {"a": "flush", "g": "T", "obj": "U1", "ctxMs": CTX, "wait": True},
                                 {"a": "sendMeta", "g": "T", "tag": 4, "ctxMs": CTX, "wait": True},
                                 {"a": "call", "g": "T", "tag": 5, "ctxMs": CTX, "wait": True},
                                 {"a": "replyCall", "g": "T", "tag": 6, "reqID": "x", "ctxMs": CTX, "wait": True},
                                 {"a": "callWait", "g": "T", "tag": 7, "ctxMs": CTX, "wait": True},
                                 {"a": "recvCall", "g": "T", "ctxMs": CTX, "wait": True}, {"a": "recvReply", "g": "T", "ctxMs": CTX, "wait": True},
                                 {"a": "openUp", "g": "T", "obj": "U7", "qos": "reliable", "ctxMs": CTX, "wait": True},
                                 {"a": "openDown", "g": "T", "obj": "D7", "qos": "reliable", "srcs": ["n1"], "ctxMs": CTX, "wait": True},
                                 {"a": "state", "obj": "U1"},
                                 {"a": "closeUp", "g": "T", "obj": "U1", "ctxMs": CTX, "wait": True},
                                 {"a": "release", "gate": "g1"}, {"a": "await", "ev": "Reconnected", "ms": 3000}, {"a": "sleep", "ms": 200}] + probes()})
    # (3) broker completely silent (not even pongs): calls without a deadline are bounded by keep-alive detection + redial + re-send
    for name, call in (("sendMeta", {"a": "sendMeta", "g": "T", "tag": 5}), ("openUp", {"a": "openUp", "g": "T", "obj": "U1", "qos": "reliable"}),
                       ("openDown", {"a": "openDown", "g": "T", "obj": "D1", "qos": "reliable", "srcs": ["n1"]})):
        scs.append({"id": "C08/silent/%s-noDeadline" % name, "kind": "iscp", "conn": dict(conn),
                    "steps": base + [{"a": "silent", "mode": "on"}, dict(call, boundMs=1500),
                                     {"a": "await", "ev": "Dial", "match": {"n": 2}, "ms": 3000}, {"a": "silent", "mode": "off"},
                                     {"a": "join", "obj": "T"}, {"a": "sleep", "ms": 100}] + probes()})
    # (4) two concurrent calls: the second must not queue behind the first one's silent broker
    for second in ({"a": "sendMeta", "g": "P2", "tag": 6, "ctxMs": CTX}, {"a": "openDown", "g": "P2", "obj": "D2", "qos": "reliable", "srcs": ["n1"], "ctxMs": CTX},
                   {"a": "call", "g": "P2", "tag": 7, "ctxMs": CTX}, {"a": "openUp", "g": "P2", "obj": "U2", "qos": "reliable", "ctxMs": CTX}):
        for first, kind in (({"a": "openUp", "g": "P1", "obj": "U1", "qos": "reliable", "ctxMs": 1500}, "UpstreamOpenRequest"),
                            ({"a": "sendMeta", "g": "P1", "tag": 8, "ctxMs": 1500}, "UpstreamMetadata")):
            if second["a"] == first["a"]:
                continue
            scs.append({"id": "C08/convoy/%s-behind-%s" % (second["a"], first["a"]), "kind": "iscp", "conn": dict(conn),
                        "steps": base + [{"a": "rule", "rule": {"on": kind, "nth": 1, "do": "drop"}}, dict(first),
                                         {"a": "await", "ev": "BRecvReq", "match": {"kind": kind}, "ms": 1000}, dict(second),
                                         {"a": "join", "obj": "P2"}, {"a": "join", "obj": "P1"}] + probes()})
    # (5) misaddressed traffic: unknown stream aliases, unknown source node, unknown request id, unknown call id
    mis = base + up[:1] + dn + [
        {"a": "ack", "obj": "U1", "seqs": [], "aliases": {"A": 5}, "upAl": 999},
        {"a": "sendChunk", "obj": "D1", "up": "X", "upF": "info", "upAl": 0, "seq": 1, "c": 999, "groups": [{"f": "id", "id": "A", "al": 0, "pts": [[1, 4]]}]},
        {"a": "sendChunk", "obj": "D1", "up": "X", "upF": "alias", "upAl": 99, "seq": 2, "groups": [{"f": "al", "id": "A", "al": 99, "pts": [[2, 4]]}]},
        {"a": "sendDownMeta", "obj": "D1", "src": "zz", "tag": 1}, {"a": "sendDownMeta", "obj": "D1", "src": "n1", "tag": 2, "upAl": 999},
        {"a": "sendResp", "tag": 4242}, {"a": "sendResp", "tag": 7}, {"a": "sendCallAck", "callID": "nobody", "code": 1},
        {"a": "sendCall", "callID": "c1", "reqID": "nobody", "tag": 1},
        {"a": "read", "g": "T", "obj": "D1", "ctxMs": CTX, "wait": True}, {"a": "sleep", "ms": 50},
        # known upstream, unknown data-id alias (the second lookup of the same function), then a good chunk: the stream must go on
        {"a": "sendChunk", "obj": "D1", "up": "X", "upF": "info", "upAl": 0, "seq": 3, "groups": [{"f": "id", "id": "A", "al": 0, "pts": [[3, 4]]}, {"f": "al", "id": "B", "al": 98, "pts": [[4, 4]]}]},
        {"a": "read", "g": "T", "obj": "D1", "ctxMs": CTX, "wait": True},
        {"a": "sendChunk", "obj": "D1", "up": "X", "upF": "info", "upAl": 0, "seq": 4, "groups": [{"f": "id", "id": "A", "al": 0, "pts": [[5, 4]]}]},
        {"a": "read", "g": "T", "obj": "D1", "ctxMs": CTX, "wait": True}, {"a": "downState", "obj": "D1"}, {"a": "sleep", "ms": 50},
        {"a": "closeDown", "g": "T", "obj": "D1", "ctxMs": 1000, "wait": True}, {"a": "ackMode", "mode": "auto"},
        {"a": "closeUp", "g": "T", "obj": "U1", "ctxMs": 1000, "wait": True}]
    scs.append({"id": "C08/misaddressed/all", "kind": "iscp", "conn": dict(conn), "steps": mis + probes()})
    # (6) connection Close while another call holds the broker's attention
    scs.append({"id": "C08/closeConn/behind-silent-open", "kind": "iscp", "conn": dict(conn),
                "steps": base + [{"a": "rule", "rule": {"on": "UpstreamOpenRequest", "nth": 1, "do": "drop"}},
                                 {"a": "openUp", "g": "P1", "obj": "U1", "qos": "reliable", "ctxMs": 1500},
                                 {"a": "await", "ev": "BRecvReq", "match": {"kind": "UpstreamOpenRequest"}, "ms": 1000},
                                 {"a": "closeConn", "g": "T", "ctxMs": CTX, "wait": True}, {"a": "join", "obj": "P1"}, {"a": "quiesce", "ms": 50}]})
    # (7) a peer that is alive but has stopped reading: the connection Close must still return within its context
    #     (a Read already in progress on the broker side may still consume one message: then Close simply succeeds).
    #     NOT claimed: request/chunk writes to a peer that does not read -- transport writes are not context-aware (DESIGN section 7).
    for k in (1, 2):
        scs.append({"id": "C08/noread/closeConn/%d" % k, "kind": "iscp", "conn": {"pingMs": [5000, 1000]},
                    "steps": base + [{"a": "sendMeta", "g": "P1", "tag": 9, "ctxMs": 1000, "wait": True}] * (k - 1)
                    + [{"a": "stopReading"}, {"a": "sleep", "ms": 30}, {"a": "closeConn", "g": "T", "ctxMs": CTX, "wait": True}, {"a": "quiesce", "ms": 50}]})
    # (8) the broker delays an acknowledgement beyond the stream's ack timeout (the sender has given up waiting for it): the result must be
    #     absorbed without holding up the stream - every later call on it still returns within its bound
    late = base + [{"a": "openUp", "obj": "U1", "qos": "reliable", "closeTimeoutMs": 250, "ackTimeoutMs": 100, "policy": {"k": "immediate"}, "must": True},
                   {"a": "ackMode", "mode": "manual"}, {"a": "write", "g": "W", "obj": "U1", "id": "A", "pts": [[1, 4]], "ctxMs": 1000, "wait": True},
                   {"a": "await", "ev": "BRecvChunk", "match": {"seq": 1}, "ms": 1000, "must": True}, {"a": "sleep", "ms": 300},
                   {"a": "ack", "obj": "U1", "seqs": [1]}, {"a": "sleep", "ms": 60}]
    for name, call in (("write", {"a": "write", "g": "T", "obj": "U1", "id": "A", "pts": [[2, 4]], "ctxMs": CTX, "wait": True}),
                       ("flush", {"a": "flush", "g": "T", "obj": "U1", "ctxMs": CTX, "wait": True}),
                       ("state", {"a": "state", "obj": "U1"}),
                       ("closeUp", {"a": "closeUp", "g": "T", "obj": "U1", "ctxMs": CTX, "wait": True}),
                       ("closeConn", {"a": "closeConn", "g": "T", "ctxMs": CTX, "wait": True})):
        tail = probes() if name != "closeConn" else [{"a": "quiesce", "ms": 50}]
        scs.append({"id": "C08/lateAck/%s" % name, "kind": "iscp", "conn": dict(conn),
                    "steps": late + [call, {"a": "ackMode", "mode": "auto"}, {"a": "sleep", "ms": 50}] + tail})
    # (9) a waiting caller's reply call arrives twice (three times) while its ack never comes; the caller leaves by its context - the
    # connection's dispatching keeps running: an incoming call is received, every probe works
    import e2escripts as E
    for n in (2, 3):
        script = [{"a": "call", "g": "T", "kind": "callWait", "tag": 1}]
        script += [{"a": "reply", "tag": 1, "cid": 70 + k} for k in range(n)]
        sc = E.to_scenario("C08/dupReply/%d" % n, script + [{"a": "close"}], conn=dict(conn))
        # replace the e2e tail (settle / closeConn) by: wait for the caller, an incoming call, ReceiveCall, probes
        cut = next(k for k, st in enumerate(sc["steps"]) if st["a"] == "settle")
        for st in sc["steps"]:
            if st["a"] == "callWait":
                st["ctxMs"] = CTX
        sc["steps"] = sc["steps"][:cut] + [{"a": "join", "obj": "T"}, {"a": "sendCall", "callID": "in79", "tag": 179},
                                          {"a": "recvCall", "g": "T", "ctxMs": 1500, "wait": True}] + probes()
        sc.pop("wdMs", None)
        scs.append(sc)
    # (10) a slow sent storage: the List call inside Close takes longer than the close timeout (never-acking broker). The wake-up of the
    # close timeout falls between Close's look at its bounds and its wait - it must not be lost: Close returns once the storage answers
    for k, (ctxms, hold) in enumerate(((3000, 600), (350, 600))):
        steps = base + [{"a": "openUp", "obj": "U1", "qos": "reliable", "closeTimeoutMs": 300, "must": True}, {"a": "ackMode", "mode": "manual"},
                        {"a": "write", "g": "T", "obj": "U1", "id": "A", "pts": [[1, 8]], "ctxMs": CTX, "wait": True},
                        {"a": "flush", "g": "T", "obj": "U1", "ctxMs": CTX, "wait": True},
                        {"a": "await", "ev": "BRecvChunk", "match": {"seq": 1}, "ms": 1500, "must": True},
                        {"a": "holdHandler", "mode": "StorageList", "n": 1, "gate": "sl"},
                        {"a": "closeUp", "g": "C", "obj": "U1", "ctxMs": ctxms, "boundMs": hold + 100},
                        {"a": "await", "ev": "HandlerHeld", "match": {"handler": "StorageList"}, "ms": 1500, "must": True},
                        {"a": "sleep", "ms": hold}, {"a": "release", "gate": "sl"}, {"a": "join", "obj": "C"}]
        scs.append({"id": "C08/slowStorage/closeUp/%d" % k, "kind": "iscp", "conn": dict(conn, storage="logged"), "steps": steps + probes()})
    # (8) user hooks that call back into their own stream (State()): hooks run without any library lock, every call stays bounded
    for k, pol in enumerate(({"k": "none"}, {"k": "immediate"}, {"k": "size", "size": 8})):
        steps = base + [{"a": "openUp", "obj": "U1", "qos": "reliable", "policy": pol, "closeTimeoutMs": 400, "hookReenter": True, "must": True},
                        {"a": "ackMode", "mode": "auto"}]
        for t in (1, 2, 3):
            steps += [{"a": "write", "g": "T", "obj": "U1", "id": "A", "pts": [[t, 8]], "ctxMs": CTX, "wait": True},
                      {"a": "flush", "g": "T", "obj": "U1", "ctxMs": CTX, "wait": True}, {"a": "state", "obj": "U1"}]
        steps += [{"a": "sleep", "ms": 60}, {"a": "closeUp", "g": "T", "obj": "U1", "ctxMs": CTX, "wait": True}]
        scs.append({"id": "C08/hookReenter/%d" % k, "kind": "iscp", "conn": dict(conn), "steps": steps + probes()})
    # abandoned Flush: callers whose context is already done race the flush loop for their own request - some hand it over and leave
    # before the result is ready.  The loop must not park on a result nobody collects: afterwards the same stream is written, flushed
    # and closed under live contexts against a cooperative broker (probe phase) - seed C08-7
    for k, (pol, n) in enumerate(((None, 40), ({"k": "interval", "ms": 20, "size": 1000}, 40)) if quick else
                                 ((None, 40), ({"k": "interval", "ms": 20, "size": 1000}, 40), ({"k": "immediate"}, 80), (None, 150))):
        ou = {"a": "openUp", "obj": "U1", "qos": "reliable", "closeTimeoutMs": 1000, "must": True}
        if pol:
            ou["policy"] = pol
        steps = base + [ou, {"a": "ackMode", "mode": "auto"}, {"a": "write", "g": "T", "obj": "U1", "id": "A", "pts": [[1, 4]], "ctxMs": CTX, "wait": True}]
        for j in range(n):
            steps.append({"a": "flush", "g": "T", "obj": "U1", "ctxMs": -1, "boundMs": 50, "wait": True})
            if j % 10 == 9:
                steps.append({"a": "write", "g": "T", "obj": "U1", "id": "A", "pts": [[2 + j, 4]], "ctxMs": PROBE_CTX, "boundMs": PROBE_CTX, "wait": True})
        pr = probes()
        mine = [{"a": "write", "g": "PR", "obj": "U1", "id": "B", "pts": [[500, 4]], "ctxMs": PROBE_CTX, "wait": True},
                {"a": "flush", "g": "PR", "obj": "U1", "ctxMs": PROBE_CTX, "wait": True},
                {"a": "closeUp", "g": "PR", "obj": "U1", "ctxMs": PROBE_CTX, "wait": True}]
        scs.append({"id": "C08/abandonedFlush/%d" % k, "kind": "iscp", "conn": dict(conn), "steps": steps + pr[:6] + mine + pr[6:]})
    # stolen flush result (FlushRendezvous.tla, OwnResult): F1's context ends while F1 is between handing over its request and waiting for
    # the result (scheduling point upstream.flush.handed); the loop abandons it; F2 hands over a request under a live context and is
    # delayed at the same point; F1 is released first.  F2 must still get its result (probe phase: every call succeeds)
    for k in range(2 if quick else 6):
        steps = base + [{"a": "openUp", "obj": "U1", "qos": "reliable", "closeTimeoutMs": 1000, "must": True}, {"a": "ackMode", "mode": "auto"},
                        {"a": "holdPoint", "mode": "upstream.flush.handed", "n": 1, "gate": "f1"},
                        {"a": "holdPoint", "mode": "upstream.flush.handed", "n": 1, "gate": "f2"},
                        {"a": "write", "g": "T", "obj": "U1", "id": "A", "pts": [[1, 4]], "ctxMs": CTX, "wait": True},
                        {"a": "flush", "g": "F1", "obj": "U1", "ctxMs": 20},
                        {"a": "await", "ev": "PointHeld", "match": {"gate": "f1"}, "ms": 2000, "must": True}, {"a": "sleep", "ms": 80},
                        {"a": "mark", "mode": "probe"},
                        {"a": "flush", "g": "F2", "obj": "U1", "ctxMs": PROBE_CTX},
                        {"a": "await", "ev": "PointHeld", "match": {"gate": "f2"}, "ms": 2000, "must": True}, {"a": "sleep", "ms": 40},
                        {"a": "release", "gate": "f1"}, {"a": "join", "obj": "F1"}, {"a": "sleep", "ms": 10},
                        {"a": "release", "gate": "f2"}, {"a": "join", "obj": "F2"},
                        {"a": "closeUp", "g": "T", "obj": "U1", "ctxMs": PROBE_CTX, "wait": True}]
        scs.append({"id": "C08/flushResult/%d" % k, "kind": "iscp", "conn": dict(conn), "steps": steps + probes()[1:]})
    return scs


def run():
    ctx = Ctx("C08", level="fault_enumeration")
    quick = ctx.quick()
    ctx.assumptions += [
        "bounds are small (context 300 ms, close timeout 200-250 ms, keep-alive 200 ms / 100 ms); allowed = bound + 350 ms + 50 %; watchdog 5 s",
        "a call without a deadline is judged only where keep-alive governs it (broker completely silent): bound 1.5 s",
        "iscp.Connect has no context and is not among the calls the property lists; it is not judged",
        "the lock-release lemma over every control-flow path of every locking function is NOT decided (static analysis); "
        "the model Blocking.tla covers the locks whose leak or convoy was found by reading (wireConnMu, downstreams.mu, Upstream.mu during the result hand-over) and the replay exercises them",
    ]
    for name, kinds, held in (("A", "KindsA", False), ("B", "KindsB", False), ("C", "KindsC", False)):
        cfg = blocking_cfg("Blocking_c08_%s.cfg" % name, kinds, leak=False, wakes=True, held=held)
        ctx.l1("Blocking", cfg, workers=8, timeout=600)
        os.remove(os.path.join(SPEC, cfg))
    # sensitivity: with an unbuffered result channel (as coded at the pinned commit) a late acknowledgement leaves Upstream.mu held
    cfg = blocking_cfg("Blocking_c08_unbuf.cfg", "KindsC", leak=False, wakes=True, held=False, buffered=False)
    r = ctx.l1("Blocking", cfg, workers=8, timeout=600, must_hold=False)
    os.remove(os.path.join(SPEC, cfg))
    if r.violated not in ("NoStuckHandOver", "NoOverrun"):
        raise Inconclusive("Blocking model with ResultChBuffered = FALSE should violate NoStuckHandOver / NoOverrun, TLC says %s" % (r.violated or r.error or "nothing"))
    # sensitivity: a user hook called from the flush critical section deadlocks as soon as it calls back into the stream
    cfg = blocking_cfg("Blocking_c08_hook.cfg", "KindsC", leak=False, wakes=True, held=False, hook_under_lock=True)
    r = ctx.l1("Blocking", cfg, workers=8, timeout=600, must_hold=False)
    os.remove(os.path.join(SPEC, cfg))
    if r.violated not in ("NoHookUnderLock", "NoOverrun"):
        raise Inconclusive("Blocking model with HookUnderLock = TRUE should violate NoHookUnderLock / NoOverrun, TLC says %s" % (r.violated or r.error or "nothing"))
    # sensitivity: a bound whose wake-up is broadcast without the condition variable's lock can fire between Close's look and its Wait
    cfg = blocking_cfg("Blocking_c08_wake.cfg", "KindsC", leak=False, wakes=True, held=False, wake_under_lock=False)
    r = ctx.l1("Blocking", cfg, workers=8, timeout=600, must_hold=False)
    os.remove(os.path.join(SPEC, cfg))
    if r.violated != "NoLostWakeup":
        raise Inconclusive("Blocking model with WakeUnderLock = FALSE should violate NoLostWakeup, TLC says %s" % (r.violated or r.error or "nothing"))
    if not quick:
        # sanity of the model: the as-coded variants must violate the properties (the defects repaired in /repo)
        for name, kinds in (("A", "KindsA"), ("B", "KindsB")):
            cfg = blocking_cfg("Blocking_c08_coded_%s.cfg" % name, kinds, leak=True, wakes=False, held=True)
            r = ctx.l1("Blocking", cfg, workers=8, timeout=600, must_hold=False)
            os.remove(os.path.join(SPEC, cfg))
            if r.ok:
                raise Inconclusive("as-coded Blocking model unexpectedly satisfies the properties: the model lost its discriminating power")
    # the explicit-flush rendezvous (Flush / flushLoop): the loop always comes back to its outer select; the variant that does not watch
    # the caller's Done channel (seed C08-8) must violate it
    ctx.l1("FlushRendezvous", "FlushRendezvous_q.cfg", workers=4, timeout=300)
    if not quick:
        r = ctx.l1("FlushRendezvous", "FlushRendezvous_sens.cfg", workers=4, timeout=300, must_hold=False)
        if r.ok:
            raise Inconclusive("FlushRendezvous with WatchDone = FALSE should violate LoopComesBack")
        # open model counterexample (DESIGN C08, "stolen flush result"): recorded, not judged - it has not been reproduced on the code
        r = ctx.l1("FlushRendezvous", "FlushRendezvous_steal.cfg", workers=4, timeout=300, must_hold=False)
        ctx.notes.append("FlushRendezvous_steal.cfg (shared result channel: a caller whose context ended between its two selects may take the next "
                         "caller's result): TLC %s; not reproduced on the real code, not judged" % ("finds no counterexample" if r.ok else "finds the counterexample " + str(r.violated)))
    scs = family(quick)
    for sc in scs:      # scheduling stalls of a loaded machine are recorded and added to every bound
        sc["steps"] = [{"a": "stallWatch"}] + sc["steps"] + [{"a": "stallWatch", "mode": "off"}]
    trace = ctx.run_scenarios(scs, "c08", par=6)
    verdicts, _ = ctx.validate(trace, "MonC08")
    nv = ctx.judge(scs, trace, verdicts)
    ctx.finish(rule="fault enumeration: request kinds {openUp, openDown, sendMeta, closeUp, closeDown} x broker behaviour at that message {drop, late, soon, "
                    "misaddress, disconnect, refuse}; waits ended only by context / close timeout / keep-alive (never-acked Close, reads and receives without "
                    "data, unanswered calls, write/flush/sendMeta during an outage with a hanging redial); completely silent broker with deadline-less calls; "
                    "two concurrent calls (mutex convoy); an acknowledgement delayed beyond the ack timeout followed by write / flush / State / Close; misaddressed traffic (unknown aliases, source nodes, request and call ids); each followed by a probe "
                    "sequence against a cooperative broker; non-trivial = verdict produced",
               extra_cov={"evaluations": len(scs), "distinct_nontrivial": nv}, exhaustive=True)


if __name__ == "__main__":
    main_wrap(run)
