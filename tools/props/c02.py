"""C02 -- a reliable upstream loses no data across disconnect and resume."""
import os
from vlib import Ctx, main_wrap, pick, SPEC, Inconclusive
import upscripts as U

CONFLICT = 18  # message.ResultCodeResumeRequestConflict


def run():
    ctx = Ctx("C02")
    quick = ctx.quick()
    ctx.assumptions += [
        "slow-redial assumption: the scripted dialer delays every redial by 40 ms so that the stream watchers observe the outage "
        "(the fast-redial race belongs to C05)",
        "the broker acknowledges a chunk only on the incarnation on which it received it",
        "link failures are injected by the broker closing its side of the in-memory pipe at script positions; detection by keep-alive (100 ms / 100 ms)",
    ]
    conn = {"pingMs": [100, 100], "dialDelayMs": 40}
    scs = []
    for pol in ["immediate", "none"]:
        # thorough bounds fitted to measured state counts: (2 writes, 2 failures, conflict) = 4.1 M distinct states / 33 s and
        # (3 writes, 1 failure) = 3.4 M / 46 s; the product (3 writes, 2 failures) did not finish in 40 min
        variants = [dict(maxw=2, faults=1, conflicts=1, grants=True)] if quick else \
                   [dict(maxw=2, faults=2, conflicts=1, grants=True), dict(maxw=3, faults=1, conflicts=0, grants=False)]
        for vi, v in enumerate(variants):
            cfg = U.write_cfg("Upstream_c02_%s_%d.cfg" % (pol, vi), policy=pol, sizes=(1,), zero=False, reliable=True, dups=0, acks=2,
                              writers=("W1",), flushers=("F1",) if (pol == "none" and v["maxw"] == 2) else (), invs=U.INV_C02,
                              netloss=v["maxw"] == 2, **v)      # chunks lost in flight only in the 2-write variants (25 M states / 10 min with 3 writes)
            ctx.l1("Upstream", cfg, timeout=2400)
            os.remove(os.path.join(SPEC, cfg))
        gcfg = U.write_cfg("Upstream_c02_gen_%s.cfg" % pol, policy=pol, maxw=4, sizes=(1, 2), zero=False, reliable=True, faults=2,
                           dups=1, acks=4, grants=True, conflicts=1, writers=("W1", "W2"), flushers=("F1",) if pol == "none" else (),
                           view=False, gen=True, invs=U.INV_C02)
        r = ctx.tlc("Upstream", gcfg, workers=1, simulate="num=%d" % (400 if quick else 4000), depth=200, timeout=900)
        os.remove(os.path.join(SPEC, gcfg))
        if r.violated or r.error:
            raise Inconclusive("simulation failed: %s" % (r.violated or r.error))
        scripts = [s for s in U.scripts_of(r) if any(op["a"] == "cut" for op in s)]
        for k, sc in enumerate(pick(scripts, 30 if quick else 400, ctx.seed)):
            s = U.to_scenario("C02/%s/%d" % (pol, k), sc, policy=pol, qos="reliable", conn=dict(conn))
            nconf = len([op for op in sc if op["a"] == "resumeResp" and op["code"] == "conflict"])
            if nconf:
                s["steps"].insert(2, {"a": "rule", "rule": {"on": "UpstreamResumeRequest", "do": "codes", "codes": [CONFLICT] * nconf + [1]}})
            scs.append(s)
    # liveness (TLC, fairness of every library step, of the redial and of a broker that answers the resume and acknowledges what the
    # client waits for): once failures have stopped, every cut chunk reaches the broker - unless the stream was reported closed
    live = [("immediate", 2, 1, 0, ())] if quick else [("immediate", 2, 1, 0, ()), ("none", 2, 1, 0, ("F1",)), ("immediate", 2, 1, 1, ())]     # (2 writes, 2 failures, conflict) took 20 min: too close to any budget
    for pol, mw, nf, conf, fl in live:
        cfg = U.write_cfg("Upstream_c02_live_%s_%d_%d_%d.cfg" % (pol, mw, nf, conf), policy=pol, maxw=mw, sizes=(1,), zero=False, reliable=True, faults=nf,
                          dups=0, acks=2, grants=False, conflicts=conf, writers=("W1",), flushers=fl, invs=U.INV_C02, live=True, netloss=True)
        ctx.l1("Upstream", cfg, timeout=3000)
        os.remove(os.path.join(SPEC, cfg))
    # sensitivity of the liveness check: the as-coded variant (a cancelled run taken for an ack timeout drops the chunk from the store)
    # loses a chunk that was written into a dying link
    cfg = U.write_cfg("Upstream_c02_live_coded.cfg", policy="immediate", maxw=2, sizes=(1,), zero=False, reliable=True, faults=1, dups=0, acks=2,
                      grants=False, conflicts=0, writers=("W1",), flushers=(), invs="Numbering", live=True, netloss=True, cancel_is_timeout=True)
    r = ctx.l1("Upstream", cfg, timeout=900, must_hold=False)
    os.remove(os.path.join(SPEC, cfg))
    if r.ok or "EventuallyDelivered" not in (r.error or ""):
        raise Inconclusive("liveness sensitivity: CancelIsTimeout = TRUE should violate EventuallyDelivered, TLC says %s" % ((r.error or "no error")[:120]))
    ctx.notes.append("liveness EventuallyDelivered checked under FairSpec for %s (policy, writes, failures, conflicts, flushers)" % (live,))
    # partition family: the outage is noticed by keep-alive only (the broker falls completely silent, no EOF) with k chunks in flight;
    # the sent storage is wrapped by a logging storage so that every removal is attributed (code-level StoredUntilAcked)
    # (as coded at the pinned commit each in-flight chunk was dropped from the store with probability of about 7 %: 94 chunks in flight in the quick tier)
    for k in (1, 4, 20):
        for rep in range({1: 2, 4: 3, 20: 4}[k] * (1 if quick else 4)):
            steps = [{"a": "connect", "must": True},
                     {"a": "openUp", "obj": "U1", "qos": "reliable", "must": True, "closeTimeoutMs": 3000, "policy": {"k": "immediate"}}]
            for t in range(1, k + 1):
                steps.append({"a": "write", "g": "W", "obj": "U1", "id": "AB"[t % 2], "pts": [[t, 8]], "wait": True})
            steps += [{"a": "await", "ev": "BRecvChunk", "match": {"seq": k}, "ms": 1000}, {"a": "silent", "mode": "on"},
                      {"a": "await", "ev": "Dial", "match": {"n": 2}, "ms": 4000, "must": True}, {"a": "silent", "mode": "off"},
                      {"a": "await", "ev": "UpResumed", "ms": 2000}, {"a": "sleep", "ms": 250},
                      {"a": "closeUp", "g": "C", "obj": "U1", "ctxMs": 3000}, {"a": "ackUntilIdle", "obj": "U1", "src": "C", "ms": 3000},
                      {"a": "join", "obj": "C"}, {"a": "quiesce"}, {"a": "closeConn", "g": "X", "ctxMs": 2000, "wait": True}, {"a": "quiesce", "ms": 50}]
            scs.append({"id": "C02/partition/k%d/%d" % (k, rep), "kind": "iscp", "conn": dict(conn, storage="logged"), "steps": steps})
    # out-of-order acknowledgement before the cut: the later chunk is acknowledged, the earlier one is not
    for n in (2, 3):
        steps = [{"a": "connect", "must": True}, {"a": "openUp", "obj": "U1", "qos": "reliable", "must": True, "closeTimeoutMs": 3000, "policy": {"k": "immediate"}}]
        for t in range(1, n + 1):
            steps.append({"a": "write", "g": "W", "obj": "U1", "id": "A", "pts": [[t, 8]], "wait": True})
        steps += [{"a": "ack", "obj": "U1", "seqs": [n], "ms": 1000}, {"a": "await", "ev": "HookAfter", "match": {"seq": n}, "ms": 1000}, {"a": "sleep", "ms": 20},
                  {"a": "cut"}, {"a": "await", "ev": "UpResumed", "ms": 4000}, {"a": "sleep", "ms": 250},
                  {"a": "closeUp", "g": "C", "obj": "U1", "ctxMs": 3000}, {"a": "ackUntilIdle", "obj": "U1", "src": "C", "ms": 3000},
                  {"a": "join", "obj": "C"}, {"a": "quiesce"}, {"a": "closeConn", "g": "X", "ctxMs": 2000, "wait": True}, {"a": "quiesce", "ms": 50}]
        scs.append({"id": "C02/ackedLaterOnly/%d" % n, "kind": "iscp", "conn": dict(conn, storage="logged"), "steps": steps})
    # late snapshot: the goroutine that retransmits lists the sent storage only after writes accepted on the resumed stream have been
    # cut, stored and sent (Upstream.tla action TakeSnapshot; scheduling point upstream.resend.list): those chunks are sent twice,
    # and the retransmission - one chunk at a time, each waiting for its result - must still reach every chunk of the first connection
    for k, j in ((1, 1), (3, 1), (2, 2)) if quick else ((1, 1), (3, 1), (2, 2), (4, 3), (1, 3)):
        for pol in ("immediate", "none"):
            steps = [{"a": "holdPoint", "mode": "upstream.resend.list", "n": 1, "gate": "snap"}, {"a": "connect", "must": True},
                     {"a": "openUp", "obj": "U1", "qos": "reliable", "must": True, "closeTimeoutMs": 3000, "policy": {"k": pol}}]
            fl = [{"a": "flush", "g": "W", "obj": "U1", "ctxMs": 2000}] if pol == "none" else []
            for t in range(1, k + 1):
                steps += [{"a": "write", "g": "W", "obj": "U1", "id": "AB"[t % 2], "pts": [[t, 8]], "wait": True}] + fl
            steps += [{"a": "join", "obj": "W"}, {"a": "await", "ev": "BRecvChunk", "match": {"seq": k}, "ms": 1000}, {"a": "cut"},
                      {"a": "await", "ev": "UpResumed", "ms": 4000, "must": True}, {"a": "await", "ev": "PointHeld", "ms": 2000, "must": True}]
            for t in range(k + 1, k + j + 1):
                steps += [{"a": "write", "g": "W", "obj": "U1", "id": "AB"[t % 2], "pts": [[t, 8]], "wait": True}] + fl
            steps += [{"a": "join", "obj": "W"}, {"a": "await", "ev": "BRecvChunk", "match": {"seq": k + j}, "ms": 1000},
                      {"a": "release", "gate": "snap"}, {"a": "sleep", "ms": 50},
                      {"a": "closeUp", "g": "C", "obj": "U1", "ctxMs": 3000}, {"a": "ackUntilIdle", "obj": "U1", "src": "C", "ms": 3000},
                      {"a": "join", "obj": "C"}, {"a": "quiesce"}, {"a": "closeConn", "g": "X", "ctxMs": 2000, "wait": True}, {"a": "quiesce", "ms": 50}]
            scs.append({"id": "C02/lateSnapshot/%s/k%d-j%d" % (pol, k, j), "kind": "iscp", "conn": dict(conn, storage="logged"), "steps": steps})
    trace = ctx.run_scenarios(scs, "c02", par=8)
    verdicts, _ = ctx.validate(trace, "MonC02")
    ctx.judge(scs, trace, verdicts)
    ctx.finish(rule="scenarios = environment projections of random complete behaviours of Upstream.tla with 1-2 link failures (writes, flushes, "
                    "acks of subsets with alias grants, cut, redial, resume outcome conflict-then-ok, close), replayed on a real reliable "
                    "upstream; non-trivial = run ended healthy (connection back, Close nil, stream not reported closed) so that the "
                    "no-loss obligations were judged")


if __name__ == "__main__":
    main_wrap(run)
