"""C02 -- a reliable upstream loses no data across disconnect and resume."""
import os
from vlib import Ctx, main_wrap, pick, SPEC, Inconclusive
import upscripts as U

CONFLICT = 18  # message.ResultCodeResumeRequestConflict


def run():
    ctx = Ctx("C02")
    quick = ctx.quick()
    ctx.assumptions += [
        "slow-redial assumption: the scripted dialer delays every redial by 40 ms so that the stream watchers observe the outage "
        "(the fast-redial race belongs to C05)",
        "the broker acknowledges a chunk only on the incarnation on which it received it",
        "link failures are injected by the broker closing its side of the in-memory pipe at script positions; detection by keep-alive (100 ms / 100 ms)",
    ]
    conn = {"pingMs": [100, 100], "dialDelayMs": 40}
    scs = []
    for pol in ["immediate", "none"]:
        cfg = U.write_cfg("Upstream_c02_%s.cfg" % pol, policy=pol, maxw=2 if quick else 3, sizes=(1,), zero=False, reliable=True,
                          faults=1 if quick else 2, dups=0, acks=2, grants=True, conflicts=1, writers=("W1",),
                          flushers=("F1",) if pol == "none" else (), invs=U.INV_C02)
        ctx.l1("Upstream", cfg, timeout=2400)
        os.remove(os.path.join(SPEC, cfg))
        gcfg = U.write_cfg("Upstream_c02_gen_%s.cfg" % pol, policy=pol, maxw=4, sizes=(1, 2), zero=False, reliable=True, faults=2,
                           dups=1, acks=4, grants=True, conflicts=1, writers=("W1", "W2"), flushers=("F1",) if pol == "none" else (),
                           view=False, gen=True, invs=U.INV_C02)
        r = ctx.tlc("Upstream", gcfg, workers=1, simulate="num=%d" % (400 if quick else 4000), depth=200, timeout=900)
        os.remove(os.path.join(SPEC, gcfg))
        if r.violated or r.error:
            raise Inconclusive("simulation failed: %s" % (r.violated or r.error))
        scripts = [s for s in U.scripts_of(r) if any(op["a"] == "cut" for op in s)]
        for k, sc in enumerate(pick(scripts, 30 if quick else 400, ctx.seed)):
            s = U.to_scenario("C02/%s/%d" % (pol, k), sc, policy=pol, qos="reliable", conn=dict(conn))
            nconf = len([op for op in sc if op["a"] == "resumeResp" and op["code"] == "conflict"])
            if nconf:
                s["steps"].insert(2, {"a": "rule", "rule": {"on": "UpstreamResumeRequest", "do": "codes", "codes": [CONFLICT] * nconf + [1]}})
            scs.append(s)
    trace = ctx.run_scenarios(scs, "c02", par=8)
    verdicts, _ = ctx.validate(trace, "MonC02")
    ctx.judge(scs, trace, verdicts)
    ctx.finish(rule="scenarios = environment projections of random complete behaviours of Upstream.tla with 1-2 link failures (writes, flushes, "
                    "acks of subsets with alias grants, cut, redial, resume outcome conflict-then-ok, close), replayed on a real reliable "
                    "upstream; non-trivial = run ended healthy (connection back, Close nil, stream not reported closed) so that the "
                    "no-loss obligations were judged")


if __name__ == "__main__":
    main_wrap(run)
