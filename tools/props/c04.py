"""C04 -- downstream acks every consumed chunk once and announces aliases consistently."""
import os, sys
from vlib import Ctx, main_wrap, pick, SPEC, Inconclusive
import upscripts as U
import downscripts as D


def family(ctx, tag, n, quick, bogus=True, faults=0, maxc=5, name="sim", **kw):
    gcfg = D.write_cfg("Downstream_gen_%s.cfg" % tag, maxc=maxc, readers=("R1",), cap=8, faults=faults, byvalue=True, bogus=bogus, view=False, gen=True,
                       invs="OnceEach ResolvedRight AckAtMostOnce UpAliasInjective IdAliasInjective" if faults else D.INVS)
    r = ctx.tlc("Downstream", gcfg, workers=1, simulate="num=%d" % (400 if quick else 4000), depth=150, timeout=900)
    os.remove(os.path.join(SPEC, gcfg))
    if r.violated or r.error:
        raise Inconclusive("simulation failed: %s" % (r.violated or r.error))
    scripts = U.scripts_of(r)
    if faults:
        scripts = [s for s in scripts if any(op["a"] == "cut" for op in s)]
    return [D.to_scenario("%s/%s/%d" % (tag, name, k), sc, **kw) for k, sc in enumerate(pick(scripts, n, ctx.seed))]


def forms_family(tag, n, what, qos="reliable", conn=None, name=None):
    """canonical exhaustive family: every sequence of n chunks over {X, Y} x {full, alias} (what = "up") or over data ids {A, B} x {id, alias}
    (what = "id"), each chunk read and acknowledged before the next one is sent (send -> read -> ack tick), alias forms only after the
    corresponding full form was seen (the broker never guesses an alias). These are the canonical interleavings of Downstream.tla's BSend /
    Read* / AckTick actions; the model explores the non-canonical ones as well."""
    import itertools
    scs = []
    names = ("X", "Y") if what == "up" else ("A", "B")
    for k, seq in enumerate(itertools.product([(a, f) for a in names for f in ("full", "alias")], repeat=n)):
        seen = set()
        ok = True
        for a, f in seq:
            if f == "alias" and a not in seen:
                ok = False
                break
            seen.add(a)
        if not ok:
            continue
        steps = []
        for j, (a, f) in enumerate(seq):
            if what == "up":
                steps.append({"a": "sendChunk", "k": j + 1, "up": a, "upF": "info" if f == "full" else "alias", "upAl": 0 if f == "full" else 1,
                              "id": "A", "idF": "id", "idAl": 0})
            else:
                steps.append({"a": "sendChunk", "k": j + 1, "up": "X", "upF": "info", "upAl": 0,
                              "id": a, "idF": "id" if f == "full" else "al", "idAl": 0 if f == "full" else 1})
            steps += [{"a": "read", "g": "R1"}, {"a": "ackTick"}]
        steps.append({"a": "close"})
        scs.append(D.to_scenario("%s/%s/%d" % (tag, name or ("forms-%s%d" % (what, n)), k), steps, prereg=(), qos=qos, conn=conn))
    return scs


def meta_family(tag):
    """metadata from two source nodes interleaved with chunks; per-source order and acks (C03)."""
    scs = []
    for k, order in enumerate([["n1", "n2", "n1", "n2"], ["n1", "n1", "n2", "n1", "n2", "n2"], ["n2", "n1"]]):
        steps = [{"a": "connect", "must": True}, {"a": "openDown", "obj": "D1", "qos": "reliable", "srcs": ["n1", "n2"], "ids": ["A"], "ackFlushMs": 20, "must": True}]
        for j, src in enumerate(order):
            steps.append({"a": "sendDownMeta", "obj": "D1", "src": src, "tag": 100 + j})
            if j % 2 == 0:
                steps.append({"a": "sendChunk", "obj": "D1", "up": "X", "upF": "info", "upAl": 0, "seq": j + 1, "groups": [{"f": "id", "id": "A", "al": 0, "pts": [[j + 1, 4]]}]})
                steps.append({"a": "read", "g": "R1", "obj": "D1", "ctxMs": 1200, "wait": True})
        steps.append({"a": "sendDownMeta", "obj": "D1", "src": "zz", "tag": 999})      # unknown source node: must not disturb anything
        for j in range(len(order)):
            steps.append({"a": "readMeta", "g": "R2", "obj": "D1", "ctxMs": 1200, "wait": True})
        steps += [{"a": "closeDown", "g": "C", "obj": "D1", "ctxMs": 3000, "wait": True}, {"a": "quiesce"},
                  {"a": "closeConn", "g": "main2", "wait": True, "ctxMs": 2000}, {"a": "quiesce", "ms": 50}]
        scs.append({"id": "%s/meta/%d" % (tag, k), "kind": "iscp", "conn": {}, "steps": steps})
    # the same for ReadDataPoints: chunks are waiting, polls with a done context, then live reads
    for k, (n, polls) in enumerate([(6, 14), (3, 8)]):
        steps = [{"a": "connect", "must": True}, {"a": "openDown", "obj": "D1", "qos": "reliable", "srcs": ["n1", "n2"], "ids": ["A"], "ackFlushMs": 20, "must": True}]
        for j in range(n):
            steps.append({"a": "sendChunk", "obj": "D1", "up": "X", "upF": "info", "upAl": 0, "seq": j + 1, "groups": [{"f": "id", "id": "A", "al": 0, "pts": [[j + 1, 4]]}]})
        steps.append({"a": "sleep", "ms": 30})
        steps += [{"a": "read", "g": "R1", "obj": "D1", "ctxMs": -1, "wait": True}] * polls
        steps += [{"a": "read", "g": "R1", "obj": "D1", "ctxMs": 300, "wait": True}] * n
        steps += [{"a": "closeDown", "g": "C", "obj": "D1", "ctxMs": 3000, "wait": True}, {"a": "quiesce"},
                  {"a": "closeConn", "g": "main2", "wait": True, "ctxMs": 2000}, {"a": "quiesce", "ms": 50}]
        scs.append({"id": "%s/chunkpoll/%d" % (tag, k), "kind": "iscp", "conn": {}, "steps": steps})
    # polls with a context that is already done (or ends at once) while items are waiting: a poll returns either the context error or an
    # item - an item must never be consumed by a poll that reports an error
    for k, (n, polls, ctxms) in enumerate([(12, 30, -1), (12, 30, 1), (6, 12, -1)]):
        steps = [{"a": "connect", "must": True}, {"a": "openDown", "obj": "D1", "qos": "reliable", "srcs": ["n1", "n2"], "ids": ["A"], "ackFlushMs": 20, "must": True}]
        for j in range(n):
            steps.append({"a": "sendDownMeta", "obj": "D1", "src": "n1" if j % 3 else "n2", "tag": 200 + j})
        steps.append({"a": "sleep", "ms": 30})
        for j in range(polls):
            steps.append({"a": "readMeta", "g": "R2", "obj": "D1", "ctxMs": ctxms, "wait": True})
        for j in range(n):
            steps.append({"a": "readMeta", "g": "R2", "obj": "D1", "ctxMs": 300, "wait": True})
        steps += [{"a": "closeDown", "g": "C", "obj": "D1", "ctxMs": 3000, "wait": True}, {"a": "quiesce"},
                  {"a": "closeConn", "g": "main2", "wait": True, "ctxMs": 2000}, {"a": "quiesce", "ms": 50}]
        scs.append({"id": "%s/metapoll/%d" % (tag, k), "kind": "iscp", "conn": {}, "steps": steps})
    return scs


def upclose_family(tag):
    """an upstream finishes while chunks of it (alias form) are still queued at the consumer: the consumer reads the UpstreamNormalClose
    metadata FIRST and the chunks afterwards - every chunk is still returned, resolved to the upstream it came from; chunks of the other
    upstream are unaffected; a later upstream of the same name is a new one."""
    scs = []
    ch = lambda k, up, f: {"a": "sendChunk", "obj": "D1", "up": up, "upF": f, "upAl": -1 if f == "alias" else 0, "seq": k,
                           "groups": [{"f": "id", "id": "A", "al": 0, "pts": [[k, 4]]}]}
    rd = {"a": "read", "g": "R1", "obj": "D1", "ctxMs": 1500, "wait": True}
    for k, nq in enumerate((1, 3, 6)):
        steps = [{"a": "connect", "must": True}, {"a": "openDown", "obj": "D1", "qos": "reliable", "srcs": ["n-X", "n-Y"], "ids": ["A"], "ackFlushMs": 20, "must": True},
                 ch(1, "X", "info"), dict(rd), ch(2, "Y", "info"), dict(rd), {"a": "sleep", "ms": 60}]       # both upstreams announced
        steps += [ch(3 + j, "X" if j % 2 == 0 else "Y", "alias") for j in range(nq)]
        steps += [{"a": "sendDownMeta", "obj": "D1", "src": "n-X", "mode": "upClose", "up": "X", "tag": 3 + nq},
                  {"a": "readMeta", "g": "R2", "obj": "D1", "ctxMs": 1500, "wait": True}, {"a": "sleep", "ms": 30}]
        steps += [dict(rd) for j in range(nq)]
        steps += [ch(20, "Y", "alias"), dict(rd), {"a": "closeDown", "g": "C", "obj": "D1", "ctxMs": 3000, "wait": True}, {"a": "quiesce"},
                  {"a": "closeConn", "g": "main2", "wait": True, "ctxMs": 2000}, {"a": "quiesce", "ms": 50}]
        scs.append({"id": "%s/upclose/%d" % (tag, k), "kind": "iscp", "conn": {}, "steps": steps})
    return scs


def after_resume_family(tag):
    """alias tables survive a resume: after an outage the broker keeps using the aliases the client announced before it - chunks in alias
    form resolve to the same upstreams and data ids, a new upstream gets a NEW alias, old aliases keep their meaning."""
    scs = []
    ch = lambda k, up, f, idn="A", idf="id": {"a": "sendChunk", "obj": "D1", "up": up, "upF": f, "upAl": -1 if f == "alias" else 0, "seq": k,
                                              "groups": [{"f": idf, "id": idn, "al": -1 if idf == "al" else 0, "pts": [[k, 4]]}]}
    rd = {"a": "read", "g": "R1", "obj": "D1", "ctxMs": 1500, "wait": True}
    for k, delay in enumerate((0, 40)):
        conn = {"pingMs": [100, 100], "dialDelayMs": delay}
        steps = [{"a": "connect", "must": True}, {"a": "openDown", "obj": "D1", "qos": "reliable", "srcs": ["n-X", "n-Y"], "ackFlushMs": 20, "must": True},
                 ch(1, "X", "info"), dict(rd), ch(2, "Y", "info", "B"), dict(rd), {"a": "sleep", "ms": 60},
                 ch(3, "X", "alias", "A", "al"), dict(rd), {"a": "sleep", "ms": 60},
                 {"a": "cut"}, {"a": "await", "ev": "DownResumed", "ms": 4000, "must": True}, {"a": "sleep", "ms": 50},
                 ch(4, "X", "alias", "A", "al"), ch(5, "Z", "info", "C"), ch(6, "Y", "alias", "B", "al"), ch(7, "X", "alias"), dict(rd), dict(rd), dict(rd), dict(rd),
                 {"a": "sleep", "ms": 60}, ch(8, "Z", "alias", "C", "al"), ch(9, "X", "alias"), dict(rd), dict(rd),
                 {"a": "closeDown", "g": "C", "obj": "D1", "ctxMs": 3000, "wait": True}, {"a": "quiesce"},
                 {"a": "closeConn", "g": "main2", "wait": True, "ctxMs": 2000}, {"a": "quiesce", "ms": 50}]
        scs.append({"id": "%s/afterResume/%d" % (tag, k), "kind": "iscp", "conn": conn, "p": {"allowFaults": 1}, "steps": steps})
    return scs


def dupfilter_family(tag):
    """several filters of one downstream name the same source node: that node's metadata still arrives once each, in the broker's order."""
    scs = []
    for k, (srcs, n) in enumerate([(["n1", "n1"], 900), (["n1", "n2", "n1", "n1"], 900), (["n1", "n1"], 900), (["n1", "n1", "n1"], 900), (["n1", "n1"], 600), (["n2", "n1", "n1"], 900)]):
        steps = [{"a": "connect", "must": True}, {"a": "openDown", "obj": "D1", "qos": "reliable", "srcs": srcs, "ids": ["A"], "ackFlushMs": 20, "must": True}]
        for j in range(n):
            steps.append({"a": "sendDownMeta", "obj": "D1", "src": "n1" if (j % 5 or "n2" not in srcs) else "n2", "tag": 1000 + j})
        for j in range(n):
            steps.append({"a": "readMeta", "g": "R2", "obj": "D1", "ctxMs": 1200, "wait": True})
        steps.append({"a": "readMeta", "g": "R2", "obj": "D1", "ctxMs": 250, "wait": True})
        steps += [{"a": "closeDown", "g": "C", "obj": "D1", "ctxMs": 3000, "wait": True}, {"a": "quiesce"},
                  {"a": "closeConn", "g": "main2", "wait": True, "ctxMs": 2000}, {"a": "quiesce", "ms": 50}]
        scs.append({"id": "%s/dupfilter/%d" % (tag, k), "kind": "iscp", "conn": {}, "steps": steps})
    return scs


def downmeta(ctx, tag, quick):
    """DownMeta.tla: the metadata path stage by stage. Exhaustive check of the path as coded, the shared-subscription variant must lose
    per-source order, order across source nodes is not promised (sanity), liveness without overflow; then environment scripts of random
    complete behaviours are replayed on a real downstream opened with the same filter list."""
    for fl in (("F_121",) if quick else ("F_121", "F_11", "F_12")):
        cfg = D.write_meta_cfg("DownMeta_%s_%s.cfg" % (tag, fl), filters=fl, n=4, cap=4)
        ctx.l1("DownMeta", cfg, timeout=900)
        os.remove(os.path.join(SPEC, cfg))
    cfg = D.write_meta_cfg("DownMeta_%s_small.cfg" % tag, filters="F_121", n=4, cap=2)     # stages overflow: drops, never reordering or duplication
    ctx.l1("DownMeta", cfg, timeout=900)
    os.remove(os.path.join(SPEC, cfg))
    for name, kw, inv in (("shared", dict(shared=True), "PerSourceOrder"), ("global", dict(invs="GlobalOrder"), "GlobalOrder")):
        cfg = D.write_meta_cfg("DownMeta_%s_%s.cfg" % (tag, name), filters="F_121", n=4, cap=4, **kw)
        rc = ctx.l1("DownMeta", cfg, must_hold=False, timeout=600)
        os.remove(os.path.join(SPEC, cfg))
        if rc.violated != inv:
            raise Inconclusive("DownMeta %s configuration should violate %s, TLC says %s" % (name, inv, rc.violated or rc.error or "nothing"))
    if not quick:
        cfg = D.write_meta_cfg("DownMeta_%s_live.cfg" % tag, filters="F_121", n=3, cap=3, live=True)
        ctx.l1("DownMeta", cfg, timeout=1500)
        os.remove(os.path.join(SPEC, cfg))
    scs = []
    for fl in ("F_121", "F_11", "F_111", "F_12"):
        gcfg = D.write_meta_cfg("DownMeta_gen_%s_%s.cfg" % (tag, fl), filters=fl, n=8, cap=8, inbox=8, gen=True)
        r = ctx.tlc("DownMeta", gcfg, workers=1, simulate="num=%d" % (300 if quick else 3000), depth=200, timeout=900)
        os.remove(os.path.join(SPEC, gcfg))
        if r.violated or r.error:
            raise Inconclusive("DownMeta simulation failed: %s" % (r.violated or r.error))
        scripts = U.scripts_of(r)
        scs += [D.meta_to_scenario("%s/downmeta-%s/%d" % (tag, fl, k), sc, D.META_FILTERS[fl]) for k, sc in enumerate(pick(scripts, 6 if quick else 60, ctx.seed))]
    return scs


def core(tag):
    """fixed scenarios: the same upstream in full form several times before the first ack flush; pre-registered ids; close with pending acks."""
    scs = []
    for n in (2, 3):
        steps = []
        for k in range(1, n + 1):
            steps.append({"a": "sendChunk", "k": k, "up": "X", "upF": "info", "upAl": 0, "id": "AB"[k % 2], "idF": "id", "idAl": 0})
        for k in range(1, n + 1):
            steps.append({"a": "read", "g": "R1"})
        steps += [{"a": "ackTick"}, {"a": "sendChunk", "k": n + 1, "up": "X", "upF": "alias", "upAl": 1, "id": "A", "idF": "al", "idAl": 1},
                  {"a": "read", "g": "R1"}, {"a": "close"}]
        scs.append(D.to_scenario("%s/core/fullform%d" % (tag, n), steps))
    return scs


def prereg_family(tag):
    """pre-registered data ids (WithDownstreamDataIDs) in lists with and without repetitions: the broker uses every alias number
    the open request announced, then a data id the client has not seen arrives in full form (it must get a fresh alias, announced
    once), then the pre-registered aliases are used again. Downstream.tla: PreReg is a sequence, registered once per data id."""
    scs = []
    ch = lambda k, f, idn, al: {"a": "sendChunk", "obj": "D1", "up": "X", "upF": "info", "upAl": 0, "seq": k,
                                "groups": [{"f": f, "id": idn, "al": al, "pts": [[k, 5]]}]}
    rd = {"a": "read", "g": "R1", "obj": "D1", "ctxMs": 1500, "wait": True}
    for name, ids in (("AB", ["A", "B"]), ("AAB", ["A", "A", "B"]), ("ABA", ["A", "B", "A"]), ("AA", ["A", "A"]), ("BAAB", ["B", "A", "A", "B"])):
        steps = [{"a": "connect", "must": True},
                 {"a": "openDown", "obj": "D1", "qos": "reliable", "srcs": ["n1"], "ids": ids, "ackFlushMs": 20, "must": True}]
        k = 0
        for idn in ids:
            k += 1
            steps += [ch(k, "al", idn, -1), rd]
        k += 1
        steps += [ch(k, "id", "C", 0), rd, {"a": "sleep", "ms": 60}]
        k += 1
        steps += [ch(k, "al", "C", -1), rd]
        for idn in reversed(ids):
            k += 1
            steps += [ch(k, "al", idn, -1), rd]
        steps += [{"a": "sleep", "ms": 45}, {"a": "closeDown", "g": "C", "obj": "D1", "ctxMs": 3000, "wait": True}, {"a": "quiesce"},
                  {"a": "closeConn", "g": "main2", "wait": True, "ctxMs": 2000}, {"a": "quiesce", "ms": 50}]
        scs.append({"id": "%s/prereg/%s" % (tag, name), "kind": "iscp", "conn": {}, "steps": steps})
    return scs


def multigroup_family(tag):
    """chunks that carry several data point groups: full ids and aliases mixed in ONE chunk, the same data id in two groups of a chunk,
    a group without points, an alias used in the same chunk that... never: an alias is only used after the client announced it."""
    scs = []
    rd = {"a": "read", "g": "R1", "obj": "D1", "ctxMs": 1500, "wait": True}
    G = lambda f, idn, k, n=1: {"f": f, "id": idn, "al": -1 if f == "al" else 0, "pts": [[k * 10 + j, 4 + j] for j in range(n)]}
    ch = lambda k, up, upf, groups: {"a": "sendChunk", "obj": "D1", "up": up, "upF": upf, "upAl": -1 if upf == "alias" else 0, "seq": k, "groups": groups}
    variants = {
        "mixed": [ch(1, "X", "info", [G("id", "A", 1), G("id", "B", 2, 2)]), ch(2, "X", "alias", [G("al", "A", 3), G("id", "C", 4), G("al", "B", 5)]),
                  ch(3, "Y", "info", [G("al", "C", 6), G("al", "A", 7, 3)])],
        "sameIdTwice": [ch(1, "X", "info", [G("id", "A", 1), G("id", "A", 2)]), ch(2, "X", "alias", [G("al", "A", 3), G("id", "A", 4)]),
                        ch(3, "X", "info", [G("id", "B", 5), G("al", "A", 6), G("id", "B", 7)])],
        "emptyGroup": [ch(1, "X", "info", [G("id", "A", 1, 0), G("id", "B", 2)]), ch(2, "Y", "info", [G("al", "B", 3), G("al", "A", 4, 0)])],
    }
    for name, chunks in variants.items():
        steps = [{"a": "connect", "must": True},
                 {"a": "openDown", "obj": "D1", "qos": "reliable", "srcs": ["n1"], "ids": [], "ackFlushMs": 20, "must": True}]
        for c in chunks:
            steps += [c, rd, {"a": "sleep", "ms": 45}]
        steps += [{"a": "closeDown", "g": "C", "obj": "D1", "ctxMs": 3000, "wait": True}, {"a": "quiesce"},
                  {"a": "closeConn", "g": "main2", "wait": True, "ctxMs": 2000}, {"a": "quiesce", "ms": 50}]
        scs.append({"id": "%s/multigroup/%s" % (tag, name), "kind": "iscp", "conn": {}, "steps": steps})
    return scs


def bulk_family(tag, quick):
    """many chunks consumed within one ack flush interval (the flush interval is a minute), then Close: the final flush acknowledges all of
    them before the close request, however many there are."""
    scs = []
    for n in ((600,) if quick else (300, 600, 1500)):
        steps = [{"a": "connect", "must": True},
                 {"a": "openDown", "obj": "D1", "qos": "reliable", "srcs": ["n1"], "ids": ["A"], "ackFlushMs": 60000, "must": True}]
        for k in range(1, n + 1):
            steps += [{"a": "sendChunk", "obj": "D1", "up": "XY"[k % 2], "upF": "info", "upAl": 0, "seq": k, "groups": [{"f": "id", "id": "AB"[k % 2], "al": 0, "pts": [[k, 4]]}]},
                      {"a": "read", "g": "R1", "obj": "D1", "ctxMs": 1500, "wait": True}]
        steps += [{"a": "closeDown", "g": "C", "obj": "D1", "ctxMs": 4000, "wait": True}, {"a": "quiesce"},
                  {"a": "closeConn", "g": "main2", "wait": True, "ctxMs": 2000}, {"a": "quiesce", "ms": 50}]
        scs.append({"id": "%s/bulk/%d" % (tag, n), "kind": "iscp", "conn": {"pingMs": [5000, 1000]}, "steps": steps})
    return scs


def dying_link_family(tag):
    """an acknowledgement is written into a link that is already broken for writing but not yet seen as closed: the transport reports a
    plain I/O error (or its "closed" sentinel). Whatever the error, the content of that acknowledgement must reach the broker later
    (after the resume, at the latest before the close request)."""
    scs = []
    ch = lambda k, up, idn: {"a": "sendChunk", "obj": "D1", "up": up, "upF": "info", "upAl": 0, "seq": k, "groups": [{"f": "id", "id": idn, "al": 0, "pts": [[k, 5]]}]}
    rd = {"a": "read", "g": "R1", "obj": "D1", "ctxMs": 1500, "wait": True}
    for do in ("failWriteIO", "failWrite"):
        for n in (1, 2):
            steps = [{"a": "connect", "must": True},
                     {"a": "openDown", "obj": "D1", "qos": "reliable", "srcs": ["n1"], "ids": ["A"], "ackFlushMs": 20, "must": True},
                     {"a": "rule", "rule": {"on": "DownstreamChunkAck", "inc": 1, "do": do}}]
            for j in range(n):
                steps += [ch(1 + j, "XY"[j], "BC"[j]), rd]
            steps += [{"a": "await", "ev": "Fault", "match": {"do": do}, "ms": 1000, "must": True}, {"a": "sleep", "ms": 30}, {"a": "cut"},
                      {"a": "await", "ev": "Reconnected", "ms": 4000, "must": True}, {"a": "sleep", "ms": 150},
                      ch(7, "X", "A"), rd, {"a": "sleep", "ms": 45},
                      {"a": "closeDown", "g": "C", "obj": "D1", "ctxMs": 3000, "wait": True}, {"a": "quiesce"},
                      {"a": "closeConn", "g": "main2", "wait": True, "ctxMs": 2000}, {"a": "quiesce", "ms": 50}]
            scs.append({"id": "%s/dyingLink/%s/%d" % (tag, do, n), "kind": "iscp", "conn": {"pingMs": [100, 100], "dialDelayMs": 40}, "steps": steps})
    return scs


def backpressure_family(tag):
    """the broker stops reading for longer than the ack flush interval (an ack write is blocked in the transport) while chunks with new
    upstreams / data ids are consumed; then it reads again. Everything consumed must still be acknowledged / announced exactly once."""
    scs = []
    ch = lambda k, up, idn: {"a": "sendChunk", "obj": "D1", "up": up, "upF": "info", "upAl": 0, "seq": k, "groups": [{"f": "id", "id": idn, "al": 0, "pts": [[k, 5]]}]}
    for n in (1, 2, 3):
        steps = [{"a": "connect", "must": True},
                 {"a": "openDown", "obj": "D1", "qos": "reliable", "srcs": ["n1"], "ids": ["A"], "ackFlushMs": 20, "must": True},
                 ch(1, "X", "A"), {"a": "read", "g": "R1", "obj": "D1", "ctxMs": 1500, "wait": True},
                 {"a": "stopReading"}, {"a": "sleep", "ms": 70}]
        for j in range(n):
            steps += [ch(2 + j, "YZW"[j], "BCD"[j]), {"a": "read", "g": "R%d" % (2 + j), "obj": "D1", "ctxMs": 3000}, {"a": "sleep", "ms": 40}]
        steps += [{"a": "stopReading", "mode": "off"}]
        for j in range(n):
            steps.append({"a": "join", "obj": "R%d" % (2 + j)})
        steps += [{"a": "sleep", "ms": 60}, ch(9, "X", "A"), {"a": "read", "g": "R1", "obj": "D1", "ctxMs": 1500, "wait": True}, {"a": "sleep", "ms": 45},
                  {"a": "closeDown", "g": "C", "obj": "D1", "ctxMs": 3000, "wait": True}, {"a": "quiesce"},
                  {"a": "closeConn", "g": "main2", "wait": True, "ctxMs": 2000}, {"a": "quiesce", "ms": 50}]
        scs.append({"id": "%s/backpressure/%d" % (tag, n), "kind": "iscp", "conn": {"pingMs": [5000, 1000]}, "steps": steps})
    return scs


def run(pid="C04", mon="MonC04"):
    ctx = Ctx(pid)
    quick = ctx.quick()
    ctx.assumptions += [
        "broker discipline: an alias is used only after the client announced it in an ack the broker received, or pre-registered it, or it is the bogus alias 99",
        "reads concurrent with Close are outside the judged obligations (weaker reading): the driver joins readers before Close",
        "ack flush interval 20 ms in the replay; an 'ackTick' of the model is a 35 ms pause",
    ]
    cfg = D.write_cfg("Downstream_%s_l1.cfg" % pid, maxc=3, readers=("R1",), cap=2, faults=0, byvalue=True, bogus=True)
    ctx.l1("Downstream", cfg, timeout=1500)
    os.remove(os.path.join(SPEC, cfg))
    # a pre-registration list with repetitions: registered once per data id
    cfg = D.write_cfg("Downstream_%s_l1c.cfg" % pid, maxc=3, readers=("R1",), cap=2, faults=0, byvalue=True, bogus=False, prereg="PreRegABA")
    ctx.l1("Downstream", cfg, timeout=1500)
    os.remove(os.path.join(SPEC, cfg))
    if pid == "C03":
        # sensitivity: an alias table that shrinks when the upstream's close metadata is read loses chunks that are still queued
        cfg = D.write_cfg("Downstream_%s_relmeta.cfg" % pid, maxc=2, readers=("R1",), cap=2, faults=0, byvalue=True, bogus=False, release_on_close_meta=True, invs="ResolvedRight")
        rc = ctx.l1("Downstream", cfg, must_hold=False, timeout=600)
        os.remove(os.path.join(SPEC, cfg))
        if rc.violated != "ResolvedRight":
            raise Inconclusive("variant ReleaseOnCloseMeta should violate ResolvedRight, TLC says %s" % (rc.violated or rc.error or "nothing"))
    if not quick:
        cfg = D.write_cfg("Downstream_%s_l1b.cfg" % pid, maxc=3, readers=("R1", "R2"), cap=3, faults=0, byvalue=True, bogus=False, prereg="PreRegNone")
        ctx.l1("Downstream", cfg, timeout=2400)
        os.remove(os.path.join(SPEC, cfg))
        # the as-coded variant (one alias per list position) must violate IdAliasInjective
        cfg = D.write_cfg("Downstream_%s_coded.cfg" % pid, maxc=1, readers=("R1",), cap=2, faults=0, byvalue=True, bogus=False, prereg="PreRegAA", dedup=False)
        rc = ctx.l1("Downstream", cfg, must_hold=False, timeout=600)
        os.remove(os.path.join(SPEC, cfg))
        if rc.violated != "IdAliasInjective":
            raise Inconclusive("as-coded pre-registration model should violate IdAliasInjective, TLC says %s" % (rc.violated or rc.error or "nothing"))
    scs = core(pid) + family(ctx, pid, 40 if quick else 400, quick, bogus=False, maxc=6, name="sim")
    scs += family(ctx, pid, 25 if quick else 300, quick, bogus=True, maxc=4, name="bogus")
    scs += forms_family(pid, 4, "up") + forms_family(pid, 4, "id") if quick else forms_family(pid, 5, "up") + forms_family(pid, 5, "id")
    scs += prereg_family(pid) + multigroup_family(pid)
    # JSON wire encoding (WithConnEncoding)
    js = forms_family(pid, 3, "id", conn={"encoding": "json"}, name="forms-id3-json") + forms_family(pid, 3, "up", conn={"encoding": "json"}, name="forms-up3-json")
    for x in multigroup_family(pid):
        js.append(dict(x, id=x["id"] + "-json", conn=dict(x["conn"], encoding="json")))
    scs += js
    if pid == "C03":
        scs += meta_family(pid) + dupfilter_family(pid) + upclose_family(pid) + after_resume_family(pid) + downmeta(ctx, pid, quick)
        # unreliable downstream over a transport with a separate unreliable path (chunks arrive on the datagram-like pipe)
        scs += forms_family(pid, 3, "up", qos="unreliable", conn={"unreliable": True}, name="forms-up3-unreliable-path")
        scs += forms_family(pid, 3, "up", qos="partial", name="forms-up3-partial")
    if pid == "C04":
        scs += backpressure_family(pid) + dying_link_family(pid) + bulk_family(pid, quick)
        scs += family(ctx, pid, 25 if quick else 300, quick, bogus=False, faults=1, maxc=5, name="resume",
                      conn={"pingMs": [100, 100], "dialDelayMs": 40}, ack_flush_ms=250)
    trace = ctx.run_scenarios(scs, pid.lower(), par=8)
    verdicts, _ = ctx.validate(trace, mon)
    ctx.judge(scs, trace, verdicts)
    if pid == "C03":
        # trace validation in the strict sense: the recorded metadata events of every downmeta scenario must be a behaviour of DownMeta.tla
        # (logged events = BSend / Read with their arguments and results, internal steps silent)
        by, order = ctx.load_trace(trace)
        scmap = {s["id"]: s for s in scs}
        nval = 0
        for fl in D.META_FILTERS:
            per = {sid: D.meta_trace_lines(by[sid], sid) for sid in order
                   if sid.startswith("%s/downmeta-%s/" % (pid, fl)) and not any(e.get("ev") == "Inconclusive" for e in by[sid])}
            if not per:
                continue
            nval += len(per)
            ctx.last_validate = {"mon": "MonC03", "tracespec": "DownMeta", "filters": fl}
            for sid in D.trace_validate_meta(ctx, fl, per):
                path = ctx.write_replay(scmap.get(sid), by[sid], "TraceRejected")
                ctx.violations.append((sid, "TraceRejected", path))
        ctx.cov["clauses"]["tracesAcceptedByDownMetaSpec"] = nval - sum(1 for v in ctx.violations if v[1] == "TraceRejected")
        # the binding is real: a trace with one corrupted field (two results of one source node swapped / a result nobody sent) is rejected
        import json as _json
        for fl in ("F_121", "F_11"):
            for sid in order:
                if not sid.startswith("%s/downmeta-%s/" % (pid, fl)):
                    continue
                ls = [_json.loads(x) for x in D.meta_trace_lines(by[sid], sid)]
                rd = [k for k, x in enumerate(ls) if x["ev"] == "ReadMeta" and x["err"] == "" and x["src"] == "n1"]
                if len(rd) < 2:
                    continue
                swapped = [dict(x) for x in ls]
                swapped[rd[0]]["tag"], swapped[rd[1]]["tag"] = ls[rd[1]]["tag"], ls[rd[0]]["tag"]
                invented = [dict(x) for x in ls]
                invented[rd[-1]]["tag"] = 777
                for name, mut in (("swapped", swapped), ("invented", invented)):
                    if D.trace_validate_meta(ctx, fl, {sid: [_json.dumps(x) for x in mut]}) != [sid]:
                        raise Inconclusive("TraceDownMeta accepted a corrupted trace (%s results in %s): the trace specification does not bind" % (name, sid))
                ctx.notes.append("binding self-test: TraceDownMeta rejects %s with swapped / invented ReadMetadata results" % sid)
                break
    ctx.finish(rule="scenarios = environment projections (chunks in full/alias form incl. bogus aliases and pre-registered data ids, reads, ack ticks, close) "
                    "of random complete behaviours of Downstream.tla plus fixed full-form-repeated scenarios, replayed on a real downstream; "
                    "non-trivial = verdict produced")


if __name__ == "__main__":
    main_wrap(run)
