"""C04 -- downstream acks every consumed chunk once and announces aliases consistently."""
import os, sys
from vlib import Ctx, main_wrap, pick, SPEC, Inconclusive
import upscripts as U
import downscripts as D


def family(ctx, tag, n, quick, bogus=True, faults=0, maxc=5, name="sim", **kw):
    gcfg = D.write_cfg("Downstream_gen_%s.cfg" % tag, maxc=maxc, readers=("R1",), cap=8, faults=faults, byvalue=True, bogus=bogus, view=False, gen=True,
                       invs="OnceEach ResolvedRight AckAtMostOnce UpAliasInjective IdAliasInjective" if faults else D.INVS)
    r = ctx.tlc("Downstream", gcfg, workers=1, simulate="num=%d" % (400 if quick else 4000), depth=150, timeout=900)
    os.remove(os.path.join(SPEC, gcfg))
    if r.violated or r.error:
        raise Inconclusive("simulation failed: %s" % (r.violated or r.error))
    scripts = U.scripts_of(r)
    if faults:
        scripts = [s for s in scripts if any(op["a"] == "cut" for op in s)]
    return [D.to_scenario("%s/%s/%d" % (tag, name, k), sc, **kw) for k, sc in enumerate(pick(scripts, n, ctx.seed))]


def meta_family(tag):
    """metadata from two source nodes interleaved with chunks; per-source order and acks (C03)."""
    scs = []
    for k, order in enumerate([["n1", "n2", "n1", "n2"], ["n1", "n1", "n2", "n1", "n2", "n2"], ["n2", "n1"]]):
        steps = [{"a": "connect", "must": True}, {"a": "openDown", "obj": "D1", "qos": "reliable", "srcs": ["n1", "n2"], "ids": ["A"], "ackFlushMs": 20, "must": True}]
        for j, src in enumerate(order):
            steps.append({"a": "sendDownMeta", "obj": "D1", "src": src, "tag": 100 + j})
            if j % 2 == 0:
                steps.append({"a": "sendChunk", "obj": "D1", "up": "X", "upF": "info", "upAl": 0, "seq": j + 1, "groups": [{"f": "id", "id": "A", "al": 0, "pts": [[j + 1, 4]]}]})
                steps.append({"a": "read", "g": "R1", "obj": "D1", "ctxMs": 1200, "wait": True})
        steps.append({"a": "sendDownMeta", "obj": "D1", "src": "zz", "tag": 999})      # unknown source node: must not disturb anything
        for j in range(len(order)):
            steps.append({"a": "readMeta", "g": "R2", "obj": "D1", "ctxMs": 1200, "wait": True})
        steps += [{"a": "closeDown", "g": "C", "obj": "D1", "ctxMs": 3000, "wait": True}, {"a": "quiesce"},
                  {"a": "closeConn", "g": "main2", "wait": True, "ctxMs": 2000}, {"a": "quiesce", "ms": 50}]
        scs.append({"id": "%s/meta/%d" % (tag, k), "kind": "iscp", "conn": {}, "steps": steps})
    return scs


def core(tag):
    """fixed scenarios: the same upstream in full form several times before the first ack flush; pre-registered ids; close with pending acks."""
    scs = []
    for n in (2, 3):
        steps = []
        for k in range(1, n + 1):
            steps.append({"a": "sendChunk", "k": k, "up": "X", "upF": "info", "upAl": 0, "id": "AB"[k % 2], "idF": "id", "idAl": 0})
        for k in range(1, n + 1):
            steps.append({"a": "read", "g": "R1"})
        steps += [{"a": "ackTick"}, {"a": "sendChunk", "k": n + 1, "up": "X", "upF": "alias", "upAl": 1, "id": "A", "idF": "al", "idAl": 1},
                  {"a": "read", "g": "R1"}, {"a": "close"}]
        scs.append(D.to_scenario("%s/core/fullform%d" % (tag, n), steps))
    return scs


def run(pid="C04", mon="MonC04"):
    ctx = Ctx(pid)
    quick = ctx.quick()
    ctx.assumptions += [
        "broker discipline: an alias is used only after the client announced it in an ack the broker received, or pre-registered it, or it is the bogus alias 99",
        "reads concurrent with Close are outside the judged obligations (weaker reading): the driver joins readers before Close",
        "ack flush interval 20 ms in the replay; an 'ackTick' of the model is a 35 ms pause",
    ]
    cfg = D.write_cfg("Downstream_%s_l1.cfg" % pid, maxc=3, readers=("R1",), cap=2, faults=0, byvalue=True, bogus=True)
    ctx.l1("Downstream", cfg, timeout=1500)
    os.remove(os.path.join(SPEC, cfg))
    if not quick:
        cfg = D.write_cfg("Downstream_%s_l1b.cfg" % pid, maxc=3, readers=("R1", "R2"), cap=3, faults=0, byvalue=True, bogus=False, prereg="PreRegNone")
        ctx.l1("Downstream", cfg, timeout=2400)
        os.remove(os.path.join(SPEC, cfg))
    scs = core(pid) + family(ctx, pid, 40 if quick else 400, quick, bogus=False, maxc=6, name="sim")
    scs += family(ctx, pid, 25 if quick else 300, quick, bogus=True, maxc=4, name="bogus")
    if pid == "C03":
        scs += meta_family(pid)
    if pid == "C04":
        scs += family(ctx, pid, 25 if quick else 300, quick, bogus=False, faults=1, maxc=5, name="resume",
                      conn={"pingMs": [100, 100], "dialDelayMs": 40}, ack_flush_ms=250)
    trace = ctx.run_scenarios(scs, pid.lower(), par=8)
    verdicts, _ = ctx.validate(trace, mon)
    ctx.judge(scs, trace, verdicts)
    ctx.finish(rule="scenarios = environment projections (chunks in full/alias form incl. bogus aliases and pre-registered data ids, reads, ack ticks, close) "
                    "of random complete behaviours of Downstream.tla plus fixed full-form-repeated scenarios, replayed on a real downstream; "
                    "non-trivial = verdict produced")


if __name__ == "__main__":
    main_wrap(run)
