"""C16 -- end-to-end calls and replies reach exactly the caller they belong to."""
import os
import threading
from vlib import Ctx, main_wrap, pick, SPEC, Inconclusive, log
import upscripts as U
import e2escripts as E

L1_QUICK = ["E2ECall_q.cfg", "E2ECall_q2.cfg", "E2ECall_q3.cfg", "E2ECall_q4.cfg"]
L1_THOROUGH = ["E2ECall_t.cfg", "E2ECall_t2.cfg", "E2ECall_t3.cfg", "E2ECall_t4.cfg"]
# design-level sensitivity: the invariants are not vacuous (a constant call id / a dispatcher that keeps the waiter entry break them)
L1_SENS = [("E2ECall_sens_constid.cfg", "NegativeAckOnlyThatCaller"), ("E2ECall_sens_nodelete.cfg", "DeliverNonBlocking")]


def simulate(ctx, name, gcfg, num, depth=220):
    """random complete behaviours of a generator configuration -> distinct environment scripts."""
    r = ctx.tlc("E2ECall", gcfg, workers=1, simulate="num=%d" % num, depth=depth, timeout=600, name="gen-" + name)
    if r.violated or r.error:
        raise Inconclusive("simulation %s failed: %s" % (name, r.violated or r.error))
    return [s for s in U.scripts_of(r) if any(op["a"] == "call" for op in s)]


def run():
    ctx = Ctx("C16")
    quick = ctx.quick()
    ctx.assumptions += [
        "in-memory synchronous pipe transport: a broker write returns nil iff the client's transport read the message",
        "payloads are derived from process and tag: a caller is tied to its UpstreamCall at the broker by the payload checksum",
        "inbox overflow (more than 1024 undelivered calls / replies are discarded by design) is outside the judged obligations",
        "an API call may legally return by context/close while its ack is on the way: 'ack not reported' is judged only for acks "
        "written >= 400 ms before the return or still unreported at the settle point before Close (step 'settle': 250 ms without any event other than keep-alive, restarted when the driver itself oversleeps; inconclusive if no such window)",
        "quick L1 configurations run the registration steps eagerly (ACTION_CONSTRAINT EagerLocal, sound for fresh ids); "
        "E2ECall_t2.cfg and the sensitivity configurations explore every interleaving",
    ]
    # ---- L1: exhaustive design check, concurrently with the script generation (separate JVMs)
    l1_err = []

    def l1_all():
        try:
            for cfg in L1_QUICK + ([] if quick else L1_THOROUGH):
                ctx.l1("E2ECall", cfg, timeout=300 if quick else 1500, workers=8 if quick else 16, name="l1-" + cfg[:-4])
            if not quick:
                for cfg, inv in L1_SENS:
                    r = ctx.l1("E2ECall", cfg, timeout=300, must_hold=False, name="l1-" + cfg[:-4])
                    if r.violated != inv:
                        raise Inconclusive("sensitivity configuration %s: expected %s to be violated, got %s" % (cfg, inv, r.violated or r.error or "no violation"))
        except Inconclusive as e:
            l1_err.append(e)
        except Exception as e:      # noqa
            l1_err.append(Inconclusive("L1 thread: %r" % (e,)))

    # ---- scripts
    scs = E.core_family("C16")
    fams = [
        # name, sample size quick/thorough, simulate runs quick/thorough, scenario kwargs, cfg
        ("sim3", 40, 250, 300, 2000, {}, dict(callers=("P1", "P2", "P3"), per=2, acks=5, dup=1, neg=1, unk=1, rep=4, dupr=1, unkr=1, inc=2, maxrecv=3)),
        ("sim8", 30, 200, 200, 1500, {}, dict(callers=tuple("P%d" % i for i in range(1, 9)), per=1, acks=9, dup=1, neg=2, unk=1, rep=7, dupr=1, unkr=1, inc=1, maxrecv=2)),
        ("expire", 10, 60, 150, 800, {}, dict(callers=("P1", "P2", "P3"), kinds=("call", "callWait"), acks=4, dup=1, neg=1, unk=0, rep=3, dupr=0, unkr=0, inc=0, cr=(), maxrecv=1, expire=1)),
        ("reconnect", 15, 100, 200, 1200, {"conn": E.RECONNECT_CONN}, dict(callers=("P1", "P2", "P3"), acks=4, dup=1, neg=1, unk=0, rep=3, dupr=0, unkr=1, inc=1, maxrecv=2, faults=1)),
    ]
    # generator cfgs are written before any TLC run starts (every run copies the spec directory)
    gcfgs = {f[0]: E.write_cfg("E2ECall_gen_%s_%d.cfg" % (f[0], os.getpid()), **f[6]) for f in fams}
    th = threading.Thread(target=l1_all)
    th.start()
    try:
        scs += generated(ctx, fams, gcfgs, quick)
        # the replay is not run concurrently with the model checker: judgements at the settle point need a machine that
        # schedules the library's goroutines in time
        th.join()
        trace = ctx.run_scenarios(scs, "c16", par=8)
        verdicts, _ = ctx.validate(trace, "MonC16")
    finally:
        th.join()
        for g in gcfgs.values():
            os.remove(os.path.join(SPEC, g))
    ctx.judge(scs, trace, verdicts)
    if l1_err:
        raise l1_err[0]
    finish(ctx)


def generated(ctx, fams, gcfgs, quick):
    scs = []
    for name, nq, nt, sq, st, kw, cfg in fams:
        scripts = simulate(ctx, name, gcfgs[name], sq if quick else st)
        if name == "expire":
            scripts = [s for s in scripts if any(op["a"] == "expire" for op in s)]
        if name == "reconnect":
            scripts = [s for s in scripts if any(op["a"] == "redial" for op in s)]
        chosen = pick(scripts, nq if quick else nt, ctx.seed)
        log("[C16] family %s: %d distinct scripts, %d chosen" % (name, len(scripts), len(chosen)))
        for k, s in enumerate(chosen):
            scs.append(E.to_scenario("C16/%s/%d" % (name, k), s, **kw))
    return scs


def finish(ctx):
    ctx.finish(rule="scenarios = fixed core (3 callers of the three kinds with acks in all 6 orders, replies before acks in all 6 orders, duplicated "
                    "acks/replies, acks and replies for unknown ids, a negative ack for each one of three, context expiry with a late ack, inboxes, "
                    "reconnect between call and ack incl. a cut while the call is written) + environment projections (who calls what, broker acks / "
                    "replies / incoming calls in their order, receives, expiry, cut/redial, close) of random complete behaviours of E2ECall.tla with "
                    "3 callers x 2 calls and with 8 concurrent callers, replayed on a real connection against the in-memory broker; distinct scripts only; "
                    "non-trivial = the monitor produced a verdict for a run that was not inconclusive",
               exhaustive=False)


if __name__ == "__main__":
    main_wrap(run)
