"""C19 -- the multi-transport routes writes to the selected member and merges all reads."""
import json
import os
from vlib import Ctx, Inconclusive, main_wrap, pick, SPEC, log

CONSTS = {"Members": '{"m1", "m2", "m3"}', "Ids": '{"m1", "m2", "m3", "zz", ""}', "AsCoded": "FALSE", "GenCanon": "FALSE", "MaxFails": "0"}

QUICK_N = 900
ISO_CHUNK = 1500
MAX_SCENARIOS = 30000   # guard: every isolated child parses the whole scenario file
QUICK_FAMS = ("route2", "probe", "sub1", "sub2", "mix", "init", "lu", "w3q", "hold", "holdr")

GEN_CFG = """SPECIFICATION Spec
CONSTANTS
  MaxFails = 0
  Members = {"m1", "m2", "m3"}
  Ids = {"m1", "m2", "m3", "zz", ""}
  AsCoded = FALSE
  GenCanon = TRUE
  Fams <- %s
  MaxSel = 0
  MaxWrites = 0
  MaxReads = 0
  MaxProbe = 0
  MaxRac = 0
INVARIANTS WritesToCurrent ReadsOnce CloseClosesAll CountersAreSums UnknownIdHarmless
CONSTRAINT GenPrint
CHECK_DEADLOCK FALSE
"""


def gen(ctx, fams):
    """Every complete environment script (select / write / memberRead / read / probes / close) of the
    generator families `fams` of MultiTransport.tla; duplicates (same parameters and steps) removed."""
    cfg = "MultiTransport_gen_%s_%d.cfg" % (fams, os.getpid())
    with open(os.path.join(SPEC, cfg), "w") as f:
        f.write(GEN_CFG % fams)
    try:
        r = ctx.l1("MultiTransport", cfg, timeout=600)
    finally:
        os.remove(os.path.join(SPEC, cfg))
    out, seen = [], set()
    for s in r.printed:
        if isinstance(s, str) and s.startswith("SCRIPT "):
            d = json.loads(s[7:])
            b = d["b"]
            key = json.dumps([b["name"], sorted(b["M"]), b["init"], sorted(b.get("cerr", [])), d["steps"]], sort_keys=True)
            if key in seen:
                continue
            seen.add(key)
            out.append({"fam": b["name"], "members": sorted(b["M"]), "init": b["init"], "cerr": sorted(b.get("cerr", [])), "steps": d["steps"]})
    out.sort(key=lambda x: json.dumps(x, sort_keys=True))
    return out


def unknown(p, steps):
    if p["init"] not in p["members"] or p["mode"] in ("lastused", "lastused-unattached"):
        return True
    if p["mode"] == "rr":
        return any(i not in p["members"] for i in p["rr"])
    return any(s["a"] == "select" and s.get("id", "") not in p["members"] for s in steps)


def scenarios(ctx, scripts):
    scs = []
    cnt = {}

    def add(fam, p, steps):
        tag = "%s/%s-%s" % (fam, p["mode"], "w" if p["wait"] else "n")
        cnt[tag] = cnt.get(tag, 0) + 1
        scs.append({"id": "C19/%s/%d" % (tag, cnt[tag]), "kind": "multi", "p": p, "steps": steps})

    orders = {}
    for sc in scripts:
        base = {"members": sc["members"], "init": sc["init"], "closeErr": sc.get("cerr", [])}
        has_sel = any(s["a"] == "select" for s in sc["steps"])
        if has_sel:
            variants = [("event", True), ("event", False), ("poll", True), ("nic", True)]
            if not ctx.quick() and sc["fam"] in QUICK_FAMS:
                variants += [("poll", False), ("nic", False)]
        else:
            variants = [("event", False), ("polldefault", False)]
        for mode, wait in variants:
            add(sc["fam"], dict(base, mode=mode, wait=wait), sc["steps"])
        # the real pollers decide the ids themselves: only the order of the operations matters
        if has_sel and sc["init"] in sc["members"] and sc["fam"] in ("route2", "sub2", "lu", "w3", "hold"):
            st = [dict(s, id="?") if s["a"] == "select" else s for s in sc["steps"]]
            orders.setdefault(json.dumps([sc["fam"], base, st], sort_keys=True), (sc["fam"], base, st))
    for fam, base, st in orders.values():
        for wait in (True, False):
            for rr in (["m2", "m3", "m1"], ["m2", "zz", "m1"], ["", "m2"]):
                add(fam, dict(base, mode="rr", wait=wait, rr=rr), st)
            add(fam, dict(base, mode="lastused", wait=wait), st)
    # fixed corners
    add("corner", {"members": [], "init": "", "mode": "lastused-unattached", "wait": False}, [])
    for bad, mem in (("gid", ["m1", "m2"]), ("count", ["m1", "m2", "m3"]), ("gid", ["m1"]), ("empty", [])):
        for mode in ("event", "polldefault"):
            add("corner", {"members": mem, "init": mem[0] if mem else "", "mode": mode, "wait": False, "badCfg": bad},
                [{"a": "write", "n": 1}, {"a": "negotiationParams"}, {"a": "close"}])
    # two transport generations from one configuration (what iscp's reconnect does with a user-supplied scheduler): the scheduler's
    # selection must reach the second transport as well, also when it names the same member as before
    for mode in ("poll", "event", "nic", "rr"):
        for ids in (["m2", "m2"], ["m2", "m3"], ["m3", "m3"]):
            p = {"members": ["m1", "m2", "m3"], "init": "m1", "mode": mode, "wait": True}
            if mode == "rr":
                p["rr"] = [ids[0]]      # a poller that always answers the same member
            add("renew", p, [{"a": "select", "id": ids[0]}, {"a": "write", "n": 1}, {"a": "close"}, {"a": "renew"},
                             {"a": "select", "id": ids[1] if mode != "rr" else ids[0]}, {"a": "write", "n": 1}, {"a": "negotiationParams"}, {"a": "close"}])
    # members whose Read fails (link gone): the others are still read and written, Close still closes every member - also when every
    # member's reader has ended
    for mode in ("event", "polldefault"):
        for failing in (["m1"], ["m2", "m3"], ["m1", "m2", "m3"], ["m3", "m1", "m2"]):
            alive = [x for x in ("m1", "m2", "m3") if x not in failing]
            st = [{"a": "memberRead", "src": "m1", "n": 1}, {"a": "read"}] + [{"a": "memberFail", "src": x} for x in failing]
            st += [{"a": "write", "n": 1}]
            if alive:
                st += [{"a": "memberRead", "src": alive[0], "n": 2}, {"a": "read"}]
            st += [{"a": "counters"}, {"a": "close"}, {"a": "read"}]
            add("rfail", {"members": ["m1", "m2", "m3"], "init": "m1", "mode": mode, "wait": False}, st)
    # a Write that stays inside the current member for a long time (250 ms) while the scheduler selects another member: the selection
    # is applied once the write is through, later writes go to the selected member
    for mode in ("event", "nic", "poll"):
        for sel in (["m2"], ["m3", "m2"], ["zz", "m3"]):
            st = [{"a": "writeBegin", "n": 1}] + [{"a": "select", "id": x} for x in sel] + [{"a": "writeEnd"}, {"a": "write", "n": 2},
                  {"a": "negotiationParams"}, {"a": "write", "n": 3}, {"a": "close"}]
            add("stall", {"members": ["m1", "m2", "m3"], "init": "m1", "mode": mode, "wait": True, "holdMs": 250}, st)
    add("corner", {"members": ["m1", "m2", "m3"], "init": "m2", "mode": "event", "wait": True},
        [{"a": "memberRead", "src": "m1", "n": 1}, {"a": "memberRead", "src": "m3", "n": 2}, {"a": "select", "id": "m3"},
         {"a": "write", "n": 1}, {"a": "counters"}, {"a": "close"}, {"a": "read"}])
    return scs


def run():
    ctx = Ctx("C19")
    ctx.harness_cmd = "vhmulti"
    ctx.assumptions += [
        "member transports are scripted fakes (log every Write/Close, Read returns scripted messages, counters = bytes written / handed out)",
        "scheduler output is paced by the script: EventScheduler / NICEventSubscriber are fed by the driver; the PollingScheduler "
        "(interval 1 ms) uses a gated Poller (scripted id, or the real RoundRobinPoller / LastUsedPoller behind the gate), so the trace "
        "holds exactly one `select` event per id emitted",
        "the application of a selection (goroutine transportIDLoop) and the merge of member reads are silent steps: the monitor keeps the "
        "set of possible model states; `wait` scenarios observe the switch through NegotiationParams (<= 1 s for a member id, "
        "30 ms observation window for an id that must be ignored), `nowait` scenarios race the next operation with the selection",
        "an unknown InitialTransportID may be rejected by NewTransport or ignored (any member current); unknown scheduler ids must be ignored",
    ]
    # L1: exhaustive model check (all member sets x initial ids; selections incl. non-members and ""; applySel / pump interleaved)
    ctx.l1("MultiTransport", "MultiTransport_q.cfg")
    ctx.l1("MultiTransport", "MultiTransport_fail.cfg")     # members whose Read fails: Close still closes all, reads from the others
    if not ctx.quick():
        # <=4 selections, <=3 writes, <=2 member reads / <=2 selections, 1 write, <=3 member reads
        # (the joint bound 4/3/3 has > 10^8 states: > 15 min, not part of the check)
        ctx.l1("MultiTransport", "MultiTransport_t.cfg", timeout=1200)
        ctx.l1("MultiTransport", "MultiTransport_t2.cfg", timeout=1200)
    # the as-coded variant of the model must reach the nil dereference (TLC finds the bad interleaving)
    rc = ctx.l1("MultiTransport", "MultiTransport_coded.cfg", must_hold=False)
    if rc.violated != "NoCrash":
        raise Inconclusive("the as-coded model does not reach the crash (expected NoCrash violated, got %s)" % (rc.violated or rc.error))
    ctx.notes.append("L1 MultiTransport_coded.cfg (AsCoded=TRUE: ids never validated) violates NoCrash as expected: "
                     "select(non-member) -> applySel -> Write/NegotiationParams dereferences a nil member")
    scripts = gen(ctx, "GenQ")
    if not ctx.quick():
        scripts += gen(ctx, "GenT")
    scs = scenarios(ctx, scripts)
    total = len(scs)
    if ctx.quick():
        # always part of the quick tier: the fixed corners and the scenarios in which selections queue up behind a write in flight
        def fixed(s):
            return "/corner/" in s["id"] or s["id"].startswith("C19/cerr/") or s["id"].startswith("C19/renew/") or s["id"].startswith("C19/rfail/") or s["id"].startswith("C19/stall/") or (s["id"].startswith("C19/hold/") and s["p"]["wait"]
                                             and sum(1 for x in s["steps"] if x["a"] == "select") == 2)
        corners = [s for s in scs if fixed(s)]
        scs = pick([s for s in scs if not fixed(s)], QUICK_N, ctx.seed) + corners
    if len(scs) > MAX_SCENARIOS:
        raise Inconclusive("generator families produce %d scenarios (> %d): trim the families in MultiTransport.tla" % (len(scs), MAX_SCENARIOS))
    log("[C19] %d scripts, %d scenarios (of %d)" % (len(scripts), len(scs), total))
    # scenarios naming an id outside the member set run one process per scenario: a panic in a library
    # goroutine would otherwise take the whole runner down (event Exit -> clause ProcessDied)
    iso = [s for s in scs if unknown(s["p"], s["steps"])]
    plain = [s for s in scs if not unknown(s["p"], s["steps"])]
    trace = os.path.join(ctx.work, "c19-all.ndjson")
    # (isolated children parse their whole scenario file: keep the files small)
    parts = [(plain, "c19", False)] + [(iso[i:i + ISO_CHUNK], "c19unk%d" % (i // ISO_CHUNK), True) for i in range(0, len(iso), ISO_CHUNK)]
    with open(trace, "w") as out:
        for part, name, isolate in parts:
            if not part:
                continue
            t = ctx.run_scenarios(part, name, par=16, isolate=isolate)
            with open(t) as f:
                out.write(f.read())
            os.remove(t)
    verdicts, r = ctx.validate(trace, "MonC19", consts=CONSTS)
    ctx.judge(scs, trace, verdicts)
    ctx.finish(rule="scenarios = every complete environment script (select(id) over members / non-members / \"\", write, memberRead, read, "
                    "counters, asUnreliable, negotiationParams, close) of the generator families of MultiTransport.tla x scheduler plumbing "
                    "(EventScheduler, NICEventSubscriber, PollingScheduler with scripted / RoundRobin / LastUsed poller) x {wait, nowait}; "
                    "non-trivial = scenario whose trace was consumed completely by the set-of-states monitor with a verdict",
               exhaustive=not ctx.quick())


if __name__ == "__main__":
    main_wrap(run)
