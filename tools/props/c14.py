"""C14 -- datagram messages are reassembled exactly or not at all."""
import json
from vlib import Ctx, main_wrap, pick

CFG_TMPL = """SPECIFICATION Spec
CONSTANTS
  P = 1188
  MsgLens <- %(lens)s
  Expiry = 1
  MaxTicks = %(ticks)d
  MaxBad = %(bad)d
  MaxSegIdx = 65535
  GenCanon = %(canon)s
%(view)s
INVARIANTS ExactOrNothing NothingIfMissing AllSegmentsIn ForgottenAfterExpiry OversizeRefused TableConsistent AllDeliveredIfNoLoss
%(constraint)s
CHECK_DEADLOCK FALSE
"""

LENS = {"LensQ": [2377, 1188, 0], "LensQ2": [1, 1189], "LensT": [3564, 2376, 1187], "LensFour": [3565],
        "LensSix": [5941], "LensSixExact": [5940], "LensBig": [77856768, 1], "LensTwoTwo": [2376, 1189]}


def gen(ctx, lens, ticks, bad, name):
    import os
    from vlib import SPEC
    cfg = "Segment_gen_%s.cfg" % name
    with open(os.path.join(SPEC, cfg), "w") as f:
        f.write(CFG_TMPL % dict(lens=lens, ticks=ticks, bad=bad, canon="TRUE", view="", constraint="CONSTRAINT GenPrint"))
    r = ctx.l1("Segment", cfg, timeout=600)
    os.remove(os.path.join(SPEC, cfg))
    scs = []
    for s in r.printed:
        if isinstance(s, str) and s.startswith("SCRIPT "):
            steps = json.loads(s[7:])
            scs.append({"id": "C14/%s/%d" % (name, len(scs)), "kind": "segment", "p": {"msgLens": LENS[lens], "P": 1188, "expiry": 1},
                        "steps": steps})
    return scs


def run():
    ctx = Ctx("C14")
    ctx.assumptions += [
        "segment payload = 1188 bytes (maxDatagramFrameSize-8); the model uses the real byte lengths",
        "duplicated datagrams are outside the property's quantifier (permutations and losses) and are not generated",
        "the package clock of internal/segment is replaced by a scripted clock (verif hook) so expiry is deterministic",
    ]
    # L1: exhaustive model check (merged by VIEW) of all operation sequences incl. ticks, gc, malformed
    ctx.l1("Segment", "Segment_q.cfg")
    if not ctx.quick():
        ctx.l1("Segment", "Segment_t.cfg", timeout=1200)
    # script generation = every complete path of the generator configurations
    scs = []
    scs += gen(ctx, "LensFour", 0, 0, "four")           # all ordered subsets of a 4-segment message
    scs += gen(ctx, "LensQ2", 2, 1, "q2ticks")           # 1+2 segments, two ticks, gc, malformed
    scs += gen(ctx, "LensTwoTwo", 0, 0, "twotwo")        # two in-flight messages of 3 and 2 segments interleaved
    if not ctx.quick():
        scs += gen(ctx, "LensSix", 0, 0, "six")          # all 1957 ordered subsets of 6 segments
        scs += gen(ctx, "LensSixExact", 0, 0, "sixexact")
        scs += gen(ctx, "LensQ", 0, 1, "q")
    if ctx.quick():
        scs = pick(scs, 700, ctx.seed, core=200)
    # fixed corner scenarios: exact lengths around the payload size, oversize refusal
    corner = [0, 1, 1187, 1188, 1189, 2375, 2376, 2377, 3564]
    for k, n in enumerate(corner):
        mx = 0 if n <= 1188 else n // 1188
        steps = [{"a": "send", "n": 1}] + [{"a": "deliver", "n": 1, "seq": i} for i in reversed(range(mx + 1))]
        scs.append({"id": "C14/corner/%d" % n, "kind": "segment", "p": {"msgLens": [n], "P": 1188, "expiry": 1}, "steps": steps})
    scs.append({"id": "C14/oversize", "kind": "segment", "p": {"msgLens": [77856768, 1], "P": 1188, "expiry": 1},
                "steps": [{"a": "send", "n": 1}, {"a": "send", "n": 2}, {"a": "deliver", "n": 2, "seq": 0}]})
    trace = ctx.run_scenarios(scs, "c14", par=4)
    verdicts, r = ctx.validate(trace, "MonC14", consts={"P": 1188, "Expiry": 1, "MaxTicks": 9, "MaxBad": 9, "MaxSegIdx": 65535, "GenCanon": "FALSE"})
    ctx.judge(scs, trace, verdicts)
    ctx.finish(rule="scenarios = every complete path (send / deliver in every order / lose every subset / tick / gc / malformed) "
                    "of the generator configurations of Segment.tla, replayed lock-step on segment.SendTo and ReadBuffers; "
                    "non-trivial = scenario whose trace was consumed completely by the monitor with a verdict",
               exhaustive=not ctx.quick())


if __name__ == "__main__":
    main_wrap(run)
