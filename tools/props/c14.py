"""C14 -- datagram messages are reassembled exactly or not at all."""
import json
import os
from vlib import Ctx, Inconclusive, main_wrap, pick, SPEC

CFG_TMPL = """SPECIFICATION Spec
CONSTANTS
  P = 1188
  MsgLens <- %(lens)s
  Expiry = 1
  MaxTicks = %(ticks)d
  MaxBad = %(bad)d
  MaxSegIdx = 65535
  SlotWrap = FALSE
  GenCanon = %(canon)s
%(view)s
INVARIANTS ExactOrNothing NothingIfMissing AllSegmentsIn ForgottenAfterExpiry OversizeRefused TableConsistent AllDeliveredIfNoLoss
%(constraint)s
CHECK_DEADLOCK FALSE
"""

LENS = {"LensQ": [2377, 1188, 0], "LensQ2": [1, 1189], "LensT": [3564, 2376, 1187], "LensFour": [3565],
        "LensSix": [5941], "LensSixExact": [5940], "LensBig": [77856768, 1], "LensTwoTwo": [2376, 1189]}


def gen(ctx, lens, ticks, bad, name):
    import os
    from vlib import SPEC
    cfg = "Segment_gen_%s.cfg" % name
    with open(os.path.join(SPEC, cfg), "w") as f:
        f.write(CFG_TMPL % dict(lens=lens, ticks=ticks, bad=bad, canon="TRUE", view="", constraint="CONSTRAINT GenPrint"))
    r = ctx.l1("Segment", cfg, timeout=600)
    os.remove(os.path.join(SPEC, cfg))
    scs = []
    for s in r.printed:
        if isinstance(s, str) and s.startswith("SCRIPT "):
            steps = json.loads(s[7:])
            scs.append({"id": "C14/%s/%d" % (name, len(scs)), "kind": "segment", "p": {"msgLens": LENS[lens], "P": 1188, "expiry": 1},
                        "steps": steps})
    return scs


DG_GEN_CFG = """SPECIFICATION Spec
CONSTANTS
  MaxWrites = %(writes)d
  MaxSegs = 3
  RollbackSeq = FALSE
  Reorder = FALSE
  GenCanon = TRUE
INVARIANTS ExactOrNothing AtMostOnce FailedNeverDelivered AllDelivered FreshSeq TableConsistent
CONSTRAINT GenPrint
CHECK_DEADLOCK FALSE
"""
DG_SITES = ("datagram", "transport", "alt")


def dgram_part(ctx):
    """Transport level: the sending sites of transport/quic (datagram.Write, Transport.WriteUnreliable: sequence number
    allocation + segment.SendTo) and the receive plumbing of quic.Transport, two real transports back to back."""
    ctx.assumptions += [
        "transport level (DgramLink.tla): two quic.Transport values over an in-memory quic-go Connection, in-order and loss-free; "
        "a scripted SendDatagram call of a write returns quic-go's DatagramTooLargeError; one writer goroutine; "
        "scenarios last milliseconds (read-buffer expiry 10 s is not reached); message n = (segs-1)*1188+594 bytes of value n",
    ]
    # L1: all writes (1..3 segments, every failing SendDatagram call or none) interleaved with the receiver goroutine
    ctx.l1("DgramLink", "DgramLink_q.cfg")
    ctx.l1("DgramLink", "DgramLink_qr.cfg")           # datagrams may overtake each other
    if not ctx.quick():
        ctx.l1("DgramLink", "DgramLink_t.cfg", timeout=1200)
        ctx.l1("DgramLink", "DgramLink_tr.cfg", timeout=1200)
    # sensitivity: the variant that hands the sequence number of a failed write back must break ExactOrNothing
    rs = ctx.l1("DgramLink", "DgramLink_rb.cfg", must_hold=False)
    if rs.violated != "ExactOrNothing":
        raise Inconclusive("the RollbackSeq variant of DgramLink does not violate ExactOrNothing (got %s)" % (rs.violated or rs.error))
    ctx.notes.append("L1 DgramLink_rb.cfg (RollbackSeq=TRUE: a failed write hands its sequence number back) violates ExactOrNothing "
                     "as expected: the next message shares the table entry of the segments that already went out")
    # every complete environment script (write k: size, failing call or none; final drain)
    cfg = "DgramLink_gen_%d.cfg" % os.getpid()
    with open(os.path.join(SPEC, cfg), "w") as f:
        f.write(DG_GEN_CFG % dict(writes=3 if ctx.quick() else 4))
    try:
        r = ctx.l1("DgramLink", cfg, timeout=600)
    finally:
        os.remove(os.path.join(SPEC, cfg))
    scripts = sorted((json.loads(s[7:]) for s in r.printed if isinstance(s, str) and s.startswith("SCRIPT ")),
                     key=lambda st: (len(st), json.dumps(st, sort_keys=True)))
    if not scripts:
        raise Inconclusive("DgramLink generator printed no script")
    scs = []
    for site in DG_SITES:
        for k, steps in enumerate(scripts):
            # h.Step has no segs / failAt fields: the component reads the script from the free-form parameters
            scs.append({"id": "C14/dgram/%s/%d" % (site, k), "kind": "dgram", "p": {"site": site, "script": steps}, "steps": steps})
    ctx.harness_cmd = "vhdgram"
    ctx.vh = None
    try:
        trace = ctx.run_scenarios(scs, "c14dgram", par=8)
    finally:
        ctx.harness_cmd = "vh"
        ctx.vh = None
    verdicts, r = ctx.validate(trace, "MonC14d", consts={"MaxWrites": 9, "MaxSegs": 9, "RollbackSeq": "FALSE", "Reorder": "FALSE",
                                                         "GenCanon": "FALSE"})
    ctx.judge(scs, trace, verdicts)
    return len(scripts)


def wt_part(ctx):
    """the WebTransport twin of the datagram code on a real session (loopback): messages of 1..6 segments through both sending sites,
    echoed by the peer; whatever is handed up is exactly one written message (loss is not judged on a real link)."""
    ctx.assumptions += [
        "WebTransport datagram path (MonC14w): real webtransport.Transport over a real session (quic-go over loopback UDP), peer echoes every "
        "datagram; losses are possible and not judged, only 'handed up => exactly one written message, once'",
    ]
    scs = []
    P = 1188
    for k, lens in enumerate(([10, P, P + 1, 2 * P + 594, 5], [3 * P, 1, 6 * P - 1, P - 1], [0, 4 * P + 7, 2 * P, 700, 5 * P + 1])):
        for rep in range(2 if ctx.quick() else 6):
            steps = [{"a": "dwrite", "n": n} for n in lens] + [{"a": "ddrain"}]
            scs.append({"id": "C14/wt/%d/%d" % (k, rep), "kind": "wtreal", "p": {"mode": "off", "level": 0, "bits": 0, "content": "mix", "seed": 10 + 7 * k + rep}, "steps": steps})
    ctx.harness_cmd = "vhwswindow"
    ctx.vh = None
    try:
        trace = ctx.run_scenarios(scs, "c14wt", par=2)
    finally:
        ctx.harness_cmd = "vh"
        ctx.vh = None
    verdicts, _ = ctx.validate(trace, "MonC14w")
    n = ctx.judge(scs, trace, verdicts)
    handed = ctx.cov["clauses"].get("handed", 0)
    if n == 0 or handed == 0:
        raise Inconclusive("the WebTransport datagram scenarios delivered nothing (no loopback UDP?)")
    return n


def run():
    ctx = Ctx("C14")
    ctx.assumptions += [
        "segment payload = 1188 bytes (maxDatagramFrameSize-8); the model uses the real byte lengths",
        "duplicated datagrams are outside the property's quantifier (permutations and losses) and are not generated",
        "the package clock of internal/segment is replaced by a scripted clock (verif hook) so expiry is deterministic",
    ]
    # L1: exhaustive model check (merged by VIEW) of all operation sequences incl. ticks, gc, malformed
    ctx.l1("Segment", "Segment_q.cfg")
    # the boundary of the segment count (scaled: P = 2, MaxSegIdx = 3): the largest accepted message is delivered, the next size is refused;
    # the receiver that computes its slot count in the width of the header field (pinned commit) never delivers the largest one
    ctx.l1("Segment", "Segment_wrapfix.cfg")
    ctx.l1("Segment", "Segment_wrapover.cfg")
    rw = ctx.l1("Segment", "Segment_wrap.cfg", must_hold=False)
    if rw.violated != "AllDeliveredIfNoLoss":
        raise Inconclusive("Segment with SlotWrap = TRUE should violate AllDeliveredIfNoLoss, TLC says %s" % (rw.violated or rw.error or "nothing"))
    if not ctx.quick():
        ctx.l1("Segment", "Segment_t.cfg", timeout=1200)
    # script generation = every complete path of the generator configurations
    scs = []
    scs += gen(ctx, "LensFour", 0, 0, "four")           # all ordered subsets of a 4-segment message
    scs += gen(ctx, "LensQ2", 2, 1, "q2ticks")           # 1+2 segments, two ticks, gc, malformed
    scs += gen(ctx, "LensTwoTwo", 0, 0, "twotwo")        # two in-flight messages of 3 and 2 segments interleaved
    if not ctx.quick():
        scs += gen(ctx, "LensSix", 0, 0, "six")          # all 1957 ordered subsets of 6 segments
        scs += gen(ctx, "LensSixExact", 0, 0, "sixexact")
        scs += gen(ctx, "LensQ", 0, 1, "q")
    if ctx.quick():
        scs = pick(scs, 700, ctx.seed, core=200)
    # fixed corner scenarios: exact lengths around the payload size, oversize refusal
    corner = [0, 1, 1187, 1188, 1189, 2375, 2376, 2377, 3564]
    for k, n in enumerate(corner):
        mx = 0 if n <= 1188 else n // 1188
        steps = [{"a": "send", "n": 1}] + [{"a": "deliver", "n": 1, "seq": i} for i in reversed(range(mx + 1))]
        scs.append({"id": "C14/corner/%d" % n, "kind": "segment", "p": {"msgLens": [n], "P": 1188, "expiry": 1}, "steps": steps})
    scs.append({"id": "C14/oversize", "kind": "segment", "p": {"msgLens": [77856768, 1], "P": 1188, "expiry": 1},
                "steps": [{"a": "send", "n": 1}, {"a": "send", "n": 2}, {"a": "deliver", "n": 2, "seq": 0}]})
    # the largest message the sender accepts: 65536 segments (65535 full ones and an empty last one), all delivered in order
    scs.append({"id": "C14/largest", "kind": "segment", "p": {"msgLens": [65535 * 1188], "P": 1188, "expiry": 1},
                "steps": [{"a": "send", "n": 1}, {"a": "deliverAll", "n": 1}]})
    trace = ctx.run_scenarios(scs, "c14", par=4)
    verdicts, r = ctx.validate(trace, "MonC14", consts={"P": 1188, "Expiry": 1, "MaxTicks": 9, "MaxBad": 9, "MaxSegIdx": 65535, "SlotWrap": "FALSE", "GenCanon": "FALSE"})
    ctx.judge(scs, trace, verdicts)
    nscripts = dgram_part(ctx)
    wt_part(ctx)
    ctx.finish(rule="scenarios = every complete path (send / deliver in every order / lose every subset / tick / gc / malformed) "
                    "of the generator configurations of Segment.tla, replayed lock-step on segment.SendTo and ReadBuffers; "
                    "plus every complete environment script of DgramLink.tla (%d scripts: <= %d writes of 1..3 segments, each with "
                    "every failing SendDatagram call or none, final drain) x sending site (datagram.Write, Transport.WriteUnreliable, "
                    "alternating) replayed on two real quic.Transport values back to back and judged by MonC14d; "
                    "non-trivial = scenario whose trace was consumed completely by the monitor with a verdict"
                    % (nscripts, 3 if ctx.quick() else 4),
               exhaustive=not ctx.quick())


if __name__ == "__main__":
    main_wrap(run)
