"""C10 -- Close is final: documented errors, silence on the wire, no goroutine left behind."""
import os
from vlib import Ctx, main_wrap, pick, SPEC, Inconclusive
import upscripts as U
import connscripts as C


def run():
    ctx = Ctx("C10")
    quick = ctx.quick()
    ctx.assumptions += [
        "every scenario runs in its own child process (a library goroutine panicking kills the process; the goroutine census needs a process of its own)",
        "promptly = 1 s + 0.5 s slack; stream calls after a connection Close are issued 150 ms later (the cancellation is asynchronous)",
        "repeated / concurrent Close: any return value is accepted, it must return promptly, not crash and not notify twice (weaker reading)",
        "goroutine census: goroutines with a frame in github.com/aptpod/iscp-go/ and no harness frame, after the broker side of every incarnation was closed, retried for 2 s",
    ]
    cfg = C.write_cfg("ConnLifecycle_c10.cfg", faults=1 if quick else 2, fixed=True, close=True, callers=("P1",) if quick else ("P1", "P2"))
    ctx.l1("ConnLifecycle", cfg, timeout=1500)
    os.remove(os.path.join(SPEC, cfg))
    # the application's Disconnected handler closes the connection itself: fine as coded; a Close that joins the main goroutine deadlocks
    cfg = C.write_cfg("ConnLifecycle_c10_hcl.cfg", faults=1, fixed=True, close=True, callers=("P1",), handler_closes=True)
    ctx.l1("ConnLifecycle", cfg, timeout=1500)
    os.remove(os.path.join(SPEC, cfg))
    cfg = C.write_cfg("ConnLifecycle_c10_join.cfg", faults=1, fixed=True, close=True, callers=("P1",), handler_closes=True, close_joins_main=True)
    r = ctx.l1("ConnLifecycle", cfg, timeout=1500, must_hold=False)
    os.remove(os.path.join(SPEC, cfg))
    if r.violated != "NoSelfJoin":
        raise Inconclusive("ConnLifecycle with CloseJoinsMain should violate NoSelfJoin, TLC says %s" % (r.violated or r.error or "nothing"))
    if not quick:
        cfg = C.write_cfg("ConnLifecycle_c10_coded.cfg", faults=1, fixed=False, close=True)
        r = ctx.l1("ConnLifecycle", cfg, timeout=1500, must_hold=False)
        os.remove(os.path.join(SPEC, cfg))
        if r.ok:
            raise Inconclusive("as-coded ConnLifecycle model unexpectedly satisfies every invariant: the model lost its discriminating power")
    scs = C.c10_family("C10", quick)
    # model scripts that contain a close: Close at TLC-chosen points of a run with an outage
    gcfg = C.write_cfg("ConnLifecycle_c10_gen.cfg", faults=1, fixed=True, close=True, view=False, gen=True)
    r = ctx.tlc("ConnLifecycle", gcfg, workers=1, simulate="num=%d" % (300 if quick else 3000), depth=120, timeout=600)
    os.remove(os.path.join(SPEC, gcfg))
    if r.violated or r.error:
        raise Inconclusive("simulation failed: %s" % (r.violated or r.error))
    scripts = [s for s in U.scripts_of(r) if any(op["a"] == "close" for op in s)]
    tail = [{"a": "sleep", "ms": 100}, {"a": "closeBroker"}, {"a": "census", "ms": 2000}, {"a": "quiesce", "ms": 50}]
    for k, sc in enumerate(pick(scripts, 20 if quick else 200, ctx.seed)):
        for delay in (0, 40):
            s = C.from_model_script("C10/model/d%d/%d" % (delay, k), sc, dial_delay=delay)
            s["steps"] += [{"a": "sendMeta", "g": "A1", "tag": 36, "ctxMs": 3000, "wait": True}] + tail
            scs.append(s)
    trace = ctx.run_scenarios(scs, "c10", par=8, isolate=True, child_timeout=40)
    verdicts, _ = ctx.validate(trace, "MonC10")
    ctx.judge(scs, trace, verdicts)
    ctx.finish(rule="scenarios = Close at every point of: idle, streams open, calls pending, redial in progress (gated dial, both outcomes), resume "
                    "unanswered, stream-vs-connection close in both orders, double and concurrent Close; plus environment projections of random "
                    "behaviours of ConnLifecycle.tla containing a Close; each followed by calls on the closed objects and a goroutine census; "
                    "one child process per scenario; non-trivial = verdict produced")


if __name__ == "__main__":
    main_wrap(run)
