"""C05 -- a lost transport is survived: reconnect, fresh token, every stream resumed."""
import os
from vlib import Ctx, main_wrap, pick, SPEC, Inconclusive
import upscripts as U
import connscripts as C


def run():
    ctx = Ctx("C05")
    quick = ctx.quick()
    ctx.assumptions += [
        "outages are injected by the broker closing its side of the in-memory pipe, or by the client-side transport wrapper reporting write "
        "errors while reads are still delivered (half-broken link); detection by keep-alive 100 ms / 100 ms or by the next request",
        "fast redial = in-memory dial without delay (faster than any network); slow redial = 40 ms",
        "a request the broker received before the cut but did not answer must be re-sent by the client after recovery (its response was lost)",
    ]
    # L1: the repaired design satisfies every invariant; the as-coded design must violate exactly the known ones (sanity of the model)
    cfg = C.write_cfg("ConnLifecycle_c05.cfg", faults=2, fixed=True, close=False, callers=("P1",) if quick else ("P1", "P2"), half=True)
    ctx.l1("ConnLifecycle", cfg, timeout=1500)
    os.remove(os.path.join(SPEC, cfg))
    # sensitivity: a stream that records the reconnect epoch only after its resume exchange misses an outage decided meanwhile
    cfg = C.write_cfg("ConnLifecycle_c05_epochlate.cfg", faults=2, fixed=True, close=False, callers=("P1",), half=True, epoch_before_resume=False)
    r = ctx.l1("ConnLifecycle", cfg, timeout=900, must_hold=False)
    os.remove(os.path.join(SPEC, cfg))
    if r.violated != "NoStreamDetached":
        raise Inconclusive("variant EpochBeforeResume = FALSE should violate NoStreamDetached, TLC says %s" % (r.violated or r.error or "nothing"))
    # resume answered with "conflict - try again": repeated until accepted; the variant in which the repeated attempt is fatal (downstreams
    # at the pinned commit) must violate ConflictNeverFatal
    cfg = C.write_cfg("ConnLifecycle_c05_conflict.cfg", faults=1, fixed=True, close=False, callers=("P1",), conflicts=2)
    ctx.l1("ConnLifecycle", cfg, timeout=900)
    os.remove(os.path.join(SPEC, cfg))
    cfg = C.write_cfg("ConnLifecycle_c05_conflictfatal.cfg", faults=1, fixed=True, close=False, callers=("P1",), conflicts=1, conflict_fatal=True)
    r = ctx.l1("ConnLifecycle", cfg, timeout=900, must_hold=False)
    os.remove(os.path.join(SPEC, cfg))
    if r.violated != "ConflictNeverFatal":
        raise Inconclusive("variant ConflictFatal = TRUE should violate ConflictNeverFatal, TLC says %s" % (r.violated or r.error or "nothing"))
    # a redial loop that gives up when an attempt reports "connection closed" (a transport lost during the handshake) leaves the connection
    # Reconnecting for ever
    cfg = C.write_cfg("ConnLifecycle_c05_rsc.cfg", faults=1, fixed=True, close=False, callers=("P1",), retry_stops_on_closed_err=True)
    r = ctx.l1("ConnLifecycle", cfg, timeout=900, must_hold=False)
    os.remove(os.path.join(SPEC, cfg))
    if r.violated != "SupervisorAlive":
        raise Inconclusive("variant RetryStopsOnClosedErr = TRUE should violate SupervisorAlive, TLC says %s" % (r.violated or r.error or "nothing"))
    if not quick:
        # sanity of the model: the as-coded variant (pinned commit) must violate the invariants whose defects were repaired in /repo
        cfg = C.write_cfg("ConnLifecycle_c05_coded.cfg", faults=1, fixed=False, close=False, callers=("P1", "P2"))
        r = ctx.l1("ConnLifecycle", cfg, timeout=1500, must_hold=False)
        os.remove(os.path.join(SPEC, cfg))
        if r.ok:
            raise Inconclusive("as-coded ConnLifecycle model unexpectedly satisfies every invariant: the model lost its discriminating power")
    scs = C.enumerated("C05", quick)
    gcfg = C.write_cfg("ConnLifecycle_c05_gen.cfg", faults=2, fixed=True, close=False, view=False, gen=True, half=True)
    r = ctx.tlc("ConnLifecycle", gcfg, workers=1, simulate="num=%d" % (300 if quick else 3000), depth=120, timeout=600)
    os.remove(os.path.join(SPEC, gcfg))
    if r.violated or r.error:
        raise Inconclusive("simulation failed: %s" % (r.violated or r.error))
    scripts = [s for s in U.scripts_of(r) if any(op["a"] in ("cut", "wfail") for op in s)]
    for k, sc in enumerate(pick(scripts, 30 if quick else 300, ctx.seed)):
        for delay in (0, 40):
            scs.append(C.from_model_script("C05/model/d%d/%d" % (delay, k), sc, dial_delay=delay))
    if quick:
        core = [x for x in scs if "/S1+S2/ok/" in x["id"] or "/S2/ok/held" in x["id"] or "/S1/ok/held" in x["id"]]
        rest = [x for x in scs if x not in core]
        scs = core + pick(rest, 100 - len(core), ctx.seed)
    scs = C.gated("C05") + C.resume_overlap("C05") + C.close_during_outage("C05") + C.handshake_refused("C05") + C.handshake_cut("C05") + C.reconnected_handler("C05") + C.resume_conflict("C05") + scs
    trace = ctx.run_scenarios(scs, "c05", par=8)
    verdicts, _ = ctx.validate(trace, "MonC05")
    ctx.judge(scs, trace, verdicts)
    ctx.finish(rule="scenarios = (i) fault-enumerated family: stream sets (0-3 streams, both directions) x dial outcome sequences x redial delay {0, 40 ms} x "
                    "API request {none, during the outage, interrupted by it} x optional second outage; (ii) environment projections of random behaviours of "
                    "ConnLifecycle.tla (cuts, dial outcomes, resume refusals, API calls) for both redial speeds; each followed by probes on every stream; "
                    "non-trivial = outage recovered and verdict produced")


if __name__ == "__main__":
    main_wrap(run)
