"""C06 -- each request receives its own response; request ids are unique."""
import json
import os
import random
from vlib import Ctx, main_wrap, pick, SPEC

KINDS = ["upOpen", "downOpen", "meta", "upClose", "downClose", "upResume", "downResume"]
WD_MS = int(os.environ.get("VERIF_C06_WDMS", "3000"))   # watchdog for a caller that should return (dev aid: shorter for mutant runs)
INVS = "IdsDistinctAndEven OwnResponseOnly SpuriousHarmless CancelDoesNotSteal DispatcherNeverBlocks OutcomeAllowed NoCallerStuck"

GEN_TMPL = """SPECIFICATION GenSpec
CONSTANTS
  Callers <- Ints%(n)d
  Ping = 0
  MaxDup = %(dup)d
  MaxSpur = %(spur)d
  MaxCancel = %(cancel)d
  PingTimeout = %(ptimeout)s
  PingStarts = TRUE
  GenBarrier = %(barrier)s
  GenPong = %(pong)s
  GenCanon = TRUE
INVARIANTS %(invs)s
CONSTRAINT GenPrint
CHECK_DEADLOCK FALSE
"""


def tf(b):
    return "TRUE" if b else "FALSE"


def gen(ctx, name, n, dup=0, spur=0, cancel=0, ptimeout=False, barrier=True, pong=False, simulate=None):
    """environment projections (scripts) of ReqReply.tla: every maximal path of GenSpec, or `simulate` random ones"""
    cfg = "ReqReply_gen_%s_%d.cfg" % (name, os.getpid())
    with open(os.path.join(SPEC, cfg), "w") as f:
        f.write(GEN_TMPL % dict(n=n, dup=dup, spur=spur, cancel=cancel, ptimeout=tf(ptimeout), barrier=tf(barrier), pong=tf(pong), invs=INVS))
    try:
        if simulate:
            r = ctx.tlc("ReqReply", cfg, workers=1, timeout=300, simulate="num=%d" % simulate, depth=100, heap="2g", name="sim-" + name)
            if not r.ok:
                from vlib import Inconclusive, log
                log(r.out[-2000:])
                raise Inconclusive("TLC simulation failed for %s" % name)
        else:
            r = ctx.l1("ReqReply", cfg, timeout=600, workers=4, heap="2g")
    finally:
        os.remove(os.path.join(SPEC, cfg))
    out = []
    seen = set()
    for s in r.printed:
        if isinstance(s, str) and s.startswith("SCRIPT ") and s not in seen:
            seen.add(s)
            out.append(json.loads(s[7:]))
    return out


def scenario(fam, k, n, steps, mode, rnd, hold=False, ping_ms=None, delays=False, queued=False, id_start=None):
    """wrap one environment script into a harness scenario; request kinds are assigned round-robin from a seeded offset"""
    off = rnd.randrange(len(KINDS))
    stride = rnd.choice([1, 2, 3])
    kinds = [KINDS[(off + i * stride) % len(KINDS)] for i in range(n)]
    steps = [dict(s) for s in steps]
    if mode == "burst":
        # callers started back to back run concurrently (they race for the id generator and the map)
        out = []
        for s in steps:
            if s["a"] == "start":
                if out and out[-1]["a"] == "startgrp":
                    out[-1]["ids"].append(str(s["n"]))
                else:
                    out.append({"a": "startgrp", "ids": [str(s["n"])]})
            else:
                out.append(s)
        steps = out
    if delays:
        for s in steps:
            if s["a"] in ("ans", "dup", "spur", "cancel") and rnd.random() < 0.3:
                s["ms"] = rnd.choice([1, 2, 5])
    p = {"n": n, "kinds": kinds, "mode": mode, "holdPong": hold, "wdMs": WD_MS}
    if id_start is not None:
        p["idStart"] = id_start
    if queued:
        # network burst: every maximal run of broker responses reaches the client back to back
        p["queued"] = True
        p["dupN"] = 3
        out, run_open = [], False
        for s in steps:
            br = s["a"] in ("ans", "dup", "spur")
            if br and not run_open:
                out.append({"a": "hold"})
                run_open = True
            if not br and run_open:
                out.append({"a": "release"})
                run_open = False
            out.append(s)
        if run_open:
            out.append({"a": "release"})
        steps = out
    if ping_ms:
        p["pingMs"] = ping_ms
    return {"id": "C06/%s/%s%d" % (fam, mode[0], k), "kind": "reqreply", "p": p, "steps": steps}


def run():
    ctx = Ctx("C06")
    ctx.harness_cmd = "vhreqreply"
    rnd = random.Random(ctx.seed)
    ctx.assumptions += [
        "driver runs wire.Connect directly over transport.Pipe()+encoding (protobuf); the scripted broker is the server end; no iscp layer",
        "a 'spurious' response carries an id the client never issues on that connection (odd, or far beyond the ids in use); a response that "
        "bears the id of a request that is outstanding *is* that request's response as far as the client can tell",
        "the broker answers only requests it has received (the pipe is synchronous: a written request has been read by the broker)",
        "watchdog for a caller that should return: 3000 ms (CallerStuck); no other durations are asserted",
        "sync mode = the harness waits for the observable effect of every environment op (internal steps run to quiescence, as in GenSpec); "
        "burst mode = no waits: the monitor accepts every outcome the model allows for the recorded history",
    ]
    # L1: exhaustive interleavings. quick: 3 symmetric callers (no ping) + 1 caller with ping, ping deadline and connection close
    ctx.l1("ReqReply", "ReqReply_q.cfg", workers=8, heap="4g")
    ctx.l1("ReqReply", "ReqReply_qp.cfg", workers=8, heap="4g")
    if not ctx.quick():
        ctx.l1("ReqReply", "ReqReply_t.cfg", workers=8, heap="6g", timeout=1500)     # 2 callers + ping + ping deadline / close
        ctx.l1("ReqReply", "ReqReply_t3.cfg", workers=8, heap="8g", timeout=2400)    # 3 callers + ping (about 5M states)
        # unbounded depth: inductive invariant (Apalache) of the same actions over an unordered, never-consumed downlink - runs of any
        # length, any number of duplicate/spurious responses, any id values (3 processes)
        ctx.inductive("ReqReplyInd", timeout=1500)
    scs = []

    def add(fam, n, scripts, modes, limit=None, core=0, **kw):
        if limit is not None:
            scripts = pick(scripts, limit, ctx.seed, core=core)
        for k, st in enumerate(scripts):
            for m in modes:
                scs.append(scenario(fam, k, n, st, m, rnd, **kw))

    q = ctx.quick()
    # n = 3, barrier: all 6 answer orders x every placement of the duplicate / the spurious id / the cancellation
    add("perm3", 3, gen(ctx, "perm3", 3), ["sync", "burst"])
    add("dup3", 3, gen(ctx, "dup3", 3, dup=1), ["sync", "burst"])
    add("spur3", 3, gen(ctx, "spur3", 3, spur=1), ["sync", "burst"])
    # the same scripts with the responses delivered as network bursts (a duplicate right behind its original)
    add("dup3q", 3, gen(ctx, "dup3", 3, dup=1), ["burst"], queued=True)
    add("cancel3", 3, gen(ctx, "cancel3", 3, cancel=1), ["sync", "burst"])
    all3 = gen(ctx, "all3", 3, dup=1, spur=1, cancel=1)
    add("all3", 3, all3, ["sync"], limit=1500 if q else None)
    add("all3b", 3, all3, ["burst"], limit=500 if q else None)
    add("all3q", 3, all3, ["burst"], limit=300 if q else None, queued=True)
    # the broker mixes up request ids: one caller's id is answered with the response kind of another caller's request; that call
    # fails with an error, nobody panics, the others get their own responses
    for k, perm in enumerate([(1, 2, 3), (2, 3, 1), (3, 1, 2)]):
        for pos in range(4):
            steps = [{"a": "start", "n": t} for t in (1, 2, 3)]
            order = [{"a": "ans", "n": t} for t in perm[1:]]
            order.insert(min(pos, len(order)), {"a": "cross", "n": perm[0]})
            if pos == 3:
                order.append({"a": "ans", "n": perm[0]})      # the right response arrives afterwards: ignored
            for m in ("sync", "burst"):
                scs.append(scenario("cross3", k * 4 + pos, 3, steps + order, m, rnd))
    # the broker answers while other callers are still starting (no barrier)
    add("nobar3", 3, gen(ctx, "nobar3", 3, cancel=1, barrier=False), ["sync", "burst"])
    # the pong of the keep-alive ping is one of the reordered responses
    add("pong2", 2, gen(ctx, "pong2", 2, dup=1, spur=1, cancel=1, pong=True), ["sync"], limit=500 if q else None, hold=True)
    if not q:
        add("pong3", 3, gen(ctx, "pong3", 3, dup=1, spur=0, cancel=1, pong=True), ["sync"], hold=True)
        add("nobar3x", 3, gen(ctx, "nobar3x", 3, dup=1, spur=1, cancel=1, barrier=False), ["sync"], limit=20000)
    # the ping deadline expires: the connection closes under the waiting callers (150 ms each: few)
    add("ptime2", 2, gen(ctx, "ptime2", 2, cancel=1, ptimeout=True, pong=True), ["sync"], limit=24 if q else None, hold=True,
        ping_ms=[3600000, 150])
    # the same, with a Pong bearing a foreign id (never issued / the id of a caller's request) arriving while the ping waits: it is not the
    # ping's answer, the deadline still closes the connection
    pt = gen(ctx, "ptime2", 2, cancel=1, ptimeout=True, pong=True)
    stray = []
    for st in pick(pt, 6 if q else 24, ctx.seed):
        k = next((i for i, op in enumerate(st) if op["a"] == "ptimeout"), None)
        if k is not None:
            for rid in (77777, 99998):
                stray.append(st[:k] + [{"a": "spur", "seq": rid, "mode": "pong"}] + st[k:])
    add("straypong2", 2, stray, ["sync"], hold=True, ping_ms=[3600000, 150])
    # larger n: random behaviours of GenSpec (TLC simulation, seeded), all requests outstanding at once, fast keep-alive pings, delays
    for n in ([4, 6, 8] if q else [4, 5, 6, 7, 8]):
        sims = gen(ctx, "sim%d" % n, n, dup=1, spur=1, cancel=2, barrier=True, simulate=60 if q else 400)
        add("sim%d" % n, n, sims, ["burst"], ping_ms=[2, 20000], delays=True)
        add("sim%ds" % n, n, sims[: len(sims) // 2], ["sync"])
    # the request id counter crosses the uint32 boundary while the requests are outstanding (a connection that has issued 2^31 requests)
    sims = gen(ctx, "simwrap8", 8, dup=1, spur=0, cancel=1, barrier=True, simulate=40 if q else 300)
    add("wrap8", 8, sims, ["sync", "burst"], id_start=4294967288)
    sims = gen(ctx, "simnb8", 8, dup=1, spur=1, cancel=2, barrier=False, simulate=60 if q else 400)
    add("simnb8", 8, sims, ["burst"], ping_ms=[2, 20000], delays=True)

    # scenarios that pin the scheduler to one thread for their duration (p.procs) run one at a time
    solo = [s for s in scs if s["p"].get("procs")]
    rest = [s for s in scs if not s["p"].get("procs")]
    trace = ctx.run_scenarios(rest, "c06", par=16)
    if solo:
        t2 = ctx.run_scenarios(solo, "c06solo", par=1)
        with open(trace, "a") as out, open(t2) as f:
            out.write(f.read())
        os.remove(t2)
    verdicts, r = ctx.validate(trace, "MonC06", consts={"Callers": "{1}", "Ping": 0, "MaxDup": 1, "MaxSpur": 1, "MaxCancel": 1, "PingTimeout": "FALSE",
                                                         "PingStarts": "TRUE", "GenBarrier": "FALSE", "GenPong": "TRUE", "GenCanon": "FALSE"}, timeout=1500)
    ctx.judge(scs, trace, verdicts)
    mx = max([v.get("stats", {}).get("maxOutstanding", 0) for v in verdicts.values()] or [0])
    ctx.finish(rule="scenarios = environment projections of ReqReply.tla behaviours (GenSpec: which callers start, the order in which the broker "
                    "answers, where the duplicate / spurious id / cancellation / pong / ping deadline are placed): every maximal path for n=3 "
                    "(6 orders x placements), TLC-simulated samples for n=4..8; replayed on wire.ClientConn with 7 request kinds mixed; "
                    "non-trivial = scenario whose trace was consumed completely by the monitor with a verdict",
               extra_cov={"max_outstanding_requests": mx}, exhaustive=not q)


if __name__ == "__main__":
    main_wrap(run)
