"""C15 -- keep-alive detects a dead peer in bounded time and never drops a live one."""
import json
import os
from vlib import Ctx, main_wrap, pick, SPEC, Inconclusive, log

TT = 4                      # ticks per ping timeout (tick = T/4)
CUR = 1000000               # Keepalive!CurId: "the request id of the client's latest ping"
INVS = ("DetectWithinBound DetectAfterSilence DetectFromLastAnsweredPing NoSpuriousClose NoEarlyClose PongEchoesId "
        "PingPacing RecoveryImmediate")

CFG = """SPECIFICATION %(spec)s
CONSTANTS
  TT = 4
  NI = %(ni)d
  Delays = {%(delays)s}
  Delays2 = {%(delays2)s}
  LateAt = {%(late)s}
  LateConns = {%(lateconns)s}
  SilentAnytime = %(anytime)s
  MaxConn = %(maxconn)d
  Horizon = %(horizon)d
  BPingAt = {%(bat)s}
  BPingIds = {%(bids)s}
  MaxBPings = %(maxb)d
  AppAt = {%(aat)s}
  MaxApp = %(maxapp)d
  Variant = "%(variant)s"
%(tail)s
CHECK_DEADLOCK FALSE
"""


def ints(xs):
    return ", ".join(str(x) for x in xs)


def write_cfg(name, ni, delays=(0, 2, 3, 4, 5), delays2=(0, 3, 5), late=(1, 2, 3, 4), lateconns=(1, 2), anytime=True,
              maxconn=2, horizon=40, bat=(0, 1, 9, 12), bids=(CUR, 7), maxb=2, aat=(0, 5, 8), maxapp=1, variant="code",
              mode="exhaustive"):
    tail = {"exhaustive": "VIEW StView\nINVARIANTS " + INVS,
            "gen": "INVARIANTS " + INVS + "\nCONSTRAINT GenPrint",
            "live": "PROPERTIES RecoveryFollows"}[mode]
    with open(os.path.join(SPEC, name), "w") as f:
        f.write(CFG % dict(spec="FairSpec" if mode == "live" else "Spec", ni=ni, delays=ints(delays), delays2=ints(delays2),
                           late=ints(late), lateconns=ints(lateconns), anytime="TRUE" if anytime else "FALSE", maxconn=maxconn,
                           horizon=horizon, bat=ints(bat), bids=ints(bids), maxb=maxb, aat=ints(aat), maxapp=maxapp,
                           variant=variant, tail=tail))
    return name


def rm(cfg):
    try:
        os.remove(os.path.join(SPEC, cfg))
    except FileNotFoundError:
        pass


def scripts_of(r):
    out, seen = [], set()
    for s in r.printed:
        if isinstance(s, str) and s.startswith("SCRIPT ") and s not in seen:
            seen.add(s)
            out.append(json.loads(s[7:]))
    out.sort(key=lambda sc: json.dumps(sc, sort_keys=True))
    return out


# ---------------------------------------------------------------------------------------------- scenarios
def params(I, T, cfg=None, rec_ms=0):
    ci, ct = cfg if cfg else (I, T)
    return {"i": I, "t": T, "cfgI": ci, "cfgT": ct, "recMs": rec_ms}


def detect_wait(I, T):
    """how long the script waits for the client to give up: beyond the monitor's deadline, so that 'never' is observable"""
    return I + T + (250 + (I + T) // 2) + 400


def tail_steps():
    return [{"a": "closeConn", "g": "closer", "wait": True, "ctxMs": 2000}, {"a": "stallWatch", "mode": "off"}, {"a": "quiesce", "ms": 40}]


def from_script(sid, script, I, T, ni, horizon):
    """environment projection of a Keepalive.tla behaviour -> harness scenario (delays 0, T/2, 3T, never)"""
    ms = lambda ticks: ticks * T // TT
    pongs1 = {op["n"]: op for op in script if op["a"] == "pong" and op["c"] == 1}
    steps = [{"a": "stallWatch"}]
    # broker rules for the delayed pongs of incarnation 1 (descending nth: a rule counts only the pings that reach it)
    for n in sorted(pongs1, reverse=True):
        d = pongs1[n]["d"]
        if d > 0:
            steps.append({"a": "rule", "rule": {"on": "Ping", "nth": n, "inc": 1, "do": "delay", "arg": ms(d)}})
    silent_n = min([n for n, op in pongs1.items() if op["d"] < 0] or [0])
    if silent_n == 1:
        steps.append({"a": "pongOff"})
    steps.append({"a": "connect", "must": True})
    rec_at = 0
    last_c = 1
    timeline = []
    for k, op in enumerate(script):
        a, c = op["a"], op["c"]
        rel = lambda at: ms(at - (rec_at if c > 1 else 0))
        if a == "pong" and c == 1 and op["d"] < 0 and op["n"] == silent_n and silent_n > 1:
            prev = pongs1[silent_n - 1]
            timeline.append((prev["at"] + prev["d"], 0, k, [
                {"a": "await", "ev": "BSendPong", "match": {"c": 1}, "n": silent_n - 1, "ms": ms(prev["at"] + prev["d"]) + 1500, "must": True},
                {"a": "pongOff"}]))
        elif a == "bping":
            send = {"a": "sendPingCur"} if op["rid"] % 2 == 0 else {"a": "sendPing", "tag": op["rid"]}
            timeline.append((op["at"], 1, k, [{"a": "atMs", "c": c, "ms": rel(op["at"])}, send]))
        elif a == "app":
            timeline.append((op["at"], 1, k, [{"a": "atMs", "c": c, "ms": rel(op["at"])},
                                              {"a": "sendMeta", "g": "A", "tag": k % 200, "ctxMs": 3000}]))
        elif a == "recover":
            rec_at, last_c = op["at"], c
            st = [{"a": "await", "ev": "BLinkDown", "match": {"c": 1, "cause": "clientClosed"}, "ms": ms(op["at"]) + detect_wait(I, T)}]
            if silent_n:
                st.append({"a": "pongOff", "mode": "off"})
            st.append({"a": "await", "ev": "Reconnected", "ms": 1500})
            timeline.append((op["at"], 0, k, st))
    timeline.sort(key=lambda x: x[:3])
    for _, _, _, st in timeline:
        steps += st
    steps.append({"a": "atMs", "c": last_c, "ms": ms(horizon - rec_at)})
    if last_c > 1:
        steps.append({"a": "await", "ev": "BSendPong", "match": {"c": last_c}, "n": 2, "ms": I + 800})
    steps += tail_steps()
    return {"id": sid, "kind": "iscp", "conn": {"pingMs": [I, T]}, "p": params(I, T), "steps": steps}


def traffic(j):
    return [{"a": "sendMeta", "g": "A", "tag": j % 200, "ctxMs": 2000}, {"a": "sendMeta", "g": "B", "tag": (j + 100) % 200, "ctxMs": 2000},
            {"a": "write", "g": "W", "obj": "U1", "id": "AB"[j % 2], "pts": [[j + 1, 64]], "ctxMs": 2000},
            {"a": "flush", "g": "W", "obj": "U1", "ctxMs": 2000}]


def live(sid, I, T, pattern, window_intervals=10):
    """the broker answers every ping within T/2 for 10 intervals while the application keeps the connection busy"""
    steps = [{"a": "stallWatch"}]
    npings = window_intervals + 3
    if pattern == "half":
        steps.append({"a": "rule", "rule": {"on": "Ping", "do": "delay", "arg": T // 2}})
    elif pattern == "slow":     # I < T: every pong takes 2T/3 (longer than the interval, well within the timeout)
        steps.append({"a": "rule", "rule": {"on": "Ping", "do": "delay", "arg": 2 * T // 3}})
    elif pattern in ("alt", "alt2"):
        for n in range(npings, 0, -1):
            if n % 2 == (0 if pattern == "alt" else 1):
                steps.append({"a": "rule", "rule": {"on": "Ping", "nth": n, "inc": 1, "do": "delay", "arg": T // 2}})
    steps += [{"a": "connect", "must": True}, {"a": "ackMode", "mode": "auto"},
              {"a": "openUp", "obj": "U1", "qos": "reliable", "policy": {"k": "none"}, "must": True}]
    bids = [1, 0, 7, 2147483647, 7, 7]
    gap = 50
    for j in range(window_intervals * I // gap):
        steps += traffic(j)
        if j % 6 == 2:
            steps.append({"a": "sendPing", "tag": bids[(j // 6) % len(bids)]})
        if j % 6 == 5:
            steps.append({"a": "sendPingCur"})
        steps.append({"a": "atMs", "c": 1, "ms": (j + 1) * gap})
    steps += [{"a": "join", "obj": "A"}, {"a": "join", "obj": "B"}, {"a": "join", "obj": "W"}] + tail_steps()
    return {"id": sid, "kind": "iscp", "conn": {"pingMs": [I, T]}, "p": params(I, T), "steps": steps}


def silent_mid(sid, I, T, k, frac, full, app, bping=False, close_delay=0, stray=0, noread=False):
    """the broker falls silent frac/4 of an interval after its k-th pong (k = 0: after the handshake); full = it answers
    nothing at all any more (the redial is then held at a gate until the broker talks again); app = an application
    request is in flight when the client gives up"""
    steps = [{"a": "stallWatch"}, {"a": "connect", "must": True}]
    if bping:
        # the broker pings at the announced interval, half a phase off the client's pings, all the time - also after it has stopped
        # answering (half dead): its pings must not count as pongs
        steps += [{"a": "sleep", "ms": I // 2}, {"a": "bpingEvery", "ms": I, "n": k + 3 + (detect_wait(I, T) + I) // I}]
    if k > 0 and bping:
        steps.append({"a": "sleep", "ms": (k - 1) * I + I * frac // 4})     # by the clock: the moment must not depend on the client's pings
    elif k > 0:
        steps.append({"a": "await", "ev": "BSendPong", "match": {"c": 1}, "n": k, "ms": k * I + 1500, "must": True})
        steps.append({"a": "sleep", "ms": I * frac // 4})
    if full:
        steps += [{"a": "dialPlan", "dial": [{"do": "ok", "gate": "redial"}]}, {"a": "silent"}]
    else:
        steps.append({"a": "pongOff"})
    if noread:
        # the peer dies for good: it still takes the next ping and then reads nothing any more (every later write of the client finds
        # nobody reading); it is declared lost all the same, within the usual bound
        steps.append({"a": "rule", "rule": {"on": "Ping", "inc": 1, "nth": 1, "do": "stopRead"}})
    if stray:
        # a Pong nobody waits for (a duplicate of the last answer / an id never issued) arrives after the broker's last real answer: it is
        # not the answer to the NEXT ping
        steps.append({"a": "strayPong", "tag": 0 if stray == 1 else 99990})
    if app:
        steps.append({"a": "sendMeta", "g": "A", "tag": 9, "ctxMs": 4000})
    if noread:      # (a peer that reads nothing does not notice the close: the client's own close of the transport is the detection event)
        steps.append({"a": "await", "ev": "CliClose", "match": {"c": 1}, "ms": detect_wait(I, T) + I})
    else:
        steps.append({"a": "await", "ev": "BLinkDown", "match": {"c": 1, "cause": "clientClosed"}, "ms": detect_wait(I, T) + I})
    if full:
        steps += [{"a": "silent", "mode": "off"}, {"a": "sleep", "ms": 30}, {"a": "release", "gate": "redial"}]
    else:
        steps.append({"a": "pongOff", "mode": "off"})
    steps += [{"a": "await", "ev": "Reconnected", "ms": 1500}]
    if app:
        steps.append({"a": "join", "obj": "A"})
    steps.append({"a": "await", "ev": "BSendPong", "match": {"c": 2}, "n": 2, "ms": I + 800})
    steps += tail_steps()
    conn = {"pingMs": [I, T]}
    if close_delay:
        conn["closeDelayMs"] = close_delay     # the transport's Close blocks (closing handshake with the silent peer): recovery must not wait for it
    return {"id": sid, "kind": "iscp", "conn": conn, "p": params(I, T), "steps": steps}


def dial_fail(sid, I, T, k, fails):
    """the first `fails` redial attempts fail: recovery within the back-off of internal/retry (100 ms * 2^n * [0.5, 1.5))"""
    rec = sum(150 * 2 ** n for n in range(fails))
    steps = [{"a": "stallWatch"}, {"a": "rule", "rule": {"on": "Ping", "nth": k + 1, "inc": 1, "do": "drop"}},
             {"a": "connect", "must": True}, {"a": "dialPlan", "dial": [{"do": "fail"}] * fails},
             {"a": "await", "ev": "BLinkDown", "match": {"c": 1, "cause": "clientClosed"}, "ms": k * I + detect_wait(I, T)},
             {"a": "await", "ev": "Reconnected", "ms": rec * 2 + 1500},
             {"a": "await", "ev": "BSendPong", "match": {"c": 2}, "n": 2, "ms": I + 800}] + tail_steps()
    return {"id": sid, "kind": "iscp", "conn": {"pingMs": [I, T]}, "p": params(I, T, rec_ms=rec), "steps": steps}


def bping_burst(sid, I, T, n):
    """a burst of broker pings (more than the client's ping channel holds) with colliding / extreme ids"""
    ids = [0, 2, 2, 1, 4294967295 % 2147483648, 2147483647, 4, 6, 7, 7, 8, 3, 10, 12, 1, 0][:n]
    steps = [{"a": "stallWatch"}, {"a": "connect", "must": True}]
    steps += [{"a": "sendPing", "tag": i} for i in ids] + [{"a": "sendPingCur"}, {"a": "sleep", "ms": 350}] + tail_steps()
    return {"id": sid, "kind": "iscp", "conn": {"pingMs": [I, T]}, "p": params(I, T), "steps": steps}


def announce(sid, ping_ms, cfg, reconnect=False):
    steps = [{"a": "connect", "must": True}, {"a": "await", "ev": "BRecvReq", "match": {"kind": "ConnectRequest", "c": 1}, "ms": 1000, "must": True}]
    if reconnect:
        steps += [{"a": "cut"}, {"a": "await", "ev": "BRecvReq", "match": {"kind": "ConnectRequest", "c": 2}, "ms": ping_ms[0] + ping_ms[1] + 1500, "must": True},
                  {"a": "await", "ev": "Reconnected", "ms": 1000}]
    steps += [{"a": "closeConn", "g": "closer", "wait": True, "ctxMs": 2000}, {"a": "quiesce", "ms": 30}]
    conn = {"pingMs": list(ping_ms)} if ping_ms else {}
    i, t = ping_ms if ping_ms else cfg
    return {"id": sid, "kind": "iscp", "conn": conn, "p": params(i or cfg[0], t or cfg[1], cfg=cfg), "steps": steps}


# ---------------------------------------------------------------------------------------------- the check
def run():
    ctx = Ctx("C15")
    quick = ctx.quick()
    ctx.assumptions += [
        "model time: tick = T/4, maximal progress (timer expiries, message arrivals and the goroutine steps they enable take no time); "
        "the exact boundary (pong delay T-1, T, T+1 ticks; pong racing the timeout) is explored by TLC only",
        "replay stays away from the boundary: real pong delays 0, T/2 (answered), 3T, never (not answered); I = 200 ms, T = 100 ms "
        "(thorough also 300/150 and 150/200); only upper bounds are asserted, slack = 250 ms + 50 %",
        "detection bound is counted from the broker's receipt of the last answered ping (pong delay <= I in all replayed configurations; "
        "in general the model shows the bound max(I, pong delay) + T from that ping, I + T from the last pong / the moment of silence)",
        "whole-second resolution = truncation (encoding/convert: uint32(d.Seconds())): 2.5 s is announced as 2 s, 1.5 s as 1 s, "
        "sub-second values as 0; an unset (zero) interval / timeout is replaced by the defaults 10 s / 1 s before announcing",
        "recovery bound: the first redial attempt of internal/retry is immediate; after n failed attempts the back-off is "
        "100 ms * 2^n * [0.5, 1.5) -> bound = 1.5 * sum of maximal sleeps + 250 ms",
        "a client-side close is excused as 'scheduling slack' only when the harness's stall detector (2 ms sleeper, overshoot > 10 ms) "
        "recorded a stall between 3T before and 50 ms after that close; the stall count is reported in the clause statistics",
    ]
    # ---- L1: exhaustive, per interval (I < T, I = T, I > T), exact boundary delays
    for ni in ([4, 8] if quick else [2, 3, 4, 6, 8, 12]):
        cfg = write_cfg("Keepalive_run_x%d.cfg" % ni, ni, horizon=40 if ni > 2 else 28)
        ctx.l1("Keepalive", cfg, timeout=600)
        rm(cfg)
    cfg = write_cfg("Keepalive_run_live.cfg", 4, delays=(0, 3, 4, 5), delays2=(0, 5), late=(1, 2), maxconn=3, horizon=16, bat=(1,), bids=(7,),
                    maxb=1, aat=(), maxapp=0, mode="live")
    ctx.l1("Keepalive", cfg, timeout=600)
    rm(cfg)
    # sensitivity of the model (design variants must be rejected by the invariant named)
    sens = [("restartTicker", "DetectFromLastAnsweredPing"), ("noTimeout", "DetectWithinBound"), ("noClose", "DetectWithinBound"),
            ("freshPongId", "PongEchoesId")]
    for variant, inv in (sens[:1] if quick else sens):
        cfg = write_cfg("Keepalive_run_sens_%s.cfg" % variant, 8, variant=variant)
        r = ctx.tlc("Keepalive", cfg, timeout=600)
        rm(cfg)
        if r.violated != inv:
            raise Inconclusive("sensitivity: variant %s should violate %s, TLC says %s" % (variant, inv, r.violated or r.error or "no error"))
        log("[C15] L1 sensitivity: variant %s violates %s as expected" % (variant, inv))
    # ---- scripts: every complete behaviour of the generator configuration (real delays only, k in {0, 1, 3})
    def gen_scripts(ni, hz, bat, aat):
        gcfg = write_cfg("Keepalive_run_gen%d.cfg" % ni, ni, delays=(0, 2, 12), delays2=(0,), late=(1, 2, 4), lateconns=(1,), anytime=False,
                         horizon=hz, bat=bat, bids=(CUR, 7), maxb=1, aat=aat, maxapp=1, mode="gen")
        r = ctx.tlc("Keepalive", gcfg, workers=1, timeout=600)
        rm(gcfg)
        if r.violated or r.error:
            raise Inconclusive("script generation failed: %s" % (r.violated or r.error))
        scripts = scripts_of(r)
        log("[C15] %d distinct environment scripts from Keepalive.tla with I = %d ticks (%d states)" % (len(scripts), ni, r.distinct))
        ctx.cov["states"] += r.distinct
        ctx.cov["transitions"] += r.generated
        if not scripts:
            raise Inconclusive("no scripts generated")
        # core: the scripts without broker pings / application requests (pure pong patterns); the rest is sampled by seed
        plain = [s for s in scripts if all(op["a"] in ("pong", "recover") for op in s)]
        dead = [s for s in plain if any(op["a"] == "recover" for op in s)]
        alive = [s for s in plain if s not in dead]
        others = [s for s in scripts if s not in plain]
        return scripts, dead, alive, others

    # (I ms, T ms, I in ticks, horizon, broker-ping instants, application-request instants, share of the scripts replayed)
    configs = [(200, 100, 8, 36, (1, 10), (9,), "core")] if quick else \
              [(200, 100, 8, 36, (1, 10), (9,), "all"), (300, 150, 8, 36, (1, 10), (9,), "sample"), (150, 200, 3, 20, (1, 5), (4,), "sample")]
    scs = []
    gens = {}
    for (I, T, NI, HZ, bat, aat, share) in configs:
        if (NI, HZ) not in gens:
            gens[(NI, HZ)] = gen_scripts(NI, HZ, bat, aat)
        scripts, dead, alive, others = gens[(NI, HZ)]
        if share == "core":
            chosen = dead + pick(alive, 4, ctx.seed) + pick(others, 22, ctx.seed)
        elif share == "all":
            chosen = scripts
        else:
            chosen = pick(dead, 12, ctx.seed) + pick(alive, 6, ctx.seed) + pick(others, 50, ctx.seed)
        for k, sc in enumerate(chosen):
            scs.append(from_script("C15/model/%d-%d/%d" % (I, T, k), sc, I, T, NI, HZ))
        for pat in (["zero", "half", "alt"] if quick else ["zero", "half", "alt", "alt2"]):
            scs.append(live("C15/live/%d-%d/%s" % (I, T, pat), I, T, pat))
        for k in ([0, 1, 3] if quick else [0, 1, 2, 3, 5]):
            for frac in ([2] if quick else [0, 2, 3] if share == "all" else [1]):
                for full in (False, True):
                    for app in ([True] if quick else [False, True]):
                        scs.append(silent_mid("C15/silent/%d-%d/k%d-f%d-%s-%s" % (I, T, k, frac, "all" if full else "pong", "app" if app else "idle"),
                                              I, T, k, frac, full, app))
        for k in ([2, 4] if quick else [2, 3, 4, 6]):
            scs.append(silent_mid("C15/silent/%d-%d/k%d-f2-pong-bping" % (I, T, k), I, T, k, 2, False, False, bping=True))
        for k in ([1] if quick else [0, 1, 3]):
            for app in (False, True):
                scs.append(silent_mid("C15/slowclose/%d-%d/k%d-%s" % (I, T, k, "app" if app else "idle"), I, T, k, 2, False, app, close_delay=1200))
        for k in ([1] if quick else [0, 1, 3]):
            scs.append(silent_mid("C15/deadpeer/%d-%d/k%d" % (I, T, k), I, T, k, 1, False, False, noread=True))
        if I == 200:
            # interval 1 s / timeout 100 ms: one interval of undetected silence lies well beyond the slack
            for stray in (1, 2):
                scs.append(silent_mid("C15/straypong/1000-100/k1-%s" % ("dup" if stray == 1 else "unknown"), 1000, 100, 1, 1, False, False, stray=stray))
        for k, fails in ([(1, 1)] if quick else [(0, 1), (1, 1), (1, 2), (3, 1)]):
            scs.append(dial_fail("C15/dialfail/%d-%d/k%d-f%d" % (I, T, k, fails), I, T, k, fails))
        scs.append(bping_burst("C15/bping/%d-%d/16" % (I, T), I, T, 16))
    # the broker floods the client with e2e calls nobody fetches (more than the 1024 + 8 the inboxes hold) while it keeps answering pings:
    # whatever happens to the surplus calls, pongs must still be read - the live connection is kept
    # application requests whose callers give up (50 ms) before the broker answers (150 ms late): the late responses find nobody waiting -
    # pongs behind them must still be read, the live connection is kept
    ab = [{"a": "stallWatch"}, {"a": "rule", "rule": {"on": "UpstreamMetadata", "do": "delay", "arg": 150}}, {"a": "connect", "must": True}]
    for n in range(3):
        ab += [{"a": "sendMeta", "g": "A%d" % n, "tag": 40 + n, "ctxMs": 50}, {"a": "sleep", "ms": 250}]
    ab += [{"a": "atMs", "c": 1, "ms": 2200}] + tail_steps()
    scs.append({"id": "C15/live/200-100/abandonedRequests", "kind": "iscp", "conn": {"pingMs": [200, 100]}, "p": params(200, 100), "steps": ab})
    fl = [{"a": "stallWatch"}, {"a": "connect", "must": True}]
    fl += [{"a": "sendCall", "callID": "fl%d" % n, "tag": n % 200} for n in range(1100)]
    fl += [{"a": "atMs", "c": 1, "ms": 1800}] + tail_steps()
    scs.append({"id": "C15/live/200-100/callFlood", "kind": "iscp", "conn": {"pingMs": [200, 100]}, "p": params(200, 100), "steps": fl})
    # I < T with pongs slower than the interval but in time: the next ping is due before the previous pong arrived
    scs.append(live("C15/live/100-600/slow", 100, 600, "slow", window_intervals=24))
    if not quick:
        scs.append(live("C15/live/150-450/slow", 150, 450, "slow", window_intervals=20))
    trace = ctx.run_scenarios(scs, "c15", par=4)
    # announcements: not timing-sensitive, stop after the handshake
    ann = [((2000, 1000), (2000, 1000)), ((2500, 1500), (2500, 1500)), ((10000, 1000), (10000, 1000)), (None, (10000, 1000)),
           ((200, 100), (200, 100)), ((1999, 999), (1999, 999)), ((60000, 30000), (60000, 30000)), ((0, 3000), (10000, 3000)),
           ((7000, 0), (7000, 1000))]
    ascs = [announce("C15/announce/%d" % k, pm, cfg) for k, (pm, cfg) in enumerate(ann)]
    ascs.append(announce("C15/announce/reconnect", (1500, 1000), (1500, 1000), reconnect=True))
    atrace = ctx.run_scenarios(ascs, "c15a", par=8)
    verdicts, _ = ctx.validate(trace, "MonC15")
    ctx.judge(scs, trace, verdicts)
    averdicts, _ = ctx.validate(atrace, "MonC15")
    ctx.judge(ascs, atrace, averdicts)
    cl = ctx.cov["clauses"]
    if not ctx.violations and not (cl.get("detectedInTime") and cl.get("liveIncs") and cl.get("bpongs") and cl.get("recovered") and cl.get("announces")):
        raise Inconclusive("vacuous run: %s" % json.dumps(cl))
    ctx.finish(rule="L1: Keepalive.tla exhaustive for I in {T/2, 3T/4, T, 1.5T, 2T, 3T} (quick: T, 2T) with pong delays {0, T/2, T-1, T, T+1 tick, never}, silence at any "
                    "instant, broker pings with colliding ids, application requests; scenarios = every complete environment script of the "
                    "generator configuration (delays 0, T/2, 3T, never; k in {0,1,3}; broker ping / application request at scripted instants) "
                    "[quick: all dead-peer pong patterns + seed-selected sample; thorough: all 540 at 200/100 ms, samples at 300/150 and 150/200 (I < T)], plus live windows of 10 intervals under application "
                    "traffic, silence at scripted moments (pong-only / total, idle / request in flight), failing redials, broker ping "
                    "bursts, announcement configurations; non-trivial = monitor verdict produced, vacuity guarded by clause statistics",
               exhaustive=False)


if __name__ == "__main__":
    main_wrap(run)
