"""C07a -- sent-chunk store part of C07: the unacknowledged-chunk store of one stream is
unaffected by any operation on another stream's store (plus the sequential meaning of
Store / Remove / List / Clear incl. error returns), on both in-memory stores."""
import json
import os
from vlib import Ctx, main_wrap, pick, SPEC

CFG_TMPL = """SPECIFICATION Spec
CONSTANTS
  NStreams = %(streams)d
  NSeqs = %(seqs)d
  NVals = %(vals)d
  MaxOps = %(ops)d
  GenList = %(lst)s
INVARIANTS Frame WellFormed StoreMeaning RemoveMeaning ListMeaning ClearMeaning
CONSTRAINT GenPrint
CHECK_DEADLOCK FALSE
"""


def gen(ctx, name, streams, seqs, vals, ops, lst):
    """every maximal operation sequence (length = ops) of one generator configuration"""
    cfg = "SentStorage_gen_%s_%d.cfg" % (name, os.getpid())
    with open(os.path.join(SPEC, cfg), "w") as f:
        f.write(CFG_TMPL % dict(streams=streams, seqs=seqs, vals=vals, ops=ops, lst="TRUE" if lst else "FALSE"))
    try:
        r = ctx.l1("SentStorage", cfg, timeout=900)
    finally:
        os.remove(os.path.join(SPEC, cfg))
    scs = []
    for s in r.printed:
        if isinstance(s, str) and s.startswith("SCRIPT "):
            scs.append({"id": "C07a/%s/%d" % (name, len(scs)), "kind": "sentstorage", "p": {"streams": streams},
                        "steps": json.loads(s[7:])})
    return scs


def run(ctx=None):
    part = ctx is not None
    if ctx is None:
        ctx = Ctx("C07a")
    ctx.harness_cmd = "vhsentstorage"
    ctx.vh = None
    ctx.assumptions += [
        "Clear(s) is specified as 'forget stream s only' (List(s) reports an unknown stream afterwards, as for a never-used stream) and never fails",
        "the store is exercised sequentially (every call is one critical section of the same mutex); that Clear swaps the map under the "
        "*read* lock is a data race (C09 territory) and is not what this check decides",
        "chunks are abstract values: one data point group whose id and element times encode (stream, seq, value); payload codes intact/dropped",
    ]
    # L1: all op sequences (store/remove/list/clear x 3 streams x 2 seqs x 2 values) to depth 5, merged by VIEW; Frame also as action property
    ctx.l1("SentStorage", "SentStorage_q.cfg")
    if not ctx.quick():
        ctx.l1("SentStorage", "SentStorage_t.cfg", timeout=1200)
    scs = []
    if ctx.quick():
        core = gen(ctx, "s2d4", 2, 2, 1, 4, False)          # 2 streams x 2 seqs, every sequence of 4 ops (10^4)
        deep = pick(gen(ctx, "s2d5", 2, 2, 1, 5, False), 4000, ctx.seed)   # depth 5: seeded sample of the 10^5
        s3 = gen(ctx, "s3d3", 3, 2, 1, 3, False)            # 3 streams: every sequence of 3 ops (15^3)
        vals = pick(gen(ctx, "vals", 2, 1, 2, 4, True), 3000, ctx.seed)    # overwrite with another value, explicit List calls
        scs = core + deep + s3 + vals
    else:
        scs += gen(ctx, "s2d5", 2, 2, 1, 5, False)          # all 10^5 sequences of 5 ops (prefixes cover depth < 5)
        scs += gen(ctx, "s3d4", 3, 2, 1, 4, False)          # 3 streams, all 15^4 sequences
        scs += gen(ctx, "vals", 2, 1, 2, 5, True)           # 2 values, explicit lists, all 10^5 sequences
    # fixed corner scenarios (always run): the minimal cross-stream histories
    fixed = [
        ("clear-other", 2, [{"a": "store", "n": 1, "seq": 1, "tag": 1}, {"a": "clear", "n": 2}]),
        ("clear-one-of-two", 2, [{"a": "store", "n": 1, "seq": 1, "tag": 1}, {"a": "store", "n": 2, "seq": 1, "tag": 1}, {"a": "clear", "n": 1},
                                 {"a": "remove", "n": 2, "seq": 1}]),
        ("clear-own", 2, [{"a": "store", "n": 1, "seq": 1, "tag": 1}, {"a": "store", "n": 1, "seq": 2, "tag": 1}, {"a": "clear", "n": 1},
                          {"a": "list", "n": 1}, {"a": "store", "n": 1, "seq": 2, "tag": 2}, {"a": "list", "n": 1}]),
        ("remove-other", 3, [{"a": "store", "n": 1, "seq": 1, "tag": 1}, {"a": "store", "n": 2, "seq": 1, "tag": 2}, {"a": "store", "n": 3, "seq": 1, "tag": 1},
                             {"a": "remove", "n": 2, "seq": 1}, {"a": "remove", "n": 2, "seq": 1}, {"a": "list", "n": 2}]),
        ("wrap-seq", 2, [{"a": "store", "n": 1, "seq": 2147483647, "tag": 1}, {"a": "store", "n": 2, "seq": 2147483647, "tag": 2},
                         {"a": "remove", "n": 1, "seq": 2147483647}, {"a": "list", "n": 2}]),
    ]
    scs = [{"id": "C07a/fixed/%s" % name, "kind": "sentstorage", "p": {"streams": ns}, "steps": steps} for name, ns, steps in fixed] + scs
    trace = ctx.run_scenarios(scs, "c07a", par=8)
    verdicts, r = ctx.validate(trace, "MonC07a", consts={"NSeqs": 9, "NVals": 9, "MaxOps": 99, "GenList": "TRUE"}, timeout=1500)
    ctx.judge(scs, trace, verdicts)
    if part:
        ctx.harness_cmd = "vh"
        ctx.vh = None
        return len(scs)
    ctx.finish(rule="scenarios = every maximal path (Store/Remove/Clear[/List] on every stream, sequence number and value) of the generator "
                    "configurations of SentStorage.tla, replayed lock-step on iscp.inmemSentStorage and iscp.inmemSentStorageNoPayload; "
                    "after every op the return value and List() of every stream are compared with the model and with the lists before the op; "
                    "non-trivial = scenario whose trace was consumed completely by the monitor with a verdict",
               exhaustive=not ctx.quick())


if __name__ == "__main__":
    main_wrap(run)
