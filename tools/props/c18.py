"""C18 -- reconnectable transport redials without losing, duplicating or reordering writes;
after budget exhaustion / Close every pending and later Read/Write fails instead of blocking."""
import json
import os
from vlib import Ctx, Inconclusive, main_wrap, pick, log, SPEC

CFG_TMPL = """SPECIFICATION Spec
CONSTANTS
  NW = %(NW)d
  Budget = %(Budget)d
  MaxWrites = %(MaxWrites)d
  MaxUWFail = %(MaxUWFail)d
  MaxUR = %(MaxUR)d
  MaxPing = %(MaxPing)d
  MaxRErr = %(MaxRErr)d
  MaxInc = %(MaxInc)d
  MaxDialFail = %(MaxDialFail)d
  MaxHsFail = %(MaxHsFail)d
  MaxReads = %(MaxReads)d
  AllowClose = %(AllowClose)s
  LateOk = %(LateOk)s
  FixWL = %(FixWL)s
  GenCanon = TRUE
INVARIANTS AcceptedExactlyOnce OrderPreserved RedialKeepsIdAndFlag PingFiltered ReadsContinue SummaryAgrees
CONSTRAINT GenPrint
CHECK_DEADLOCK FALSE
"""

DEFAULTS = dict(NW=2, Budget=2, MaxWrites=2, MaxUWFail=1, MaxUR=0, MaxPing=0, MaxRErr=0, MaxInc=3,
                MaxDialFail=2, MaxHsFail=1, MaxReads=0, AllowClose="FALSE", LateOk="FALSE")

# generator families (as-coded model, canonical goroutine schedule): name -> bounds
FAM_QUICK = {
    # concurrent writers x underlying write failures x every dial outcome (both budget outcomes)
    "writers": dict(NW=2, MaxWrites=3, MaxUWFail=2),
    # read side: messages, pings, read errors, pending/late Reads, one writer
    "reads": dict(NW=1, MaxWrites=1, MaxUWFail=1, MaxUR=2, MaxPing=1, MaxRErr=1, MaxReads=1),
    # Close at every quiescent point, before/after failures, with pending Reads
    "close": dict(NW=2, MaxWrites=2, MaxUWFail=1, MaxUR=1, MaxRErr=1, MaxReads=1, MaxHsFail=0, AllowClose="TRUE"),
    # a Write in flight while the read loop replaces the connection returns nil late (accepted before the break) or fails late
    "lateok": dict(NW=1, MaxWrites=2, MaxUWFail=1, MaxUR=1, MaxRErr=1, MaxReads=0, MaxHsFail=0, MaxDialFail=1, LateOk="TRUE"),
}
FAM_THOROUGH = {
    "writers3": dict(NW=2, MaxWrites=3, MaxUWFail=3, MaxDialFail=3),
    "budget3": dict(NW=2, MaxWrites=2, MaxUWFail=2, Budget=3, MaxDialFail=4, MaxUR=1, MaxRErr=1),
    "reads3": dict(NW=1, MaxWrites=1, MaxUWFail=1, MaxUR=3, MaxPing=1, MaxRErr=1, MaxReads=1, MaxHsFail=0),
    "close1": dict(NW=1, MaxWrites=2, MaxUWFail=1, MaxUR=1, MaxPing=1, MaxRErr=1, MaxReads=1, MaxHsFail=0, AllowClose="TRUE"),
}
ENV_OPS = ("write", "uw", "ur", "read", "close", "dial")


def to_step(op):
    a = op["a"]
    if a == "write":
        return {"a": "write", "n": op["w"], "tag": op["k"]}
    if a == "uw":
        return {"a": "uw", "mode": op["res"]}
    if a == "ur":
        return {"a": "ur", "mode": op["kind"]}
    return {"a": a}


def gen(ctx, name, bounds, fix, seen):
    """Scripts of one family from the as-coded model (fix=False) or from the model with the write-loop cancel (fix=True);
    `seen` = environment scripts already produced (the two models share most of them)."""
    p = dict(DEFAULTS)
    p.update(bounds)
    p["FixWL"] = "TRUE" if fix else "FALSE"
    cfg = "ReconnectTransport_gen_%s_%d.cfg" % (name, os.getpid())
    with open(os.path.join(SPEC, cfg), "w") as f:
        f.write(CFG_TMPL % p)
    try:
        r = ctx.l1("ReconnectTransport", cfg, timeout=600)
    finally:
        os.remove(os.path.join(SPEC, cfg))
    # environment projection: goroutine steps are dropped, dial outcomes become the dial list
    seqs = {}
    for s in r.printed:
        if isinstance(s, str) and s.startswith("SCRIPT "):
            j = json.loads(s[7:])
            ops = [o for o in j["ops"] if o["a"] in ENV_OPS]
            q = tuple(json.dumps(to_step(o) if o["a"] != "dial" else {"a": "dial", "mode": o["res"]}, sort_keys=True) for o in ops)
            seqs[q] = sorted(set(seqs.get(q, [])) | set(j["stuck"]))
    order = sorted(seqs)
    keep = [q for i, q in enumerate(order) if not (i + 1 < len(order) and order[i + 1][:len(q)] == q)]  # drop prefixes
    scs = []
    for q in keep:
        if q in seen:
            continue
        seen.add(q)
        ops = [json.loads(x) for x in q]
        k = len(scs)
        steps, nd = [], 0
        for o in ops:
            if o["a"] == "dial":
                nd += 1
            else:
                steps.append(dict(o, seq=nd) if nd else o)   # seq = redials the model performed before this step
        scs.append({"id": "C18/%s/%d" % (name, k), "kind": "reconnect", "wdMs": 2000,
                    "p": {"budget": p["Budget"], "dials": [o["mode"] for o in ops if o["a"] == "dial"],
                          "tid": ("" if k % 2 else "verif-c18-%d" % k),
                          "model": "fix" if fix else "coded", "stuck": seqs[q], "lateOk": p["LateOk"] == "TRUE",
                          # every third scenario: a failing underlying Write reports "the peer closed normally" (any write error means redial)
                          "werr": "normalClose" if k % 3 == 1 else "",
                          # redials the model does not perform: fail, or (every other Close scenario) succeed -- a transport that
                          # keeps redialling after Close then stays alive and its callers hang
                          "after": "ok" if (k // 2) % 2 == 0 and any(o["a"] == "close" for o in ops) else "fail",
                          # every fourth Close scenario: the underlying connection's own Close returns an error (it is closed anyway)
                          "closeErr": (k // 2) % 4 == 0 and any(o["a"] == "close" for o in ops)},
                    "steps": steps})
    log("[C18] family %s: %d printed, %d new maximal environment scripts" % (name, len(r.printed), len(scs)))
    return scs


# ---- monitor self-test: one synthetic history per clause (vacuity guard for the monitor itself)
def selftest_traces():
    def h(name, evs):
        out = [{"ev": "Reset", "kind": "reconnect", "p": {"budget": 2}}] + evs + [{"ev": "End"}]
        return [dict(e, sc="SELFTEST/" + name, i=i + 1, t=i) for i, e in enumerate(out)]
    d1 = {"ev": "UDial", "n": 1, "re": False, "tid": 1, "res": "ok"}
    wc = lambda w, t: {"ev": "WCall", "w": w, "tag": t}
    wr = lambda w, t, ok: {"ev": "WRet", "w": w, "tag": t, "ok": ok}
    uw = lambda inc, t, ok: {"ev": "UWrite", "inc": inc, "tag": t, "ok": ok}
    ud = lambda n, re, tid, res: {"ev": "UDial", "n": n, "re": re, "tid": tid, "res": res}
    ur = lambda inc, kind, t: {"ev": "URead", "inc": inc, "kind": kind, "tag": t}
    rr = lambda kind, t: {"ev": "RRet", "kind": kind, "tag": t}
    wd = lambda op, t: {"ev": "Watchdog", "op": op, "tag": t}
    cases = {
        "clean": ([d1, wc(1, 1), uw(1, 1, False), ud(2, True, 1, "ok"), uw(2, 1, True), wr(1, 1, True), wc(2, 2), uw(2, 2, True), wr(2, 2, True),
                   ur(2, "ping", 0), uw(2, 0, True), ur(2, "msg", 1), {"ev": "RCall"}, rr("msg", 1)], []),
        "lost": ([d1, wc(1, 1), uw(1, 1, False), wr(1, 1, True)], ["LostWrite"]),
        "dup": ([d1, wc(1, 1), uw(1, 1, True), ud(2, True, 1, "ok"), uw(2, 1, True), wr(1, 1, True)], ["DupWrite"]),
        "reorder": ([d1, wc(1, 1), wr(1, 1, True), wc(1, 2), uw(1, 2, True), uw(1, 1, True), wr(1, 2, True)], ["LostWrite", "Reordered"]),
        "reorderinc": ([d1, wc(1, 1), ud(2, True, 1, "ok"), uw(2, 1, True), wr(1, 1, True), wc(1, 2), uw(1, 2, True), wr(1, 2, True)], ["Reordered"]),
        "flag": ([d1, ud(2, False, 1, "ok")], ["RedialFlagOrId"]),
        "tid": ([d1, ud(2, True, 0, "ok")], ["RedialFlagOrId"]),
        "pingleak": ([d1, ur(1, "ping", 0), uw(1, 0, True), {"ev": "RCall"}, rr("ping", 0)], ["PingLeaked"]),
        "pongmissing": ([d1, ur(1, "ping", 0)], ["PongMissing"]),
        "pongspurious": ([d1, uw(1, 0, True)], ["PongSpurious"]),
        "okafterclose": ([d1, {"ev": "CloseCall"}, {"ev": "Closed"}, wc(1, 1), ud(2, True, 1, "ok"), uw(2, 1, True), wr(1, 1, True)], ["WriteOkAfterClose"]),
        "readmismatch": ([d1, ur(1, "msg", 1), ur(1, "msg", 2), {"ev": "RCall"}, rr("msg", 2)], ["ReadMismatch"]),
        "blockbudget": ([d1, wc(1, 1), uw(1, 1, False), ud(2, True, 1, "fail"), ud(3, True, 1, "hsfail"), wr(1, 1, False), wc(2, 2), wd("write", 2)], ["BlockedAfterBudget"]),
        "blockclose": ([d1, {"ev": "CloseCall"}, {"ev": "Closed"}, {"ev": "RCall"}, wd("read", 0)], ["BlockedAfterClose"]),
        "blockother": ([d1, wc(1, 1), wd("write", 1)], ["BlockedOther"]),
        "notexhausted": ([d1, wc(1, 1), uw(1, 1, False), ud(2, True, 1, "fail"), ud(3, True, 1, "ok"), uw(2, 1, False), ud(4, True, 1, "fail"),
                          ud(5, True, 1, "ok"), uw(3, 1, True), wr(1, 1, True)], []),
    }
    lines, expect = [], {}
    for name, (evs, exp) in cases.items():
        lines += h(name, evs)
        expect["SELFTEST/" + name] = sorted(exp)
    return lines, expect


def run():
    ctx = Ctx("C18")
    ctx.harness_cmd = "vhreconnect"
    ctx.assumptions += [
        "underlying transports are scripted fakes: a Write/Read on a closed fake fails by itself (like a closed socket), every other "
        "underlying Write/Read outcome is decided by the script; a failed underlying Write means 'not accepted'",
        "redial outcomes come from a per-scenario list in the order the library dials (reconnect() runs under the transport mutex); "
        "beyond the list every redial fails, except in every other scenario containing Close, where it succeeds",
        "the only timing interpreted is the watchdog: a driver-level Read/Write/Close not returned 2 s after the end of the script "
        "(reconnect interval 1 ms x budget 2-3)",
        "Close racing with an in-flight request (select on ctx.Done vs channel) is abstracted: after cancel the model lets the idle write loop exit",
        "model bounds: <= 3 incarnations, budget 2 (3 in one thorough family), <= 3 writes from 2 writers, <= 3 underlying read results",
    ]
    quick = ctx.quick()
    # ---- L1: exhaustive (all interleavings of environment ops with the goroutine steps)
    ctx.l1("ReconnectTransport", "ReconnectTransport_q.cfg")            # as coded: everything but NoBlock holds
    ctx.l1("ReconnectTransport", "ReconnectTransport_qfix.cfg")         # with the write-loop cancel: NoBlock holds as well
    r = ctx.l1("ReconnectTransport", "ReconnectTransport_qdefect.cfg", must_hold=False)
    predicted = r.violated == "NoBlockAfterBudgetOrClose"
    ctx.notes.append("as-coded model (FixWL=FALSE) %s NoBlockAfterBudgetOrClose" % ("violates" if predicted else "does NOT violate"))
    if not predicted and not r.ok:
        raise Inconclusive("as-coded defect configuration failed unexpectedly: %s" % (r.violated or r.error))
    if not quick:
        ctx.l1("ReconnectTransport", "ReconnectTransport_t.cfg", timeout=1200)
        ctx.l1("ReconnectTransport", "ReconnectTransport_tfix.cfg", timeout=1200)
    # ---- scripts
    fams = dict(FAM_QUICK)
    if not quick:
        fams.update(FAM_THOROUGH)
    scs, total, seens = [], 0, {}
    for name, b in [(n, b) for n, b in fams.items()] + [(n + "F", b) for n, b in fams.items()]:
        # every family twice: from the as-coded model and (suffix F) from the model with the write-loop cancel, new scripts only
        seen = seens.setdefault(name.rstrip("F"), set())
        fam = gen(ctx, name, b, name.endswith("F"), seen)
        total += len(fam)
        # fixed core (a stride sample of every family) + a VERIF_SEED-selected sample of the rest
        ncore, nseed = (40, 110) if quick else (200, 700)
        if name.endswith("F"):
            ncore, nseed = ncore // 3, nseed // 3
        stride = max(1, len(fam) // ncore)
        core = fam[::stride]
        rest = [x for i, x in enumerate(fam) if i % stride]
        scs += core + pick(rest, nseed, ctx.seed)
    log("[C18] %d scenarios selected of %d" % (len(scs), total))
    trace = ctx.run_scenarios(scs, "c18", par=48, timeout=900)
    # ---- validation (real traces + monitor self-test histories in one TLC run)
    st_lines, st_expect = selftest_traces()
    combined = os.path.join(ctx.work, "c18-all.ndjson")
    with open(combined, "w") as f:
        f.write(open(trace).read())
        for e in st_lines:
            f.write(json.dumps(e) + "\n")
    consts = dict(DEFAULTS)
    consts.update(FixWL="FALSE", GenCanon="FALSE", LateOk="FALSE")
    verdicts, r = ctx.validate(combined, "MonC18", consts=consts)
    for sc, exp in st_expect.items():
        got = sorted((verdicts.get(sc) or {}).get("bad", ["<no verdict>"]))
        if got != exp:
            raise Inconclusive("monitor self-test %s: expected %s, got %s" % (sc, exp, got))
        verdicts.pop(sc, None)
    log("[C18] monitor self-test: %d synthetic histories judged as expected" % len(st_expect))
    # clauses that presuppose a completely executed script are not trusted in a run with skipped ops
    # (a skipped `ur msg` leaves a Read legitimately pending); all other clauses are sound on any history
    nskip = lambda sc: ((verdicts.get(sc) or {}).get("stats") or {}).get("skips", 0)
    ctx.judge(scs, trace, verdicts, clause_filter=lambda sc, b: not (b in ("BlockedOther", "PongMissing") and nskip(sc) > 0))
    # fidelity diagnostic (never a verdict): which Writes hang, as predicted by each model vs observed
    by, _ = ctx.load_trace(trace)
    agree = {"coded": [0, 0], "fix": [0, 0]}
    for sc in scs:
        obs = sorted(e["tag"] for e in by.get(sc["id"], []) if e.get("ev") == "Watchdog" and e.get("op") == "write")
        a = agree[sc["p"]["model"]]
        a[0] += 1
        a[1] += int(obs == sorted(sc["p"]["stuck"]))
    log("[C18] hung Writes observed = predicted: as-coded model %d/%d scripts, model with write-loop cancel %d/%d scripts" % (
        agree["coded"][1], agree["coded"][0], agree["fix"][1], agree["fix"][0]))
    skips = sum((v.get("stats") or {}).get("skips", 0) for v in verdicts.values())
    diverged = [sc for sc, v in verdicts.items() if (v.get("stats") or {}).get("skips", 0)]
    byclause = {}
    for sc, clause, _ in ctx.violations:
        byclause[clause] = byclause.get(clause, 0) + 1
    log("[C18] clauses violated: %s; scripted ops the real code never became ready for (Skip): %d in %d scenarios" % (
        byclause or "none", skips, len(diverged)))
    if diverged:
        ctx.notes.append("scenarios with skipped ops: %s" % diverged[:5])
    if not ctx.violations and len(diverged) > max(3, len(scs) // 10):
        raise Inconclusive("%d of %d scenarios diverged from their script (skipped ops)" % (len(diverged), len(scs)))
    ctx.finish(rule="scenarios = maximal environment scripts (Write calls of 2 writers, underlying write ok/fail, underlying read msg/ping/err, "
                    "dial ok/fail/handshake-fail, Read, Close) of the as-coded generator configurations of ReconnectTransport.tla, replayed on "
                    "reconnect.Dial with gated fake transports; whole-history clauses of MonC18 (same observer/clauses as the model invariants); "
                    "non-trivial = scenario consumed completely with a verdict",
               extra_cov={"scripts_generated": total, "skipped_ops": skips, "violations_by_clause": byclause,
                          "model_predicts_defect": predicted,
                          "hung_writes_agreement": {"as_coded_model": agree["coded"], "fixed_model": agree["fix"]}},
               exhaustive=False)   # L1 is exhaustive within its bounds; the replayed scripts are a sample of all generated ones


if __name__ == "__main__":
    main_wrap(run)
