"""C20 -- Flush is a barrier and flush policies cut chunks exactly where they promise."""
import os
from vlib import Ctx, main_wrap, pick, SPEC, Inconclusive
import upscripts as U

THR = 4  # size-policy threshold in abstract units (UNIT bytes each)


def sim_scripts(ctx, pol, n, maxw, sizes, writers=("W1", "W2"), flushers=("F1",)):
    gcfg = U.write_cfg("Upstream_c20_gen_%s.cfg" % pol, policy=pol, thr=THR, maxw=maxw, sizes=sizes, zero=True, dups=0, acks=4,
                       grants=False, writers=writers, flushers=flushers, view=False, gen=True, invs=U.INV_C20)
    r = ctx.tlc("Upstream", gcfg, workers=1, simulate="num=%d" % n, depth=150, timeout=600)
    os.remove(os.path.join(SPEC, gcfg))
    if r.violated or r.error:
        raise Inconclusive("simulation failed: %s" % (r.violated or r.error))
    return U.scripts_of(r)


def run():
    ctx = Ctx("C20")
    quick = ctx.quick()
    ctx.assumptions += [
        "payload size unit = %d bytes; size threshold = %d bytes; IsFlush is 'strictly greater' as documented by the code" % (U.UNIT, THR * U.UNIT),
        "chunk boundaries are predicted by the monitor only for sequential histories (one caller, each call returned before the next); "
        "for concurrent histories only the barrier, snapshot and emptiness clauses are judged",
        "interval policy: latency bound = 1.5 x interval + 250 ms slack; real timers, scenarios run with reduced parallelism",
    ]
    # L1 per policy: barrier / boundary invariants on the design
    for pol in ["none", "size", "immediate"]:
        # thorough bounds fitted to measured state counts (size policy: 19 M distinct states / 7 min with four size classes)
        cfg = U.write_cfg("Upstream_c20_%s.cfg" % pol, policy=pol, thr=THR, maxw=2 if quick else 3,
                          sizes=(1, 5) if quick else ((1, 4, 5) if pol == "size" else (1, 5)), zero=(not quick and pol == "none"), dups=0, acks=1, grants=False,
                          flushers=("F1",) if (quick or pol != "immediate") else (), invs=U.INV_C20)
        ctx.l1("Upstream", cfg, timeout=1500)
        os.remove(os.path.join(SPEC, cfg))
    # the Flush protocol with callers that give up (before / after the hand-over to the flush loop): FlushBarrier holds as coded (unbuffered
    # result channel); the variant with a buffered result channel hands a later caller the result of an earlier flush
    cfg = U.write_cfg("Upstream_c20_abandon.cfg", policy="none", thr=THR, maxw=2, sizes=(1,), zero=False, dups=0, acks=1, grants=False,
                      writers=("W1",), flushers=("F1", "F2"), invs=U.INV_C20, flush_abandon=True)
    ctx.l1("Upstream", cfg, timeout=900)
    os.remove(os.path.join(SPEC, cfg))
    cfg = U.write_cfg("Upstream_c20_abandon_buffered.cfg", policy="none", thr=THR, maxw=2, sizes=(1,), zero=False, dups=0, acks=1, grants=False,
                      writers=("W1",), flushers=("F1", "F2"), invs=U.INV_C20, flush_abandon=True, flush_res_buffered=True)
    r = ctx.l1("Upstream", cfg, timeout=900, must_hold=False)
    os.remove(os.path.join(SPEC, cfg))
    if r.violated != "FlushBarrier":
        from vlib import Inconclusive
        raise Inconclusive("variant FlushResBuffered = TRUE should violate FlushBarrier, TLC says %s" % (r.violated or r.error or "nothing"))
    scs = []
    for pol in ["none", "size", "immediate"]:
        scripts = sim_scripts(ctx, pol, 200 if quick else 2000, 5, (0, 1, 3, 4, 5, 9))
        prm = {"policy": pol, "thr": THR * U.UNIT, "intervalMs": 0, "seqMode": True}
        for k, sc in enumerate(pick(scripts, 40 if quick else 300, ctx.seed)):
            scs.append(U.to_scenario("C20/seq/%s/%d" % (pol, k), sc, policy=pol, thr=THR, seq=True, auto_ack=True, params=prm))
        if pol == "size":
            # the size half of IntervalOrBufferSize (interval far away): the same partition as the size policy
            for k, sc in enumerate(pick(scripts, 20 if quick else 150, ctx.seed + 3)):
                scs.append(U.to_scenario("C20/seq/sizeOrInterval/%d" % k, sc, policy="sizeOrLongInterval", thr=THR, seq=True, auto_ack=True, params=prm))
        prm2 = dict(prm, seqMode=False)
        for k, sc in enumerate(pick(scripts, 25 if quick else 300, ctx.seed + 7)):
            scs.append(U.to_scenario("C20/conc/%s/%d" % (pol, k), sc, policy=pol, thr=THR, auto_ack=True, sample_state=True, params=prm2))
    # Flush calls whose context is already done (they may or may not hand their request to the flush loop before giving up), then a live
    # Flush: the live one is a barrier for everything written before it - it never reports an earlier call's result
    for k in range(6 if quick else 30):
        steps = [{"a": "connect", "must": True}, {"a": "openUp", "obj": "U1", "qos": "reliable", "policy": {"k": "none"}, "must": True, "closeTimeoutMs": 3000},
                 {"a": "ackMode", "mode": "auto"}]
        t = 0
        for rnd_ in range(4):
            for j in range(1 + (k + rnd_) % 3):
                t += 1
                steps += [{"a": "write", "g": "S", "obj": "U1", "id": "AB"[t % 2], "pts": [[t, 4]], "wait": True},
                          {"a": "flush", "g": "S", "obj": "U1", "ctxMs": -1, "wait": True}]
            for j in range(2):
                t += 1
                steps.append({"a": "write", "g": "S", "obj": "U1", "id": "AB"[t % 2], "pts": [[t, 4]], "wait": True})
            steps.append({"a": "flush", "g": "S", "obj": "U1", "ctxMs": 2000, "wait": True})
        steps += [{"a": "closeUp", "g": "S", "obj": "U1", "wait": True, "ctxMs": 3000}, {"a": "quiesce"}, {"a": "closeConn", "g": "main2", "wait": True, "ctxMs": 2000}]
        scs.append({"id": "C20/abandonedFlush/%d" % k, "kind": "iscp", "conn": {}, "steps": steps,
                    "p": {"policy": "none", "thr": THR * U.UNIT, "intervalMs": 0, "seqMode": False}})
    for sc in scs:
        if sc.get("kind") == "iscp":
            sc["steps"] = [{"a": "stallWatch"}] + sc["steps"] + [{"a": "stallWatch", "mode": "off"}]
    trace = ctx.run_scenarios(scs, "c20", par=16)
    # timed family (interval policies), low parallelism
    tscs = []
    for pol, ms in (("interval", 60), ("intervalOrSize", 60)):
        for k, gaps in enumerate([(0, 0, 0), (0, 30, 90), (10, 70, 5)] if quick else [(0, 0, 0), (0, 30, 90), (10, 70, 5), (100, 100, 100), (0, 200, 0)]):
            steps = [{"a": "connect", "must": True},
                     {"a": "openUp", "obj": "U1", "qos": "reliable", "policy": {"k": pol, "ms": ms, "size": THR * U.UNIT}, "must": True},
                     {"a": "ackMode", "mode": "auto"}]
            for j, g in enumerate(gaps):
                steps += [{"a": "sleep", "ms": g}, {"a": "write", "g": "S", "obj": "U1", "id": "AB"[j % 2], "pts": [[j + 1, 4]], "wait": True},
                          {"a": "state", "obj": "U1"}]
            steps += [{"a": "sleep", "ms": 200}, {"a": "closeUp", "g": "S", "obj": "U1", "wait": True, "ctxMs": 3000}, {"a": "quiesce"},
                      {"a": "closeConn", "g": "main2", "wait": True, "ctxMs": 2000}]
            tscs.append({"id": "C20/timed/%s/%d" % (pol, k), "kind": "iscp", "conn": {}, "steps": steps,
                         "p": {"policy": pol, "thr": THR * U.UNIT, "intervalMs": ms, "seqMode": False}})
    # interval policies: an explicit Flush in the middle of an interval, a write that crosses the size threshold (intervalOrSize cuts at
    # once), a Flush whose context is already done - data written afterwards must still leave within one interval
    for pol, ms in (("interval", 60), ("intervalOrSize", 60)):
        for k, mid in enumerate([{"a": "flush", "g": "S", "obj": "U1", "ctxMs": 1000, "wait": True},
                                 {"a": "write", "g": "S", "obj": "U1", "id": "A", "pts": [[50, THR * U.UNIT + 8]], "wait": True},
                                 {"a": "flush", "g": "S", "obj": "U1", "ctxMs": -1, "wait": True}]):
            steps = [{"a": "connect", "must": True},
                     {"a": "openUp", "obj": "U1", "qos": "reliable", "policy": {"k": pol, "ms": ms, "size": THR * U.UNIT}, "must": True},
                     {"a": "ackMode", "mode": "auto"},
                     {"a": "write", "g": "S", "obj": "U1", "id": "A", "pts": [[1, 4]], "wait": True}, {"a": "sleep", "ms": 25}, mid, {"a": "state", "obj": "U1"},
                     {"a": "sleep", "ms": 20}, {"a": "write", "g": "S", "obj": "U1", "id": "B", "pts": [[2, 4]], "wait": True}, {"a": "state", "obj": "U1"},
                     {"a": "sleep", "ms": 150}, {"a": "write", "g": "S", "obj": "U1", "id": "A", "pts": [[3, 4]], "wait": True},
                     {"a": "sleep", "ms": 200}, {"a": "state", "obj": "U1"},
                     {"a": "closeUp", "g": "S", "obj": "U1", "wait": True, "ctxMs": 3000}, {"a": "quiesce"},
                     {"a": "closeConn", "g": "main2", "wait": True, "ctxMs": 2000}]
            tscs.append({"id": "C20/timedmix/%s/%d" % (pol, k), "kind": "iscp", "conn": {}, "steps": steps,
                         "p": {"policy": pol, "thr": THR * U.UNIT, "intervalMs": ms, "seqMode": False}})
    # a cut inside a running interval (explicit Flush / size overflow right after a tick) does not postpone the next tick: what is written
    # afterwards still leaves within one interval (interval 1 s, so that "two intervals" is well beyond the slack)
    for k, cut in enumerate(("flush", "size")):
        pol = "interval" if cut == "flush" else "intervalOrSize"
        steps = [{"a": "connect", "must": True},
                 {"a": "openUp", "obj": "U1", "qos": "reliable", "policy": {"k": pol, "ms": 1000, "size": 10}, "must": True},
                 {"a": "ackMode", "mode": "auto"},
                 {"a": "write", "g": "S", "obj": "U1", "id": "A", "pts": [[1, 4]], "wait": True},
                 {"a": "await", "ev": "BRecvChunk", "match": {"seq": 1}, "ms": 2500, "must": True}]      # aligned with the ticker
        if cut == "flush":
            steps += [{"a": "write", "g": "S", "obj": "U1", "id": "A", "pts": [[2, 4]], "wait": True}, {"a": "flush", "g": "S", "obj": "U1", "ctxMs": 2000, "wait": True}]
        else:
            steps += [{"a": "write", "g": "S", "obj": "U1", "id": "A", "pts": [[2, 12]], "wait": True}]
        steps += [{"a": "sleep", "ms": 30}, {"a": "write", "g": "S", "obj": "U1", "id": "B", "pts": [[3, 4]], "wait": True},
                  {"a": "sleep", "ms": 2300}, {"a": "state", "obj": "U1"},
                  {"a": "closeUp", "g": "S", "obj": "U1", "wait": True, "ctxMs": 3000}, {"a": "quiesce"},
                  {"a": "closeConn", "g": "main2", "wait": True, "ctxMs": 2000}]
        tscs.append({"id": "C20/cutInInterval/%s" % cut, "kind": "iscp", "conn": {"pingMs": [5000, 2000]}, "steps": steps,
                     "p": {"policy": pol, "thr": 10, "intervalMs": 1000, "seqMode": False}})
    # the interval promise survives a resume: the connection is cut, the stream resumes, and what is written afterwards (below every
    # size threshold, nobody calls Flush) still leaves within one interval (seed C20-7: ticker cached across flush-loop incarnations)
    for pol, ms in (("interval", 60), ("intervalOrSize", 60)):
        for k, ncut in enumerate((1, 2)):
            steps = [{"a": "connect", "must": True},
                     {"a": "openUp", "obj": "U1", "qos": "reliable", "policy": {"k": pol, "ms": ms, "size": THR * U.UNIT}, "must": True},
                     {"a": "ackMode", "mode": "auto"},
                     {"a": "write", "g": "S", "obj": "U1", "id": "A", "pts": [[1, 4]], "wait": True}, {"a": "sleep", "ms": 200}]
            for c in range(ncut):
                steps += [{"a": "cut"}, {"a": "await", "ev": "UpResumed", "ms": 4000, "must": True}, {"a": "sleep", "ms": 100},
                          {"a": "write", "g": "S", "obj": "U1", "id": "AB"[c % 2], "pts": [[10 + c, 4]], "wait": True},
                          {"a": "sleep", "ms": 500}, {"a": "state", "obj": "U1"}]
            steps += [{"a": "closeUp", "g": "S", "obj": "U1", "wait": True, "ctxMs": 3000}, {"a": "quiesce"},
                      {"a": "closeConn", "g": "main2", "wait": True, "ctxMs": 2000}]
            tscs.append({"id": "C20/timedResume/%s/%d" % (pol, k), "kind": "iscp", "conn": {"pingMs": [100, 100], "dialDelayMs": 40}, "steps": steps,
                         "p": {"policy": pol, "thr": THR * U.UNIT, "intervalMs": ms, "seqMode": False}})
    for sc in tscs:     # timed scenarios: scheduling stalls of a loaded machine are recorded and added to the interval bound
        sc["steps"] = [{"a": "stallWatch"}] + sc["steps"] + [{"a": "stallWatch", "mode": "off"}]
    ttrace = ctx.run_scenarios(tscs, "c20t", par=4)
    verdicts, _ = ctx.validate(trace, "MonC20")
    ctx.judge(scs, trace, verdicts)
    tverdicts, _ = ctx.validate(ttrace, "MonC20")
    ctx.judge(tscs, ttrace, tverdicts)
    ctx.finish(rule="scenarios = environment projections of random complete behaviours of Upstream.tla (5 writes, sizes straddling the threshold, "
                    "zero-point writes, explicit flushes) replayed (i) sequentially: chunk partition predicted by the monitor from the history, "
                    "(ii) concurrently with State() sampling; plus timed interval-policy scenarios; non-trivial = verdict produced")


if __name__ == "__main__":
    main_wrap(run)
