"""C03 -- downstream returns each broker chunk/metadata once, in order, correctly resolved."""
from vlib import main_wrap
import c04


if __name__ == "__main__":
    main_wrap(lambda: c04.run("C03", "MonC03"))
