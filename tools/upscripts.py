"""Translation of Upstream.tla environment scripts into harness scenarios; cfg generation."""
import json
import os
from vlib import SPEC

UNIT = 4  # bytes per abstract payload size unit

CFG = """SPECIFICATION %(spec)s
CONSTANTS
  DataIds = {%(ids)s}
  Writers = {%(writers)s}
  Flushers = {%(flushers)s}
  MaxWrites = %(maxw)d
  Policy = "%(policy)s"
  Threshold = %(thr)d
  Sizes = {%(sizes)s}
  ZeroPointWrites = %(zero)s
  Reliable = %(reliable)s
  MaxFaults = %(faults)d
  MaxDupAcks = %(dups)d
  MaxAcks = %(acks)d
  AliasGrants = %(grants)s
  CloseShortcut = FALSE
  MaxConflicts = %(conflicts)d
  CancelIsTimeout = %(cit)s
  RecordScript = %(record)s
  NetLoss = %(netloss)s
  FlushAbandon = %(fab)s
  FlushResBuffered = %(frb)s
%(view)s
INVARIANTS %(invs)s
%(constraint)s
CHECK_DEADLOCK FALSE
"""

INV_C01 = "Conservation Numbering NoEmptyChunk AliasOnlyAfterGrant SendHookOnce AckHookSound CloseTotals NoChunkAfterClose AllReceivedAtClose SnapshotConservation"
INV_C20 = INV_C01 + " SizePolicyBound NoneCutsOnlyOnDemand ImmediateCutsEveryWrite FlushBarrier"
INV_C02 = "Conservation Numbering NoEmptyChunk AliasOnlyAfterGrant SendHookOnce AckHookSound CloseTotals SnapshotConservation StoredUntilAcked NothingLostWhenQuiescent ResendOnlyStored"


def q(xs):
    return ", ".join('"%s"' % x for x in xs)


def write_cfg(name, ids=("A", "B"), writers=("W1", "W2"), flushers=("F1",), maxw=2, policy="none", thr=2, sizes=(1,),
              zero=False, reliable=True, faults=0, dups=1, acks=2, grants=True, conflicts=0, view=True, invs=INV_C01, gen=False, mon=False, live=False, cancel_is_timeout=False, netloss=False, flush_abandon=False, flush_res_buffered=False):
    path = os.path.join(SPEC, name)
    with open(path, "w") as f:
        f.write(CFG % dict(ids=q(ids), writers=q(writers), flushers=q(flushers), maxw=maxw, policy=policy, thr=thr,
                           sizes=", ".join(str(s) for s in sizes), zero="TRUE" if zero else "FALSE",
                           reliable="TRUE" if reliable else "FALSE", faults=faults, dups=dups, acks=acks,
                           grants="TRUE" if grants else "FALSE", conflicts=conflicts,
                           view=("" if live else ("VIEW MView" if mon else "VIEW View")) if view else "", invs=invs,
                           spec="FairSpec" if live else ("MSpec" if mon else "Spec"), record="FALSE" if live else "TRUE", cit="TRUE" if cancel_is_timeout else "FALSE", netloss="TRUE" if netloss else "FALSE", fab="TRUE" if flush_abandon else "FALSE", frb="TRUE" if flush_res_buffered else "FALSE",
                           constraint=("PROPERTIES EventuallyDelivered" if live else "") + ("\nCONSTRAINT GenPrint" if gen else "")))
    return name


def policy_step(policy, thr):
    if policy == "size":
        return {"k": "size", "size": thr * UNIT}
    if policy == "immediate":
        return {"k": "immediate"}
    if policy == "interval":
        return {"k": "interval", "ms": 25}
    if policy == "sizeOrLongInterval":     # IntervalOrBufferSize with an interval far beyond the scenario: behaves like the size policy
        return {"k": "intervalOrSize", "ms": 60000, "size": thr * UNIT}
    return {"k": "none"}


def to_scenario(sid, script, policy="none", thr=2, qos="reliable", conn=None, alias_base=40, storage=None, seq=False, auto_ack=False, sample_state=False, params=None,
                reject=False):
    """script: list of env ops printed by Upstream.tla; returns a harness scenario."""
    steps = [{"a": "connect", "must": True},
             {"a": "openUp", "obj": "U1", "qos": qos, "policy": policy_step(policy, thr), "must": True, "closeTimeoutMs": 3000}]
    if auto_ack:
        steps.append({"a": "ackMode", "mode": "auto"})
    aliases = {}
    closing = False
    for op in script:
        a = op["a"]
        if auto_ack and a == "ack":
            continue
        if sample_state:
            steps.append({"a": "state", "obj": "U1"})
        if a == "write":
            pts = [[op["tok"], op["sz"] * UNIT]] if op.get("n", 1) > 0 else []
            steps.append({"a": "write", "g": op["g"], "obj": "U1", "id": op["id"], "pts": pts, "ctxMs": 4000})
        elif a == "flush":
            steps.append({"a": "flush", "g": op["g"], "obj": "U1", "ctxMs": 4000})
        elif a == "tick":
            steps.append({"a": "sleep", "ms": 40})
        elif a == "ack":
            al = {}
            for d in op.get("grant", []):
                if d not in aliases:
                    aliases[d] = alias_base + len(aliases) + 1
                al[d] = aliases[d]
            st_ack = {"a": "ack", "obj": "U1", "seqs": list(op["seqs"]), "aliases": al}
            if reject:
                # the broker acknowledges every chunk but reports a failure for the odd-numbered ones (ProcessFailed = 19): the
                # result code is the broker's business - numbering, hooks and close totals do not depend on it
                st_ack["codes"] = [19 if q % 2 == 1 else 1 for q in op["seqs"]]
            steps.append(st_ack)
        elif a == "close":
            closing = True
            # model guard of CloseCall: every earlier Write/Flush call has returned
            for g in sorted({st["g"] for st in steps if st.get("g") and st["g"] != "C"}):
                steps.append({"a": "join", "obj": g})
            steps.append({"a": "closeUp", "g": "C", "obj": "U1", "ctxMs": 4000})
        elif a == "cut":
            steps.append({"a": "cut"})
        elif a == "redial":
            steps.append({"a": "await", "ev": "Reconnected", "ms": 4000, "must": True})
        elif a == "resumeResp":
            if op["code"] == "ok":
                steps.append({"a": "await", "ev": "UpResumed", "ms": 4000})
    if closing:
        steps.append({"a": "ackUntilIdle", "obj": "U1", "src": "C", "ms": 4000})
        steps.append({"a": "join", "obj": "C"})
    steps += [{"a": "quiesce"}, {"a": "state", "obj": "U1"}, {"a": "closeConn", "g": "main2", "wait": True, "ctxMs": 2000}, {"a": "quiesce", "ms": 50}]
    if seq:
        for st in steps:
            if st.get("g") and st["a"] in ("write", "flush", "closeUp"):
                st["g"] = "S"
                st["wait"] = True
    sc = {"id": sid, "kind": "iscp", "conn": conn or {}, "steps": steps}
    if params:
        sc["p"] = params
    if storage:
        sc["conn"]["storage"] = storage
    return sc


def scripts_of(r):
    out = []
    seen = set()
    for s in r.printed:
        if isinstance(s, str) and s.startswith("SCRIPT "):
            if s in seen:
                continue
            seen.add(s)
            out.append(json.loads(s[7:]))
    return out


def alias_reuse_scenarios(tag):
    """the broker hands the stream alias of a closed upstream to the next one (conn.aliasReuse): the second stream gets its own
    acknowledgements; judged by MonC01 on the second upstream (p.track = "u2")."""
    scs = []
    for k, n in enumerate((1, 2, 3)):
        steps = [{"a": "connect", "must": True}, {"a": "openUp", "obj": "U1", "qos": "reliable", "policy": {"k": "none"}, "must": True, "closeTimeoutMs": 1500}]
        w = lambda obj, t: [{"a": "write", "g": "W", "obj": obj, "id": "AB"[t % 2], "pts": [[t, 8]], "ctxMs": 2000, "wait": True},
                            {"a": "flush", "g": "W", "obj": obj, "ctxMs": 2000, "wait": True}]
        for t in range(1, n + 1):
            steps += w("U1", t)
        steps += [{"a": "ack", "obj": "U1", "all": True}, {"a": "await", "ev": "HookAfter", "match": {"sid": "u1", "seq": n}, "ms": 1500, "must": True},
                  {"a": "closeUp", "g": "C", "obj": "U1", "ctxMs": 3000, "wait": True},
                  {"a": "openUp", "obj": "U2", "qos": "reliable", "policy": {"k": "none"}, "must": True, "closeTimeoutMs": 1500}]
        for t in range(11, 11 + n):
            steps += w("U2", t)
        steps += [{"a": "join", "obj": "W"}, {"a": "ack", "obj": "U2", "all": True}, {"a": "sleep", "ms": 100},
                  {"a": "closeUp", "g": "C", "obj": "U2", "ctxMs": 3000}, {"a": "ackUntilIdle", "obj": "U2", "src": "C", "ms": 3000}, {"a": "join", "obj": "C"},
                  {"a": "quiesce"}, {"a": "closeConn", "g": "X", "ctxMs": 2000, "wait": True}, {"a": "quiesce", "ms": 50}]
        scs.append({"id": "%s/aliasReuse/%d" % (tag, k), "kind": "iscp", "conn": {"aliasReuse": True}, "p": {"track": "u2"}, "steps": steps})
    return scs


def early_grant_scenarios(tag):
    """the broker grants data-id aliases early: for an id the client has not sent yet, for an id it never sends, and twice the same grant;
    afterwards the ids are written - they travel in full form or under exactly the granted alias, totals and numbering are unaffected."""
    scs = []
    w = lambda t, idn: [{"a": "write", "g": "W", "obj": "U1", "id": idn, "pts": [[t, 8]], "ctxMs": 2000, "wait": True},
                        {"a": "flush", "g": "W", "obj": "U1", "ctxMs": 2000, "wait": True}]
    for k, grants in enumerate(([{"B": 61}], [{"B": 61}, {"B": 61}], [{"A": 62, "B": 63}], [{"B": 61}, {"A": 64}])):
        steps = [{"a": "connect", "must": True}, {"a": "openUp", "obj": "U1", "qos": "reliable", "policy": {"k": "none"}, "must": True, "closeTimeoutMs": 3000}]
        steps += w(1, "A") + [{"a": "await", "ev": "BRecvChunk", "match": {"seq": 1}, "ms": 1000, "must": True}]
        for g in grants:
            steps += [{"a": "ack", "obj": "U1", "seqs": [], "aliases": g}, {"a": "sleep", "ms": 30}]
        steps += w(2, "B") + w(3, "A") + w(4, "B") + [{"a": "join", "obj": "W"}, {"a": "ack", "obj": "U1", "all": True}, {"a": "sleep", "ms": 60},
                  {"a": "closeUp", "g": "C", "obj": "U1", "ctxMs": 4000}, {"a": "ackUntilIdle", "obj": "U1", "src": "C", "ms": 3000}, {"a": "join", "obj": "C"},
                  {"a": "quiesce"}, {"a": "closeConn", "g": "X", "ctxMs": 2000, "wait": True}, {"a": "quiesce", "ms": 50}]
        scs.append({"id": "%s/earlyGrant/%d" % (tag, k), "kind": "iscp", "conn": {}, "steps": steps})
    return scs


def slow_ack_scenarios(tag):
    """the broker acknowledges late (1.3 - 2.2 s after the chunk, well inside the close timeout of 4 s; no ack timeout is configured):
    Close waits for the acknowledgement, the close request follows it, every result reaches the ack hook, the totals are complete."""
    scs = []
    for k, (n, wait_ms, close_first) in enumerate([(1, 1300, True), (2, 1500, True), (1, 1300, False), (3, 2200, True)]):
        steps = [{"a": "connect", "must": True}, {"a": "openUp", "obj": "U1", "qos": "reliable", "policy": {"k": "none"}, "must": True, "closeTimeoutMs": 4000}]
        for t in range(1, n + 1):
            steps += [{"a": "write", "g": "W", "obj": "U1", "id": "AB"[t % 2], "pts": [[t, 8]], "ctxMs": 2000, "wait": True},
                      {"a": "flush", "g": "W", "obj": "U1", "ctxMs": 2000, "wait": True}]
        steps += [{"a": "join", "obj": "W"}]
        if close_first:
            steps += [{"a": "closeUp", "g": "C", "obj": "U1", "ctxMs": 6000}, {"a": "sleep", "ms": wait_ms}]
        else:
            steps += [{"a": "sleep", "ms": wait_ms}, {"a": "closeUp", "g": "C", "obj": "U1", "ctxMs": 6000}, {"a": "sleep", "ms": 50}]
        steps += [{"a": "ackUntilIdle", "obj": "U1", "src": "C", "ms": 5000}, {"a": "join", "obj": "C"},
                  {"a": "quiesce"}, {"a": "state", "obj": "U1"}, {"a": "closeConn", "g": "X", "ctxMs": 2000, "wait": True}, {"a": "quiesce", "ms": 50}]
        scs.append({"id": "%s/slowAck/%d" % (tag, k), "kind": "iscp", "conn": {"pingMs": [5000, 2000]}, "steps": steps})
    return scs


def empty_payload_scenarios(tag):
    """points with an empty payload are points: a buffer that holds nothing but such points is flushed like any other (explicit Flush,
    immediate / interval / size policy, the flush inside Close); totals and numbering count them."""
    scs = []
    pols = [("none", {"k": "none"}), ("immediate", {"k": "immediate"}), ("interval", {"k": "interval", "ms": 25}), ("size", {"k": "size", "size": 8}),
            ("intervalOrSize", {"k": "intervalOrSize", "ms": 25, "size": 8})]
    for name, pol in pols:
        for k, shape in enumerate(("emptyOnly", "mixed", "emptyLast")):
            steps = [{"a": "connect", "must": True}, {"a": "openUp", "obj": "U1", "qos": "reliable", "policy": pol, "must": True, "closeTimeoutMs": 3000},
                     {"a": "ackMode", "mode": "auto"}]
            w = lambda t, pts, idn="A": {"a": "write", "g": "W", "obj": "U1", "id": idn, "pts": pts, "ctxMs": 2000, "wait": True}
            fl = {"a": "flush", "g": "W", "obj": "U1", "ctxMs": 2000, "wait": True}
            if shape == "emptyOnly":
                steps += [w(1, [[1, 0], [2, 0]]), dict(fl), {"a": "sleep", "ms": 60}, w(2, [[3, 0]], "B"), {"a": "sleep", "ms": 60}]
            elif shape == "mixed":
                steps += [w(1, [[1, 8]]), dict(fl), w(2, [[2, 0], [3, 0]], "B"), dict(fl), {"a": "sleep", "ms": 60}, w(3, [[4, 0]]), w(4, [[5, 4]], "B"), {"a": "sleep", "ms": 60}]
            else:
                steps += [w(1, [[1, 8]]), dict(fl), {"a": "sleep", "ms": 60}, w(2, [[2, 0]], "B"), w(3, [[3, 0]]), {"a": "sleep", "ms": 60}]
            steps += [{"a": "join", "obj": "W"}, {"a": "closeUp", "g": "C", "obj": "U1", "ctxMs": 5000, "wait": True},
                      {"a": "quiesce"}, {"a": "state", "obj": "U1"}, {"a": "closeConn", "g": "X", "ctxMs": 2000, "wait": True}, {"a": "quiesce", "ms": 50}]
            scs.append({"id": "%s/emptyPayload/%s/%s" % (tag, name, shape), "kind": "iscp", "conn": {}, "steps": steps})
    return scs


def write_then_close_scenarios(tag, rounds=250):
    """many short-lived upstreams on one connection, immediate policy: one write, then Close at once (no wait, no explicit Flush). Close is
    ordered after the handling of the last accepted write: the chunk reaches the broker before the close request, the totals count it.
    (MonC01 judges the tracked stream; every fifth stream of the series is tracked by a scenario of its own.)"""
    scs = []
    for k in range(5):
        steps = [{"a": "connect", "must": True}, {"a": "ackMode", "mode": "auto"}]
        for r in range(rounds):
            obj = "U%d" % (r + 1)
            steps += [{"a": "openUp", "obj": obj, "qos": "reliable", "policy": {"k": "immediate"}, "must": True, "closeTimeoutMs": 2000},
                      {"a": "write", "g": "S", "obj": obj, "id": "A", "pts": [[r + 1, 8]], "ctxMs": 2000, "wait": True},
                      {"a": "closeUp", "g": "S", "obj": obj, "ctxMs": 3000, "wait": True}]
        steps += [{"a": "quiesce"}, {"a": "closeConn", "g": "X", "ctxMs": 2000, "wait": True}, {"a": "quiesce", "ms": 50}]
        scs.append({"id": "%s/writeThenClose/%d" % (tag, k), "kind": "iscp", "conn": {"pingMs": [5000, 2000]}, "p": {"trackAll": True}, "steps": steps})
    return scs
