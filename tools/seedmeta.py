#!/usr/bin/env python3
"""usage: tools/seedmeta.py <seed-id> <property> <caught|missed-then-caught|missed> "<clauses / scenarios>" "<what was strengthened>" """
import json, sys, os
sid, prop, status, how, note = sys.argv[1:6]
p = "/verif/seeded/%s/meta.json" % sid
m = json.load(open(p))
m["verif"] = {"breaks_property": prop, "status": status, "detected_by": how, "strengthening": note,
              "confirmed": "patch applies to /repo HEAD in a scratch worktree, go build ./... ok, demonstration passes without and fails with the change "
                           "(tools/seedcheck.sh), existing suite passes with the change apart from the known load-flaky tests",
              "ran": "tools/seedcheck.sh /tmp/%s %s  (VERIF_REPO=<scratch worktree> ./check %s, quick tier)" % (sid, prop, prop)}
json.dump(m, open(p, "w"), indent=1)
print("ok", sid)
