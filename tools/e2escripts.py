"""Translation of E2ECall.tla environment scripts into harness scenarios; cfg generation; fixed C16 script families.

Script vocabulary (printed by E2ECall.tla, also used by the hand-written families):
  {"a": "call", "g": P, "kind": "call"|"callWait"|"replyCall", "tag": k}     API call on process P; k identifies the call
  {"a": "ack", "tag": k, "code": c}         broker acks call k (tag 0 = a call id nobody uses)
  {"a": "reply", "tag": k, "cid": n}        broker sends a DownstreamCall "in<n>" whose request call id is that of call k (0 = unknown)
  {"a": "incall", "cid": n}                 broker sends a DownstreamCall "in<n>" without request call id
  {"a": "recvCall"|"recvReply", "g": R}     ReceiveCall / ReceiveReplyCall on process R
  {"a": "expire", "tag": k}                 the context of call k expires here
  {"a": "cut"}, {"a": "redial"}             link failure, reconnect completed
  {"a": "close"}                            settle, then Conn.Close
"""
import os
from vlib import SPEC

CTX_MS = 4000       # context of API calls that are expected to be answered or to end with Close
EXPIRE_MS = 600     # context of the calls the script lets expire
SETTLE_MS = 250    # settle point: no event at all for this long (generous: delivery inside the client takes microseconds)

CFG = """SPECIFICATION Spec
CONSTANTS
  Callers = {%(callers)s}
  CallKinds = {%(kinds)s}
  MaxCallsPer = %(per)d
  CallReceivers = {%(cr)s}
  ReplyReceivers = {%(rr)s}
  MaxRecv = %(maxrecv)d
  Cap = %(cap)d
  MaxAcks = %(acks)d
  MaxDupAcks = %(dup)d
  MaxNegAcks = %(neg)d
  MaxUnkAcks = %(unk)d
  MaxReplies = %(rep)d
  MaxDupReplies = %(dupr)d
  MaxUnkReplies = %(unkr)d
  MaxInCalls = %(inc)d
  MaxFaults = %(faults)d
  MaxExpire = %(expire)d
  CloseAnytime = %(closeany)s
  FreshIds = TRUE
  DeleteWaiter = TRUE
%(view)s
INVARIANTS %(invs)s
%(constraint)s
CHECK_DEADLOCK FALSE
"""
INVS = "CallIdsFresh AckToOwnerOnly ReplyToOwnerOnly InboxOnceInOrder NegativeAckOnlyThatCaller DeliverNonBlocking"


def q(xs):
    return ", ".join('"%s"' % x for x in xs)


def write_cfg(name, callers=("P1", "P2", "P3"), kinds=("call", "callWait", "replyCall"), per=1, cr=("RC",), rr=("RR",), maxrecv=2,
              cap=8, acks=3, dup=1, neg=1, unk=1, rep=2, dupr=1, unkr=1, inc=2, faults=0, expire=0, closeany=False,
              view=False, gen=True, invs=INVS):
    """generator cfg: string-valued processes (they are printed), no symmetry, no VIEW, GenPrint at terminal states."""
    with open(os.path.join(SPEC, name), "w") as f:
        f.write(CFG % dict(callers=q(callers), kinds=q(kinds), per=per, cr=q(cr), rr=q(rr), maxrecv=maxrecv, cap=cap, acks=acks,
                           dup=dup, neg=neg, unk=unk, rep=rep, dupr=dupr, unkr=unkr, inc=inc, faults=faults, expire=expire,
                           closeany="TRUE" if closeany else "FALSE", view="VIEW View" if view else "", invs=invs,
                           constraint="CONSTRAINT GenPrint" if gen else ""))
    return name


def fnv30(bs):
    """h.sum30 of the harness: FNV-1a 32 bit, lower 30 bits."""
    h = 0x811c9dc5
    for b in bs:
        h ^= b
        h = (h * 0x01000193) & 0xffffffff
    return h & 0x3fffffff


def call_psum(g, tag):
    return fnv30(("call-%s-%d" % (g, tag)).encode())


STEP_OF_KIND = {"call": "call", "callWait": "callWait", "replyCall": "replyCall"}


def to_scenario(sid, script, conn=None, rules=None, params=None, settle_ms=None):
    """script: list of env ops (see module doc); returns a harness scenario (kind iscp)."""
    steps = [{"a": "connect", "must": True}, {"a": "callAckMode", "mode": "manual"}]
    if settle_ms is None:
        settle_ms = SETTLE_MS
    for r in rules or []:
        steps.append({"a": "rule", "rule": r})
    expiring = {op["tag"] for op in script if op["a"] == "expire"}
    owner = {}       # tag -> process
    seen_at_broker = set()
    nunk = [0]

    def need(tag):
        # the broker answers only calls it has received: wait for the UpstreamCall of this tag (not "must": a call that
        # returns without reaching the broker is judged by the monitor, "@tag" then resolves to an id nobody uses)
        if tag in owner and tag not in seen_at_broker:
            seen_at_broker.add(tag)
            steps.append({"a": "await", "ev": "BRecvCall", "match": {"psum": call_psum(owner[tag], tag)}, "ms": 1500})

    for op in script:
        a = op["a"]
        if a == "call":
            st = {"a": STEP_OF_KIND[op["kind"]], "g": op["g"], "tag": op["tag"], "ctxMs": EXPIRE_MS if op["tag"] in expiring else CTX_MS}
            if op["kind"] == "replyCall":
                st["reqID"] = "peer-call-%d" % op["tag"]
            owner[op["tag"]] = op["g"]
            steps.append(st)
        elif a == "ack":
            if op["tag"] == 0:
                nunk[0] += 1
                steps.append({"a": "sendCallAck", "callID": "nobody-%d" % nunk[0], "code": op.get("code", 1)})
            else:
                need(op["tag"])
                steps.append({"a": "sendCallAck", "callID": "@%d" % op["tag"], "code": op.get("code", 1)})
        elif a == "reply":
            if op["tag"] == 0:
                nunk[0] += 1
                steps.append({"a": "sendCall", "callID": "in%d" % op["cid"], "reqID": "nobody-%d" % nunk[0], "tag": 100 + op["cid"]})
            else:
                need(op["tag"])
                steps.append({"a": "sendCall", "callID": "in%d" % op["cid"], "reqID": "@%d" % op["tag"], "tag": 100 + op["cid"]})
        elif a == "incall":
            steps.append({"a": "sendCall", "callID": "in%d" % op["cid"], "tag": 100 + op["cid"]})
        elif a in ("recvCall", "recvReply"):
            st = {"a": a, "g": op["g"], "ctxMs": op.get("ctxMs", CTX_MS)}
            if op.get("wait"):
                st["wait"] = True
            steps.append(st)
        elif a == "expire":
            steps.append({"a": "await", "ev": "ApiRet", "match": {"tag": op["tag"], "psum": call_psum(owner.get(op["tag"], "?"), op["tag"])}, "ms": EXPIRE_MS + 1500})
        elif a == "cut":
            # "between call and ack": every call started so far has reached the broker (the library writes it at once)
            for tag in sorted(owner):
                if tag not in seen_at_broker:
                    seen_at_broker.add(tag)
                    steps.append({"a": "await", "ev": "BRecvCall", "match": {"psum": call_psum(owner[tag], tag)}, "ms": 1000})
            steps.append({"a": "cut"})
        elif a == "redial":
            steps.append({"a": "await", "ev": "Reconnected", "ms": 4000, "must": True})
        elif a == "sleep":
            steps.append({"a": "sleep", "ms": op["ms"]})
        elif a == "close":
            break
    # settle (harness/h/steps_e2e.go): a window without events (keep-alive traffic ignored) in which the process was demonstrably scheduled
    steps += [{"a": "settle", "ms": settle_ms}, {"a": "closeConn", "g": "main2", "wait": True, "ctxMs": 2000}, {"a": "quiesce", "ms": 50}]
    sc = {"id": sid, "kind": "iscp", "conn": conn or {}, "wdMs": 6000, "steps": steps}
    if params:
        sc["p"] = params
    return sc


RECONNECT_CONN = {"pingMs": [100, 100], "dialDelayMs": 40}

# ------------------------------------------------------------------ fixed families
KINDS3 = ["call", "callWait", "replyCall"]


def perms(xs):
    if len(xs) <= 1:
        return [list(xs)]
    out = []
    for i in range(len(xs)):
        for p in perms(xs[:i] + xs[i + 1:]):
            out.append([xs[i]] + p)
    return out


def calls(kinds, base=0):
    return [{"a": "call", "g": "P%d" % (i + 1), "kind": k, "tag": base + i + 1} for i, k in enumerate(kinds)]


def core_family(pid):
    """the fixed core of C16: always run, independent of the seed."""
    scs = []
    add = lambda name, script, **kw: scs.append(to_scenario("%s/core/%s" % (pid, name), script, **kw))
    # 3 callers of the three kinds, acks in all 6 orders; the replies for the waiting caller after the acks, in the opposite order
    for n, order in enumerate(perms([1, 2, 3])):
        for rot in range(3):
            kinds = KINDS3[rot:] + KINDS3[:rot]
            s = calls(kinds) + [{"a": "recvReply", "g": "RR"}]
            s += [{"a": "ack", "tag": k, "code": 1} for k in order]
            s += [{"a": "reply", "tag": k, "cid": 10 + k} for k in reversed(order)]
            s += [{"a": "recvReply", "g": "RR"}, {"a": "recvReply", "g": "RR"}, {"a": "close"}]
            add("acks%d%d%d-rot%d" % (order[0], order[1], order[2], rot), s)
    # three waiting callers: replies (all 6 orders) before any ack, then the acks in script order
    for order in perms([1, 2, 3]):
        s = calls(["callWait"] * 3)
        s += [{"a": "reply", "tag": k, "cid": 20 + k} for k in order]
        s += [{"a": "sleep", "ms": 30}]
        s += [{"a": "ack", "tag": k, "code": 1} for k in (2, 3, 1)] + [{"a": "close"}]
        add("replyBeforeAck%d%d%d" % tuple(order), s)
    # duplicated ack (same and different code) for each position, before and after the other acks; duplicated reply
    for dup in (1, 2, 3):
        for second in (1, 19):
            s = calls(["call", "callWait", "replyCall"])
            # three acks for one id, three replies for the waiting caller's id: the dispatcher must stay available for the others
            s += [{"a": "ack", "tag": dup, "code": 1}, {"a": "ack", "tag": dup, "code": second}, {"a": "ack", "tag": dup, "code": 1}]
            s += [{"a": "reply", "tag": 2, "cid": 31}, {"a": "reply", "tag": 2, "cid": 32}, {"a": "reply", "tag": 2, "cid": 33}]
            s += [{"a": "ack", "tag": k, "code": 1} for k in (3, 2, 1) if k != dup]
            s += [{"a": "call", "g": "P4", "kind": "callWait", "tag": 4}, {"a": "reply", "tag": 4, "cid": 34}, {"a": "ack", "tag": 4, "code": 1}, {"a": "close"}]
            add("dupAck%d-%d" % (dup, second), s)
    # a waiting caller's reply arrives two or three times BEFORE its ack, then the call is refused (or the caller's context ends): the caller
    # leaves with an error, the dispatcher stays available - another caller gets its reply, an incoming call is received
    for n, (ndup, leave) in enumerate(((2, "neg"), (3, "neg"), (2, "expire"), (3, "expire"))):
        s = calls(["callWait", "callWait", "call"])
        s += [{"a": "reply", "tag": 1, "cid": 35 + k} for k in range(ndup)] + [{"a": "sleep", "ms": 120}]
        s += [{"a": "ack", "tag": 1, "code": 19}] if leave == "neg" else [{"a": "expire", "tag": 1}]
        s += [{"a": "sleep", "ms": 50}, {"a": "call", "g": "P4", "kind": "callWait", "tag": 4}, {"a": "reply", "tag": 4, "cid": 39}, {"a": "ack", "tag": 4, "code": 1},
              {"a": "incall", "cid": 38}, {"a": "recvCall", "g": "RC"}, {"a": "ack", "tag": 2, "code": 1}, {"a": "reply", "tag": 2, "cid": 40},
              {"a": "ack", "tag": 3, "code": 1}, {"a": "close"}]
        add("dupReplyThenLeave%d" % n, s)
    # replies and acks for ids nobody uses, interleaved with the real ones
    for n, order in enumerate(([1, 2, 3], [3, 1, 2])):
        s = calls(["callWait", "call", "callWait"]) + [{"a": "recvReply", "g": "RR"}]
        s += [{"a": "reply", "tag": 0, "cid": 41}, {"a": "ack", "tag": 0, "code": 1}, {"a": "ack", "tag": 0, "code": 19}]
        for k in order:
            s += [{"a": "ack", "tag": k, "code": 1}, {"a": "reply", "tag": 0, "cid": 42 + k}]
        s += [{"a": "reply", "tag": 1, "cid": 46}, {"a": "reply", "tag": 3, "cid": 47}, {"a": "recvReply", "g": "RR"}, {"a": "close"}]
        add("unknownIds%d" % n, s)
    # negative ack for one of three: every position, every kind rotation; the other two are answered positively afterwards
    for neg in (1, 2, 3):
        for rot in range(3):
            kinds = KINDS3[rot:] + KINDS3[:rot]
            s = calls(kinds)
            s += [{"a": "ack", "tag": neg, "code": 19}]
            s += [{"a": "ack", "tag": k, "code": 1} for k in (3, 2, 1) if k != neg]
            s += [{"a": "reply", "tag": k, "cid": 50 + k} for k in (1, 2, 3)] + [{"a": "close"}]
            add("neg%d-rot%d" % (neg, rot), s)
    # nobody is answered: every caller returns only with Close
    add("noAnswer", calls(KINDS3) + [{"a": "recvCall", "g": "RC"}, {"a": "recvReply", "g": "RR"}, {"a": "close"}])
    # one caller's context expires, its ack comes late (orphan), the others are answered normally
    for exp in (1, 2):
        s = calls(["call", "callWait", "callWait"])
        s += [{"a": "ack", "tag": 3, "code": 1}, {"a": "expire", "tag": exp}, {"a": "ack", "tag": exp, "code": 1}, {"a": "reply", "tag": exp, "cid": 60},
              {"a": "ack", "tag": 3 - exp, "code": 1}, {"a": "reply", "tag": 3, "cid": 61}, {"a": "reply", "tag": 2, "cid": 62}, {"a": "close"}]
        add("expire%d" % exp, s)
    # inboxes: incoming calls and replies interleaved, two receivers each; everything received in arrival order
    s = [{"a": "recvCall", "g": "RC"}, {"a": "recvReply", "g": "RR"}] + calls(["callWait", "call"])
    for n in range(1, 7):
        s += [{"a": "incall", "cid": 70 + n}, {"a": "reply", "tag": 0 if n % 3 else 1, "cid": 80 + n}]
        if n % 2 == 0:
            s += [{"a": "recvCall", "g": "RC"}, {"a": "recvReply", "g": "RR"}]
    s += [{"a": "ack", "tag": 1, "code": 1}, {"a": "ack", "tag": 2, "code": 1}]
    s += [{"a": "recvCall", "g": "RC"}, {"a": "recvReply", "g": "RR"}] * 3 + [{"a": "close"}]
    add("inbox", s)
    # a full reply inbox (nobody calls ReceiveReplyCall; the 1025th reply is discarded by design) must not stop the
    # dispatcher: the waiting caller still gets its reply, the first replies are still handed over in arrival order
    s = calls(["callWait", "call"]) + [{"a": "reply", "tag": 0, "cid": 1000 + n} for n in range(1030)]
    s += [{"a": "incall", "cid": 2100}, {"a": "reply", "tag": 1, "cid": 2101}, {"a": "ack", "tag": 1, "code": 1}, {"a": "ack", "tag": 2, "code": 1}]
    s += [{"a": "recvReply", "g": "RR"}, {"a": "recvReply", "g": "RR"}, {"a": "recvCall", "g": "RC"}, {"a": "close"}]
    add("replyInboxFull", s)
    # the same for the call inbox: 1030 incoming calls nobody fetches (the surplus is discarded by design) must not keep the replies and
    # acks behind them from their callers; afterwards the first calls are handed over in arrival order
    s = calls(["callWait", "call"]) + [{"a": "incall", "cid": 4000 + n} for n in range(1030)]
    s += [{"a": "reply", "tag": 1, "cid": 5101}, {"a": "ack", "tag": 1, "code": 1}, {"a": "ack", "tag": 2, "code": 1}, {"a": "reply", "tag": 0, "cid": 5102}]
    s += [{"a": "recvCall", "g": "RC"}, {"a": "recvCall", "g": "RC"}, {"a": "recvReply", "g": "RR"}, {"a": "close"}]
    add("callInboxFull", s)
    # receives whose context is already done while calls / replies are waiting in the inboxes: a poll hands an item over or reports the
    # context error - it must never consume an item and report an error
    s = [{"a": "incall", "cid": 3000 + n} for n in range(5)] + [{"a": "reply", "tag": 0, "cid": 3100 + n} for n in range(4)] + [{"a": "sleep", "ms": 60}]
    s += [{"a": "recvCall", "g": "RC", "ctxMs": -1, "wait": True}] * 12 + [{"a": "recvReply", "g": "RR", "ctxMs": -1, "wait": True}] * 12
    s += [{"a": "recvCall", "g": "RC", "wait": True, "ctxMs": 400}] * 5 + [{"a": "recvReply", "g": "RR", "wait": True, "ctxMs": 400}] * 4 + [{"a": "close"}]
    add("recvPollDoneCtx", s)
    # reconnect between call and ack: the ack (and the reply) arrive on the next incarnation
    for n, kinds in enumerate((["call", "callWait", "replyCall"], ["callWait", "callWait", "call"])):
        s = calls(kinds) + [{"a": "ack", "tag": 3, "code": 1}, {"a": "cut"}, {"a": "redial"}]
        s += [{"a": "ack", "tag": 2, "code": 1}, {"a": "ack", "tag": 1, "code": 1 if n == 0 else 19}, {"a": "reply", "tag": 2, "cid": 90}, {"a": "reply", "tag": 1, "cid": 91}, {"a": "close"}]
        add("reconnect%d" % n, s, conn=RECONNECT_CONN)
    # the link dies while the call is written: after the broker read it (cutAfter) / before (cutBefore: the library writes it again)
    for do in ("cutAfter", "cutBefore"):
        s = calls(["call", "callWait"]) + [{"a": "redial"}, {"a": "ack", "tag": 1, "code": 1}, {"a": "ack", "tag": 2, "code": 1}, {"a": "reply", "tag": 2, "cid": 95}, {"a": "close"}]
        add("reconnect-" + do, s, conn=RECONNECT_CONN, rules=[{"on": "UpstreamCall", "nth": 2, "do": do}])
    return scs
