#!/bin/sh
# Offline set-up: verify tools, warm the Go build cache by building the harness once.
set -e
cd "$(dirname "$0")"
mkdir -p .work evidence
export GOFLAGS=-mod=mod GOPROXY=off GOSUMDB=off GOTOOLCHAIN=local
command -v go1.26 >/dev/null
command -v java >/dev/null
cp /repo/go.sum harness/go.sum
(cd harness && go1.26 build -tags verif -o ../.work/vh.setup ./cmd/vh)
rm -f .work/vh.setup
echo setup ok
