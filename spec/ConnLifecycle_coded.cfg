SPECIFICATION Spec
CONSTANTS
  Streams = {"S1", "S2"}
  Callers = {"P1"}
  MaxFaults = 1
  MaxDialFails = 1
  MaxResumeNg = 1
  WatcherByEpoch = FALSE
  HookCurrent = FALSE
  SwapGuarded = FALSE
  SupervisorOrClosed = FALSE
  RetryByEpoch = FALSE
  AllowClose = TRUE
  EpochBeforeResume = TRUE
  HalfBroken = TRUE
VIEW View
INVARIANTS TokenPerDial NoStreamDetached CallersSurvive NotificationsOnce NoPanic NoDialAfterClose NoCallerParkedWhenClosed NoSupervisorParkedWhenClosed SilentAfterDisconnect
CHECK_DEADLOCK FALSE
