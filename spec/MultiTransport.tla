---------------------------- MODULE MultiTransport ----------------------------
(* L1 wrapper of MultiTransportCore: exhaustive exploration of all member sets, initial ids,
   scheduler selections (members, non-members, the empty id), writes (returning at once or staying in flight inside the
   member while selections queue up), member reads, probes and
   Close, with the goroutine steps applySel / pump interleaved freely (write-vs-selection and
   read-merge races).  The same module generates the environment scripts (cfgs with GenCanon). *)
EXTENDS MultiTransportCore

CONSTANTS Fams,                                          \* set of parameter records b (see Core)
          MaxSel, MaxWrites, MaxReads, MaxProbe, MaxRac  \* bounds of the exhaustive families
VARIABLES st, script
vars == <<st, script>>

Init == /\ \E b \in Fams : st \in InitSet(b)
        /\ script = <<>>
Next == \E op \in EnabledOps(st) :
            /\ st' = Apply(st, op)
            /\ script' = IF IsEnv(op) THEN Append(script, [x \in DOMAIN op \ {"mode"} |-> op[x]]) ELSE script
Spec == Init /\ [][Next]_vars

WritesToCurrent == WritesToCurrentOf(st)
ReadsOnce == ReadsOnceOf(st)
CloseClosesAll == CloseClosesAllOf(st)
CountersAreSums == CountersAreSumsOf(st)
UnknownIdHarmless == UnknownIdHarmlessOf(st)
NoCrash == ~st.crashed      \* used with AsCoded = TRUE: TLC must reach the nil dereference
\* VIEW of the exhaustive cfgs: `script`, the result of the last call, the probe counter and the configured
\* initial id do not influence the future behaviour (only M and the current member do): merge such states
StView == [st EXCEPT !.b = [M |-> st.b.M, r |-> (st.status = "rejected"), ce |-> st.b.cerr], !.last = 0, !.nprobe = 0]

\* script generation: print parameters + environment operations of every complete path
Full(s) == /\ s.nsel = s.b.maxSel /\ Len(s.to) = s.b.maxW /\ Len(s.fedTo) = s.b.maxR
           /\ s.nprobe = s.b.maxP /\ s.rac = s.b.maxRac
GenPrint == IF st.status = "closed" /\ Full(st)
            THEN PrintT("SCRIPT " \o ToJson([b |-> st.b, steps |-> script])) ELSE TRUE

\* ---- named constants for the configurations (cfg files cannot write records)
All3 == {"m1", "m2", "m3"}
AllProbes == {"counters", "asUnreliable", "negotiationParams"}
MemberSets == { {"m1"}, {"m1", "m2"}, All3 }
Fam(name, M, init, selIds, ms, mw, mr, mp, probes, rac) ==
    [name |-> name, M |-> M, init |-> init, selIds |-> selIds, maxSel |-> ms, maxW |-> mw, maxR |-> mr,
     maxP |-> mp, probes |-> probes, maxRac |-> rac, hold |-> FALSE, cerr |-> {}]
FamCE(name, M, init, selIds, ms, mw, mr, ce) == [Fam(name, M, init, selIds, ms, mw, mr, 0, {}, 0) EXCEPT !.cerr = ce]
FamH(name, M, init, selIds, ms, mw, mr) == [Fam(name, M, init, selIds, ms, mw, mr, 0, {}, 0) EXCEPT !.hold = TRUE]

\* exhaustive: all member sets x all initial ids, bounds from the cfg
ExhFams == { [Fam("exh", M, i, Ids, MaxSel, MaxWrites, MaxReads, MaxProbe, AllProbes, MaxRac) EXCEPT !.hold = TRUE, !.cerr = ce] :
                M \in MemberSets, i \in Ids, ce \in {{}, {"m2"}} }
\* the defect demonstration (AsCoded = TRUE): small
CodedFams == { Fam("coded", {"m1", "m2"}, "m1", Ids, 1, 1, 0, 1, {"negotiationParams"}, 0) }

\* generator families (quick core)
GenQ ==
    { Fam("route2", All3, "m1", Ids, 2, 2, 0, 0, {}, 0),
      Fam("probe", All3, "m1", {"m2", "zz", ""}, 1, 1, 0, 1, AllProbes, 0),
      Fam("sub1", {"m1"}, "m1", Ids, 2, 1, 0, 0, {}, 0),
      Fam("sub2", {"m1", "m2"}, "m2", Ids, 2, 1, 0, 0, {}, 0),
      Fam("reads2", All3, "m2", {}, 0, 0, 2, 0, {}, 0),
      Fam("reads3", {"m1", "m2"}, "m1", {}, 0, 0, 3, 0, {}, 0),
      Fam("mix", {"m1", "m2"}, "m1", {"m2", "zz"}, 1, 1, 1, 1, {"counters"}, 0),
      Fam("rac", {"m1", "m2"}, "m2", {}, 0, 0, 2, 0, {}, 1),
      Fam("lu", {"m1", "m2"}, "m1", {"m2"}, 2, 1, 1, 0, {}, 0),
      Fam("w3q", All3, "m3", {"m2"}, 1, 3, 0, 0, {}, 0),
      FamH("hold", {"m1", "m2"}, "m1", {"m1", "m2", "zz", ""}, 2, 1, 0),
      FamH("holdr", {"m1", "m2"}, "m2", {"m1", "zz"}, 1, 1, 1),
      FamCE("cerr", All3, "m1", {"m2"}, 1, 1, 1, {"m2"}), FamCE("cerr", All3, "m3", {}, 0, 1, 0, {"m1", "m3"}),
      FamCE("cerr", {"m1", "m2"}, "m1", {}, 0, 0, 0, {"m1", "m2"}) }
    \cup { Fam("init", All3, i, {"m1"}, 1, 1, 0, 1, AllProbes, 0) : i \in {"zz", ""} }
    \cup { Fam("init", {"m1", "m2"}, "m3", {"m1"}, 1, 1, 0, 1, AllProbes, 0) }
\* additional families of the thorough tier
GenT ==
    { Fam("route3", All3, "m1", Ids, 3, 1, 0, 0, {}, 0),
      Fam("sel4", All3, "m3", {"m1", "m2", "zz"}, 4, 1, 0, 0, {}, 0),
      Fam("w3", All3, "m1", {"m2", "m3", "zz", ""}, 2, 3, 0, 0, {}, 0),
      Fam("reads3all", All3, "m1", {}, 0, 0, 3, 0, {}, 0),
      Fam("mix2", All3, "m1", {"m3", ""}, 1, 2, 1, 1, {"counters"}, 0),
      FamH("hold3", All3, "m3", {"m1", "zz", ""}, 3, 1, 0) }
=============================================================================
