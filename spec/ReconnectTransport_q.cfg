SPECIFICATION Spec
CONSTANTS
  NW = 2
  Budget = 2
  MaxWrites = 2
  MaxUWFail = 1
  MaxUR = 2
  MaxPing = 1
  MaxRErr = 1
  MaxInc = 3
  MaxDialFail = 2
  MaxHsFail = 1
  MaxReads = 1
  AllowClose = TRUE
  LateOk = FALSE
  FixWL = FALSE
  GenCanon = FALSE
VIEW StView
INVARIANTS AcceptedExactlyOnce OrderPreserved RedialKeepsIdAndFlag PingFiltered ReadsContinue SummaryAgrees
CHECK_DEADLOCK FALSE
