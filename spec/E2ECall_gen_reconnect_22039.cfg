SPECIFICATION Spec
CONSTANTS
  Callers = {"P1", "P2", "P3"}
  CallKinds = {"call", "callWait", "replyCall"}
  MaxCallsPer = 1
  CallReceivers = {"RC"}
  ReplyReceivers = {"RR"}
  MaxRecv = 2
  Cap = 8
  MaxAcks = 4
  MaxDupAcks = 1
  MaxNegAcks = 1
  MaxUnkAcks = 0
  MaxReplies = 3
  MaxDupReplies = 0
  MaxUnkReplies = 1
  MaxInCalls = 1
  MaxFaults = 1
  MaxExpire = 0
  CloseAnytime = FALSE
  FreshIds = TRUE
  DeleteWaiter = TRUE

INVARIANTS CallIdsFresh AckToOwnerOnly ReplyToOwnerOnly InboxOnceInOrder NegativeAckOnlyThatCaller DeliverNonBlocking
CONSTRAINT GenPrint
CHECK_DEADLOCK FALSE
