SPECIFICATION Spec
CONSTANTS
  Callers = {c1, c2}
  Ping = ping
  MaxDup = 1
  MaxSpur = 1
  MaxCancel = 1
  PingTimeout = TRUE
  PingStarts = TRUE
  GenBarrier = FALSE
  GenCanon = FALSE
  GenPong = TRUE
SYMMETRY Perms
VIEW StView
INVARIANTS IdsDistinctAndEven OwnResponseOnly SpuriousHarmless CancelDoesNotSteal DispatcherNeverBlocks OutcomeAllowed NoCallerStuck
CHECK_DEADLOCK FALSE
