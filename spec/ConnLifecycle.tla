---------------------------- MODULE ConnLifecycle ----------------------------
(* L1 system specification of the iscp connection life cycle: iscp/conn.go (the run loop of
   ConnectWithConfig, run, reconnect, send, close), iscp/state.go (connStatus with its condition
   variable: Swap/CompareAndSwap broadcast, waitUntil re-checks after wake-up, the closed-hook),
   the per-stream supervisors and watchers of iscp/upstream.go / downstream.go (abstracted: a
   stream is bound to a wire-connection incarnation, watches the status flag, resumes), API callers
   inside send(), and Close.

   Condition-variable semantics are explicit: a waiter is `parked` (inside cond.Wait), a Broadcast
   moves every parked waiter to `woken`, a woken waiter re-evaluates its predicate at some later
   moment (after re-acquiring the lock) and sees the status of THAT moment.  This is what makes
   "a watcher misses an outage that is already over" a reachable state if the code allows it.

   Model switches (constants) select the behaviour as coded at the pinned commit or as repaired:
     WatcherByEpoch : FALSE = watcher waits for the flag VALUE Reconnecting (as coded); TRUE = waits for a new outage epoch
     HookCurrent    : FALSE = waitUntil passes the TARGET status to the closed-hook (as coded); TRUE = the current status
     SwapGuarded    : FALSE = reconnect() panics when the status is not Reconnecting after a successful dial (as coded)
     RetryByEpoch   : FALSE = send() swaps the status to Reconnecting on ANY connection-closed error (as coded): an error that stems from an
                      already replaced connection tears the new one down (spurious second outage); TRUE = only if the epoch is unchanged
     SupervisorOrClosed : FALSE = the stream supervisor waits for Connected with WaitUntil (as coded): on a Closed connection it waits forever *)
EXTENDS Integers, Sequences, FiniteSets, TLC, Json, SequencesExt, FiniteSetsExt

CONSTANTS Streams, Callers, MaxFaults, MaxDialFails, MaxResumeNg, WatcherByEpoch, HookCurrent, SwapGuarded, SupervisorOrClosed, RetryByEpoch, AllowClose,
          EpochBeforeResume,   \* TRUE = the stream records the reconnect epoch before it reads c.wireConn and starts the resume exchange (as coded);
                               \* FALSE = after the resume response (a variant that misses an outage decided during the exchange)
          HalfBroken,          \* TRUE = the environment may also break only the write direction of a link (writes fail, reads are still delivered)
          RetryStopsOnClosedErr,  \* FALSE as coded: the redial loop ends only when the connection's status is Closed; TRUE = it also ends when
                               \* an attempt fails with the "connection closed" error (what a transport lost during the handshake reports):
                               \* the supervisor goroutine ends while the connection is still Reconnecting (SupervisorAlive violated)
          MaxConflicts,        \* number of resume requests the broker answers with ResumeRequestConflict ("try again")
          ConflictFatal,       \* FALSE = the resume request is repeated after a conflict (as repaired); TRUE = the repeated attempt fails locally
                               \* and the stream is closed (downstreams at the pinned commit: the alias was subscribed a second time)
          HandlerCloses,       \* TRUE = the application's Disconnected handler (it runs on the connection's main goroutine) calls Conn.Close itself
          CloseJoinsMain       \* FALSE as coded: Close returns once the Disconnect is out; TRUE = Close additionally waits for the main goroutine
                               \* to end (a variant that deadlocks when a handler closes: the goroutine waits for itself)

VARIABLES s, script
vars == <<s, script>>
View == s

Init0 ==
  [ cs |-> "connected", epoch |-> 0,
    inc |-> 1,                    \* incarnation c.wireConn refers to
    alive |-> TRUE,               \* link of incarnation inc is up
    wfail |-> 0,                  \* incarnation whose write direction is broken: writes report an error, reads are still delivered
    wclosed |-> {},               \* incarnations whose wire connection was closed by the client
    main |-> "run",               \* run loop pc
    dialing |-> 0,                \* incarnation being established by reconnect()
    mu |-> "none",                \* holder of wireConnMu
    st |-> [x \in Streams |-> [pc |-> "watch", w |-> "parked", bound |-> 1, ep |-> 0, resumed |-> 0, closedErr |-> FALSE, resumeOn |-> {}, conflictClosed |-> FALSE]],
    ca |-> [p \in Callers |-> [pc |-> "idle", w |-> "none", res |-> "", sentOn |-> {}, ep |-> 0]],
    cl |-> "idle",                \* Close pc
    closeRet |-> FALSE,
    tokens |-> 0, dials |-> 0, dialsAfterClose |-> 0, disc |-> 0, recon |-> 0, outages |-> 0,
    faults |-> 0, dialFails |-> 0, resumeNg |-> 0, conflicts |-> 0, panic |-> FALSE,
    sentAfterDisconnect |-> FALSE, disconnectSent |-> {} ]

Init == s = Init0 /\ script = <<>>
Say(op) == script' = Append(script, op)
Quiet == UNCHANGED script

\* every status change broadcasts: all parked waiters become woken
Wake(x) == [x EXCEPT !.st = [y \in Streams |-> IF x.st[y].w = "parked" THEN [x.st[y] EXCEPT !.w = "woken"] ELSE x.st[y]],
                     !.ca = [p \in Callers |-> IF x.ca[p].w = "parked" THEN [x.ca[p] EXCEPT !.w = "woken"] ELSE x.ca[p]]]
\* (state.go SwapWithoutLock: the epoch counts the transitions INTO Reconnecting; a second swap while already Reconnecting - reconnect()
\*  after send() has started the outage - does not advance it)
SetCs(x, v) == Wake([x EXCEPT !.cs = v, !.epoch = IF v = "reconnecting" /\ x.cs # "reconnecting" THEN @ + 1 ELSE @])

\* ---------------------------------------------------------------- environment: link
LinkDown ==
    /\ s.alive /\ s.faults < MaxFaults /\ s.cs # "closed" /\ s.cl = "idle"
    /\ s' = [s EXCEPT !.alive = FALSE, !.faults = @ + 1, !.outages = IF s.wfail = s.inc THEN @ ELSE @ + 1]   \* one outage per connection
    /\ Say([a |-> "cut"])

\* only the write direction breaks: the next write (application request or keep-alive ping) reports an error, while messages
\* the broker has sent or still sends are delivered
WriteBreaks ==
    /\ HalfBroken /\ s.alive /\ s.wfail # s.inc /\ s.faults < MaxFaults /\ s.cs = "connected" /\ s.cl = "idle" /\ s.inc \notin s.wclosed
    /\ s' = [s EXCEPT !.wfail = s.inc, !.faults = @ + 1, !.outages = @ + 1]
    /\ Say([a |-> "wfail"])

\* keep-alive (or the reader) notices the dead link: the wire connection closes itself
WireSelfClose ==
    /\ (~s.alive \/ s.wfail = s.inc) /\ s.inc \notin s.wclosed /\ s.main = "run"
    /\ s' = [s EXCEPT !.wclosed = @ \cup {s.inc}]
    /\ Quiet

\* ---------------------------------------------------------------- run loop
\* run() returns an error: wire connection closed (observeConnClose) or status Reconnecting seen; OnDisconnected fires
RunExitsErr ==
    /\ s.main = "run" /\ s.cs # "closed" /\ (s.inc \in s.wclosed \/ s.cs = "reconnecting")
    /\ s' = [s EXCEPT !.main = "recLock", !.disc = @ + 1]
    /\ Quiet
\* run() returns nil because the status is Closed: the loop ends; OnDisconnected fires once more
RunExitsClosed ==
    /\ s.main = "run" /\ s.cs = "closed"
    /\ s' = [s EXCEPT !.main = IF HandlerCloses THEN "hclose" ELSE "dead", !.disc = @ + 1]
    /\ Quiet
\* the handler's own Close on the closed connection: returns at once as coded; with CloseJoinsMain it waits for main = "dead" - for itself
HandlerClose ==
    /\ s.main = "hclose" /\ ~CloseJoinsMain
    /\ s' = [s EXCEPT !.main = "dead"]
    /\ Quiet
\* reconnect(): take wireConnMu, CompareAndSwapNot(Closed, Reconnecting), close the old wire connection
RecLock ==
    /\ s.main = "recLock" /\ s.mu = "none"
    /\ IF s.cs = "closed"
       THEN s' = [s EXCEPT !.main = "dead"]
       ELSE s' = [SetCs(s, "reconnecting") EXCEPT !.mu = "main", !.main = "recDial", !.wclosed = @ \cup {s.inc}]
    /\ Quiet
\* one attempt of retry.Do: Token(), Dial, handshake
DialOk ==
    /\ s.main = "recDial"
    /\ s' = [s EXCEPT !.tokens = @ + 1, !.dials = @ + 1, !.main = "recSwap", !.dialing = s.inc + 1,
                      !.dialsAfterClose = IF s.closeRet THEN @ + 1 ELSE @]
    /\ Say([a |-> "dial", ok |-> TRUE])
DialFail ==
    /\ s.main = "recDial" /\ s.dialFails < MaxDialFails
    /\ IF s.cs = "closed"      \* retry ends when the status is Closed after a failed attempt
       THEN s' = [s EXCEPT !.tokens = @ + 1, !.dials = @ + 1, !.dialFails = @ + 1, !.main = "dead", !.mu = "none",
                           !.dialsAfterClose = IF s.closeRet THEN @ + 1 ELSE @]
       ELSE s' = [s EXCEPT !.tokens = @ + 1, !.dials = @ + 1, !.dialFails = @ + 1,
                           !.dialsAfterClose = IF s.closeRet THEN @ + 1 ELSE @]
    /\ Say([a |-> "dial", ok |-> FALSE])
\* an attempt whose transport came up and was lost during the connect handshake: the error is the "connection closed" sentinel
DialFailClosedErr ==
    /\ RetryStopsOnClosedErr /\ s.main = "recDial" /\ s.dialFails < MaxDialFails
    /\ s' = [s EXCEPT !.tokens = @ + 1, !.dials = @ + 1, !.dialFails = @ + 1, !.main = "dead", !.mu = "none",
                      !.dialsAfterClose = IF s.closeRet THEN @ + 1 ELSE @]
    /\ Say([a |-> "dial", ok |-> FALSE])
\* c.wireConn = res; CompareAndSwap(Reconnecting, Connected) else panic (as coded)
RecSwap ==
    /\ s.main = "recSwap"
    /\ IF s.cs = "reconnecting"
       THEN s' = [SetCs(s, "connected") EXCEPT !.inc = s.dialing, !.alive = TRUE, !.mu = "none", !.main = "notify"]
       ELSE IF SwapGuarded
            THEN s' = [s EXCEPT !.wclosed = @ \cup {s.dialing}, !.mu = "none", !.main = "dead"]   \* close the new connection, report closed
            ELSE s' = [s EXCEPT !.panic = TRUE, !.main = "dead"]
    /\ Quiet
Notify ==
    /\ s.main = "notify"
    /\ s' = [s EXCEPT !.recon = @ + 1, !.main = "run"]
    /\ Quiet

\* ---------------------------------------------------------------- stream watcher / supervisor
Fires(x, y) == IF WatcherByEpoch THEN x.epoch # x.st[y].ep ELSE x.cs = "reconnecting"
\* a woken (or freshly started) watcher re-evaluates its predicate
WatchCheck(y) ==
    /\ s.st[y].pc = "watch" /\ s.st[y].w = "woken"
    /\ IF s.cs = "closed" THEN s' = [s EXCEPT !.st[y].pc = "dead", !.st[y].w = "none"]
       ELSE IF Fires(s, y) THEN s' = [s EXCEPT !.st[y].pc = "waitConn", !.st[y].w = "woken"]
       ELSE s' = [s EXCEPT !.st[y].w = "parked"]
    /\ Quiet
\* supervisor: c.state.WaitUntil(Connected) (condition variable again)
WaitConnCheck(y) ==
    /\ s.st[y].pc = "waitConn" /\ s.st[y].w = "woken"
    /\ IF s.cs = "closed" THEN (IF SupervisorOrClosed THEN s' = [s EXCEPT !.st[y].pc = "dead", !.st[y].w = "none"]
                                ELSE s' = [s EXCEPT !.st[y].w = "parked"])
       ELSE IF s.cs = "connected" THEN s' = [s EXCEPT !.st[y].pc = "resume", !.st[y].w = "none", !.st[y].bound = s.inc, !.st[y].ep = s.epoch]
       ELSE s' = [s EXCEPT !.st[y].w = "parked"]
    /\ Quiet
\* resume request on the incarnation the stream bound to
ResumeOk(y) ==
    /\ s.st[y].pc = "resume" /\ s.st[y].bound = s.inc /\ s.alive /\ s.st[y].bound \notin s.wclosed
    /\ s' = [s EXCEPT !.st[y].pc = "watch", !.st[y].w = "woken", !.st[y].resumed = @ + 1, !.st[y].resumeOn = @ \cup {s.inc},
                      !.st[y].ep = IF EpochBeforeResume THEN @ ELSE s.epoch,
                      !.sentAfterDisconnect = @ \/ s.inc \in s.disconnectSent]
    /\ Say([a |-> "resumeResp", st |-> y, ok |-> TRUE])
ResumeNg(y) ==
    /\ s.st[y].pc = "resume" /\ s.st[y].bound = s.inc /\ s.alive /\ s.st[y].bound \notin s.wclosed /\ s.resumeNg < MaxResumeNg
    /\ s' = [s EXCEPT !.st[y].pc = "dead", !.st[y].closedErr = TRUE, !.st[y].resumeOn = @ \cup {s.inc}, !.resumeNg = @ + 1]
    /\ Say([a |-> "resumeResp", st |-> y, ok |-> FALSE])
\* the broker still holds the stream for the old connection: "conflict", the client waits and repeats the request
ResumeConflict(y) ==
    /\ s.st[y].pc = "resume" /\ s.st[y].bound = s.inc /\ s.alive /\ s.st[y].bound \notin s.wclosed /\ s.conflicts < MaxConflicts
    /\ s' = IF ConflictFatal
            THEN [s EXCEPT !.st[y].pc = "dead", !.st[y].closedErr = TRUE, !.st[y].conflictClosed = TRUE, !.conflicts = @ + 1]
            ELSE [s EXCEPT !.conflicts = @ + 1, !.st[y].resumeOn = @ \cup {s.inc}]
    /\ Say([a |-> "resumeResp", st |-> y, ok |-> FALSE, conflict |-> TRUE])
\* the resume exchange is cut (or the stream bound to an incarnation that is already gone): stream closed with an error
ResumeCut(y) ==
    /\ s.st[y].pc = "resume" /\ (s.st[y].bound # s.inc \/ ~s.alive \/ s.st[y].bound \in s.wclosed \/ s.wfail = s.inc)
    /\ s' = [s EXCEPT !.st[y].pc = "dead", !.st[y].closedErr = TRUE]
    /\ Quiet

\* ---------------------------------------------------------------- API caller inside send()
ApiCall(p) ==
    /\ s.ca[p].pc = "idle" /\ s.ca[p].res = ""
    /\ s' = [s EXCEPT !.ca[p].pc = "waitConn", !.ca[p].w = "woken"]
    /\ Say([a |-> "api", g |-> p])
\* WaitUntilOrClosed(Connected): the closed-hook is consulted before every wait
SendWaitCheck(p) ==
    /\ s.ca[p].pc = "waitConn" /\ s.ca[p].w = "woken"
    /\ IF s.cs = "connected" THEN s' = [s EXCEPT !.ca[p].pc = "wantMu", !.ca[p].w = "none", !.ca[p].ep = s.epoch]
       ELSE IF s.cs = "closed" /\ HookCurrent THEN s' = [s EXCEPT !.ca[p].pc = "done", !.ca[p].w = "none", !.ca[p].res = "connClosed"]
       ELSE s' = [s EXCEPT !.ca[p].w = "parked"]          \* as coded: hooker(target) never reports Closed: waits for the caller's context
    /\ Quiet
\* the caller's context ends while parked
SendCtxDone(p) ==
    /\ s.ca[p].pc = "waitConn" /\ s.ca[p].w = "parked" /\ s.cs = "closed"
    /\ s' = [s EXCEPT !.ca[p].pc = "done", !.ca[p].w = "none", !.ca[p].res = "ctx"]
    /\ Quiet
SendLock(p) ==
    /\ s.ca[p].pc = "wantMu" /\ s.mu = "none"
    /\ s' = [s EXCEPT !.mu = p, !.ca[p].pc = "inCall"]
    /\ Quiet
\* the request is written on c.wireConn and answered
SendOk(p) ==
    /\ s.ca[p].pc = "inCall" /\ s.alive /\ s.inc \notin s.wclosed /\ s.wfail # s.inc
    /\ s' = [s EXCEPT !.mu = "none", !.ca[p].pc = "done", !.ca[p].res = "ok", !.ca[p].sentOn = @ \cup {s.inc},
                      !.sentAfterDisconnect = @ \/ s.inc \in s.disconnectSent]
    /\ Say([a |-> "answer", g |-> p])
\* the wire connection is (or becomes) closed: ErrConnectionClosed
SendFailsClosed(p) ==
    /\ s.ca[p].pc = "inCall" /\ s.inc \in s.wclosed
    /\ s' = [s EXCEPT !.mu = "none", !.ca[p].pc = "gotErr"]
    /\ Quiet
\* the write fails on the dead link before keep-alive noticed: also ErrConnectionClosed (transport closed)
SendFailsDead(p) ==
    /\ s.ca[p].pc = "inCall" /\ (~s.alive \/ s.wfail = s.inc) /\ s.inc \notin s.wclosed
    /\ s' = [s EXCEPT !.mu = "none", !.ca[p].pc = "gotErr", !.ca[p].sentOn = @]
    /\ Quiet
\* CompareAndSwapNot(Closed, Reconnecting) and retry -- with whatever the status is NOW (a stale error re-triggers an outage)
SendRetry(p) ==
    /\ s.ca[p].pc = "gotErr"
    /\ IF s.cs = "closed" THEN s' = [s EXCEPT !.ca[p].pc = "done", !.ca[p].res = "connClosed"]
       ELSE IF RetryByEpoch /\ s.epoch # s.ca[p].ep
            THEN s' = [s EXCEPT !.ca[p].pc = "waitConn", !.ca[p].w = "woken"]          \* stale error: just retry
            ELSE s' = [SetCs(s, "reconnecting") EXCEPT !.ca[p].pc = "waitConn", !.ca[p].w = "woken"]
    /\ Quiet

\* ---------------------------------------------------------------- Close
CloseCall ==
    /\ AllowClose /\ s.cl = "idle"
    /\ s' = [SetCs(s, "closed") EXCEPT !.cl = "wantMu"]
    /\ Say([a |-> "close"])
CloseLock ==
    /\ s.cl = "wantMu" /\ s.mu = "none"
    /\ s' = [s EXCEPT !.mu = "close", !.cl = "disc"]
    /\ Quiet
\* SendDisconnect on c.wireConn, then close it
CloseDisc ==
    /\ s.cl = "disc"
    /\ s' = [s EXCEPT !.mu = "none", !.cl = IF CloseJoinsMain THEN "join" ELSE "done", !.closeRet = ~CloseJoinsMain, !.wclosed = @ \cup {s.inc},
                      !.disconnectSent = IF s.alive /\ s.inc \notin s.wclosed THEN @ \cup {s.inc} ELSE @]
    /\ Quiet

\* variant: Close returns only after the main goroutine has ended
CloseJoin ==
    /\ s.cl = "join" /\ s.main = "dead"
    /\ s' = [s EXCEPT !.cl = "done", !.closeRet = TRUE]
    /\ Quiet

Next ==
    \/ HandlerClose \/ CloseJoin \/ DialFailClosedErr
    \/ LinkDown \/ WriteBreaks \/ WireSelfClose \/ RunExitsErr \/ RunExitsClosed \/ RecLock \/ DialOk \/ DialFail \/ RecSwap \/ Notify
    \/ \E y \in Streams : WatchCheck(y) \/ WaitConnCheck(y) \/ ResumeOk(y) \/ ResumeNg(y) \/ ResumeCut(y) \/ ResumeConflict(y)
    \/ \E p \in Callers : ApiCall(p) \/ SendWaitCheck(p) \/ SendCtxDone(p) \/ SendLock(p) \/ SendOk(p) \/ SendFailsClosed(p) \/ SendFailsDead(p) \/ SendRetry(p)
    \/ CloseCall \/ CloseLock \/ CloseDisc

Spec == Init /\ [][Next]_vars

\* ================================================================== properties
\* C05: the token source is asked again on every attempt
TokenPerDial == s.tokens = s.dials
\* C05: never silently detached: when the connection is up again and everything has settled, every live stream is bound
\* to the current incarnation (it resumed there) -- or was reported closed
Settled(x) == /\ x.cs = "connected" /\ x.main = "run" /\ x.alive /\ x.inc \notin x.wclosed /\ x.wfail # x.inc
              /\ \A y \in Streams : x.st[y].pc \in {"watch", "dead"} /\ x.st[y].w # "woken"
              /\ \A p \in Callers : x.ca[p].pc \in {"idle", "done"}
NoStreamDetached == Settled(s) => \A y \in Streams : s.st[y].pc = "dead" \/ s.st[y].bound = s.inc
\* C05: requests interrupted by the outage are sent again after recovery instead of failing with a connection error
CallersSurvive == \A p \in Callers : s.ca[p].res = "connClosed" => s.cs = "closed"
\* C05: notifications once per outage (the Disconnected fired by Close is the connection's closed-notification)
NotificationsOnce == /\ s.recon <= s.outages
                     /\ s.disc <= s.outages + 1
\* C10: Close during a redial must not crash the process
NoPanic == ~s.panic
\* C10: no dial after Close has returned
NoDialAfterClose == s.dialsAfterClose = 0
\* C10: after Close, a call fails promptly with the sentinel: no caller is left parked on a Closed connection
NoCallerParkedWhenClosed == \A p \in Callers : ~(s.cs = "closed" /\ s.ca[p].pc = "waitConn" /\ s.ca[p].w = "parked")
\* C10: no goroutine left behind: no stream supervisor parked forever on a Closed connection
NoSupervisorParkedWhenClosed == \A y \in Streams : ~(s.cs = "closed" /\ s.st[y].pc = "waitConn" /\ s.st[y].w = "parked")
\* C05: the goroutine that re-establishes the connection lives as long as the connection is not Closed
SupervisorAlive == s.main = "dead" => (s.cs = "closed" \/ s.panic)
\* C05: a conflict answer is not a refusal: no stream is closed because of it
ConflictNeverFatal == \A y \in Streams : ~s.st[y].conflictClosed
\* C10: a Close issued from the Disconnected handler returns (and so does the user's Close): nobody waits for the goroutine it runs on
NoSelfJoin == ~(s.main = "hclose" /\ CloseJoinsMain)
\* C10: silence on the wire after Disconnect
SilentAfterDisconnect == ~s.sentAfterDisconnect

Terminal == (Settled(s) /\ s.faults = MaxFaults) \/ s.cl = "done" \/ s.panic
GenPrint == IF Terminal THEN PrintT("SCRIPT " \o ToJson(script)) ELSE TRUE
=============================================================================
