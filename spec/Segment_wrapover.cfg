SPECIFICATION Spec
CONSTANTS
  P = 2
  MsgLens <- LensWrapOver
  Expiry = 1
  MaxTicks = 2
  MaxBad = 1
  MaxSegIdx = 3
  SlotWrap = FALSE
  GenCanon = FALSE
VIEW StView
INVARIANTS ExactOrNothing NothingIfMissing AllSegmentsIn ForgottenAfterExpiry OversizeRefused TableConsistent AllDeliveredIfNoLoss
CHECK_DEADLOCK FALSE
