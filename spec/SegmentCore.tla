---------------------------- MODULE SegmentCore ----------------------------
(* Datagram segmentation / reassembly (internal/segment: SendTo, ReadBuffers).
   Functional style: the component state is one record `st`, every operation is
   Apply(st, op). The same Apply is used by the exhaustive model (Next below),
   by the script generator (cfg *_gen) and by the trace monitor MonC14, which
   replays the operations recorded from the real code and compares the real
   results / table projection with the model after every step (lock-step).

   Abstractions: a message is identified by its index m in MsgLens; its length is
   the real byte length; the payload of datagram (m, idx) is the abstract value
   <<m, idx, paylen>>; the content handed up is the sequence of slot payloads.
   Sequence numbers are abstract (the harness maps m to real uint32 numbers
   around the 2^32 wrap).  Duplicated datagrams are outside the property's
   quantifier and are not generated.                                            *)
EXTENDS Integers, Sequences, FiniteSets, TLC, Json

CONSTANTS P,          \* segment payload size in bytes (1188 in the library)
          Expiry,     \* read-buffer expiry in ticks
          MaxTicks,   \* bound on clock ticks
          MaxBad,     \* bound on malformed datagrams
          MaxSegIdx,  \* 65535 in the library
          SlotWrap,   \* TRUE = the receiver computes the number of slots in the width of the header field: (max + 1) mod (MaxSegIdx + 1),
                      \* as coded at the pinned commit (uint16 arithmetic): a message of MaxSegIdx + 1 segments - which the sender accepts -
                      \* gets no slot at all and is never handed up; FALSE = max + 1 (repaired)
          GenCanon    \* script generation: losses only directly after the send (canonical order)

MsgsOf(st) == 1..Len(st.lens)

\* ---- sender split rule (as coded in SendTo) ----
MaxIdx(len) == IF len <= P THEN 0 ELSE len \div P
Oversize(len) == len > P /\ (len \div P) > MaxSegIdx
PayLen(len, idx) == IF len <= P THEN len
                    ELSE IF idx = MaxIdx(len) THEN len - idx * P ELSE P
Dgrams(st, m) == IF Oversize(st.lens[m]) THEN {}
                 ELSE { <<m, i>> : i \in 0..MaxIdx(st.lens[m]) }
\* what the receiver must hand up for message m: one abstract payload per segment
Content(st, m) == [i \in 1..(MaxIdx(st.lens[m]) + 1) |-> <<m, i - 1, PayLen(st.lens[m], i - 1)>>]

Init0(L) == [lens |-> L, net |-> {}, sent |-> {}, refused |-> {}, table |-> <<>>, tdom |-> {},
          delivered |-> <<>>, lost |-> {}, now |-> 0, nbad |-> 0, last |-> "none"]

Send(st, m) ==
    IF Oversize(st.lens[m])
    THEN [st EXCEPT !.refused = @ \cup {m}, !.sent = @ \cup {m}, !.last = "refused"]
    ELSE [st EXCEPT !.net = @ \cup Dgrams(st, m), !.sent = @ \cup {m}, !.last = "sent"]

\* Receive as coded: create entry on first sighting, refresh expiry, count, fill slot,
\* complete when count = number of slots, then forget the entry.
Deliver(st, d) ==
    LET m == d[1]  idx == d[2]
        isNew == m \notin st.tdom
        ent0 == IF isNew THEN [cnt |-> 0, filled |-> {}, max |-> MaxIdx(st.lens[m]), exp |-> 0]
                ELSE st.table[m]
        ent1 == [ent0 EXCEPT !.cnt = @ + 1, !.filled = @ \cup {idx}, !.exp = st.now + Expiry]
        slots == IF SlotWrap THEN (ent0.max + 1) % (MaxSegIdx + 1) ELSE ent0.max + 1
        fits == idx < slots                   \* add(): an index beyond the slots is ignored (the entry's expiry is refreshed all the same)
        complete == fits /\ ent1.cnt = slots
        net2 == st.net \ {d}
    IN IF ~fits
       THEN [st EXCEPT !.net = net2,
                       !.tdom = @ \cup {m},
                       !.table = [x \in (st.tdom \cup {m}) |-> IF x = m THEN [ent0 EXCEPT !.exp = st.now + Expiry] ELSE st.table[x]],
                       !.last = "partial"]
       ELSE IF complete
       THEN [st EXCEPT !.net = net2,
                       !.tdom = @ \ {m},
                       !.table = [x \in (st.tdom \ {m}) |-> st.table[x]],
                       !.delivered = Append(@, [m |-> m, content |-> [i \in 1..(ent1.max + 1) |->
                                                   IF (i - 1) \in ent1.filled THEN <<m, i - 1, PayLen(st.lens[m], i - 1)>> ELSE <<m, i - 1, -1>>]]),
                       !.last = "complete"]
       ELSE [st EXCEPT !.net = net2,
                       !.tdom = @ \cup {m},
                       !.table = [x \in (st.tdom \cup {m}) |-> IF x = m THEN ent1 ELSE st.table[x]],
                       !.last = "partial"]

Lose(st, d) == [st EXCEPT !.net = @ \ {d}, !.lost = @ \cup {d}, !.last = "lost"]

Tick(st) == [st EXCEPT !.now = @ + 1, !.last = "tick"]

\* RemoveExpired as coded: forget entries with now > exp (strictly after)
Gc(st) == LET keep == { m \in st.tdom : ~(st.now > st.table[m].exp) }
          IN [st EXCEPT !.tdom = keep, !.table = [x \in keep |-> st.table[x]], !.last = "gc"]

\* malformed datagrams must be discarded: state unchanged, nothing handed up  (short = shorter than the header; idxOver = index beyond the
\* count of its own header, unknown sequence number; idxOverInflight = for a message being reassembled: index beyond the count announced so far)
\* (as coded, Receive refreshes the expiry of the entry before the index check: a discarded datagram for a message in flight counts as activity)
Bad(st, kind) ==
    IF kind = "idxOverInflight"
    THEN LET m == CHOOSE x \in st.tdom : \A y \in st.tdom : x <= y
         IN [st EXCEPT !.table[m].exp = st.now + Expiry, !.nbad = @ + 1, !.last = "discarded"]
    ELSE [st EXCEPT !.nbad = @ + 1, !.last = "discarded"]

Apply(st, op) ==
    CASE op.a = "send"    -> Send(st, op.n)
      [] op.a = "deliver" -> Deliver(st, <<op.n, op.seq>>)
      [] op.a = "lose"    -> Lose(st, <<op.n, op.seq>>)
      [] op.a = "tick"    -> Tick(st)
      [] op.a = "gc"      -> Gc(st)
      [] op.a = "bad"     -> Bad(st, op.mode)

EnabledOps(st) ==
    { [a |-> "send", n |-> m] : m \in { x \in MsgsOf(st) : x \notin st.sent /\ \A y \in MsgsOf(st) : y < x => y \in st.sent } }
    \cup { [a |-> "deliver", n |-> d[1], seq |-> d[2]] : d \in st.net }
    \cup (IF GenCanon /\ st.last \notin {"sent", "lost"} THEN {}
          ELSE { [a |-> "lose", n |-> d[1], seq |-> d[2]] : d \in st.net })
    \cup (IF st.now < MaxTicks THEN {[a |-> "tick"]} ELSE {})
    \cup (IF st.last # "gc" /\ st.tdom # {} /\ st.now > 0 THEN {[a |-> "gc"]} ELSE {})
    \cup (IF st.nbad < MaxBad THEN {[a |-> "bad", mode |-> k] : k \in {"short", "idxOver"} \cup (IF st.tdom # {} THEN {"idxOverInflight"} ELSE {})} ELSE {})

\* ------------------------------------------------------------------ properties
\* everything handed up is exactly one sent message, at most once
ExactOrNothingOf(st) ==
    /\ \A i \in 1..Len(st.delivered) : st.delivered[i].content = Content(st, st.delivered[i].m)
    /\ \A i, j \in 1..Len(st.delivered) : st.delivered[i].m = st.delivered[j].m => i = j
\* a message with a lost segment is never handed up
NothingIfMissingOf(st) ==
    \A i \in 1..Len(st.delivered) : \A d \in st.lost : d[1] # st.delivered[i].m
\* a delivered message had every one of its segments delivered (none still in flight)
AllSegmentsInOf(st) ==
    \A i \in 1..Len(st.delivered) : \A d \in st.net : d[1] # st.delivered[i].m
\* incomplete messages are forgotten after expiry: right after gc nothing expired remains
ForgottenAfterExpiryOf(st) ==
    st.last = "gc" => \A m \in st.tdom : st.table[m].exp >= st.now
\* oversize refused, never any datagram of it
OversizeRefusedOf(st) == \A m \in st.refused : \A d \in st.net : d[1] # m
\* table entries are consistent with what was delivered
TableConsistentOf(st) ==
    \A m \in st.tdom : /\ st.table[m].cnt = Cardinality(st.table[m].filled)
                       /\ st.table[m].cnt <= st.table[m].max
TerminalOf(st) == st.net = {} /\ st.sent = MsgsOf(st)
\* when everything sent has been delivered (nothing lost, no expiry), every
\* non-refused message was handed up
AllDeliveredIfNoLossOf(st) ==
    (TerminalOf(st) /\ st.lost = {} /\ st.now = 0) =>
        \A m \in MsgsOf(st) \ st.refused : \E i \in 1..Len(st.delivered) : st.delivered[i].m = m


AllInvOf(st) == /\ ExactOrNothingOf(st) /\ NothingIfMissingOf(st) /\ AllSegmentsInOf(st) /\ ForgottenAfterExpiryOf(st)
                /\ OversizeRefusedOf(st) /\ TableConsistentOf(st)
=============================================================================
