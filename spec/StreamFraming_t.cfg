SPECIFICATION Spec
CONSTANTS
  SWriters = 4
  SPer = 2
  SendLock = TRUE
INVARIANTS FramingIntact StreamOrder
CHECK_DEADLOCK FALSE
