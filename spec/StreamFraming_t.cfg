SPECIFICATION Spec
CONSTANTS
  SWriters = 3
  SPer = 2
  DWriters = 1
  DPer = 2
  SharedEncoder = FALSE
  SendLock = TRUE
INVARIANTS FramingIntact StreamOrder NoCorruptMessage
CHECK_DEADLOCK FALSE
