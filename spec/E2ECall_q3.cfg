\* quick: one reconnect between call and ack, one context expiry, Close at any moment
SPECIFICATION Spec
CONSTANTS
  Callers = {P1, P2}
  CallKinds = {"call", "callWait"}
  MaxCallsPer = 1
  CallReceivers = {}
  ReplyReceivers = {"RR"}
  MaxRecv = 1
  Cap = 1
  MaxAcks = 2
  MaxDupAcks = 0
  MaxNegAcks = 1
  MaxUnkAcks = 0
  MaxReplies = 1
  MaxDupReplies = 0
  MaxUnkReplies = 0
  MaxInCalls = 0
  MaxFaults = 1
  MaxExpire = 1
  CloseAnytime = TRUE
  FreshIds = TRUE
  DeleteWaiter = TRUE
VIEW View
SYMMETRY Sym
ACTION_CONSTRAINT EagerLocal
INVARIANTS CallIdsFresh AckToOwnerOnly ReplyToOwnerOnly InboxOnceInOrder NegativeAckOnlyThatCaller DeliverNonBlocking
CHECK_DEADLOCK FALSE
