------------------------------ MODULE MonC05 ------------------------------
(* Property monitor for C05: a lost transport is survived -- reconnect with a fresh token on every attempt, every
   open stream resumed under its original id (downstreams under their original alias) and working afterwards, API
   requests around the outage re-sent after recovery, notifications once per outage, a refused / cut resume reported
   as closed for that stream only, no stream silently detached.
   Outage = BLinkDown cause=script (or the first failing client-side write of a connection) while Close has not been called. Judged at the end of the scenario (Quiesced). *)
EXTENDS MonCommon

MonInit == [ tokens |-> 0, dials |-> 0, cuts |-> <<>>, accepts |-> <<>>, connects |-> <<>>, established |-> {}, disc |-> 0, recon |-> 0, lastReconI |-> 0, hung |-> 0,
             streams |-> <<>>,      \* [sid, kind ("up"|"down"), obj, alias, openI, closeCallI, closedErr, streamClosedErr, resumed]
             resumeReqs |-> <<>>,   \* [sid, c, alias, i, kind]
             resumeResps |-> <<>>,  \* [sid, c, code]
             calls |-> <<>>,        \* API requests through send(): [op, tag, callI, retI, err]
             metaReqs |-> <<>>,     \* [tag, c]
             probes |-> <<>>,       \* probe results: [what, ok]
             chunks |-> <<>>,       \* [sid, c, toks]
             reads |-> <<>>,        \* [sid, seq, ok]
             closeConnI |-> 0, quiesced |-> FALSE, settleI |-> 0, watchdog |-> 0, wrongSidResume |-> 0 ]
MonReset(e) == MonInit

UpdStream(m, sid, F(_)) == [m EXCEPT !.streams = [k \in 1..Len(m.streams) |-> IF m.streams[k].sid = sid THEN F(m.streams[k]) ELSE m.streams[k]]]
Toks(gs) == UNION { { gs[k].pts[j][1] : j \in 1..Len(gs[k].pts) } : k \in 1..Len(gs) }

MonStep(m, e) ==
    CASE e.ev = "Token" -> [m EXCEPT !.tokens = @ + 1]
      [] e.ev = "Dial" -> [m EXCEPT !.dials = @ + 1]
      [] e.ev = "BAccept" -> [m EXCEPT !.accepts = Append(@, [c |-> e.c, i |-> e.i])]
      \* an outage is the loss of an ESTABLISHED connection; a transport that is lost during the connect handshake of a redial attempt is a
      \* failed attempt of the outage that is already going on
      \* (established = the client itself reported the connection: Connect returned / the Reconnected notification; the incarnation is the
      \* latest one the broker accepted)
      [] e.ev = "ApiRet" /\ e.op = "Connect" /\ e.err = "" -> [m EXCEPT !.established = @ \cup {Max0({ a.c : a \in RangeS(m.accepts) })}]
      [] e.ev = "BLinkDown" /\ e.cause = "script" -> IF (\E x \in RangeS(m.cuts) : x.c = e.c) \/ e.c \notin m.established THEN m     \* (already broken: one outage per connection)
                                                     ELSE [m EXCEPT !.cuts = Append(@, [c |-> e.c, i |-> e.i])]
      \* a write error reported by the transport while its read direction still works is an outage of that connection as well
      [] e.ev = "Fault" /\ e.do \in {"failWrite", "failWriteIO"} -> IF (\E x \in RangeS(m.cuts) : x.c = e.c) \/ e.c \notin m.established THEN m
                                                 ELSE [m EXCEPT !.cuts = Append(@, [c |-> e.c, i |-> e.i])]
      [] e.ev = "BRecvReq" /\ e.kind = "ConnectRequest" -> [m EXCEPT !.connects = Append(@, [c |-> e.c, token |-> e.token])]
      [] e.ev = "Disconnected" -> IF m.closeConnI = 0 THEN [m EXCEPT !.disc = @ + 1] ELSE m
      [] e.ev = "Reconnected" -> [m EXCEPT !.recon = @ + 1, !.lastReconI = e.i, !.established = @ \cup {Max0({ a.c : a \in RangeS(m.accepts) })}]
      [] e.ev = "Watchdog" -> [m EXCEPT !.hung = @ + 1]        \* an API call that had not returned when the harness's watchdog fired (all calls carry contexts well below it)
      [] e.ev = "BRecvReq" /\ e.kind = "DownstreamOpenRequest" -> m
      [] e.ev = "ApiRet" /\ e.op \in {"OpenUpstream", "OpenDownstream"} /\ e.err = "" ->
            [m EXCEPT !.streams = Append(@, [sid |-> e.sid, kind |-> IF e.op = "OpenUpstream" THEN "up" ELSE "down", openI |-> e.i,
                                              closeCallI |-> 0, closedErr |-> FALSE, streamClosedErr |-> FALSE, resumed |-> 0])]
      [] e.ev = "ApiRet" /\ e.op \in {"OpenUpstream", "OpenDownstream"} /\ e.err # "" ->
            [m EXCEPT !.calls = Append(@, [op |-> e.op, tag |-> 0, callI |-> e.ci, retI |-> e.i, err |-> e.err])]
      [] e.ev = "ApiCall" /\ e.op \in {"CloseUp", "CloseDown"} -> UpdStream(m, e.sid, LAMBDA x : [x EXCEPT !.closeCallI = IF @ = 0 THEN e.i ELSE @])
      [] e.ev = "ApiRet" /\ e.op \in {"Write", "Flush", "Read", "CloseUp", "CloseDown"} /\ e.err = "streamClosed" ->
            UpdStream(m, e.sid, LAMBDA x : [x EXCEPT !.streamClosedErr = TRUE])
      [] e.ev \in {"UpClosed", "DownClosed"} -> IF e.err # "" THEN UpdStream(m, e.sid, LAMBDA x : [x EXCEPT !.closedErr = TRUE]) ELSE m
      [] e.ev \in {"UpResumed", "DownResumed"} -> UpdStream(m, e.sid, LAMBDA x : [x EXCEPT !.resumed = @ + 1])
      [] e.ev = "BRecvReq" /\ e.kind \in {"UpstreamResumeRequest", "DownstreamResumeRequest"} ->
            IF e.sid = "?" THEN [m EXCEPT !.wrongSidResume = @ + 1]
            ELSE [m EXCEPT !.resumeReqs = Append(@, [sid |-> e.sid, c |-> e.c, alias |-> e.alias, i |-> e.i, kind |-> e.kind])]
      [] e.ev = "BSendResp" /\ e.kind \in {"UpstreamResumeRequest", "DownstreamResumeRequest"} ->
            [m EXCEPT !.resumeResps = Append(@, [sid |-> e.sid, c |-> e.c, code |-> e.code])]
      [] e.ev = "ApiRet" /\ e.op = "SendMeta" -> [m EXCEPT !.calls = Append(@, [op |-> e.op, tag |-> e.tag, callI |-> e.ci, retI |-> e.i, err |-> e.err])]
      [] e.ev = "BRecvReq" /\ e.kind = "UpstreamMetadata" -> [m EXCEPT !.metaReqs = Append(@, [tag |-> e.tag, c |-> e.c])]
      [] e.ev = "BRecvChunk" -> [m EXCEPT !.chunks = Append(@, [sid |-> e.sid, c |-> e.c, toks |-> Toks(e.groups), i |-> e.i])]
      [] e.ev = "ApiRet" /\ e.op \in {"Write", "Flush"} /\ m.settleI > 0 -> [m EXCEPT !.probes = Append(@, [what |-> e.op, sid |-> e.sid, ok |-> e.err = ""])]
      [] e.ev = "ApiRet" /\ e.op = "Read" /\ m.settleI > 0 ->
            [m EXCEPT !.probes = Append(@, [what |-> e.op, sid |-> e.sid, ok |-> e.err = ""]), !.reads = Append(@, [sid |-> e.sid, seq |-> e.seq, ok |-> e.err = "", i |-> e.i])]
      [] e.ev = "ApiCall" /\ e.op = "CloseConn" -> [m EXCEPT !.closeConnI = IF @ = 0 THEN e.i ELSE @]
      [] e.ev = "Mark" /\ e.what = "settle" -> [m EXCEPT !.settleI = e.i]
      [] e.ev = "Watchdog" -> [m EXCEPT !.watchdog = @ + 1]
      [] e.ev = "Quiesced" -> [m EXCEPT !.quiesced = TRUE]
      [] OTHER -> m

Outages(m) == SelectSeq(m.cuts, LAMBDA x : m.closeConnI = 0 \/ x.i < m.closeConnI)
NOut(m) == Len(Outages(m))
LastInc(m) == Max0({ a.c : a \in RangeS(m.accepts) })
Recovered(m) == NOut(m) > 0 /\ m.recon >= NOut(m) /\ LastInc(m) > Max0({ x.c : x \in RangeS(Outages(m)) })
\* streams that were open (opened, Close not yet called) when the last outage began
LastCutI(m) == Max0({ x.i : x \in RangeS(Outages(m)) })
\* (a stream the application itself closes while the connection is still down is no longer "open": what becomes of it is C10's business)
OpenAtLastCut(m) == { x \in RangeS(m.streams) : x.openI < LastCutI(m) /\ (x.closeCallI = 0 \/ x.closeCallI > Max0({LastCutI(m), m.lastReconI})) }
ReportedClosed(x) == x.closedErr \/ x.streamClosedErr
ResumedOnLast(m, x) == \E r \in RangeS(m.resumeReqs) : r.sid = x.sid /\ r.c = LastInc(m)
ResumeRefused(m, x) == \E r \in RangeS(m.resumeResps) : r.sid = x.sid /\ r.code # 1 /\ r.code # 18
                       /\ ~\E r2 \in RangeS(m.resumeResps) : r2.sid = x.sid /\ r2.c = r.c /\ r2.code = 1

\* ---- clauses
TokenNotFresh(m) == m.tokens # m.dials \/ ~IsDistinct([k \in 1..Len(m.connects) |-> m.connects[k].token])
NoRecovery(m) == NOut(m) > 0 /\ ~Recovered(m)
StreamDetached(m) == Recovered(m) /\ \E x \in OpenAtLastCut(m) : ~ReportedClosed(x) /\ ~ResumedOnLast(m, x)
ResumeForeignId(m) == m.wrongSidResume > 0
RefusedNotClosed(m) == Recovered(m) /\ \E x \in OpenAtLastCut(m) : ResumeRefused(m, x) /\ ~ReportedClosed(x)
OtherStreamClosed(m) == Recovered(m) /\ \E x \in OpenAtLastCut(m) : ReportedClosed(x) /\ ~ResumeRefused(m, x) /\ ResumedOnLast(m, x)
                        /\ (\E r \in RangeS(m.resumeResps) : r.sid = x.sid /\ r.c = LastInc(m) /\ r.code = 1)
\* "conflict" (18) is not a refusal: the broker still holds the stream for the old connection and asks the client to try again (the retry
\* of the resume request is unbounded). A stream whose only answers were conflicts must not be reported closed.
ConflictFatal(m) == Recovered(m) /\ \E x \in OpenAtLastCut(m) :
                        /\ ReportedClosed(x) /\ ~ResumeRefused(m, x)
                        /\ \E r \in RangeS(m.resumeResps) : r.sid = x.sid /\ r.c = LastInc(m) /\ r.code = 18
                        /\ \A r \in RangeS(m.resumeResps) : (r.sid = x.sid /\ r.c = LastInc(m)) => r.code = 18
\* requests issued around the outage must not fail with a connection error nor vanish
CallFailed(m) == \E c \in RangeS(m.calls) : c.err # "" /\ (m.closeConnI = 0 \/ c.callI < m.closeConnI)
CallHung(m) == m.hung > 0
CallDropped(m) == \E c \in RangeS(m.calls) : c.op = "SendMeta" /\ c.err = "" /\ ~\E q \in RangeS(m.metaReqs) : q.tag = c.tag
\* notifications once per outage
NotifyWrong(m) == Recovered(m) /\ (m.disc # NOut(m) \/ m.recon # NOut(m))
ResumedNotifyWrong(m) == \/ (Recovered(m) /\ \E y \in RangeS(m.streams) : y.resumed > NOut(m))
                         \/ (Recovered(m) /\ \E x \in OpenAtLastCut(m) : ~ReportedClosed(x) /\ ResumedOnLast(m, x) /\ x.resumed = 0)
\* streams keep working afterwards: probes issued after the settle mark succeed and arrive on the last incarnation
ProbeFailed(m) == Recovered(m) /\ m.settleI > 0 /\
                  (\/ \E p \in RangeS(m.probes) : ~p.ok /\ ~(\E x \in RangeS(m.streams) : x.sid = p.sid /\ ReportedClosed(x))
                   \/ \E x \in OpenAtLastCut(m) : x.kind = "up" /\ ~ReportedClosed(x) /\ (\E p \in RangeS(m.probes) : p.sid = x.sid /\ p.what = "Flush" /\ p.ok)
                          /\ ~\E ch \in RangeS(m.chunks) : ch.sid = x.sid /\ ch.c = LastInc(m) /\ ch.i > m.settleI)

Clause(name, b) == IF b THEN {name} ELSE {}
MonVerdict(m) ==
    IF ~m.quiesced THEN Clause("TokenNotFresh", TokenNotFresh(m)) \cup Clause("ResumeForeignId", ResumeForeignId(m))
    ELSE Clause("TokenNotFresh", TokenNotFresh(m)) \cup Clause("NoRecovery", NoRecovery(m)) \cup Clause("StreamDetached", StreamDetached(m))
         \cup Clause("ResumeForeignId", ResumeForeignId(m)) \cup Clause("RefusedNotClosed", RefusedNotClosed(m))
         \cup Clause("OtherStreamClosed", OtherStreamClosed(m)) \cup Clause("ConflictFatal", ConflictFatal(m)) \cup Clause("CallFailed", CallFailed(m)) \cup Clause("CallDropped", CallDropped(m)) \cup Clause("CallHung", CallHung(m))
         \cup Clause("NotifyWrong", NotifyWrong(m)) \cup Clause("ResumedNotifyWrong", ResumedNotifyWrong(m)) \cup Clause("ProbeFailed", ProbeFailed(m))
MonStats(m) == [ outages |-> NOut(m), recovered |-> IF Recovered(m) THEN 1 ELSE 0, streams |-> Len(m.streams), resumeReqs |-> Len(m.resumeReqs),
                 calls |-> Len(m.calls), probes |-> Len(m.probes), refused |-> Cardinality({ x \in RangeS(m.streams) : ResumeRefused(m, x) }),
                 dials |-> m.dials, watchdog |-> m.watchdog ]
=============================================================================
