\* quick: acks and replies for ids nobody uses, duplicated reply, ReceiveReplyCall with a full inbox (Cap = 1)
SPECIFICATION Spec
CONSTANTS
  Callers = {P1, P2}
  CallKinds = {"callWait"}
  MaxCallsPer = 1
  CallReceivers = {}
  ReplyReceivers = {"RR"}
  MaxRecv = 2
  Cap = 1
  MaxAcks = 2
  MaxDupAcks = 0
  MaxNegAcks = 0
  MaxUnkAcks = 1
  MaxReplies = 2
  MaxDupReplies = 1
  MaxUnkReplies = 1
  MaxInCalls = 0
  MaxFaults = 0
  MaxExpire = 0
  CloseAnytime = FALSE
  FreshIds = TRUE
  DeleteWaiter = TRUE
VIEW View
SYMMETRY Sym
ACTION_CONSTRAINT EagerLocal
INVARIANTS CallIdsFresh AckToOwnerOnly ReplyToOwnerOnly InboxOnceInOrder NegativeAckOnlyThatCaller DeliverNonBlocking
CHECK_DEADLOCK FALSE
