\* sensitivity (expected: NegativeAckOnlyThatCaller violated): constant call id
SPECIFICATION Spec
CONSTANTS
  Callers = {P1, P2}
  CallKinds = {"call", "callWait"}
  MaxCallsPer = 1
  CallReceivers = {}
  ReplyReceivers = {}
  MaxRecv = 1
  Cap = 1
  MaxAcks = 2
  MaxDupAcks = 0
  MaxNegAcks = 0
  MaxUnkAcks = 0
  MaxReplies = 1
  MaxDupReplies = 0
  MaxUnkReplies = 0
  MaxInCalls = 0
  MaxFaults = 0
  MaxExpire = 0
  CloseAnytime = FALSE
  FreshIds = FALSE
  DeleteWaiter = TRUE
VIEW View
SYMMETRY Sym

INVARIANTS AckToOwnerOnly ReplyToOwnerOnly InboxOnceInOrder NegativeAckOnlyThatCaller DeliverNonBlocking
CHECK_DEADLOCK FALSE
