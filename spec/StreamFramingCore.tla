---------------------------- MODULE StreamFramingCore ----------------------------
(* C13 -- length-prefixed framing of messages on one QUIC / WebTransport send stream
   (transport/quic/transport.go, transport/webtransport/transport.go: Write -> writeTo).
   Write = sendMu.Lock ; stream.Write(4-byte length) ; stream.Write(payload) ; Unlock.
   The stream is a byte pipe: chunks of concurrent writers land in call order.  The reader
   (decodeFrom) takes a prefix, then exactly that many payload bytes.  Abstraction: a chunk is
   <<g, q, "h">> (length prefix of message q of writer g) or <<g, q, "p">> (its payload); the
   reader pairs chunk 2i-1 with chunk 2i, a message is intact iff both belong to the same
   message.
   Compression is per message: every Write / WriteUnreliable compresses with an encoder of its own (encb .. ence). Reliable writers
   encode inside sendMu; the datagram writers (WriteUnreliable, AsUnreliable().Write) take no lock at all. SharedEncoder = TRUE is the
   variant with ONE encoder per transport that is reset for every message: serialised for the reliable writers, but a datagram writer
   resets it in the middle of a reliable message - both outputs are garbage (NoCorruptMessage violated; without datagram writers the
   variant is indistinguishable, which is why it looks safe).                                                                    *)
EXTENDS Integers, Sequences, FiniteSets, TLC, Json

CONSTANTS SWriters,   \* number of writers
          SPer,       \* messages per writer
          SendLock,   \* TRUE: as coded (sendMu); FALSE: seeded model fault
          DWriters,   \* number of datagram writers (no lock), DPer messages each
          DPer,
          SharedEncoder   \* FALSE: as coded (a fresh compressor per message); TRUE: one compressor per transport, reset per message

SW == 1..SWriters
DW == (SWriters + 1)..(SWriters + DWriters)
SInit0 == [stream |-> <<>>, pc |-> [g \in SW \cup DW |-> "idle"], nq |-> [g \in SW \cup DW |-> 0], holder |-> 0,
           dsent |-> <<>>,      \* datagrams handed to the connection: <<g, q>>
           encBusy |-> 0,       \* writer currently between reset and close of the shared encoder
           hit |-> {},          \* writers whose encoding in progress was disturbed
           bad |-> {}]          \* messages <<g, q>> whose compressed form is garbage

\* begin / end of compressing the writer's current message
EncB(st, g) == IF ~SharedEncoder THEN st
               ELSE [st EXCEPT !.hit = IF st.encBusy # 0 THEN @ \cup {st.encBusy, g} ELSE @, !.encBusy = g]
EncE(st, g) == IF ~SharedEncoder THEN st
               ELSE [st EXCEPT !.bad = IF g \in st.hit THEN @ \cup {<<g, st.nq[g]>>} ELSE @, !.hit = @ \ {g},
                               !.encBusy = IF @ = g THEN 0 ELSE @]

SApply(st, op) ==
    CASE op.a = "lock"   -> [st EXCEPT !.pc[op.tag] = "locked", !.nq[op.tag] = @ + 1, !.holder = IF SendLock THEN op.tag ELSE @]
      [] op.a = "encb"   -> LET s1 == IF op.tag \in DW THEN [st EXCEPT !.nq[op.tag] = @ + 1] ELSE st
                            IN [EncB(s1, op.tag) EXCEPT !.pc[op.tag] = "encb"]
      [] op.a = "ence"   -> [EncE(st, op.tag) EXCEPT !.pc[op.tag] = "enc"]
      [] op.a = "dsend"  -> [st EXCEPT !.pc[op.tag] = "idle", !.dsent = Append(@, <<op.tag, st.nq[op.tag]>>)]
      [] op.a = "hdr"    -> [st EXCEPT !.pc[op.tag] = "hdr", !.stream = Append(@, <<op.tag, st.nq[op.tag], "h">>)]
      [] op.a = "pay"    -> [st EXCEPT !.pc[op.tag] = "pay", !.stream = Append(@, <<op.tag, st.nq[op.tag], "p">>)]
      [] op.a = "unlock" -> [st EXCEPT !.pc[op.tag] = "idle", !.holder = IF @ = op.tag THEN 0 ELSE @]

SEnabledOps(st) ==
    { [a |-> "lock", tag |-> g] : g \in {x \in SW : st.pc[x] = "idle" /\ st.nq[x] < SPer /\ (SendLock => st.holder = 0)} }
    \cup { [a |-> "encb", tag |-> g] : g \in {x \in SW : st.pc[x] = "locked"} \cup {x \in DW : st.pc[x] = "idle" /\ st.nq[x] < DPer} }
    \cup { [a |-> "ence", tag |-> g] : g \in {x \in SW \cup DW : st.pc[x] = "encb"} }
    \cup { [a |-> "dsend", tag |-> g] : g \in {x \in DW : st.pc[x] = "enc"} }
    \cup { [a |-> "hdr", tag |-> g] : g \in {x \in SW : st.pc[x] = "enc"} }
    \cup { [a |-> "pay", tag |-> g] : g \in {x \in SW : st.pc[x] = "hdr"} }
    \cup { [a |-> "unlock", tag |-> g] : g \in {x \in SW : st.pc[x] = "pay"} }

\* what the peer's decodeFrom parses: pairs of chunks
Parsed(st) == [i \in 1..(Len(st.stream) \div 2) |-> <<st.stream[2 * i - 1], st.stream[2 * i]>>]
\* every parsed message is one written message: prefix and payload of the same message
FramingIntactOf(st) ==
    /\ \A i \in 1..Len(Parsed(st)) : LET h == Parsed(st)[i][1]  p == Parsed(st)[i][2]
                                      IN h[3] = "h" /\ p[3] = "p" /\ h[1] = p[1] /\ h[2] = p[2]
    /\ (Len(st.stream) % 2 = 1 => st.stream[Len(st.stream)][3] = "h")
\* no message (stream or datagram) is handed to the connection in a corrupted compressed form
NoCorruptMessageOf(st) == st.bad = {}
\* per-writer order and no duplicates
StreamOrderOf(st) ==
    \A i, j \in 1..Len(st.stream) :
        (i < j /\ st.stream[i][1] = st.stream[j][1] /\ st.stream[i][3] = "h" /\ st.stream[j][3] = "h") => st.stream[i][2] < st.stream[j][2]
=============================================================================
