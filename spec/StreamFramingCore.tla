---------------------------- MODULE StreamFramingCore ----------------------------
(* C13 -- length-prefixed framing of messages on one QUIC / WebTransport send stream
   (transport/quic/transport.go, transport/webtransport/transport.go: Write -> writeTo).
   Write = sendMu.Lock ; stream.Write(4-byte length) ; stream.Write(payload) ; Unlock.
   The stream is a byte pipe: chunks of concurrent writers land in call order.  The reader
   (decodeFrom) takes a prefix, then exactly that many payload bytes.  Abstraction: a chunk is
   <<g, q, "h">> (length prefix of message q of writer g) or <<g, q, "p">> (its payload); the
   reader pairs chunk 2i-1 with chunk 2i, a message is intact iff both belong to the same
   message.  Compression is per message and stateless here, it is not part of this model. *)
EXTENDS Integers, Sequences, FiniteSets, TLC, Json

CONSTANTS SWriters,   \* number of writers
          SPer,       \* messages per writer
          SendLock    \* TRUE: as coded (sendMu); FALSE: seeded model fault

SW == 1..SWriters
SInit0 == [stream |-> <<>>, pc |-> [g \in SW |-> "idle"], nq |-> [g \in SW |-> 0], holder |-> 0]

SApply(st, op) ==
    CASE op.a = "lock"   -> [st EXCEPT !.pc[op.tag] = "locked", !.nq[op.tag] = @ + 1, !.holder = IF SendLock THEN op.tag ELSE @]
      [] op.a = "hdr"    -> [st EXCEPT !.pc[op.tag] = "hdr", !.stream = Append(@, <<op.tag, st.nq[op.tag], "h">>)]
      [] op.a = "pay"    -> [st EXCEPT !.pc[op.tag] = "pay", !.stream = Append(@, <<op.tag, st.nq[op.tag], "p">>)]
      [] op.a = "unlock" -> [st EXCEPT !.pc[op.tag] = "idle", !.holder = IF @ = op.tag THEN 0 ELSE @]

SEnabledOps(st) ==
    { [a |-> "lock", tag |-> g] : g \in {x \in SW : st.pc[x] = "idle" /\ st.nq[x] < SPer /\ (SendLock => st.holder = 0)} }
    \cup { [a |-> "hdr", tag |-> g] : g \in {x \in SW : st.pc[x] = "locked"} }
    \cup { [a |-> "pay", tag |-> g] : g \in {x \in SW : st.pc[x] = "hdr"} }
    \cup { [a |-> "unlock", tag |-> g] : g \in {x \in SW : st.pc[x] = "pay"} }

\* what the peer's decodeFrom parses: pairs of chunks
Parsed(st) == [i \in 1..(Len(st.stream) \div 2) |-> <<st.stream[2 * i - 1], st.stream[2 * i]>>]
\* every parsed message is one written message: prefix and payload of the same message
FramingIntactOf(st) ==
    /\ \A i \in 1..Len(Parsed(st)) : LET h == Parsed(st)[i][1]  p == Parsed(st)[i][2]
                                      IN h[3] = "h" /\ p[3] = "p" /\ h[1] = p[1] /\ h[2] = p[2]
    /\ (Len(st.stream) % 2 = 1 => st.stream[Len(st.stream)][3] = "h")
\* per-writer order and no duplicates
StreamOrderOf(st) ==
    \A i, j \in 1..Len(st.stream) :
        (i < j /\ st.stream[i][1] = st.stream[j][1] /\ st.stream[i][3] = "h" /\ st.stream[j][3] = "h") => st.stream[i][2] < st.stream[j][2]
=============================================================================
