SPECIFICATION Spec
CONSTANTS
  Kinds <- KindsB
  LeakRLock = FALSE
  CloseWaitWakes = TRUE
  MuHeldDuringWait = FALSE
  ResultChBuffered = TRUE
  HookUnderLock = FALSE
  MaxMeta = 2
INVARIANTS NoLockLeak NoOverrun NoStuckHandOver NoHookUnderLock
PROPERTIES EveryCallReturns
CHECK_DEADLOCK FALSE
