SPECIFICATION Spec
CONSTANTS
  MaxMsgs = 4
  Classes <- ClassesConc
  NWriters = 3
  Conc = TRUE
  Excl = TRUE
  WinLock = TRUE
  Fault = "none"
  StrictBackend = TRUE
  DrainAfterDecode = TRUE
  ReadPolicy = "any"
  Modes <- ModesPmCt
  Levels <- LevelsOne
  Bits <- BitsL1
VIEW StView
INVARIANTS NoReaderRefused DictionariesEqual HeadDecodable ReadEqualsWrite InOrder NoInterleave NoDecodeFailure WindowIsSuffix NoWindowWithoutTakeover
CHECK_DEADLOCK FALSE
