---------------------------- MODULE StreamFraming ----------------------------
(* L1 wrapper of StreamFramingCore: all interleavings of SWriters concurrent Write calls. *)
EXTENDS StreamFramingCore
VARIABLES st
Init == st = SInit0
Next == \E op \in SEnabledOps(st) : st' = SApply(st, op)
Spec == Init /\ [][Next]_st
FramingIntact == FramingIntactOf(st)
StreamOrder == StreamOrderOf(st)
NoCorruptMessage == NoCorruptMessageOf(st)
=============================================================================
