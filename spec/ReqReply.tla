---------------------------- MODULE ReqReply ----------------------------
(* L1 wrapper of ReqReplyCore.
   Spec    : every interleaving of caller steps, dispatcher steps and environment operations
             (exhaustive; `script` records the environment projection and is hidden by VIEW).
   GenSpec : environment operations only, internal steps run to quiescence after each; every
             complete path is printed once = the environment projections used as scenario scripts
             (which callers start; the permutation in which the broker answers; where the
             duplicate / the spurious id / the cancellation / the pong are placed).            *)
EXTENDS ReqReplyCore

VARIABLES st, script
vars == <<st, script>>

Init == st = Init0 /\ script = <<>>
Next == \E op \in EnabledOps(st) : st' = Apply(st, op) /\ script' = IF IsEnv(op) THEN Append(script, op) ELSE script
Spec == Init /\ [][Next]_vars

\* the keep-alive ping is started by the connection itself right after the handshake
PingUp == Settle(Apply(Init0, [a |-> "start", n |-> Ping]))
GenInit == /\ st = IF GenPong THEN PingUp ELSE Settle(Apply(PingUp, [a |-> "ans", n |-> Ping]))
           /\ script = <<>>
GenNext == \E op \in EnvOps(st) : st' = Settle(Apply(st, op)) /\ script' = Append(script, op)
GenSpec == GenInit /\ [][GenNext]_vars

IdsDistinctAndEven == IdsDistinctAndEvenOf(st)
OwnResponseOnly == OwnResponseOnlyOf(st)
SpuriousHarmless == SpuriousHarmlessOf(st)
CancelDoesNotSteal == CancelDoesNotStealOf(st)
DispatcherNeverBlocks == DispatcherNeverBlocksOf(st)
OutcomeAllowed == OutcomeAllowedOf(st)
NoCallerStuck == NoCallerStuckOf(st)
StView == st
Perms == Permutations(Callers)
Ints1 == 1..1
Ints2 == 1..2
Ints3 == 1..3
Ints4 == 1..4
Ints5 == 1..5
Ints6 == 1..6
Ints7 == 1..7
Ints8 == 1..8

GenPrint == IF EnvOps(st) = {} THEN PrintT("SCRIPT " \o ToJson(script)) ELSE TRUE
=============================================================================
