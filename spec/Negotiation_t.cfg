SPECIFICATION Spec
CONSTANTS
  EncVals = {"", "json", "proto", "bogus", "JSON"}
  CompVals = {"", "per-message", "context-takeover", "bogus", "Per-Message"}
  LvlVals <- LvlAll
  WinVals <- WinT
  RcVals = {FALSE, TRUE}
  TidVals = {"", "t", "a\"b\\c&d=e <f>"}
  GrpVals = {0, 1, 2, 3}
  CorruptBaseIds = {1, 2, 3, 4, 5, 6}
  StrictKV = FALSE
VIEW StView
INVARIANTS RoundTrip InvalidRejected PeersAgree BothEnds Modelled
CHECK_DEADLOCK FALSE
