------------------------------ MODULE MonC03 ------------------------------
(* Property monitor for C03: ReadDataPoints / ReadMetadata return each item the broker sent exactly once,
   in the broker's order (metadata: per source node), with aliases resolved to exactly what the client
   announced or pre-registered, and sequence number / points unchanged; a chunk using an alias the client
   never announced is reported as an error and never delivered.
   One downstream (first opened). Premise: no link failure, at most 1000 items outstanding.        *)
EXTENDS MonCommon

MonInit == [ sid |-> "", sent |-> <<>>, reads |-> <<>>, metaSent |-> <<>>, metaReads |-> <<>>, metaAcks |-> <<>>,
             faults |-> 0, readers |-> {}, sendFail |-> 0, quiesced |-> FALSE, srcs |-> {}, metaWaits |-> <<>>, lastMetaI |-> 0,
             readWaits |-> <<>>, lastSendI |-> 0, allow |-> 0 ]
\* (scenario parameter p.allowFaults = number of scripted link failures the scenario contains on purpose: everything sent before a failure
\* is read before it, so the sequence judged is still "what the broker sent" - now across a resume)
MonReset(e) == IF "p" \in DOMAIN e /\ "allowFaults" \in DOMAIN e.p THEN [MonInit EXCEPT !.allow = e.p.allowFaults] ELSE MonInit

Norm(gs) == [k \in 1..Len(gs) |-> <<gs[k].id, gs[k].pts>>]

MonStep(m, e) ==
    CASE e.ev = "ApiRet" /\ e.op = "OpenDownstream" /\ m.sid = "" /\ e.err = "" -> [m EXCEPT !.sid = e.sid]
      [] e.ev = "BSendChunk" /\ e.sid = m.sid ->
            [m EXCEPT !.sent = Append(@, [seq |-> e.seq, up |-> e.up, bogus |-> (e.upF = "alias" /\ e.upAl >= 90) \/ (\E k \in 1..Len(e.groups) : e.groups[k].f = "al" /\ e.groups[k].al >= 90),
                                           g |-> Norm(e.groups), i |-> e.i]),
                      !.lastSendI = e.i]
      [] e.ev = "BSendFail" -> [m EXCEPT !.sendFail = @ + 1]
      \* a ReadDataPoints that waited (at least 200 ms) and came back empty-handed
      [] e.ev = "ApiRet" /\ e.op = "Read" /\ e.sid = m.sid /\ e.err = "ctx" /\ e.boundMs >= 200 -> [m EXCEPT !.readWaits = Append(@, e.ci)]
      [] e.ev = "ApiRet" /\ e.op = "Read" /\ e.sid = m.sid /\ e.err # "ctx" /\ e.err # "streamClosed" ->
            [m EXCEPT !.reads = Append(@, [ok |-> e.err = "", seq |-> e.seq, up |-> e.up, upSession |-> e.upSession, upNode |-> e.upNode,
                                            g |-> Norm(e.groups), i |-> e.i, g0 |-> e.g]),
                      !.readers = @ \cup {e.g}]
      [] e.ev = "BSendMeta" /\ e.sid = m.sid -> [m EXCEPT !.metaSent = Append(@, [src |-> e.src, tag |-> e.tag, rid |-> e.rid]), !.lastMetaI = e.i]
      [] e.ev = "BRecvReq" /\ e.kind = "DownstreamOpenRequest" /\ m.srcs = {} -> [m EXCEPT !.srcs = { e.srcs[k] : k \in 1..Len(e.srcs) }]
      \* a ReadMetadata that waited (at least 200 ms) and came back empty-handed
      [] e.ev = "ApiRet" /\ e.op = "ReadMeta" /\ e.sid = m.sid /\ e.err = "ctx" /\ e.boundMs >= 200 -> [m EXCEPT !.metaWaits = Append(@, e.i)]
      [] e.ev = "ApiRet" /\ e.op = "ReadMeta" /\ e.sid = m.sid /\ e.err = "" -> [m EXCEPT !.metaReads = Append(@, [src |-> e.src, tag |-> e.tag])]
      [] e.ev = "BRecvMetaAck" -> [m EXCEPT !.metaAcks = Append(@, e.rid)]
      [] e.ev = "Fault" \/ (e.ev = "BLinkDown" /\ e.cause = "script") -> [m EXCEPT !.faults = @ + 1]
      [] e.ev = "Quiesced" -> [m EXCEPT !.quiesced = TRUE]
      [] OTHER -> m

Premise(m) == m.sid # "" /\ m.faults <= m.allow /\ m.sendFail = 0
\* what the k-th read must be, given the k-th chunk sent
Expect(c) == IF c.bogus THEN [ok |-> FALSE] ELSE [ok |-> TRUE, seq |-> c.seq, up |-> c.up, g |-> c.g]
Matches(r, c) == IF c.bogus THEN ~r.ok
                 ELSE r.ok /\ r.seq = c.seq /\ r.up = c.up /\ r.upSession = "s-" \o c.up /\ r.upNode = "n-" \o c.up /\ r.g = c.g
\* single reader: results in the broker's order, one per chunk, prefix of what was sent
OrderWrong(m) == Cardinality(m.readers) <= 1 /\
                 (\/ Len(m.reads) > Len(m.sent)
                  \/ \E k \in 1..Len(m.reads) : ~Matches(m.reads[k], m.sent[k]))
\* several readers: every result matches some chunk sent, each chunk at most once
MultiWrong(m) == Cardinality(m.readers) > 1 /\
                 (\/ Len(m.reads) > Len(m.sent)
                  \/ \E k \in 1..Len(m.reads) : ~\E j \in 1..Len(m.sent) : Matches(m.reads[k], m.sent[j])
                  \/ \E j, k \in 1..Len(m.reads) : j # k /\ m.reads[j].ok /\ m.reads[k].ok /\ m.reads[j].seq = m.reads[k].seq /\ m.reads[j].up = m.reads[k].up)
\* a read that reports an error never carries a chunk
ErrorWithChunk(m) == \E r \in RangeS(m.reads) : ~r.ok /\ (r.seq # 0 \/ r.g # <<>>)
\* metadata: per source node in order, each once; every read metadata acknowledged with its request id
MetaOf(q, src) == SelectSeq(q, LAMBDA x : x.src = src)
MetaWrong(m) == \E src \in { x.src : x \in RangeS(m.metaSent) } \cup { x.src : x \in RangeS(m.metaReads) } :
                    LET a == MetaOf(m.metaSent, src)  b == MetaOf(m.metaReads, src)
                    IN Len(b) > Len(a) \/ \E k \in 1..Len(b) : b[k].tag # a[k].tag
\* an item sent for a subscribed source node was never returned although the consumer waited for it after everything had been sent
MetaLost(m) == /\ \E w \in RangeS(m.metaWaits) : w > m.lastMetaI
               /\ \E src \in m.srcs : Len(MetaOf(m.metaReads, src)) < Len(MetaOf(m.metaSent, src))
\* a chunk that was sent is never returned although a read waited for it after everything had been sent
ChunkLost(m) == /\ Len(m.sent) <= 1000 /\ Len(m.reads) < Len(m.sent)
                /\ \E w \in RangeS(m.readWaits) : w > m.lastSendI
MetaAckWrong(m) == m.quiesced /\ (\/ Len(m.metaAcks) # Len(m.metaReads)
                                  \/ \E r \in RangeS(m.metaAcks) : ~\E x \in RangeS(m.metaSent) : x.rid = r)

Clause(name, b) == IF b THEN {name} ELSE {}
MonVerdict(m) == IF ~Premise(m) THEN Clause("ErrorWithChunk", ErrorWithChunk(m))
                 ELSE Clause("OrderOrContentWrong", OrderWrong(m)) \cup Clause("MultiReaderWrong", MultiWrong(m))
                      \cup Clause("ErrorWithChunk", ErrorWithChunk(m)) \cup Clause("MetaWrong", MetaWrong(m)) \cup Clause("MetaAckWrong", MetaAckWrong(m)) \cup Clause("MetaLost", MetaLost(m)) \cup Clause("ChunkLost", ChunkLost(m))
MonStats(m) == [ premise |-> IF Premise(m) THEN 1 ELSE 0, sent |-> Len(m.sent), reads |-> Len(m.reads),
                 okReads |-> Cardinality({ k \in 1..Len(m.reads) : m.reads[k].ok }),
                 errReads |-> Cardinality({ k \in 1..Len(m.reads) : ~m.reads[k].ok }),
                 bogusSent |-> Cardinality({ k \in 1..Len(m.sent) : m.sent[k].bogus }),
                 meta |-> Len(m.metaReads) ]
=============================================================================
