SPECIFICATION Spec
CONSTANTS
  MaxMsgs = 2
  Classes <- ClassesAll
  NWriters = 1
  Conc = FALSE
  Excl = TRUE
  WinLock = TRUE
  Fault = "none"
  ReadPolicy = "eager"
  StrictBackend = TRUE
  DrainAfterDecode = TRUE
  Modes <- ModesAll
  Levels <- LevelsAll
  Bits <- BitsGrid

INVARIANTS NoReaderRefused DictionariesEqual HeadDecodable ReadEqualsWrite InOrder NoInterleave NoDecodeFailure WindowIsSuffix NoWindowWithoutTakeover
CONSTRAINT GenPrint
CHECK_DEADLOCK FALSE
