---------------------------- MODULE MonC14 ----------------------------
(* Trace monitor for C14: lock-step validation of internal/segment against Segment.tla.
   Every recorded operation is applied to the model state with the same Apply used by
   the exhaustive model; the real results (datagrams emitted, value handed up, table
   projection, crash) are compared with the model after every step.               *)
EXTENDS SegmentCore

MonInit == [st |-> Init0(<<>>), bad |-> {}, steps |-> 0, completes |-> 0, partial |-> 0, sends |-> 0, malformed |-> 0, gcs |-> 0]
MonReset(e) == [MonInit EXCEPT !.st = Init0(e.p.msgLens)]

\* model projection of the reassembly table: set of <<m, cnt, nslots, filled>>
ModelTable(st) == { <<m, st.table[m].cnt, st.table[m].max + 1, st.table[m].filled>> : m \in st.tdom }
RealTable(e) == { <<r[1], r[2], r[3], {r[4][k] : k \in 1..Len(r[4])}>> : r \in {e.table[k] : k \in 1..Len(e.table)} \ {x \in {e.table[k] : k \in 1..Len(e.table)} : x[1] = 0} }

\* datagrams the model expects SendTo to emit for message m, in order: <<max, idx, paylen>>
ModelDgrams(st, m) == IF Oversize(st.lens[m]) THEN <<>>
                      ELSE [i \in 1..(MaxIdx(st.lens[m]) + 1) |-> <<MaxIdx(st.lens[m]), i - 1, PayLen(st.lens[m], i - 1)>>]

OpOf(e) == CASE e.a \in {"deliver", "lose"} -> [a |-> e.a, n |-> e.n, seq |-> e.seq]
             [] e.a = "send" -> [a |-> "send", n |-> e.n]
             [] e.a = "bad" -> [a |-> "bad", mode |-> e.mode]
             [] OTHER -> [a |-> e.a]

Check(m, st2, e) ==
    (IF e.ret = "panic" THEN {"Crash"} ELSE {})
    \cup (IF e.a = "send"
          THEN (IF Oversize(st2.lens[e.n])
                THEN (IF e.ret # "error" \/ Len(e.dgrams) > 0 THEN {"OversizeAccepted"} ELSE {})
                ELSE (IF e.ret # "ok" THEN {"SendFailed"} ELSE {})
                     \cup (IF [k \in 1..Len(e.dgrams) |-> <<e.dgrams[k][1], e.dgrams[k][2], e.dgrams[k][3]>>] # ModelDgrams(st2, e.n)
                           THEN {"SendSplit"} ELSE {})
                     \cup (IF \E k \in 1..Len(e.dgrams) : e.dgrams[k][4] # 1 THEN {"SendBytes"} ELSE {}))
          ELSE {})
    \cup (IF e.a = "deliver"
          THEN (IF st2.last = "complete"
                THEN (IF e.ret = "msg" /\ e.retm = e.n THEN {} ELSE {"RecvResult"})
                ELSE (IF e.ret = "none" THEN {} ELSE {"RecvResult"}))
          ELSE {})
    \cup (IF e.a = "bad" /\ e.ret \notin {"none", "error"} THEN {"MalformedNotDiscarded"} ELSE {})
    \cup (IF e.a # "send" /\ e.ret # "panic" /\ RealTable(e) # ModelTable(st2) THEN {"TableMismatch"} ELSE {})

\* the largest message the sender accepts (MaxSegIdx + 1 segments at the real constants) is too big to be replayed datagram by datagram in
\* the model: the harness sends it (sendBig: number of datagrams, first and last header) and feeds all datagrams in order (deliverAll:
\* how many messages were handed up, at which datagram, and whether the bytes are the message). What the model says about it is decided
\* by TLC on the scaled configuration Segment_wrap*.cfg (AllDeliveredIfNoLoss); here the real constants are bound.
BigCheck(m, e) ==
    LET len == m.st.lens[e.n]  cnt == MaxIdx(len) + 1 IN
    IF e.a = "sendBig"
    THEN (IF Oversize(len) THEN {"OversizeAccepted"} ELSE {})
         \cup (IF e.ret # "ok" THEN {"SendFailed"} ELSE {})
         \cup (IF e.count # cnt \/ e.first[1] # MaxIdx(len) \/ e.first[2] # 0 \/ e.last[2] # MaxIdx(len) \/ e.last[3] # PayLen(len, MaxIdx(len))
                  \/ e.first[4] # 1 \/ e.last[4] # 1 THEN {"SendSplit"} ELSE {})
    ELSE (IF e.ret = "panic" THEN {"Crash"} ELSE {})
         \cup (IF e.ret # "panic" /\ ~(e.handed = 1 /\ e.at = cnt /\ e.exact = 1) THEN {"RecvResult"} ELSE {})
MonStep(m, e) ==
    IF e.ev # "SegOp" THEN m
    ELSE IF e.a \in {"sendBig", "deliverAll"}
    THEN [m EXCEPT !.bad = @ \cup BigCheck(m, e), !.steps = @ + 1, !.sends = @ + (IF e.a = "sendBig" THEN 1 ELSE 0),
                   !.completes = @ + (IF e.a = "deliverAll" /\ e.handed = 1 THEN 1 ELSE 0)]
    ELSE LET st2 == Apply(m.st, OpOf(e))
         IN [m EXCEPT !.st = st2,
                      !.bad = @ \cup Check(m, st2, e),
                      !.steps = @ + 1,
                      !.sends = @ + (IF e.a = "send" THEN 1 ELSE 0),
                      !.completes = @ + (IF st2.last = "complete" THEN 1 ELSE 0),
                      !.partial = @ + (IF st2.last = "partial" THEN 1 ELSE 0),
                      !.malformed = @ + (IF e.a = "bad" THEN 1 ELSE 0),
                      !.gcs = @ + (IF e.a = "gc" THEN 1 ELSE 0)]

\* model-side invariants evaluated on the replayed state as well
MonVerdict(m) == m.bad \cup (IF AllInvOf(m.st) THEN {} ELSE {"ModelInvariant"})
MonStats(m) == [steps |-> m.steps, completes |-> m.completes, partial |-> m.partial, sends |-> m.sends, malformed |-> m.malformed, gcs |-> m.gcs]
=============================================================================
