SPECIFICATION Spec
CONSTANTS
  MaxMsgs = 3
  Classes <- ClassesAll
  NWriters = 1
  Conc = FALSE
  Excl = TRUE
  WinLock = TRUE
  Fault = "none"
  ReadPolicy = "any"
  StrictBackend = FALSE
  DrainAfterDecode = FALSE
  Modes <- ModesAll
  Levels <- LevelsOne
  Bits <- BitsOne
VIEW StView
INVARIANTS NoReaderRefused DictionariesEqual HeadDecodable ReadEqualsWrite InOrder NoInterleave NoDecodeFailure WindowIsSuffix NoWindowWithoutTakeover

CHECK_DEADLOCK FALSE
