SPECIFICATION Spec
CONSTANTS
  NStreams = 3
  NSeqs = 2
  NVals = 2
  MaxOps = 5
  GenList = TRUE
VIEW StView
INVARIANTS Frame WellFormed StoreMeaning RemoveMeaning ListMeaning ClearMeaning
PROPERTY FrameAct
CHECK_DEADLOCK FALSE
