SPECIFICATION Spec
CONSTANTS
  MaxMsgs = 3
  Classes <- ClassesAll
  NWriters = 1
  Conc = FALSE
  Excl = TRUE
  WinLock = TRUE
  Fault = "none"
  ReadPolicy = "any"
  StrictBackend = TRUE
  DrainAfterDecode = FALSE
  Modes <- ModesPmCt
  Levels <- LevelsOne
  Bits <- BitsOne
VIEW StView
INVARIANTS NoReaderRefused DictionariesEqual HeadDecodable ReadEqualsWrite InOrder NoInterleave NoDecodeFailure WindowIsSuffix NoWindowWithoutTakeover

CHECK_DEADLOCK FALSE
