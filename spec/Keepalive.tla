------------------------------ MODULE Keepalive ------------------------------
(* L1 specification of the iSCP keep-alive (C15): wire/client_conn.go keepAliveLoop / sendPing /
   sendRequest / readPingLoop, the closed-wire => reconnect path of iscp/conn.go (observeConnClose,
   run, reconnect: the first redial attempt of internal/retry is immediate) and the broker.

   Time is explicit: one tick = T/4 where T is the ping timeout (TT = 4 ticks); the ping interval
   is NI ticks.  `now` advances by one tick only when nothing is due at the current instant
   (maximal progress: timer expiries, message arrivals and the goroutine steps they enable take no
   time).  Things due at the same instant happen in any order - this is how the model explores
   the exact boundary (pong delay = T: the pong races the timeout).

   Client (one action per step of the code):
     SendPing     keepAliveLoop calls sendPing at the start of the loop body: a request with a
                  fresh request id and a context with timeout T (the first one right after the
                  handshake; the ticker was created just before)
     PongArrive   readRequestLoop hands the pong to the waiting sendRequest (matched by request id)
     PingTimeout  ctx.Done() wins in sendRequest => sendPing fails => c.Close() => the wire
                  connection is closed (phase "closed")
     TickFire     the ticker fires every NI ticks since its creation (channel of capacity one:
                  a tick that is not consumed before the next one is dropped)
     ConsumeTick  keepAliveLoop receives from ticker.C and loops
     AnswerBPing  readPingLoop answers a broker ping with Pong{RequestID: ping.RequestID}
     Recover      iscp.Conn: wire closed => run() returns (Disconnected event) => reconnect():
                  Dial, ConnectRequest, new wire connection with a fresh id generator and a fresh
                  keepAliveLoop (Reconnected event); takes no time in the model
   Environment (recorded in `script`, replayed on the real library):
     the pong delay class chosen by the broker for every ping it receives, the instant at which the
     broker falls silent, broker-initiated pings (instant, id), application requests (instant).  *)
EXTENDS Integers, Sequences, FiniteSets, TLC, Json, SequencesExt, FiniteSetsExt

CONSTANTS
    TT,            \* ping timeout in ticks (4)
    NI,            \* ping interval in ticks
    Delays,        \* finite pong delay classes (ticks) on incarnation 1, e.g. {0, 2, 3, 4, 5}
    Delays2,       \* finite pong delay classes on later incarnations
    LateAt,        \* ping numbers (within an incarnation) at which the broker may answer late / not at all
    LateConns,     \* incarnations on which the broker may misbehave
    SilentAnytime, \* TRUE: the broker may also fall silent at any instant between pings
    MaxConn,       \* incarnations modelled
    Horizon,       \* time bound in ticks
    BPingAt,       \* instants at which the broker may send a ping of its own
    BPingIds,      \* ids it uses: numbers, or CurId (1000000) = the request id of the client's latest ping
    MaxBPings,
    AppAt,         \* instants at which the application may issue a request (consumes a request id)
    MaxApp,
    Variant        \* "code" | "restartTicker" | "noTimeout" | "noClose" | "freshPongId" (sensitivity variants)

VARIABLES s, script
vars == <<s, script>>
StView == s        \* VIEW of the exhaustive configurations: the history variable does not multiply states

Inf == -1
CurId == 1000000

Init0 ==
  [ now |-> 0, conn |-> 1,
    phase |-> "send",       \* send: about to call sendPing | wait: ping in flight | tickwait: waiting for ticker.C | closed
    pno |-> 0,              \* pings sent on this incarnation
    rid |-> 2,              \* next request id of this incarnation (0 was the connect request)
    pingRid |-> 0,          \* id of the ping in flight / latest ping
    sentAt |-> 0,           \* when the latest ping was sent
    tickAt |-> NI,          \* next expiry of the ticker
    tickPending |-> FALSE,
    pongs |-> {},           \* pongs the broker has scheduled: [rid, at]
    silent |-> FALSE, silentAt |-> -1,
    startAt |-> 0,          \* start of this incarnation (handshake done)
    lastAnsSent |-> 0,      \* when the last ping answered in time was sent (start of the incarnation if none)
    silentSince |-> 0,      \* when the broker sent its last timely pong (start of the incarnation if none)
    answered |-> 0,         \* pings answered in time on this incarnation
    allTimely |-> TRUE,     \* every pong of this incarnation so far was scheduled with a delay < T and the broker is not silent
    closedAt |-> -1,
    bq |-> <<>>, bsent |-> <<>>, bpongs |-> <<>>, nb |-> 0, napp |-> 0,
    detections |-> 0 ]

Init == s = Init0 /\ script = <<>>
Say(op) == script' = Append(script, op)
Quiet == UNCHANGED script

Alive(x) == x.phase # "closed"
DelaysOf(c) == IF c = 1 THEN Delays ELSE Delays2

\* what the broker may do with ping number n of incarnation c
PongChoices(x) ==
    IF x.silent THEN {Inf}
    ELSE LET n == x.pno + 1
             ds == DelaysOf(x.conn)
         IN { d \in ds : d < TT }
            \cup (IF n \in LateAt /\ x.conn \in LateConns THEN { d \in ds : d >= TT } \cup {Inf} ELSE {})

\* ---------------------------------------------------------------- client: keepAliveLoop
SendPing(d) ==
    /\ s.phase = "send" /\ d \in PongChoices(s)
    /\ s' = [s EXCEPT !.phase = "wait", !.pno = @ + 1, !.rid = @ + 2, !.pingRid = s.rid, !.sentAt = s.now,
                      !.pongs = IF d = Inf THEN @ ELSE @ \cup {[rid |-> s.rid, at |-> s.now + d]},
                      !.silent = @ \/ d = Inf,
                      !.silentAt = IF d = Inf /\ ~s.silent THEN s.now ELSE @,
                      !.allTimely = @ /\ d # Inf /\ d < TT]
    /\ Say([a |-> "pong", c |-> s.conn, n |-> s.pno + 1, d |-> d, at |-> s.now])

PongArrive(p) ==
    /\ p \in s.pongs /\ p.at = s.now
    /\ IF s.phase = "wait" /\ p.rid = s.pingRid
       THEN s' = [s EXCEPT !.pongs = @ \ {p}, !.phase = "tickwait", !.lastAnsSent = s.sentAt, !.silentSince = s.now,
                           !.answered = @ + 1,
                           !.tickAt = IF Variant = "restartTicker" THEN s.now + NI ELSE @,
                           !.tickPending = IF Variant = "restartTicker" THEN FALSE ELSE @]
       ELSE s' = [s EXCEPT !.pongs = @ \ {p}]      \* no waiter registered under this id any more: dropped
    /\ Quiet

PingTimeout ==
    /\ Variant # "noTimeout"
    /\ s.phase = "wait" /\ s.now = s.sentAt + TT
    /\ IF Variant = "noClose"
       THEN s' = [s EXCEPT !.phase = "tickwait"]
       ELSE s' = [s EXCEPT !.phase = "closed", !.closedAt = s.now, !.detections = @ + 1]
    /\ Quiet

TickFire ==
    /\ Alive(s) /\ s.now = s.tickAt
    /\ s' = [s EXCEPT !.tickPending = TRUE, !.tickAt = @ + NI]
    /\ Quiet

ConsumeTick ==
    /\ s.phase = "tickwait" /\ s.tickPending
    /\ s' = [s EXCEPT !.tickPending = FALSE, !.phase = "send"]
    /\ Quiet

\* ---------------------------------------------------------------- client: readPingLoop
AnswerBPing ==
    /\ Alive(s) /\ s.bq # <<>>
    /\ s' = [s EXCEPT !.bq = Tail(@),
                      !.bpongs = Append(@, IF Variant = "freshPongId" THEN s.rid ELSE Head(s.bq))]
    /\ Quiet

\* ---------------------------------------------------------------- iscp.Conn: closed wire => reconnect
Recover ==
    /\ s.phase = "closed" /\ s.conn < MaxConn
    /\ s' = [s EXCEPT !.conn = @ + 1, !.phase = "send", !.pno = 0, !.rid = 2, !.pingRid = 0, !.sentAt = s.now,
                      !.tickAt = s.now + NI, !.tickPending = FALSE, !.pongs = {}, !.silent = FALSE, !.silentAt = -1,
                      !.startAt = s.now, !.lastAnsSent = s.now, !.silentSince = s.now, !.answered = 0, !.allTimely = TRUE,
                      !.closedAt = -1, !.bq = <<>>, !.bsent = <<>>, !.bpongs = <<>>]
    /\ Say([a |-> "recover", c |-> s.conn + 1, at |-> s.now])

\* ---------------------------------------------------------------- environment
GoSilent ==
    /\ SilentAnytime /\ Alive(s) /\ ~s.silent /\ s.conn \in LateConns /\ s.now < Horizon
    /\ (s.pno + 1) \in LateAt
    /\ s' = [s EXCEPT !.silent = TRUE, !.silentAt = s.now, !.allTimely = FALSE,
                      !.pongs = { p \in @ : p.at <= s.now }]       \* silent from now on: pongs not yet sent are never sent
    /\ Say([a |-> "silent", c |-> s.conn, k |-> s.answered, at |-> s.now])

BrokerPing(id) ==
    /\ Alive(s) /\ s.nb < MaxBPings /\ s.now \in BPingAt /\ s.now < Horizon
    /\ LET r == IF id = CurId THEN s.pingRid ELSE id IN
       /\ s' = [s EXCEPT !.nb = @ + 1, !.bq = Append(@, r), !.bsent = Append(@, r)]
       /\ Say([a |-> "bping", c |-> s.conn, rid |-> r, at |-> s.now])

AppReq ==
    /\ Alive(s) /\ s.napp < MaxApp /\ s.now \in AppAt /\ s.now < Horizon
    /\ s' = [s EXCEPT !.napp = @ + 1, !.rid = @ + 2]
    /\ Say([a |-> "app", c |-> s.conn, at |-> s.now])

\* ---------------------------------------------------------------- time
Urgent(x) ==
    \/ x.phase = "send"
    \/ \E p \in x.pongs : p.at = x.now
    \/ (Variant # "noTimeout" /\ x.phase = "wait" /\ x.now = x.sentAt + TT)
    \/ (Alive(x) /\ x.now = x.tickAt)
    \/ (x.phase = "tickwait" /\ x.tickPending)
    \/ (Alive(x) /\ x.bq # <<>>)
    \/ (x.phase = "closed" /\ x.conn < MaxConn)

Tick ==
    /\ ~Urgent(s) /\ s.now < Horizon
    /\ s' = [s EXCEPT !.now = @ + 1]
    /\ Quiet

Next ==
    \/ \E d \in Delays \cup Delays2 \cup {Inf} : SendPing(d)
    \/ \E p \in s.pongs : PongArrive(p)
    \/ PingTimeout \/ TickFire \/ ConsumeTick \/ AnswerBPing \/ Recover
    \/ GoSilent \/ AppReq
    \/ \E id \in BPingIds : BrokerPing(id)
    \/ Tick

Spec == Init /\ [][Next]_vars
FairSpec == Spec /\ WF_vars(Next)

\* ================================================================== properties
\* A dead peer is detected in bounded time: the connection is closed no later than I + T after the broker sent its
\* last timely pong (start of the incarnation if there was none) ...
DetectWithinBound ==
    /\ (s.closedAt >= 0 => s.closedAt - s.silentSince <= NI + TT)
    \* ... and a silent broker never goes unnoticed for longer than that (the close is not merely "in time if it happens")
    /\ ((s.silent /\ Alive(s)) => s.now - s.silentSince <= NI + TT)
\* the same bound counted from the instant the broker fell silent (property text)
DetectAfterSilence ==
    (s.closedAt >= 0 /\ s.silentAt >= 0) => s.closedAt - s.silentAt <= NI + TT
\* counted from the moment the last answered ping was SENT the bound is max(I, its pong delay) + T; = I + T whenever I >= T
DetectFromLastAnsweredPing ==
    (NI >= TT /\ s.closedAt >= 0) => s.closedAt - s.lastAnsSent <= NI + TT
\* a live peer is never dropped: as long as every pong was scheduled with a delay < T the client does not close
NoSpuriousClose == s.closedAt >= 0 => ~s.allTimely
\* never closed before a full timeout has elapsed since the unanswered ping was sent
NoEarlyClose == s.closedAt >= 0 => s.closedAt = s.sentAt + TT
\* every broker ping is answered by a pong with the same request id, in order, none invented
PongEchoesId == Alive(s) => s.bsent = s.bpongs \o s.bq
\* pings are never sent more often than the ticker allows: ping n+1 is not sent before n * I after the start of the incarnation
PingPacing == (Variant = "code" /\ s.pno >= 1) => s.sentAt >= s.startAt + (s.pno - 1) * NI
\* recovery: a closed connection is always replaced (while the model allows another incarnation)
RecoveryImmediate == (s.phase = "closed" /\ s.conn < MaxConn) => (s.now = s.closedAt /\ ENABLED Recover)
RecoveryFollows == [](s.phase = "closed" /\ s.conn < MaxConn => <>(s.phase # "closed"))     \* (checked by the small _live cfg, no VIEW)

\* script generation: print the environment projection of every complete behaviour
Terminal == s.now = Horizon /\ ~Urgent(s)
GenPrint == IF Terminal THEN PrintT("SCRIPT " \o ToJson(script)) ELSE TRUE
=============================================================================
