SPECIFICATION Spec
CONSTANTS
  Flushers = {F1, F2, F3}
  Writer = W
  SharedResult = FALSE
  WatchDone = TRUE
INVARIANTS TypeOK CtxOnlyIfExpired OwnResult
PROPERTIES LoopComesBack EveryCallReturns LiveCallServed
CHECK_DEADLOCK FALSE
