-------------------------- MODULE FlushRendezvous --------------------------
(* The explicit-flush rendezvous of an Upstream (iscp/upstream.go: Flush, flushLoop), one action per channel
   operation.  Flush(ctx) hands ctx.Done() to the flush loop over the unbuffered explicitlyFlushCh, then waits for
   the result on the unbuffered, SHARED explicitlyFlushResultCh; both selects also watch ctx.  The loop, having
   taken a request, cuts the chunk (flush) and then selects { result channel <- err | <-remoteDone | <-ctx.Done }.
   Flush's `defer cancel()` closes remoteDone whenever the caller leaves.  A writer hands its points over dpgCh,
   which the loop serves only from its outer select.
   WatchDone = TRUE is the code; FALSE is the variant "Flush always waits for the result" (seed C08-8): an
   abandoned request parks the loop for the life of the stream.  (The stream context ending - Close - releases
   everything and is left out: the property is about a stream that stays open.)                                  *)
EXTENDS Naturals, FiniteSets
CONSTANTS Flushers, Writer, WatchDone,
          SharedResult   \* TRUE: one result channel for all callers (the code before fix 51f0dfe); FALSE: one 1-buffered channel per request (never blocks the loop)
VARIABLES pc, expired, loop, cur, got
vars == <<pc, expired, loop, cur, got>>
Procs == Flushers \cup {Writer}
None == "none"

Init == /\ pc = [p \in Procs |-> "idle"] /\ expired = [p \in Procs |-> FALSE]
        /\ loop = "idle" /\ cur = None /\ got = [p \in Procs |-> None]

Call(p) == /\ pc[p] = "idle" /\ pc' = [pc EXCEPT ![p] = "send"] /\ UNCHANGED <<expired, loop, cur, got>>
\* the caller's context ends (deadline, cancel) at any point of the call; a call may also start with a done context
Expire(p) == /\ pc[p] # "done" /\ ~expired[p] /\ expired' = [expired EXCEPT ![p] = TRUE] /\ UNCHANGED <<pc, loop, cur, got>>
\* select in Flush #1: the loop takes the request (possible even when the context is already done: select is unordered)
HandReq(p) == /\ p \in Flushers /\ pc[p] = "send" /\ loop = "idle"
              /\ pc' = [pc EXCEPT ![p] = "wait"] /\ loop' = "flushing" /\ cur' = p /\ UNCHANGED <<expired, got>>
GiveUp(p) == /\ pc[p] \in {"send", "wait"} /\ expired[p]
             /\ pc' = [pc EXCEPT ![p] = "done"] /\ got' = [got EXCEPT ![p] = "ctx"] /\ UNCHANGED <<expired, loop, cur>>
FlushDone == /\ loop = "flushing" /\ loop' = "handing" /\ UNCHANGED <<pc, expired, cur, got>>
\* the result channel is shared: whoever waits on it receives
HandRes(q) == /\ loop = "handing" /\ q \in Flushers /\ pc[q] = "wait" /\ (SharedResult \/ q = cur)
              /\ pc' = [pc EXCEPT ![q] = "done"] /\ got' = [got EXCEPT ![q] = cur] /\ loop' = "idle" /\ cur' = None /\ UNCHANGED expired
DoneClosed(p) == expired[p] \/ pc[p] = "done"          \* ctx ended, or Flush returned (defer cancel)
LoopAbandons == /\ loop = "handing"
                /\ (IF SharedResult THEN WatchDone /\ DoneClosed(cur) ELSE pc[cur] # "wait")
                /\ loop' = "idle" /\ cur' = None /\ UNCHANGED <<pc, expired, got>>
\* dpgCh: the loop's outer select takes the writer's points
TakeWrite == /\ pc[Writer] = "send" /\ loop = "idle"
             /\ pc' = [pc EXCEPT ![Writer] = "done"] /\ got' = [got EXCEPT ![Writer] = "ok"] /\ UNCHANGED <<expired, loop, cur>>

Next == \/ \E p \in Procs : Call(p) \/ Expire(p) \/ HandReq(p) \/ GiveUp(p) \/ HandRes(p)
        \/ FlushDone \/ LoopAbandons \/ TakeWrite
Fair == /\ WF_vars(FlushDone) /\ WF_vars(LoopAbandons) /\ SF_vars(TakeWrite)
        /\ \A p \in Procs : WF_vars(HandRes(p)) /\ WF_vars(GiveUp(p)) /\ SF_vars(HandReq(p))
Spec == Init /\ [][Next]_vars /\ Fair

TypeOK == /\ loop \in {"idle", "flushing", "handing"} /\ cur \in Flushers \cup {None}
          /\ \A p \in Procs : pc[p] \in {"idle", "send", "wait", "done"}
\* a result reaches only the caller whose request produced it (one request is outstanding at a time)
OwnResult == \A p \in Flushers : got[p] \in {None, "ctx", p}
AtMostOneWaiter == Cardinality({ p \in Flushers : pc[p] = "wait" }) <= 1 /\ (loop # "idle" => cur # None)
\* "ctx" is returned only to callers whose context ended
CtxOnlyIfExpired == \A p \in Procs : got[p] = "ctx" => expired[p]
\* the loop never parks: it always comes back to its outer select ...
LoopComesBack == (loop # "idle") ~> (loop = "idle")
\* ... so every call returns, and a call whose context stays alive is served
EveryCallReturns == \A p \in Procs : (pc[p] = "send") ~> (pc[p] = "done")
LiveCallServed == \A p \in Procs : [](pc[p] = "done" /\ ~expired[p] => got[p] \in {p, "ok"})
=============================================================================
