\* thorough: every interleaving of the registration steps (no EagerLocal), all three kinds, 3 callers
SPECIFICATION Spec
CONSTANTS
  Callers = {P1, P2, P3}
  CallKinds = {"call", "callWait", "replyCall"}
  MaxCallsPer = 1
  CallReceivers = {}
  ReplyReceivers = {}
  MaxRecv = 1
  Cap = 1
  MaxAcks = 4
  MaxDupAcks = 1
  MaxNegAcks = 1
  MaxUnkAcks = 0
  MaxReplies = 1
  MaxDupReplies = 0
  MaxUnkReplies = 0
  MaxInCalls = 0
  MaxFaults = 0
  MaxExpire = 0
  CloseAnytime = FALSE
  FreshIds = TRUE
  DeleteWaiter = TRUE
VIEW View
SYMMETRY Sym

INVARIANTS CallIdsFresh AckToOwnerOnly ReplyToOwnerOnly InboxOnceInOrder NegativeAckOnlyThatCaller DeliverNonBlocking
CHECK_DEADLOCK FALSE
