SPECIFICATION Spec
CONSTANTS
  MaxWrites = 3
  MaxSegs = 3
  RollbackSeq = FALSE
  Reorder = TRUE
  GenCanon = FALSE
VIEW StView
INVARIANTS ExactOrNothing AtMostOnce FailedNeverDelivered AllDelivered FreshSeq TableConsistent
CHECK_DEADLOCK FALSE
