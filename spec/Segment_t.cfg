SPECIFICATION Spec
CONSTANTS
  P = 1188
  MsgLens <- LensT
  Expiry = 1
  MaxTicks = 2
  MaxBad = 1
  MaxSegIdx = 65535
  SlotWrap = FALSE
  GenCanon = FALSE
VIEW StView
INVARIANTS ExactOrNothing NothingIfMissing AllSegmentsIn ForgottenAfterExpiry OversizeRefused TableConsistent AllDeliveredIfNoLoss
CHECK_DEADLOCK FALSE
