SPECIFICATION Spec
CONSTANTS
  MaxMsgs = 6
  Classes <- ClassesAll
  NWriters = 1
  Conc = FALSE
  Excl = TRUE
  WinLock = TRUE
  Fault = "none"
  StrictBackend = TRUE
  DrainAfterDecode = TRUE
  ReadPolicy = "eager"
  Modes <- ModesCt
  Levels <- LevelsOne
  Bits <- BitsOne

INVARIANTS DictionariesEqual HeadDecodable ReadEqualsWrite InOrder NoInterleave NoDecodeFailure WindowIsSuffix NoWindowWithoutTakeover
CONSTRAINT GenPrint
CHECK_DEADLOCK FALSE
