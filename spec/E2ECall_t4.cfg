\* thorough: 3 callers with acks / replies for unknown ids
SPECIFICATION Spec
CONSTANTS
  Callers = {P1, P2, P3}
  CallKinds = {"call", "callWait"}
  MaxCallsPer = 1
  CallReceivers = {}
  ReplyReceivers = {}
  MaxRecv = 1
  Cap = 1
  MaxAcks = 3
  MaxDupAcks = 0
  MaxNegAcks = 1
  MaxUnkAcks = 1
  MaxReplies = 1
  MaxDupReplies = 0
  MaxUnkReplies = 1
  MaxInCalls = 0
  MaxFaults = 0
  MaxExpire = 0
  CloseAnytime = FALSE
  FreshIds = TRUE
  DeleteWaiter = TRUE
VIEW View
SYMMETRY Sym
ACTION_CONSTRAINT EagerLocal
INVARIANTS CallIdsFresh AckToOwnerOnly ReplyToOwnerOnly InboxOnceInOrder NegativeAckOnlyThatCaller DeliverNonBlocking
CHECK_DEADLOCK FALSE
