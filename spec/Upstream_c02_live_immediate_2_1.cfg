SPECIFICATION FairSpec
CONSTANTS
  DataIds = {"A", "B"}
  Writers = {"W1"}
  Flushers = {}
  MaxWrites = 2
  Policy = "immediate"
  Threshold = 2
  Sizes = {1}
  ZeroPointWrites = FALSE
  Reliable = TRUE
  MaxFaults = 1
  MaxDupAcks = 0
  MaxAcks = 2
  AliasGrants = FALSE
  CloseShortcut = FALSE
  MaxConflicts = 0
  CancelIsTimeout = FALSE
  RecordScript = FALSE
  NetLoss = TRUE
  FlushAbandon = FALSE
  FlushResBuffered = FALSE

INVARIANTS Conservation Numbering NoEmptyChunk AliasOnlyAfterGrant SendHookOnce AckHookSound CloseTotals SnapshotConservation StoredUntilAcked NothingLostWhenQuiescent ResendOnlyStored
PROPERTIES EventuallyDelivered
CHECK_DEADLOCK FALSE
