SPECIFICATION Spec
CONSTANTS
  DataIds = {"A", "B"}
  Writers = {"W1"}
  Flushers = {}
  MaxWrites = 2
  Policy = "immediate"
  Threshold = 2
  Sizes = {1}
  ZeroPointWrites = FALSE
  Reliable = TRUE
  MaxFaults = 1
  MaxDupAcks = 0
  MaxAcks = 2
  AliasGrants = TRUE
  CloseShortcut = FALSE
  MaxConflicts = 1
VIEW View
INVARIANTS Conservation Numbering NoEmptyChunk AliasOnlyAfterGrant SendHookOnce AckHookSound CloseTotals SnapshotConservation StoredUntilAcked NothingLostWhenQuiescent ResendOnlyStored

CHECK_DEADLOCK FALSE
