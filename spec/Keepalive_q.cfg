\* C15 exhaustive configuration (quick): I = 2T, tick = T/4; tools/props/c15.py generates the same file per interval
SPECIFICATION Spec
CONSTANTS
  TT = 4
  NI = 8
  Delays = {0, 2, 3, 4, 5}
  Delays2 = {0, 3, 5}
  LateAt = {1, 2, 3, 4}
  LateConns = {1, 2}
  SilentAnytime = TRUE
  MaxConn = 2
  Horizon = 40
  BPingAt = {0, 1, 9, 12}
  BPingIds = {1000000, 7}
  MaxBPings = 2
  AppAt = {0, 5, 8}
  MaxApp = 1
  Variant = "code"
VIEW StView
INVARIANTS DetectWithinBound DetectAfterSilence DetectFromLastAnsweredPing NoSpuriousClose NoEarlyClose PongEchoesId PingPacing RecoveryImmediate
CHECK_DEADLOCK FALSE
