SPECIFICATION Spec
CONSTANTS
  MaxMsgs = 3
  Classes <- ClassesConc
  NWriters = 2
  Conc = TRUE
  Excl = TRUE
  WinLock = FALSE
  Fault = "none"
  StrictBackend = TRUE
  DrainAfterDecode = TRUE
  ReadPolicy = "any"
  Modes <- ModesCt
  Levels <- LevelsOne
  Bits <- BitsOne
VIEW StView
INVARIANTS NoReaderRefused DictionariesEqual HeadDecodable ReadEqualsWrite InOrder NoInterleave NoDecodeFailure WindowIsSuffix NoWindowWithoutTakeover

CHECK_DEADLOCK FALSE
