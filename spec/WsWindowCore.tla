---------------------------- MODULE WsWindowCore ----------------------------
(* C13 -- the stateful part of the message transports (transport/websocket/transport.go,
   and, without dictionaries, transport/quic/transport.go): writer and reader dictionaries
   of the context-takeover mode, frames carrying the dictionary they were compressed
   against, an in-order channel, and writers as multi-step processes.

   Functional style (see CONTRIBUTING.md): the state is one record `st`, every operation
   is Apply(st, op).  The same Apply is used by the exhaustive model (WsWindow.tla), by the
   script generator configurations and by the trace monitor MonC13, which replays the
   operations recorded from the real code.

   What is modelled exactly as coded:
     * negotiation.go CompressConfig: level 0 (or no level) disables compression whatever
       the negotiated type is                                         -> EffMode
     * compress.go WindowSize = 1 << WindowBits                       -> WinSize
     * encodeToWithContextTakeover:  dict := writeWindowBuf; writeWindowBuf += msg;
       if WindowSize < Len then drop Len - WindowSize bytes from the front  -> Enc / Trim
     * decodeFromWithContextTakeover: the same on readWindowBuf       -> Read / Trim
     * Transport.Write = Conn.Writer() ; encodeTo { lock window ; encode ; wr.Write ; unlock } ; wr.Close
                                                                      -> start/acq/enc/emit/rel
       (the window lock is held from the encoding until wr.Write returned, not until wr.Close)
   Abstractions: a message is identified by its id k (index in st.msgs) and has a length
   n (any unit; the monitor uses real byte counts); plaintext is never represented -- a
   dictionary is a sequence of segments [k, a, b] = bytes a..b-1 of message k, so that
   "suffix of the concatenated plaintext" is exact arithmetic.  DEFLATE is not modelled:
   decode succeeds iff the frame's dictionary equals the reader's (modelling assumption);
   byte fidelity is the oracle of the replay.                                          *)
EXTENDS Integers, Sequences, FiniteSets, TLC, Json

CONSTANTS MaxMsgs,     \* bound on the number of messages (exhaustive model / generator)
          Classes,     \* message length classes offered by EnabledOps: subset of {"z","lt","eq","gt","gg"}
          NWriters,    \* writers 1..NWriters (concurrent model)
          Conc,        \* FALSE: ops write/read (one writer, Write is atomic); TRUE: start/acq/enc/emit/rel/read
          Excl,        \* TRUE: the backend Conn serialises Writer() until Close() (coder default backend)
          WinLock,     \* TRUE: encode is one critical section (writeWindowBufMu)
          Fault,       \* "none" or a seeded model fault (sensitivity runs): noTrimReader, readerWPlus1, noTrimWriter
          ReadPolicy,  \* "any" | "eager" (read directly after every write) | "lazy" (all writes first)
          StrictBackend,    \* TRUE: Conn.Reader() is refused while the previous message's reader has not reached the end of the
                            \* message (coder / nhooyr: "previous message not read to completion"); FALSE: the rest is discarded (gorilla)
          DrainAfterDecode  \* TRUE: Transport.Read reads the message reader to its end after decoding; FALSE (before the repair): the
                            \* compressed modes stop where the DEFLATE stream ends, and a message written through Conn.Writer()
                            \* (data frames, then an empty final frame at Close) is left before its end

Writers == 1..NWriters

\* ---- negotiation (transport/negotiation.go CompressConfig, compress.go WindowSize) ----
EffMode(mode, level) == IF level = 0 THEN "off" ELSE mode
\* 1 << bits; TLC integers are 32 bit: 2^31 and 2^32 are represented by 2^31-1 (no scenario
\* writes that many bytes, so the window is simply never trimmed)
WinSize(bits) == IF bits >= 31 THEN 2147483647 ELSE 2 ^ bits

\* ---- dictionaries ----
RECURSIVE Total(_)
Total(d) == IF d = <<>> THEN 0 ELSE (d[1].b - d[1].a) + Total(Tail(d))
RECURSIVE Drop(_, _)
Drop(d, x) == IF x <= 0 \/ d = <<>> THEN d
              ELSE LET l == d[1].b - d[1].a
                   IN IF l <= x THEN Drop(Tail(d), x - l)
                      ELSE <<[d[1] EXCEPT !.a = @ + x]>> \o Tail(d)
\* if W < Len then drop Len - W from the front
Trim(d, W) == Drop(d, Total(d) - W)
AppendMsg(d, k, n) == IF n = 0 THEN d ELSE Append(d, [k |-> k, a |-> 0, b |-> n])

TrimW(d, W) == IF Fault = "noTrimWriter" THEN d ELSE Trim(d, W)
TrimR(d, W) == CASE Fault = "noTrimReader" -> d
                 [] Fault = "readerWPlus1" -> Trim(d, W + 1)
                 [] OTHER -> Trim(d, W)

Init0(mode, W) ==
    [mode |-> mode, W |-> W,
     ww |-> <<>>, rw |-> <<>>,               \* writer / reader dictionary
     msgs |-> <<>>,                          \* id -> [g, q, n]: writer, per-writer number, length
     encs |-> <<>>,                          \* ids in encode order
     chan |-> <<>>,                          \* frames in flight [k, dict]
     wire |-> <<>>,                          \* ids in the order the frames were put on the wire
     reads |-> <<>>,                         \* [k, ok] per Read call
     nq |-> [g \in Writers |-> 0],
     pc |-> [g \in Writers |-> "idle"],      \* idle, wait, acq, encr, enc, emit
     cur |-> [g \in Writers |-> 0],
     fdict |-> [g \in Writers |-> <<>>],
     holder |-> 0,                           \* writer owning the Conn writer (Excl)
     wl |-> 0,                               \* writer holding writeWindowBufMu: from encode until its wr.Write returned
     open |-> {}, inter |-> FALSE, fail |-> FALSE, last |-> "none",
     left |-> FALSE,                         \* the previous message's reader was left before the end of the message
     refused |-> FALSE]                      \* a Conn.Reader() call was refused

\* ---- writer steps (Transport.Write) ----
Start(st, g, n) ==
    [st EXCEPT !.msgs = Append(@, [g |-> g, q |-> st.nq[g] + 1, n |-> n]),
               !.nq[g] = @ + 1, !.pc[g] = "wait", !.cur[g] = Len(st.msgs) + 1, !.last = "start"]
Acq(st, g) == [st EXCEPT !.pc[g] = "acq", !.holder = IF Excl THEN g ELSE @, !.last = "acq"]
EncR(st, g) == [st EXCEPT !.fdict[g] = IF st.mode = "ct" THEN st.ww ELSE <<>>, !.pc[g] = "encr",
                          !.wl = IF WinLock /\ st.mode = "ct" THEN g ELSE @, !.last = "encr"]
EncW(st, g) == [st EXCEPT !.ww = IF st.mode = "ct" THEN TrimW(AppendMsg(@, st.cur[g], st.msgs[st.cur[g]].n), st.W) ELSE @,
                          !.encs = Append(@, st.cur[g]),
                          !.pc[g] = "enc", !.last = "enc"]
Enc(st, g) == EncW(EncR(st, g), g)
Emit(st, g) == [st EXCEPT !.pc[g] = "emit", !.open = @ \cup {g}, !.wl = IF @ = g THEN 0 ELSE @,
                          !.inter = @ \/ (st.open \ {g}) # {}, !.last = "emit"]
Rel(st, g) == [st EXCEPT !.pc[g] = "idle", !.open = @ \ {g},
                         !.chan = Append(@, [k |-> st.cur[g], dict |-> st.fdict[g]]),
                         !.wire = Append(@, st.cur[g]),
                         !.holder = IF @ = g THEN 0 ELSE @, !.last = "rel"]
\* the sequential writer: Transport.Write as one step
Write(st, g, n) == Rel(Emit(Enc(Acq(Start(st, g, n), g), g), g), g)

\* ---- reader (Transport.Read): one frame per call ----
Read(st) ==
    IF st.chan = <<>> THEN [st EXCEPT !.last = "empty"]
    ELSE IF StrictBackend /\ st.left
    THEN [st EXCEPT !.refused = TRUE, !.fail = TRUE, !.reads = Append(@, [k |-> 0, ok |-> FALSE]), !.last = "refused"]
    ELSE LET f == Head(st.chan)
             ok == st.mode # "ct" \/ f.dict = st.rw
         IN [st EXCEPT !.chan = Tail(@),
                       !.reads = Append(@, [k |-> f.k, ok |-> ok]),
                       !.rw = IF st.mode = "ct" /\ ok THEN TrimR(AppendMsg(@, f.k, st.msgs[f.k].n), st.W) ELSE @,
                       !.fail = @ \/ ~ok, !.last = "read",
                       \* the uncompressed mode copies until the reader reports the end of the message
                       !.left = st.mode # "off" /\ ~DrainAfterDecode]

Apply(st, op) ==
    CASE op.a = "write" -> Write(st, op.tag, op.n)
      [] op.a = "read"  -> Read(st)
      [] op.a = "start" -> Start(st, op.tag, op.n)
      [] op.a = "acq"   -> Acq(st, op.tag)
      [] op.a = "enc"   -> Enc(st, op.tag)
      [] op.a = "encr"  -> EncR(st, op.tag)
      [] op.a = "encw"  -> EncW(st, op.tag)
      [] op.a = "emit"  -> Emit(st, op.tag)
      [] op.a = "rel"   -> Rel(st, op.tag)
      [] OTHER -> st

\* ---- length classes relative to the window ----
\* (for huge windows -- bits > 20 -- the classes are taken relative to 2^20 so that the numbers stay
\* small; every class is then below the window and the window is never trimmed)
ClassBase(W) == IF W > 1048576 THEN 1048576 ELSE W
ClassLen(c, W) == LET B == ClassBase(W)
                  IN CASE c = "z" -> 0
                       [] c = "lt" -> B - 1
                       [] c = "eq" -> B
                       [] c = "gt" -> B + 1
                       [] c = "gg" -> 2 * B + 1

Busy(st) == \E g \in Writers : st.pc[g] # "idle"
EnabledOps(st) ==
    (IF ~Conc /\ Len(st.msgs) < MaxMsgs /\ (ReadPolicy = "eager" => st.chan = <<>>)
     THEN { [a |-> "write", tag |-> 1, n |-> ClassLen(c, st.W), mode |-> c] : c \in Classes } ELSE {})
    \cup (IF st.chan # <<>> /\ (ReadPolicy = "lazy" => (Len(st.msgs) = MaxMsgs /\ ~Busy(st)))
          THEN {[a |-> "read"]} ELSE {})
    \cup (IF Conc
          THEN { [a |-> "start", tag |-> g, n |-> ClassLen(c, st.W), mode |-> c] :
                    g \in {x \in Writers : st.pc[x] = "idle" /\ Len(st.msgs) < MaxMsgs}, c \in Classes }
               \cup { [a |-> "acq", tag |-> g] : g \in {x \in Writers : st.pc[x] = "wait" /\ (Excl => st.holder = 0)} }
               \cup (IF WinLock THEN { [a |-> "enc", tag |-> g] : g \in {x \in Writers : st.pc[x] = "acq" /\ st.wl = 0} }
                     ELSE { [a |-> "encr", tag |-> g] : g \in {x \in Writers : st.pc[x] = "acq"} }
                          \cup { [a |-> "encw", tag |-> g] : g \in {x \in Writers : st.pc[x] = "encr"} })
               \cup { [a |-> "emit", tag |-> g] : g \in {x \in Writers : st.pc[x] = "enc"} }
               \cup { [a |-> "rel", tag |-> g] : g \in {x \in Writers : st.pc[x] = "emit"} }
          ELSE {})

\* ------------------------------------------------------------------ properties
Quiescent(st) == st.chan = <<>> /\ \A g \in Writers : st.pc[g] \notin {"encr", "enc", "emit"}
\* after every message (nothing in flight) both dictionaries are equal
DictionariesEqualOf(st) == Quiescent(st) => st.ww = st.rw
\* the next frame was compressed against exactly the reader's dictionary
HeadDecodableOf(st) == (st.mode = "ct" /\ st.chan # <<>>) => Head(st.chan).dict = st.rw
\* one message per Read call, the same messages in the order they went on the wire, all decodable
ReadEqualsWriteOf(st) ==
    /\ Len(st.reads) + Len(st.chan) = Len(st.wire)
    /\ \A i \in 1..Len(st.reads) : st.reads[i].ok /\ st.reads[i].k = st.wire[i]
    /\ \A i \in 1..Len(st.chan) : st.chan[i].k = st.wire[Len(st.reads) + i]
\* per-writer order is preserved on the wire (and every message at most once)
InOrderOf(st) ==
    \A i, j \in 1..Len(st.wire) :
        (i < j /\ st.msgs[st.wire[i]].g = st.msgs[st.wire[j]].g) => st.msgs[st.wire[i]].q < st.msgs[st.wire[j]].q
\* nobody writes into the connection while another writer's message is open
NoInterleaveOf(st) == ~st.inter
NoDecodeFailureOf(st) == ~st.fail
\* the backend never refuses to hand out the next message
NoReaderRefusedOf(st) == ~st.refused
\* the dictionary is the suffix of the concatenated plaintext of length min(total, W)
RECURSIVE Concat(_, _)
Concat(st, ids) == IF ids = <<>> THEN <<>>
                   ELSE AppendMsg(Concat(st, SubSeq(ids, 1, Len(ids) - 1)), ids[Len(ids)], st.msgs[ids[Len(ids)]].n)
WindowIsSuffixOf(st) ==
    st.mode = "ct" =>
        /\ (\A g \in Writers : st.pc[g] # "encr") => st.ww = Trim(Concat(st, st.encs), st.W)
        /\ st.rw = Trim(Concat(st, [i \in 1..Len(st.reads) |-> st.reads[i].k]), st.W)
        /\ Total(st.ww) <= st.W /\ Total(st.rw) <= st.W
NoWindowWithoutTakeoverOf(st) == st.mode # "ct" => (st.ww = <<>> /\ st.rw = <<>>)

AllInvOf(st) == /\ DictionariesEqualOf(st) /\ HeadDecodableOf(st) /\ ReadEqualsWriteOf(st) /\ InOrderOf(st)
                /\ NoInterleaveOf(st) /\ NoDecodeFailureOf(st) /\ NoReaderRefusedOf(st) /\ WindowIsSuffixOf(st) /\ NoWindowWithoutTakeoverOf(st)
=============================================================================
