SPECIFICATION MSpec
CONSTANTS
  DataIds = {"A", "B"}
  Writers = {"W1", "W2"}
  Flushers = {"F1"}
  MaxWrites = 2
  Policy = "none"
  Threshold = 2
  Sizes = {1}
  ZeroPointWrites = FALSE
  Reliable = TRUE
  MaxFaults = 0
  MaxDupAcks = 1
  MaxAcks = 2
  AliasGrants = TRUE
  CloseShortcut = FALSE
  MaxConflicts = 0
  CancelIsTimeout = FALSE
  RecordScript = TRUE
  FlushAbandon = FALSE
  FlushResBuffered = FALSE
  NetLoss = FALSE
VIEW MView
INVARIANTS MonSafetyHolds MonFinalHolds MonPremiseMet
CHECK_DEADLOCK FALSE
