SPECIFICATION Spec
CONSTANTS
  NW = 2
  Budget = 2
  MaxWrites = 2
  MaxUWFail = 1
  MaxUR = 1
  MaxPing = 1
  MaxRErr = 1
  MaxInc = 3
  MaxDialFail = 2
  MaxHsFail = 1
  MaxReads = 1
  AllowClose = TRUE
  LateOk = FALSE
  FixWL = TRUE
  GenCanon = FALSE
VIEW StView
INVARIANTS AcceptedExactlyOnce OrderPreserved RedialKeepsIdAndFlag PingFiltered ReadsContinue SummaryAgrees NoBlockAfterBudgetOrClose
CHECK_DEADLOCK FALSE
