SPECIFICATION Spec
CONSTANTS
  MaxMsgs = 6
  Classes <- ClassesAll
  NWriters = 1
  Conc = FALSE
  Excl = TRUE
  WinLock = TRUE
  Fault = "none"
  StrictBackend = TRUE
  DrainAfterDecode = TRUE
  ReadPolicy = "any"
  Modes <- ModesAll
  Levels <- LevelsL1
  Bits <- BitsL1
VIEW StView
INVARIANTS NoReaderRefused DictionariesEqual HeadDecodable ReadEqualsWrite InOrder NoInterleave NoDecodeFailure WindowIsSuffix NoWindowWithoutTakeover
CHECK_DEADLOCK FALSE
