------------------------------ MODULE MonC08 ------------------------------
(* Property monitor for C08: no API call blocks forever.  Every blocking public call returns no later than the bound
   that governs it (its context, the stream's close timeout, keep-alive detection) plus scheduling slack, whatever the
   broker does (answer, delay, drop, misaddress, disconnect); afterwards the connection still works (probe phase after
   the Mark "probe": every call succeeds).  The bound of each call is logged by the driver (boundMs; 0 = unbounded call:
   not judged unless the watchdog fires).  Slack = 350 ms + 50 % + the scheduling stalls the harness recorded.                                                    *)
EXTENDS MonCommon

MonInit == [ calls |-> <<>>, watchdog |-> <<>>, probeI |-> 0, died |-> FALSE, stuck |-> 0, stallMs |-> 0 ]
MonReset(e) == MonInit

MonStep(m, e) ==
    CASE e.ev = "ApiRet" -> [m EXCEPT !.calls = Append(@, [op |-> e.op, g |-> e.g, dur |-> e.durMs, bound |-> e.boundMs, err |-> e.err, i |-> e.i, ci |-> e.ci])]
      [] e.ev = "Watchdog" -> [m EXCEPT !.watchdog = Append(@, [op |-> e.op, g |-> e.g])]
      [] e.ev = "Mark" /\ e.what = "probe" -> [m EXCEPT !.probeI = e.i]
      [] e.ev = "Panic" -> [m EXCEPT !.died = TRUE]
      [] e.ev = "Exit" -> [m EXCEPT !.died = @ \/ e.status # 0]
      [] e.ev = "Stuck" -> [m EXCEPT !.stuck = @ + 1]
      \* scheduling stalls recorded by the harness (stallWatch): a loaded machine delays the library's timers; every bound is extended by them
      [] e.ev = "Stall" -> [m EXCEPT !.stallMs = @ + e.ms]
      [] OTHER -> m

Allowed(b) == b + 350 + b \div 2
Overrun(m) == \E c \in RangeS(m.calls) : c.bound > 0 /\ c.dur > Allowed(c.bound) + m.stallMs
Hang(m) == m.watchdog # <<>>
\* after the adversarial phase a cooperative broker must be served normally
ProbeFailed(m) == m.probeI > 0 /\ \E c \in RangeS(m.calls) : c.ci > m.probeI /\ c.err # ""
ProbeMissing(m) == m.probeI > 0 /\ ~\E c \in RangeS(m.calls) : c.ci > m.probeI

Clause(name, b) == IF b THEN {name} ELSE {}
MonVerdict(m) == Clause("Overrun", Overrun(m)) \cup Clause("Hang", Hang(m)) \cup Clause("ProbeFailed", ProbeFailed(m))
                 \cup Clause("ProbeMissing", ProbeMissing(m) /\ ~Hang(m)) \cup Clause("ProcessDied", m.died)
MonStats(m) == [ calls |-> Len(m.calls), bounded |-> Cardinality({ k \in 1..Len(m.calls) : m.calls[k].bound > 0 }),
                 ctxReturns |-> Cardinality({ k \in 1..Len(m.calls) : m.calls[k].err = "ctx" }),
                 probes |-> Cardinality({ k \in 1..Len(m.calls) : m.probeI > 0 /\ m.calls[k].ci > m.probeI }) ]
=============================================================================
