------------------------------ MODULE MonC02 ------------------------------
(* Property monitor for C02: a reliable upstream loses no data across disconnect and resume.
   One upstream (the first opened). Receptions are keyed by (incarnation c, seq).

   Safety (every prefix): a sequence number is never reused for different content, on any incarnation;
   every resume request of the stream carries the original stream id.
   Final (at Quiesced, when the connection is back, CloseUp returned nil and the stream was never reported
   closed with an error): every point of a nil-returning write was received with its original payload in a
   chunk carrying the sequence number it was first given; every chunk received or announced (send hook) on an
   incarnation and not acknowledged there before that incarnation died was received again on a later
   incarnation; the close totals equal what was written.                                          *)
EXTENDS MonCommon

MonInit == [ sid |-> "", qos |-> "", writes |-> <<>>, recs |-> <<>>, acks |-> <<>>, downs |-> <<>>, hookB |-> <<>>,
             resumes |-> <<>>, resumeOk |-> 0, closeReq |-> <<>>, closeRet |-> "none", upClosedErr |-> FALSE, streamClosedErr |-> FALSE,
             quiesced |-> FALSE, watchdog |-> 0, wrongIdResume |-> 0, nUp |-> 0, removedUnacked |-> {}, removes |-> 0 ]
MonReset(e) == MonInit

GroupsOf(gs) == { <<gs[k].id, gs[k].pts>> : k \in 1..Len(gs) }

MonStep(m, e) ==
    CASE e.ev = "ApiRet" /\ e.op = "OpenUpstream" /\ e.err = "" ->
            IF m.sid = "" THEN [m EXCEPT !.sid = e.sid, !.nUp = @ + 1] ELSE [m EXCEPT !.nUp = @ + 1]
      [] e.ev = "ApiCall" /\ e.op = "OpenUpstream" /\ m.sid = "" -> [m EXCEPT !.qos = e.qos]
      [] e.ev = "ApiRet" /\ e.op = "Write" /\ e.sid = m.sid ->
            [m EXCEPT !.writes = Append(@, [id |-> e.id, pts |-> e.pts, err |-> e.err]),
                      !.streamClosedErr = @ \/ e.err = "streamClosed"]
      [] e.ev = "ApiRet" /\ e.op = "CloseUp" /\ e.sid = m.sid -> [m EXCEPT !.closeRet = e.err]
      [] e.ev = "BRecvChunk" /\ e.sid = m.sid ->
            [m EXCEPT !.recs = Append(@, [c |-> e.c, seq |-> e.seq, g |-> GroupsOf(e.groups), i |-> e.i])]
      [] e.ev = "HookBefore" /\ e.sid = m.sid -> [m EXCEPT !.hookB = Append(@, [seq |-> e.seq, g |-> GroupsOf(e.groups)])]
      [] e.ev = "BSendAck" /\ e.sid = m.sid ->
            [m EXCEPT !.acks = @ \o [k \in 1..Len(e.results) |-> [c |-> e.c, seq |-> e.results[k][1], i |-> e.i]]]
      [] e.ev = "BLinkDown" -> [m EXCEPT !.downs = Append(@, [c |-> e.c, i |-> e.i, cause |-> e.cause])]
      [] e.ev = "BRecvReq" /\ e.kind = "UpstreamResumeRequest" ->
            IF e.sid = m.sid THEN [m EXCEPT !.resumes = Append(@, [c |-> e.c, i |-> e.i])]
            ELSE IF e.sid = "?" THEN [m EXCEPT !.wrongIdResume = @ + 1] ELSE m
      [] e.ev = "UpResumed" /\ e.sid = m.sid -> [m EXCEPT !.resumeOk = @ + 1]
      [] e.ev = "BRecvReq" /\ e.kind = "UpstreamCloseRequest" /\ e.sid = m.sid ->
            [m EXCEPT !.closeReq = Append(@, [final |-> e.final, total |-> e.total, c |-> e.c])]
      [] e.ev = "UpClosed" /\ e.sid = m.sid -> [m EXCEPT !.upClosedErr = @ \/ e.err # ""]
      [] e.ev = "StoreOp" /\ e.op = "Remove" /\ e.sid = m.sid /\ e.ok ->
            \* code-level StoredUntilAcked: a chunk leaves the sent storage only after a result for it was sent by the broker
            [m EXCEPT !.removes = @ + 1,
                      !.removedUnacked = IF \E a \in RangeS(m.acks) : a.seq = e.seq THEN @ ELSE @ \cup {e.seq}]
      [] e.ev = "Watchdog" -> [m EXCEPT !.watchdog = @ + 1]
      [] e.ev = "Quiesced" -> [m EXCEPT !.quiesced = TRUE]
      [] OTHER -> m

OkWrites(m) == SelectSeq(m.writes, LAMBDA w : w.err = "")
AllWritten(m) == Concat([k \in 1..Len(OkWrites(m)) |-> [j \in 1..Len(OkWrites(m)[k].pts) |-> <<OkWrites(m)[k].id, OkWrites(m)[k].pts[j]>>]])
\* all receptions of a point <<id, pt>>: the set of seqs under which it was seen
SeqsOf(m, x) == { r.seq : r \in { r2 \in RangeS(m.recs) : \E g \in r2.g : g[1] = x[1] /\ x[2] \in RangeS(g[2]) } }
\* a point with the same token but different payload record received
TokSeen(m, x) == \E r \in RangeS(m.recs) : \E g \in r.g : \E q \in RangeS(g[2]) : q[1] = x[2][1] /\ (q # x[2] \/ g[1] # x[1])
FirstSeqOfTok(m, tok) ==
    LET hs == { h.seq : h \in { h2 \in RangeS(m.hookB) : \E g \in h2.g : \E q \in RangeS(g[2]) : q[1] = tok } }
        rs == { r.seq : r \in { r2 \in RangeS(m.recs) : \E g \in r2.g : \E q \in RangeS(g[2]) : q[1] = tok } }
    IN IF hs # {} THEN Max0(hs) ELSE Max0(rs)       \* the send hook announces each chunk once: its seq is the first one given

Healthy(m) == /\ m.sid # "" /\ m.qos = "reliable" /\ m.quiesced /\ m.closeRet = "" /\ ~m.upClosedErr /\ ~m.streamClosedErr /\ m.watchdog = 0

\* ---- safety
SeqReuse(m) == \E a, b \in RangeS(m.recs) : a.seq = b.seq /\ a.g # b.g
\* a point (identified by its token) received under two different sequence numbers, or with a payload other than written
AllRecvPts(m) == UNION { UNION { { <<r.seq, g[1], g[2][k]>> : k \in 1..Len(g[2]) } : g \in r.g } : r \in RangeS(m.recs) }
PointUnderTwoSeqs(m) == \E a, b \in AllRecvPts(m) : a[3][1] = b[3][1] /\ a[1] # b[1]
AllCalledPts(m) == UNION { { <<w.id, w.pts[k]>> : k \in 1..Len(w.pts) } : w \in RangeS(m.writes) }
PayloadAlteredSafe(m) == \E a \in AllRecvPts(m) : \E w \in AllCalledPts(m) : w[2][1] = a[3][1] /\ (w[2] # a[3] \/ w[1] # a[2])
\* ---- final
Lost(m) == \E k \in 1..Len(AllWritten(m)) : SeqsOf(m, AllWritten(m)[k]) = {}
PayloadAltered(m) == \E k \in 1..Len(AllWritten(m)) : TokSeen(m, AllWritten(m)[k])
SeqChanged(m) == \E k \in 1..Len(AllWritten(m)) :
                    LET x == AllWritten(m)[k] IN SeqsOf(m, x) # {} /\ SeqsOf(m, x) # {FirstSeqOfTok(m, x[2][1])}
\* chunk seen on incarnation c (received there), c died, no result for it was sent on c  =>  received on a later incarnation
DeadIncs(m) == { d.c : d \in { d2 \in RangeS(m.downs) : d2.cause = "script" } }
NotRetransmitted(m) ==
    \E r \in RangeS(m.recs) : r.c \in DeadIncs(m) /\ ~(\E a \in RangeS(m.acks) : a.c = r.c /\ a.seq = r.seq)
                              /\ ~(\E r2 \in RangeS(m.recs) : r2.seq = r.seq /\ r2.c > r.c)
\* a chunk announced to the send hook but never received at all (its write failed on a dying link) must arrive after resume
AnnouncedNeverReceived(m) == \E h \in RangeS(m.hookB) : ~(\E r \in RangeS(m.recs) : r.seq = h.seq)
CloseTotalsWrong(m) == \/ Len(m.closeReq) = 0
                       \/ LET q == m.closeReq[Len(m.closeReq)] IN
                            q.total # Len(AllWritten(m)) \/ q.final # Max0({ h.seq : h \in RangeS(m.hookB) } \cup { r.seq : r \in RangeS(m.recs) })

Clause(name, b) == IF b THEN {name} ELSE {}
MonVerdict(m) ==
    IF m.sid = "" THEN {}
    ELSE Clause("SeqReuse", SeqReuse(m)) \cup Clause("ResumeWithForeignId", m.wrongIdResume > 0 /\ m.nUp = 1)
         \cup Clause("RemovedUnacked", m.qos = "reliable" /\ m.removedUnacked # {})
         \cup Clause("PointUnderTwoSeqs", PointUnderTwoSeqs(m)) \cup Clause("PayloadAltered", PayloadAlteredSafe(m))
         \cup (IF ~Healthy(m) THEN {}
               ELSE Clause("Lost", Lost(m)) \cup Clause("PayloadAltered", PayloadAltered(m)) \cup Clause("SeqChanged", SeqChanged(m))
                    \cup Clause("NotRetransmitted", NotRetransmitted(m)) \cup Clause("AnnouncedNeverReceived", AnnouncedNeverReceived(m))
                    \cup Clause("CloseTotalsWrong", CloseTotalsWrong(m)))
MonStats(m) == [ healthy |-> IF Healthy(m) THEN 1 ELSE 0, writes |-> Len(m.writes), receptions |-> Len(m.recs),
                 resumes |-> Len(m.resumes), resumed |-> m.resumeOk, cuts |-> Cardinality(DeadIncs(m)),
                 retransmissions |-> Cardinality({ r \in RangeS(m.recs) : \E r2 \in RangeS(m.recs) : r2.seq = r.seq /\ r2.c < r.c }),
                 storeRemoves |-> m.removes, escaped |-> IF m.upClosedErr \/ m.streamClosedErr THEN 1 ELSE 0, watchdog |-> m.watchdog ]
=============================================================================
