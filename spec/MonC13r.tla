---------------------------- MODULE MonC13r ----------------------------
(* Trace monitor for C13 over the REAL WebSocket backends (kind "wsreal": coder, gorilla, nhooyr dialled over loopback to an echo
   server that either fragments its messages - data frames plus an empty final frame - or sends one frame per message).
   The recorded operations are applied to the same WsWindowCore model as in MonC13 (the one transport is writer and reader: the echo
   returns every frame byte for byte, so its read dictionary follows its write dictionary exactly as the peer's would):
     WriteFailed      a Write returned an error
     ReadMismatch     a Read failed, or did not return exactly the message at the head of the model channel (one per call, in order,
                      byte for byte - the harness reports the id of the written message that equals the result)
     CounterMismatch  at the end the bytes counted as read differ from the bytes counted as written
     Crash
   Kind "quicmix" (one event MixOp): reliable writers concurrent with datagram writers on one real quic.Transport (StreamFramingCore with
   DWriters > 0): WriteFailed / Crash (a Write, WriteUnreliable or datagram Write failed / panicked), ReadMismatch (a reliable message
   missing, altered or out of its writer's order, or the peer's Read failed), DatagramCorrupt (a datagram message arrived that nobody wrote) *)
EXTENDS WsWindowCore

MonInit == [st |-> Init0("off", 1), bad |-> {}, writes |-> 0, reads |-> 0, finals |-> 0, ct |-> 0, frag |-> 0, dictreads |-> 0]
MonReset(e) == [MonInit EXCEPT !.st = Init0(EffMode(e.p.mode, e.p.level), WinSize(e.p.bits)),
                               !.ct = IF EffMode(e.p.mode, e.p.level) = "ct" THEN 1 ELSE 0,
                               !.frag = IF e.p.server = "frag" THEN 1 ELSE 0]

First(m, b) == IF m.bad # {} THEN m.bad ELSE b
MixBad(e) == (IF e.npanic > 0 THEN {"Crash"} ELSE {})
             \cup (IF e.nfail > 0 \/ e.dfail > 0 THEN {"WriteFailed"} ELSE {})
             \cup (IF e.readErr # "" \/ e.mismatch > 0 \/ e.nread # e.total THEN {"ReadMismatch"} ELSE {})
             \cup (IF e.dbad > 0 THEN {"DatagramCorrupt"} ELSE {})
MonStep(m, e) ==
    IF e.ev = "MixOp" THEN [m EXCEPT !.bad = First(m, MixBad(e)), !.finals = @ + 1, !.writes = @ + e.total + e.dsent, !.reads = @ + e.nread + e.drecv]
    ELSE IF e.ev # "RealOp" THEN m
    ELSE IF e.a = "write"
    THEN [m EXCEPT !.st = Apply(m.st, [a |-> "write", tag |-> 1, n |-> e.n]),
                   !.bad = First(m, IF e.ret = "panic" THEN {"Crash"} ELSE IF e.ret # "ok" THEN {"WriteFailed"} ELSE {}),
                   !.writes = @ + 1]
    ELSE IF e.a = "read"
    THEN LET st2 == Apply(m.st, [a |-> "read"])
         IN [m EXCEPT !.st = st2,
                      !.bad = First(m, IF e.ret = "panic" THEN {"Crash"}
                                       ELSE IF m.st.chan = <<>> THEN {"ReadMismatch"}
                                       ELSE LET k == Head(m.st.chan).k
                                            IN IF e.ret # "ok" \/ e.rdm # k \/ e.rdlen # m.st.msgs[k].n \/ ~st2.reads[Len(st2.reads)].ok
                                               THEN {"ReadMismatch"} ELSE {}),
                      !.reads = @ + 1,
                      !.dictreads = @ + (IF m.st.rw # <<>> THEN 1 ELSE 0)]
    ELSE IF e.a = "final"
    THEN [m EXCEPT !.bad = First(m, (IF m.st.chan # <<>> THEN {"ReadMismatch"} ELSE {}) \cup (IF e.tx # e.rx THEN {"CounterMismatch"} ELSE {})),
                   !.finals = @ + 1]
    ELSE m

MonVerdict(m) == m.bad \cup (IF AllInvOf(m.st) THEN {} ELSE {"ModelInvariant"})
MonStats(m) == [writes |-> m.writes, reads |-> m.reads, finals |-> m.finals, ct |-> m.ct, frag |-> m.frag, dictreads |-> m.dictreads]
=============================================================================
