SPECIFICATION Spec
CONSTANTS
  SWriters = 2
  SPer = 1
  DWriters = 1
  DPer = 1
  SharedEncoder = TRUE
  SendLock = TRUE
INVARIANTS NoCorruptMessage FramingIntact StreamOrder
CHECK_DEADLOCK FALSE
