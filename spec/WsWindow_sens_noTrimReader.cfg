SPECIFICATION Spec
CONSTANTS
  MaxMsgs = 3
  Classes <- ClassesAll
  NWriters = 1
  Conc = FALSE
  Excl = TRUE
  WinLock = TRUE
  Fault = "noTrimReader"
  StrictBackend = TRUE
  DrainAfterDecode = TRUE
  ReadPolicy = "any"
  Modes <- ModesCt
  Levels <- LevelsOne
  Bits <- BitsOne
VIEW StView
INVARIANTS DictionariesEqual HeadDecodable ReadEqualsWrite InOrder NoInterleave NoDecodeFailure WindowIsSuffix NoWindowWithoutTakeover

CHECK_DEADLOCK FALSE
