SPECIFICATION Spec
CONSTANTS
  P = 1188
  MsgLens <- LensFour
  Expiry = 1
  MaxTicks = 0
  MaxBad = 0
  MaxSegIdx = 65535
  SlotWrap = FALSE
  GenCanon = TRUE
INVARIANTS ExactOrNothing NothingIfMissing AllSegmentsIn
CONSTRAINT GenPrint
CHECK_DEADLOCK FALSE
