---------------------------- MODULE NegotiationCore ----------------------------
(* Transport negotiation parameters (transport/negotiation.go, transport/dialer.go,
   transport/{quic,websocket,webtransport}/negotiation.go, transport/compress).

   Functional style: the component has no state of its own, so the "state" is only the
   record of the one operation applied and the outputs the model expects for it.
   Every grid point / corruption is ONE operation:  Apply(Init0, op).  The same Apply is
   used by the exhaustive model (Negotiation.tla), by the script generator and by the
   trace monitor MonC17, which compares the outputs of the real code with `exp`.

   A parameter set is the record
       [enc, comp : STRING, lvl, win : <<>> (nil pointer) or <<n>>, rc : BOOLEAN,
        tid, tgid : STRING, tgcount, tgidx : Int]
   Transcribed from the code (one operator per function):
       Validate          NegotiationParams.Validate (incl. filling in the default level)
       CompressConfig    NegotiationParams.CompressConfig(base)
       MarshalKV         MarshalKeyValues: json tags, omitempty rules, ",string" numbers,
                         reconnect rendered as "true"
       UnmarshalKV       UnmarshalKeyValues: reconnect must be "true"/"false", numbers must be
                         integer literals, unknown keys are ignored
       URLMarshal/URLUnmarshal   websocket + webtransport carriers (exactly one value per key,
                         no empty key)
       QuicRead          quic readKeyValues on an abstract byte layout (chunks)
   Declarative counterparts used by the invariants: InvalidP, Canonical, NamedCfg.

   Readings taken (the weaker one where the statement admits two):
     * level / window ranges are only constrained when a compression type is named
       (Validate's `case "": // ok`);
     * "unchanged" round trip is claimed for the set as given and for its canonical form
       (Validate fills in the default level 6 when a type is named without level);
     * a disabled configuration (Enable = false) carries no mode/level/window
       (compress.Config: "if Enable is false all other settings are ignored"), so two
       configurations are compared through Eff();
     * invalid UTF-8 / empty keys are wire-format notions: claimed for the QUIC binary form
       (and the empty key for URL values), for the already-decoded key/value map only when
       StrictKV = TRUE (diagnostic, off by default).                                      *)
EXTENDS Integers, Sequences, FiniteSets, TLC, Json

CONSTANTS EncVals,        \* grid: encoding names
          CompVals,       \* grid: compression type names
          LvlVals,        \* grid: compression levels, <<>> (nil pointer) or <<n>>
          WinVals,        \* grid: window bits, <<>> (nil pointer) or <<n>>
          RcVals,         \* grid: reconnect flag values
          TidVals,        \* grid: transport ids
          GrpVals,        \* grid: indexes into Groups
          CorruptBaseIds, \* which CBase(i) are used as raw material for the corruption operators
          StrictKV        \* TRUE: also claim UTF-8 / empty-key rejection for the key/value map and URL values

KnownEncs == {"", "json", "proto"}
CompTypes == {"per-message", "context-takeover"}
DefaultLevel == 6

ZeroP == [enc |-> "", comp |-> "", lvl |-> <<>>, win |-> <<>>, rc |-> FALSE, tid |-> "",
          tgid |-> "", tgcount |-> 0, tgidx |-> 0]

\* transport-group field combinations: <<id, total count, index>>
Groups == <<<<"", 0, 0>>, <<"g", 2, 1>>, <<"g", 2, 0>>, <<"", 3, 2>>>>

\* ------------------------------------------------------------------ Validate (transcription)
Validate(p) ==
    IF p.enc \notin KnownEncs THEN [ok |-> FALSE, p |-> p]
    ELSE IF p.comp = "" THEN [ok |-> TRUE, p |-> p]
    ELSE IF p.comp \notin CompTypes THEN [ok |-> FALSE, p |-> p]
    ELSE IF p.lvl # <<>> /\ (p.lvl[1] < 0 \/ p.lvl[1] > 9) THEN [ok |-> FALSE, p |-> p]
    ELSE LET p1 == IF p.lvl = <<>> THEN [p EXCEPT !.lvl = <<DefaultLevel>>] ELSE p
         IN IF p1.win # <<>> /\ (p1.win[1] < 0 \/ p1.win[1] > 32) THEN [ok |-> FALSE, p |-> p1]
            ELSE [ok |-> TRUE, p |-> p1]

\* declarative counterpart (the property's wording)
InRange(o, lo, hi) == o = <<>> \/ (o[1] >= lo /\ o[1] <= hi)
InvalidP(p) == \/ p.enc \notin KnownEncs
               \/ p.comp \notin (CompTypes \cup {""})
               \/ (p.comp \in CompTypes /\ ~InRange(p.lvl, 0, 9))
               \/ (p.comp \in CompTypes /\ ~InRange(p.win, 0, 32))
Canonical(p) == IF p.comp \in CompTypes /\ p.lvl = <<>> THEN [p EXCEPT !.lvl = <<DefaultLevel>>] ELSE p
\* valid by the weaker reading only: no type named, level/window out of range, yet accepted
UncheckedNoType(p) == p.comp = "" /\ (~InRange(p.lvl, 0, 9) \/ ~InRange(p.win, 0, 32))

\* ------------------------------------------------------------------ CompressConfig (transcription)
\* compress.Config = [enable, level, dct (DisableContextTakeover), win (WindowBits)]
CompressConfig(p, base) ==
    IF p.lvl = <<>> \/ p.lvl[1] = 0 THEN [base EXCEPT !.enable = FALSE]
    ELSE LET b1 == [base EXCEPT !.enable = TRUE, !.level = p.lvl[1]]
             b2 == IF p.win # <<>> THEN [b1 EXCEPT !.win = p.win[1]] ELSE b1
         IN CASE p.comp = "per-message" -> [b2 EXCEPT !.dct = TRUE]
              [] p.comp = "context-takeover" -> [b2 EXCEPT !.dct = FALSE]
              [] OTHER -> b2

BaseA == [enable |-> FALSE, level |-> 1, dct |-> FALSE, win |-> 9]
BaseB == [enable |-> TRUE, level |-> 8, dct |-> TRUE, win |-> 14]
BaseSet == [enable : BOOLEAN, level : {0, 1, 8}, dct : BOOLEAN, win : {0, 9, 14}]

Disabled == [enable |-> FALSE, level |-> 0, dct |-> FALSE, win |-> 0]
\* effective configuration: nothing but "off" when disabled
Eff(c) == IF c.enable THEN c ELSE Disabled
\* the set names type, level and window (what every dialer of the library produces)
NamedP(p) == p.comp \in CompTypes /\ p.lvl # <<>> /\ p.win # <<>>
\* the configuration such a set names (declarative)
NamedCfg(p) == IF p.lvl[1] = 0 THEN Disabled
               ELSE [enable |-> TRUE, level |-> p.lvl[1], dct |-> (p.comp = "per-message"), win |-> p.win[1]]

\* ------------------------------------------------------------------ key/value codec (transcription)
\* a key/value map is a sequence of <<key, value>> pairs in the canonical key order
KeyOrder == <<"enc", "comp", "clevel", "cwinbits", "tid", "reconnect", "tgid", "tgcount", "tgidx">>
NumKeys == {"clevel", "cwinbits", "tgcount", "tgidx"}
IntRange == -2..40
NumStr == [n \in IntRange |-> ToString(n)]
IsIntStr(s) == \E n \in IntRange : NumStr[n] = s
IntOf(s) == CHOOSE n \in IntRange : NumStr[n] = s

\* omitempty: empty string, nil pointer, false, 0 are left out
Present(p, k) == CASE k = "enc" -> p.enc # ""
                   [] k = "comp" -> p.comp # ""
                   [] k = "clevel" -> p.lvl # <<>>
                   [] k = "cwinbits" -> p.win # <<>>
                   [] k = "tid" -> p.tid # ""
                   [] k = "reconnect" -> p.rc
                   [] k = "tgid" -> p.tgid # ""
                   [] k = "tgcount" -> p.tgcount # 0
                   [] k = "tgidx" -> p.tgidx # 0
ValOf(p, k) == CASE k = "enc" -> p.enc
                 [] k = "comp" -> p.comp
                 [] k = "clevel" -> ToString(p.lvl[1])
                 [] k = "cwinbits" -> ToString(p.win[1])
                 [] k = "tid" -> p.tid
                 [] k = "reconnect" -> "true"
                 [] k = "tgid" -> p.tgid
                 [] k = "tgcount" -> ToString(p.tgcount)
                 [] k = "tgidx" -> ToString(p.tgidx)
MarshalKV(p) == LET ks == SelectSeq(KeyOrder, LAMBDA k : Present(p, k))
                IN [i \in 1..Len(ks) |-> <<ks[i], ValOf(p, ks[i])>>]

Fail == [ok |-> FALSE, p |-> ZeroP]
SetKey(r, k, v) ==
    IF ~r.ok THEN r
    ELSE CASE k = "enc" -> [r EXCEPT !.p.enc = v]
           [] k = "comp" -> [r EXCEPT !.p.comp = v]
           [] k = "tid" -> [r EXCEPT !.p.tid = v]
           [] k = "tgid" -> [r EXCEPT !.p.tgid = v]
           [] k = "reconnect" -> IF v = "true" THEN [r EXCEPT !.p.rc = TRUE]
                                 ELSE IF v = "false" THEN [r EXCEPT !.p.rc = FALSE] ELSE Fail
           [] k = "clevel" -> IF IsIntStr(v) THEN [r EXCEPT !.p.lvl = <<IntOf(v)>>] ELSE Fail
           [] k = "cwinbits" -> IF IsIntStr(v) THEN [r EXCEPT !.p.win = <<IntOf(v)>>] ELSE Fail
           [] k = "tgcount" -> IF IsIntStr(v) THEN [r EXCEPT !.p.tgcount = IntOf(v)] ELSE Fail
           [] k = "tgidx" -> IF IsIntStr(v) THEN [r EXCEPT !.p.tgidx = IntOf(v)] ELSE Fail
           [] OTHER -> r      \* unknown keys are ignored
RECURSIVE UnmarshalFrom(_, _, _)
UnmarshalFrom(kv, i, r) == IF i > Len(kv) THEN r ELSE UnmarshalFrom(kv, i + 1, SetKey(r, kv[i][1], kv[i][2]))
UnmarshalKV(kv) == UnmarshalFrom(kv, 1, [ok |-> TRUE, p |-> ZeroP])

\* ------------------------------------------------------------------ URL values carrier
\* url.Values = sequence of <<key, <<values...>>>>
URLMarshal(p) == LET kv == MarshalKV(p) IN [i \in 1..Len(kv) |-> <<kv[i][1], <<kv[i][2]>>>>]
URLUnmarshal(u) == IF \E i \in 1..Len(u) : u[i][1] = "" \/ Len(u[i][2]) # 1 THEN Fail
                   ELSE UnmarshalKV([i \in 1..Len(u) |-> <<u[i][1], u[i][2][1]>>])

\* ------------------------------------------------------------------ QUIC binary carrier
(* abstract byte layout: a sequence of chunks
     [t |-> "L", sz |-> 2, v |-> n]                     a complete big-endian uint16 length field of value n
     [t |-> "D", sz |-> n, s |-> string, utf8 |-> b]    n data bytes (b = FALSE: not valid UTF-8)
     [t |-> "P", sz |-> n]                              n left-over bytes of a chunk cut by truncation       *)
LChunk(n) == [t |-> "L", sz |-> 2, v |-> n, s |-> "", utf8 |-> TRUE]
DChunk(s) == [t |-> "D", sz |-> Len(s), v |-> 0, s |-> s, utf8 |-> TRUE]
PChunk(n) == [t |-> "P", sz |-> n, v |-> 0, s |-> "", utf8 |-> TRUE]
PairChunks(k, v) == <<LChunk(Len(k)), DChunk(k), LChunk(Len(v)), DChunk(v)>>
RECURSIVE Layout(_)
Layout(kv) == IF kv = <<>> THEN <<>> ELSE PairChunks(kv[1][1], kv[1][2]) \o Layout(Tail(kv))
RECURSIVE Size(_, _)
Size(ch, from) == IF from > Len(ch) THEN 0 ELSE ch[from].sz + Size(ch, from + 1)
QuicLen(kv) == Size(Layout(kv), 1)
PairEnd(kv, n) == QuicLen(SubSeq(kv, 1, n))                  \* byte offset just after pair n
Boundaries(kv) == {PairEnd(kv, n) : n \in 0..Len(kv)}

\* readKeyValues transcribed on chunks. i = next chunk. Result [ok, kv].
\* ("unmodelled" never arises for the layouts the corruption operators below produce)
RECURSIVE QuicReadFrom(_, _, _)
QuicReadFrom(ch, i, acc) ==
    IF i > Len(ch) THEN [ok |-> TRUE, kv |-> acc]                       \* io.EOF on the length: done
    ELSE IF ch[i].t # "L" THEN [ok |-> FALSE, kv |-> <<>>]              \* 1 stray byte: unexpected EOF
    ELSE IF ch[i].v = 0 THEN [ok |-> FALSE, kv |-> <<>>]                \* empty key name
    ELSE IF Size(ch, i + 1) < ch[i].v THEN [ok |-> FALSE, kv |-> <<>>]  \* short key
    ELSE IF ch[i + 1].t # "D" \/ ch[i + 1].sz # ch[i].v THEN [ok |-> FALSE, kv |-> <<<<"unmodelled", "">>>>]
    ELSE IF ~ch[i + 1].utf8 THEN [ok |-> FALSE, kv |-> <<>>]            \* key not UTF-8
    ELSE IF i + 2 > Len(ch) \/ ch[i + 2].t # "L" THEN [ok |-> FALSE, kv |-> <<>>]   \* no / short value length
    ELSE IF Size(ch, i + 3) < ch[i + 2].v THEN [ok |-> FALSE, kv |-> <<>>]          \* short value
    ELSE IF i + 3 > Len(ch) \/ ch[i + 3].t # "D" \/ ch[i + 3].sz # ch[i + 2].v THEN [ok |-> FALSE, kv |-> <<<<"unmodelled", "">>>>]
    ELSE IF ~ch[i + 3].utf8 THEN [ok |-> FALSE, kv |-> <<>>]            \* value not UTF-8
    ELSE IF \E j \in 1..Len(acc) : acc[j][1] = ch[i + 1].s THEN [ok |-> FALSE, kv |-> <<>>]   \* duplicated key
    ELSE QuicReadFrom(ch, i + 4, Append(acc, <<ch[i + 1].s, ch[i + 3].s>>))
Unmodelled == [ok |-> FALSE, p |-> [ZeroP EXCEPT !.enc = "unmodelled"]]
QuicUnmarshalChunks(ch) == LET r == QuicReadFrom(ch, 1, <<>>)
                           IN IF r.ok THEN UnmarshalKV(r.kv) ELSE IF r.kv # <<>> THEN Unmodelled ELSE Fail
QuicUnmarshal(kv) == QuicUnmarshalChunks(Layout(kv))

\* ------------------------------------------------------------------ corruption operators
\* cut the byte string after `off` bytes
RECURSIVE TruncChunks(_, _)
TruncChunks(ch, off) == IF ch = <<>> \/ off = 0 THEN <<>>
                        ELSE IF ch[1].sz <= off THEN <<ch[1]>> \o TruncChunks(Tail(ch), off - ch[1].sz)
                        ELSE <<PChunk(off)>>
InsertAt(s, i, x) == SubSeq(s, 1, i - 1) \o x \o SubSeq(s, i, Len(s))
\* chunk index of the first chunk of pair n
CI(n) == 4 * (n - 1) + 1
QuicCorrupt(kv, kind, idx, off) ==
    LET ch == Layout(kv) IN
    CASE kind = "truncate" -> TruncChunks(ch, off)
      [] kind = "zerokey"  -> InsertAt(ch, CI(idx), PairChunks("", "x"))                      \* before pair idx (idx = Len+1: at the end)
      [] kind = "dupkey"   -> ch \o PairChunks(kv[idx][1], kv[idx][2])                         \* pair idx once more at the end
      [] kind = "dupkeyx"  -> ch \o PairChunks(kv[idx][1], "x")                                \* same key, another value
      [] kind = "dupkeyempty" -> ch \o PairChunks(kv[idx][1], "")                               \* same key once more, with a zero-length value
      [] kind = "emptyfirst"  -> InsertAt(ch, CI(idx), PairChunks(kv[idx][1], ""))             \* the zero-length occurrence comes first
      [] kind = "emptyval"    -> [ch EXCEPT ![CI(idx) + 2] = LChunk(0), ![CI(idx) + 3] = DChunk("")]   \* a typed value of length zero
      [] kind = "badutf8k" -> [ch EXCEPT ![CI(idx) + 1].utf8 = FALSE]                          \* first key byte := 0xff
      [] kind = "badutf8v" -> [ch EXCEPT ![CI(idx) + 3].utf8 = FALSE]                          \* first value byte := 0xff
      [] kind = "lenoverk" -> [ch EXCEPT ![CI(idx)].v = Size(ch, CI(idx) + 1) + 1]             \* key length := rest + 1
      [] kind = "lenoverv" -> [ch EXCEPT ![CI(idx) + 2].v = Size(ch, CI(idx) + 3) + 1]         \* value length := rest + 1
URLCorrupt(kv, kind, idx) ==
    LET u == [i \in 1..Len(kv) |-> <<kv[i][1], <<kv[i][2]>>>>] IN
    CASE kind = "zerokey" -> InsertAt(u, idx, <<<<"", <<"x">>>>>>)
      [] kind = "dupkey"  -> [u EXCEPT ![idx][2] = <<kv[idx][2], kv[idx][2]>>]                 \* ?k=v&k=v
      [] kind = "dupkeyx" -> [u EXCEPT ![idx][2] = <<kv[idx][2], "x">>]
      [] kind = "noval"   -> [u EXCEPT ![idx][2] = <<>>]
KVCorrupt(kv, kind, idx) ==
    CASE kind = "badnum"   -> [kv EXCEPT ![idx][2] = "x"]
      [] kind = "emptynum" -> [kv EXCEPT ![idx][2] = ""]
      [] kind = "fracnum"  -> [kv EXCEPT ![idx][2] = kv[idx][2] \o ".5"]
      [] kind = "badbool"  -> [kv EXCEPT ![idx][2] = "yes"]

\* what the model expects the real Unmarshal of the corrupted form to return
CorruptResult(c) ==
    IF c.kind \in {"strictutf8v", "strictzerokey"} THEN Fail         \* StrictKV reading: declarative
    ELSE CASE c.carrier = "quic" -> QuicUnmarshalChunks(QuicCorrupt(c.pairs, c.kind, c.idx, c.off))
           [] c.carrier = "url"  -> URLUnmarshal(URLCorrupt(c.pairs, c.kind, c.idx))
           [] c.carrier = "kv"   -> UnmarshalKV(KVCorrupt(c.pairs, c.kind, c.idx))
\* declarative: every corruption is rejected, except a cut exactly between two pairs, which is the
\* well-formed encoding of the pairs before the cut
CorruptMustReject(c) == ~(c.carrier = "quic" /\ c.kind = "truncate" /\ c.off \in Boundaries(c.pairs))

\* raw material for the corruption operators
CBase(i) ==
    CASE i = 1 -> [enc |-> "json", comp |-> "context-takeover", lvl |-> <<6>>, win |-> <<15>>, rc |-> TRUE, tid |-> "t",
                   tgid |-> "g", tgcount |-> 2, tgidx |-> 1]
      [] i = 2 -> [ZeroP EXCEPT !.comp = "per-message", !.lvl = <<0>>, !.win = <<8>>]
      [] i = 3 -> [ZeroP EXCEPT !.enc = "proto"]
      [] i = 4 -> ZeroP
      [] i = 5 -> [ZeroP EXCEPT !.enc = "proto", !.comp = "per-message", !.lvl = <<9>>, !.win = <<32>>, !.rc = TRUE]
      [] i = 6 -> [ZeroP EXCEPT !.tid = "a\"b\\c&d=e <f>", !.tgcount = 3, !.tgidx = 2]

\* ------------------------------------------------------------------ operations
Init0(x) == [done |-> FALSE, a |-> "none", op |-> <<>>, exp |-> <<>>]

GridExpect(p) ==
    LET v == Validate(p)  kv == MarshalKV(p) IN
    [valid |-> v.ok, canon |-> v.p, kv |-> kv, qlen |-> QuicLen(kv),
     named |-> (v.ok /\ NamedP(v.p)), dialer |-> (v.ok /\ NamedP(p)),
     cfgA |-> CompressConfig(v.p, BaseA), cfgB |-> CompressConfig(v.p, BaseB)]

Apply(st, op) ==
    CASE op.a = "grid"    -> [done |-> TRUE, a |-> "grid", op |-> op.match, exp |-> GridExpect(op.match)]
      [] op.a = "corrupt" -> [done |-> TRUE, a |-> "corrupt", op |-> op.match, exp |-> CorruptResult(op.match)]

GridOps == { [a |-> "grid", match |-> [enc |-> e, comp |-> c, lvl |-> l, win |-> w, rc |-> r, tid |-> t,
                                       tgid |-> Groups[g + 1][1], tgcount |-> Groups[g + 1][2], tgidx |-> Groups[g + 1][3]]] :
             e \in EncVals, c \in CompVals, l \in LvlVals, w \in WinVals, r \in RcVals, t \in TidVals, g \in GrpVals }

COp(carrier, kind, kv, idx, off) ==
    [a |-> "corrupt", match |-> [carrier |-> carrier, kind |-> kind, pairs |-> kv, idx |-> idx, off |-> off]]
CorruptOpsOf(kv) ==
    LET n == Len(kv) IN
    { COp("quic", "truncate", kv, 0, off) : off \in 0..(QuicLen(kv) - 1) }
    \cup { COp("quic", "zerokey", kv, i, 0) : i \in 1..(n + 1) }
    \cup { COp("quic", k, kv, i, 0) : k \in {"dupkey", "dupkeyx", "badutf8k", "badutf8v", "lenoverk", "lenoverv"}, i \in 1..n }
    \cup { COp("quic", k, kv, i, 0) : k \in {"dupkeyempty", "emptyfirst"}, i \in 1..n }
    \cup { COp("quic", "emptyval", kv, i, 0) : i \in { j \in 1..n : kv[j][1] \in NumKeys \/ kv[j][1] = "reconnect" } }
    \cup { COp("url", "zerokey", kv, i, 0) : i \in 1..(n + 1) }
    \cup { COp("url", k, kv, i, 0) : k \in {"dupkey", "dupkeyx", "noval"}, i \in 1..n }
    \cup { COp("kv", k, kv, i, 0) : k \in {"badnum", "emptynum", "fracnum"}, i \in { j \in 1..n : kv[j][1] \in NumKeys } }
    \cup { COp("kv", "badbool", kv, i, 0) : i \in { j \in 1..n : kv[j][1] = "reconnect" } }
    \cup (IF StrictKV
          THEN { COp(c, "strictutf8v", kv, i, 0) : c \in {"kv", "url"}, i \in 1..n }
               \cup { COp("kv", "strictzerokey", kv, i, 0) : i \in 1..(n + 1) }
          ELSE {})
CorruptOps == UNION { CorruptOpsOf(MarshalKV(CBase(i))) : i \in CorruptBaseIds }

EnabledOps(st) == IF st.done THEN {} ELSE GridOps \cup CorruptOps

\* ------------------------------------------------------------------ properties (on the model)
\* every valid set -- as given and in canonical form -- survives every carrier unchanged
RoundTripOf(st) ==
    (st.a = "grid" /\ st.exp.valid) =>
        \A q \in {st.op, st.exp.canon} :
            /\ UnmarshalKV(MarshalKV(q)) = [ok |-> TRUE, p |-> q]
            /\ URLUnmarshal(URLMarshal(q)) = [ok |-> TRUE, p |-> q]
            /\ QuicUnmarshal(MarshalKV(q)) = [ok |-> TRUE, p |-> q]
\* Validate (sequential, as coded) agrees with the declarative definition of an invalid set,
\* and every corrupted carrier form is rejected (or is the well-formed encoding of a prefix)
InvalidRejectedOf(st) ==
    /\ st.a = "grid" => /\ st.exp.valid = ~InvalidP(st.op)
                        /\ st.exp.valid => st.exp.canon = Canonical(st.op)
    /\ st.a = "corrupt" =>
          IF CorruptMustReject(st.op) THEN ~st.exp.ok
          ELSE st.exp = UnmarshalKV(SubSeq(st.op.pairs, 1, CHOOSE n \in 0..Len(st.op.pairs) : PairEnd(st.op.pairs, n) = st.op.off))
\* when type, level and window are named the derived configuration does not depend on the base
PeersAgreeOf(st) ==
    (st.a = "grid" /\ st.exp.named) =>
        /\ \A b \in BaseSet : Eff(CompressConfig(st.exp.canon, b)) = NamedCfg(st.exp.canon)
        /\ Eff(st.exp.cfgA) = Eff(st.exp.cfgB)
\* the acceptor (unmarshal, validate, derive from its own base) ends up with what the dialer derived
\* from the set it sent, for the sets every dialer of the library produces
BothEndsOf(st) ==
    (st.a = "grid" /\ st.exp.dialer) =>
        LET r == QuicUnmarshal(MarshalKV(st.op)) IN
        /\ r.ok /\ Validate(r.p).ok
        /\ Eff(CompressConfig(Validate(r.p).p, BaseB)) = Eff(CompressConfig(st.op, BaseA))
\* sanity of the generator: no corruption operator leaves the modelled layouts
ModelledOf(st) == st.a = "corrupt" => st.exp # Unmodelled

AllInvOf(st) == RoundTripOf(st) /\ InvalidRejectedOf(st) /\ PeersAgreeOf(st) /\ BothEndsOf(st)
=============================================================================
