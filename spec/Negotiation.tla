---------------------------- MODULE Negotiation ----------------------------
(* L1 wrapper of NegotiationCore: TLC enumerates the grid of parameter sets and the finite set
   of corruption operators; every grid point / corruption is a one-operation scenario.
   Invariants are checked on the model's outputs; generator configurations (no VIEW,
   CONSTRAINT GenPrint) print every scenario together with the outputs the model expects. *)
EXTENDS NegotiationCore

VARIABLES st, script
vars == <<st, script>>

Init == st = Init0(0) /\ script = <<>>
Next == \E op \in EnabledOps(st) : st' = Apply(st, op) /\ script' = Append(script, op)
Spec == Init /\ [][Next]_vars

RoundTrip == RoundTripOf(st)
InvalidRejected == InvalidRejectedOf(st)
PeersAgree == PeersAgreeOf(st)
BothEnds == BothEndsOf(st)
Modelled == ModelledOf(st)
Terminal == st.done
StView == st

\* script generation: one line per scenario = the operation and the model's expected outputs
GenPrint == IF Terminal THEN PrintT("SCRIPT " \o ToJson([steps |-> script, expect |-> st.exp])) ELSE TRUE

\* constant values for the configurations (cfg files cannot write tuples or negative numbers)
OptSet(S) == {<<>>} \cup { <<n>> : n \in S }
LvlAll == OptSet(-1..10)
WinQ == OptSet({-1, 0, 1, 8, 15, 32, 33})
WinT == OptSet({-1, 0, 1, 8, 9, 15, 16, 31, 32, 33})
=============================================================================
