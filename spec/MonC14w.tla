---------------------------- MODULE MonC14w ----------------------------
(* Trace monitor for the WebTransport twin of the datagram code (transport/webtransport: Transport.WriteUnreliable,
   AsUnreliable().Write, ReadUnreliable over internal/segment) on a REAL WebTransport session (quic-go over loopback UDP) whose peer
   echoes every datagram. The link is real: datagrams may be lost, so a missing message is not judged. What is judged is C14's
   "exactly or not at all": every message handed up is byte for byte one message that was written (the harness reports its id, -1 if
   it equals none or was handed up before), and no call fails or panics.
     MixedOrTruncated   a handed-up message is not exactly one written message, or one was handed up twice
     WriteFailed, Crash                                                                                                        *)
EXTENDS MonCommon

MonInit == [ bad |-> {}, writes |-> 0, handed |-> 0, drains |-> 0, multi |-> 0 ]
MonReset(e) == MonInit

MonStep(m, e) ==
    IF e.ev # "RealOp" THEN m
    ELSE IF e.a = "dwrite"
    THEN [m EXCEPT !.writes = @ + 1, !.multi = @ + (IF e.n > 1188 THEN 1 ELSE 0),
                   !.bad = @ \cup (IF e.ret = "panic" THEN {"Crash"} ELSE IF e.ret # "ok" THEN {"WriteFailed"} ELSE {})]
    ELSE IF e.a = "ddrain"
    THEN [m EXCEPT !.drains = @ + 1, !.handed = @ + Len(e.got),
                   !.bad = @ \cup (IF \E k \in 1..Len(e.got) : e.got[k][1] = -1 THEN {"MixedOrTruncated"} ELSE {})]
    ELSE m

MonVerdict(m) == m.bad
MonStats(m) == [ writes |-> m.writes, handed |-> m.handed, drains |-> m.drains, multiSegment |-> m.multi ]
=============================================================================
