---------------------------- MODULE DgramLinkCore ----------------------------
(* The datagram link at transport level (transport/quic: datagram.Write /
   Transport.WriteUnreliable -> segment.SendTo -> SendDatagram ... ReceiveDatagram ->
   ReadBuffers.Receive -> readUnreliableC -> datagram.Read).

   Sender: every Write takes a fresh sequence number (atomic.AddUint32 on the
   transport's counter) -- also when the write fails after some of its segments went
   out -- and hands segments 0..max to SendDatagram in order; the first SendDatagram
   error ends the write (error returned, no further segment is sent).
   Network: in-order and loss-free (Reorder = TRUE: any datagram in flight may arrive next).
   Receiver (one goroutine, ReadBuffers.Receive as coded): table keyed by sequence
   number; an entry is created by the first datagram seen with that number and takes
   the number of slots announced by *that* datagram; every further datagram of the
   number is counted and stored in its slot; when the count reaches the number of
   slots the slots are concatenated, handed up and the entry is forgotten.

   Functional style: state record `st`, Apply(st, op). The same Apply is used by the
   exhaustive model and script generator (DgramLink.tla) and by the trace monitor MonC14d.

   Abstractions: write k sends message k of `segs` segments; the payload of segment i
   is the abstract value <<k, i>>; the content handed up is the sequence of slot
   payloads, so a truncated or mixed message is visible.  Sequence numbers are
   abstract naturals (the library starts at 2^32-1 + 1 = 0).  Expiry is not modelled
   (scenarios are much shorter than the 10 s default).  One writer goroutine.

   RollbackSeq = TRUE is NOT the library: it is the variant in which a failed write
   hands its sequence number back (CompareAndSwap to seq-1); used as a sensitivity run. *)
EXTENDS Integers, Sequences, FiniteSets, TLC, Json

CONSTANTS MaxWrites,    \* bound on the number of writes
          MaxSegs,      \* messages have 1..MaxSegs segments
          RollbackSeq,  \* FALSE = as coded
          Reorder,      \* TRUE: datagrams may overtake each other
          GenCanon      \* script generation: the receiver runs after the last write only

NoFail == -1

Init0 == [ctr |-> 0,            \* last sequence number handed out (t.sequenceNumber)
          writes |-> <<>>,      \* history of writes: [n, segs, failAt, seq, ok]
          net |-> <<>>,         \* datagrams in flight: [seq, max, idx, w]
          tdom |-> {}, table |-> <<>>,   \* receiver table: seq -> [cnt, max, slots]
          up |-> <<>>,          \* contents handed up; content = sequence of <<w, idx>>
          stopped |-> FALSE,    \* the environment issues no further write
          last |-> "none"]

\* ---- sender: one call of Write; SendDatagram call number j (0-based) fails
Write(st, k, s, j) ==
    LET sq   == st.ctr + 1
        ok   == j = NoFail
        nout == IF ok THEN s ELSE j
        dg   == [i \in 1..nout |-> [seq |-> sq, max |-> s - 1, idx |-> i - 1, w |-> k]]
    IN [st EXCEPT !.ctr = IF ~ok /\ RollbackSeq THEN sq - 1 ELSE sq,
                  !.writes = Append(@, [n |-> k, segs |-> s, failAt |-> j, seq |-> sq, ok |-> ok]),
                  !.net = @ \o dg,
                  !.last = IF ok THEN "written" ELSE "failed"]

\* ---- receiver: ReadBuffers.Receive as coded, applied to the datagram at position p
RECURSIVE Cat(_, _)
Cat(slots, i) == IF i < 0 THEN <<>> ELSE Cat(slots, i - 1) \o slots[i]

Recv(st, p) ==
    LET d    == st.net[p]
        net2 == [i \in 1..(Len(st.net) - 1) |-> IF i < p THEN st.net[i] ELSE st.net[i + 1]]
        ent0 == IF d.seq \in st.tdom THEN st.table[d.seq]
                ELSE [cnt |-> 0, max |-> d.max, slots |-> [i \in 0..d.max |-> <<>>]]
        dom1 == st.tdom \cup {d.seq}
    IN IF d.idx > ent0.max
       THEN \* index beyond the slots of the entry: discarded (the entry stays)
            [st EXCEPT !.net = net2, !.tdom = dom1,
                       !.table = [x \in dom1 |-> IF x = d.seq THEN ent0 ELSE st.table[x]],
                       !.last = "discarded"]
       ELSE LET ent1 == [ent0 EXCEPT !.cnt = @ + 1, !.slots[d.idx] = << <<d.w, d.idx>> >>]
            IN IF ent1.cnt = ent1.max + 1
               THEN [st EXCEPT !.net = net2, !.tdom = @ \ {d.seq},
                               !.table = [x \in (st.tdom \ {d.seq}) |-> st.table[x]],
                               !.up = Append(@, Cat(ent1.slots, ent1.max)),
                               !.last = "complete"]
               ELSE [st EXCEPT !.net = net2, !.tdom = dom1,
                               !.table = [x \in dom1 |-> IF x = d.seq THEN ent1 ELSE st.table[x]],
                               !.last = "partial"]

Drain(st) == [st EXCEPT !.stopped = TRUE, !.last = "drain"]

Apply(st, op) ==
    CASE op.a = "write" -> Write(st, op.n, op.segs, op.failAt)
      [] op.a = "recv"  -> Recv(st, op.pos)
      [] op.a = "drain" -> Drain(st)

\* environment operations (the script replayed on the real code); recv is the receiver goroutine
IsEnv(op) == op.a # "recv"

EnabledOps(st) ==
    (IF ~st.stopped /\ Len(st.writes) < MaxWrites
     THEN UNION { { [a |-> "write", n |-> Len(st.writes) + 1, segs |-> s, failAt |-> j] : j \in {NoFail} \cup (0..(s - 1)) }
                  : s \in 1..MaxSegs }
     ELSE {})
    \cup (IF Len(st.net) > 0 /\ (~GenCanon \/ st.stopped)
          THEN { [a |-> "recv", pos |-> p] : p \in (IF Reorder THEN 1..Len(st.net) ELSE {1}) }
          ELSE {})
    \cup (IF ~st.stopped /\ Len(st.writes) >= 1 THEN { [a |-> "drain"] } ELSE {})

\* the receiver runs until the link is empty (in-order link: deterministic)
RECURSIVE RecvAll(_)
RecvAll(st) == IF Len(st.net) = 0 THEN st ELSE RecvAll(Recv(st, 1))

\* ------------------------------------------------------------------ properties
MsgContent(w) == [i \in 1..w.segs |-> <<w.n, i - 1>>]
WritesOf(st) == { st.writes[k] : k \in 1..Len(st.writes) }
TerminalOf(st) == st.stopped /\ Len(st.net) = 0

\* everything handed up is exactly all segments, in order, of ONE message whose write returned nil
ExactOrNothingOf(st) ==
    \A i \in 1..Len(st.up) : \E w \in WritesOf(st) : w.ok /\ st.up[i] = MsgContent(w)
\* ... and at most once
AtMostOnceOf(st) ==
    \A w \in WritesOf(st) : Cardinality({ i \in 1..Len(st.up) : st.up[i] = MsgContent(w) }) <= 1
\* the message of a failed write is never handed up
FailedNeverDeliveredOf(st) ==
    \A w \in WritesOf(st) : ~w.ok => \A i \in 1..Len(st.up) : st.up[i] # MsgContent(w)
\* loss-free link: once everything in flight has arrived every successful write was handed up
AllDeliveredOf(st) ==
    TerminalOf(st) => \A w \in WritesOf(st) : w.ok => \E i \in 1..Len(st.up) : st.up[i] = MsgContent(w)
\* every write has its own sequence number
FreshSeqOf(st) ==
    \A i, j \in 1..Len(st.writes) : st.writes[i].seq = st.writes[j].seq => i = j
\* an entry never holds more datagrams than slots and counts the filled slots
TableConsistentOf(st) ==
    \A q \in st.tdom : /\ st.table[q].cnt <= st.table[q].max
                       /\ st.table[q].cnt = Cardinality({ i \in 0..st.table[q].max : st.table[q].slots[i] # <<>> })

AllInvOf(st) == /\ ExactOrNothingOf(st) /\ AtMostOnceOf(st) /\ FailedNeverDeliveredOf(st) /\ AllDeliveredOf(st)
                /\ FreshSeqOf(st) /\ TableConsistentOf(st)
=============================================================================
