SPECIFICATION Spec
CONSTANTS
  Flushers = {F1, F2, F3}
  Writer = W
  SharedResult = TRUE
  WatchDone = TRUE
INVARIANTS TypeOK OwnResult AtMostOneWaiter
PROPERTIES EveryCallReturns LiveCallServed
CHECK_DEADLOCK FALSE
