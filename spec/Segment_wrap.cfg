SPECIFICATION Spec
CONSTANTS
  P = 2
  MsgLens <- LensWrap
  Expiry = 1
  MaxTicks = 2
  MaxBad = 1
  MaxSegIdx = 3
  SlotWrap = TRUE
  GenCanon = FALSE
VIEW StView
INVARIANTS AllDeliveredIfNoLoss ExactOrNothing NothingIfMissing AllSegmentsIn ForgottenAfterExpiry OversizeRefused TableConsistent AllDeliveredIfNoLoss
CHECK_DEADLOCK FALSE
