SPECIFICATION Spec
CONSTANTS
  MaxFails = 0
  Members = {"m1", "m2", "m3"}
  Ids = {"m1", "m2", "m3", "zz", ""}
  AsCoded = TRUE
  GenCanon = FALSE
  Fams <- CodedFams
  MaxSel = 1
  MaxWrites = 1
  MaxReads = 0
  MaxProbe = 1
  MaxRac = 0
VIEW StView
INVARIANTS NoCrash
CHECK_DEADLOCK FALSE
