---------------------------- MODULE MonC14d ----------------------------
(* Trace monitor for the transport-level part of C14: two real quic.Transport values back
   to back over an in-order, loss-free in-memory datagram link (harness/c/dgram).
   Every recorded write is applied to the model state with the same Apply used by the
   exhaustive model DgramLink; at the drain the model receiver runs until the link is empty.
   The messages the real receiver handed up (each decomposed into runs of equal bytes;
   message n is filled with byte n) are judged against the writes:

     WriteResultWrong      Write returned nil although one of its SendDatagram calls failed,
                           or an error although none failed
     SegmentsWrong         the number of datagrams that went out differs from the model
                           (all segments / exactly those before the failing call; no call after it)
     MixedOrTruncated      a handed-up message is not exactly the bytes of one written message
     FailedWriteDelivered  the complete message of a failed write was handed up
     HandedUpTwice         the same message was handed up more than once
     Missing               a successful write was never handed up although the link is loss-free
     Crash                 a call panicked
     ModelInvariant        the replayed model state violates an invariant of DgramLinkCore    *)
EXTENDS DgramLinkCore

MonInit == [st |-> Init0, bad |-> {}, P |-> 1188, tail |-> 594,
            writes |-> 0, failed |-> 0, midfail |-> 0, dgrams |-> 0, drains |-> 0, handed |-> 0, exact |-> 0]
MonReset(e) == [MonInit EXCEPT !.P = e.p.P, !.tail = e.p.tail]

ByteLen(m, s) == (s - 1) * m.P + m.tail
\* handed-up message g is exactly message w
IsExact(m, g, w) == g.len = ByteLen(m, w.segs) /\ g.runs = << <<w.n, ByteLen(m, w.segs)>> >>

WriteCheck(m, st2, e) ==
    LET w == st2.writes[Len(st2.writes)]
        nout == Len(st2.net) - Len(m.st.net)
    IN (IF e.ret = "panic" THEN {"Crash"} ELSE {})
       \cup (IF (w.ok /\ e.ret # "ok") \/ (~w.ok /\ e.ret = "ok") THEN {"WriteResultWrong"} ELSE {})
       \cup (IF e.ret # "panic" /\ (e.sent # nout \/ e.calls # (IF w.ok THEN w.segs ELSE w.failAt + 1))
             THEN {"SegmentsWrong"} ELSE {})

DrainCheck(m, st2, e) ==
    LET G  == { e.got[i] : i \in 1..Len(e.got) }
        W  == WritesOf(st2)
        Ix == 1..Len(e.got)
    IN (IF e.readErr = "panic" THEN {"Crash"} ELSE {})
       \cup (IF \E i \in Ix : \A w \in W : ~IsExact(m, e.got[i], w) THEN {"MixedOrTruncated"} ELSE {})
       \cup (IF \E i \in Ix : \E w \in W : ~w.ok /\ IsExact(m, e.got[i], w) THEN {"FailedWriteDelivered"} ELSE {})
       \cup (IF \E i, j \in Ix : i # j /\ \E w \in W : IsExact(m, e.got[i], w) /\ IsExact(m, e.got[j], w)
             THEN {"HandedUpTwice"} ELSE {})
       \cup (IF e.quiesced /\ e.readerEnded /\ \E w \in W : w.ok /\ \A i \in Ix : ~IsExact(m, e.got[i], w)
             THEN {"Missing"} ELSE {})

MonStep(m, e) ==
    IF e.ev # "DgOp" THEN m
    ELSE IF e.a = "write"
    THEN LET st2 == Apply(m.st, [a |-> "write", n |-> e.n, segs |-> e.segs, failAt |-> e.failAt])
         IN [m EXCEPT !.st = st2,
                      !.bad = @ \cup WriteCheck(m, st2, e),
                      !.writes = @ + 1,
                      !.failed = @ + (IF e.failAt # NoFail THEN 1 ELSE 0),
                      !.midfail = @ + (IF e.failAt >= 1 THEN 1 ELSE 0),
                      !.dgrams = @ + e.sent]
    ELSE IF e.a = "drain"
    THEN LET st2 == RecvAll(Apply(m.st, [a |-> "drain"]))
         IN [m EXCEPT !.st = st2,
                      !.bad = @ \cup DrainCheck(m, st2, e),
                      !.drains = @ + 1,
                      !.handed = @ + Len(e.got),
                      !.exact = @ + Cardinality({ i \in 1..Len(e.got) : \E w \in WritesOf(st2) : w.ok /\ IsExact(m, e.got[i], w) })]
    ELSE m

\* model-side invariants evaluated on the replayed state as well
MonVerdict(m) == m.bad \cup (IF AllInvOf(m.st) THEN {} ELSE {"ModelInvariant"})
MonStats(m) == [writes |-> m.writes, failedWrites |-> m.failed, midMessageFailures |-> m.midfail, dgramsOut |-> m.dgrams,
                drains |-> m.drains, handedUp |-> m.handed, handedUpExact |-> m.exact]
=============================================================================
