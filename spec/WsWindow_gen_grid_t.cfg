SPECIFICATION Spec
CONSTANTS
  MaxMsgs = 3
  Classes <- ClassesAll
  NWriters = 1
  Conc = FALSE
  Excl = TRUE
  WinLock = TRUE
  Fault = "none"
  StrictBackend = TRUE
  DrainAfterDecode = TRUE
  ReadPolicy = "eager"
  Modes <- ModesAll
  Levels <- LevelsAll
  Bits <- BitsGridT

INVARIANTS DictionariesEqual HeadDecodable ReadEqualsWrite InOrder NoInterleave NoDecodeFailure WindowIsSuffix NoWindowWithoutTakeover
CONSTRAINT GenPrint
CHECK_DEADLOCK FALSE
