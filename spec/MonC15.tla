------------------------------ MODULE MonC15 ------------------------------
(* Property monitor for C15 (keep-alive detects a dead peer in bounded time and never drops a live one)
   evaluated by TLC on traces recorded from the real library (iscp.Connect against the in-memory broker).

   Scenario parameters (Reset event, field p, all in ms): i, t = ping interval / timeout the client runs with;
   cfgI, cfgT = the configured values the connect request has to announce (defaults substituted);
   recMs = sum of the maximal redial back-off sleeps scripted for this scenario (0: the first redial attempt of
   internal/retry is immediate; 150 per scripted first dial failure).

   All times are the recorder's microseconds.  Only UPPER bounds on durations are asserted; slack = 250 ms + 50 %.
   Incarnation c = the c-th transport the broker accepted.  A client ping counts as ANSWERED when the broker logged its
   pong (same incarnation, same request id) at most 2T after receiving the ping: the scripted delays are 0, T/2
   (answered), 3T and never (not answered); counting a slightly late pong as answered only moves the reference
   point later, i.e. makes the bound more lenient, never stricter.

   Clauses
     DetectLate      U = first unanswered ping of incarnation c, ref = receipt of the ping before U (or the connect
                     response if U is the first ping): the client must have closed the transport (CliClose /
                     BLinkDown cause clientClosed) by ref + I + T + slack; "never closed during an observation that
                     lasted longer than that" is late, too.
     NoRecovery      after such a close: Disconnected event, a new Dial, a ConnectRequest on a later incarnation and the
                     Reconnected event within recMs * 1.5 + 250 ms (counted from the release of a scripted dial gate
                     if the scenario holds the redial back).
     SpuriousClose   the client closed incarnation c although every ping it had sent was answered within 3T/4 (or was
                     younger than that), the link was not cut by the script and the harness recorded no scheduling
                     stall around the close; or a Disconnected event without any dead incarnation.
     PongWrongId     the client sent a pong whose request id matches no unanswered broker ping (per incarnation, as bags).
     PongMissing     a broker ping got no pong with its id although the link stayed up for 250 ms afterwards.
     AnnounceWrong   a ConnectRequest (first connect or reconnect) announces something else than the configured
                     interval / timeout truncated to whole seconds (encoding/convert: uint32(d.Seconds()); 2.5 s -> 2 s,
                     sub-second values -> 0).                                                                    *)
EXTENDS MonCommon

MonInit == [ p |-> [i |-> 0, t |-> 0, cfgI |-> 0, cfgT |-> 0, recMs |-> 0],
             reqs |-> <<>>, resps |-> <<>>, pings |-> <<>>, pongs |-> <<>>, bpings |-> <<>>, bpongs |-> <<>>,
             downs |-> <<>>, clis |-> <<>>, dials |-> <<>>, disc |-> <<>>, recon |-> <<>>, releases |-> <<>>,
             closeT |-> -1, lastT |-> 0, stalls |-> <<>>, appRet |-> 0, appOk |-> 0, offs |-> <<>> ]
MonReset(e) == [MonInit EXCEPT !.p = [i |-> e.p.i, t |-> e.p.t, cfgI |-> e.p.cfgI, cfgT |-> e.p.cfgT, recMs |-> e.p.recMs]]

Upd(m, e) ==
    CASE e.ev = "BRecvReq" /\ e.kind = "ConnectRequest" ->
            [m EXCEPT !.reqs = Append(@, [c |-> e.c, pingI |-> e.pingI, pingT |-> e.pingT, t |-> e.t])]
      [] e.ev = "BSendResp" /\ e.kind = "ConnectRequest" -> [m EXCEPT !.resps = Append(@, [c |-> e.c, t |-> e.t])]
      [] e.ev = "BRecvPing" -> [m EXCEPT !.pings = Append(@, [c |-> e.c, rid |-> e.rid, t |-> e.t])]
      \* the broker's answer is the pong put into its ordered output stream (BPongQueued); whether and when the client reads it is the client's business
      [] e.ev = "BPongQueued" -> [m EXCEPT !.pongs = Append(@, [c |-> e.c, rid |-> e.rid, t |-> e.t])]
      [] e.ev = "BSendPing" -> [m EXCEPT !.bpings = Append(@, [c |-> e.c, rid |-> e.rid, t |-> e.t])]
      [] e.ev = "BRecvPong" -> [m EXCEPT !.bpongs = Append(@, [c |-> e.c, rid |-> e.rid, t |-> e.t])]
      [] e.ev = "BLinkDown" -> [m EXCEPT !.downs = Append(@, [c |-> e.c, cause |-> e.cause, t |-> e.t])]
      [] e.ev = "CliClose" -> [m EXCEPT !.clis = Append(@, [c |-> e.c, t |-> e.t])]
      [] e.ev = "Dial" -> [m EXCEPT !.dials = Append(@, [n |-> e.n, t |-> e.t])]
      [] e.ev = "Disconnected" -> [m EXCEPT !.disc = Append(@, e.t)]
      [] e.ev = "Reconnected" -> [m EXCEPT !.recon = Append(@, e.t)]
      [] e.ev = "Release" -> [m EXCEPT !.releases = Append(@, e.t)]
      \* the broker stops (on) / resumes (off) answering pings (BPongOff) or everything (BSilent) on the incarnation that is current
      [] e.ev \in {"BPongOff", "BSilent"} ->
            [m EXCEPT !.offs = Append(@, [t |-> e.t, on |-> e.on, c |-> IF m.resps = <<>> THEN 0 ELSE m.resps[Len(m.resps)].c])]
      [] e.ev = "Stall" -> [m EXCEPT !.stalls = Append(@, [t |-> e.t, us |-> e.ms * 1000])]
      [] e.ev = "ApiCall" /\ e.op = "CloseConn" -> [m EXCEPT !.closeT = IF @ < 0 THEN e.t ELSE @]
      [] e.ev = "ApiRet" /\ e.op = "SendMeta" -> [m EXCEPT !.appRet = @ + 1, !.appOk = @ + (IF e.err = "" THEN 1 ELSE 0)]
      [] OTHER -> m
MonStep(m, e) == [Upd(m, e) EXCEPT !.lastT = e.t]

\* ------------------------------------------------------------------ derived values
Us(ms) == ms * 1000
II(m) == Us(m.p.i)
TT(m) == Us(m.p.t)
\* every upper bound is extended by the scheduling stalls the harness recorded in this scenario (a loaded machine delays the library's
\* timers and the broker's answers alike; the stall watcher measures how late a 5-ms sleep wakes up)
StallAll(m) == FoldSet(LAMBDA k, acc : acc + m.stalls[k].us, 0, 1..Len(m.stalls))
Slack(m) == 250000 + (II(m) + TT(m)) \div 2 + StallAll(m)
MinS(S) == CHOOSE x \in S : \A y \in S : x <= y
MaxS(S) == CHOOSE x \in S : \A y \in S : y <= x
ObsEnd(m) == IF m.closeT >= 0 THEN m.closeT ELSE m.lastT
Observed(m, t) == m.closeT < 0 \/ t < m.closeT            \* before the application closed the connection itself
Incs(m) == { r.c : r \in RangeS(m.resps) }
RespT(m, c) == MinS({ r.t : r \in { x \in RangeS(m.resps) : x.c = c } })
PingsOf(m, c) == SelectSeq(m.pings, LAMBDA x : x.c = c)
AnsweredWithin(m, p, w) == \E x \in RangeS(m.pongs) : x.c = p.c /\ x.rid = p.rid /\ x.t >= p.t /\ x.t - p.t <= w
\* instants at which the client closed incarnation c on its own (not by the application's Close)
Det(m, c) == { x.t : x \in { y \in RangeS(m.clis) : y.c = c /\ Observed(m, y.t) } }
             \cup { x.t : x \in { y \in RangeS(m.downs) : y.c = c /\ y.cause = "clientClosed" /\ Observed(m, y.t) } }
\* instants at which the link of c went down for another reason (script, teardown)
Other(m, c) == { x.t : x \in { y \in RangeS(m.downs) : y.c = c /\ y.cause # "clientClosed" } }
\* index of the first unanswered ping of c (0 if none)
FirstUn(m, c) == LET ps == PingsOf(m, c)
                     un == { k \in 1..Len(ps) : ~AnsweredWithin(m, ps[k], 2 * TT(m)) }
                 IN IF un = {} THEN 0 ELSE MinS(un)
RefT(m, c) == LET k == FirstUn(m, c) IN IF k <= 1 THEN RespT(m, c) ELSE PingsOf(m, c)[k - 1].t
Deadline(m, c) == RefT(m, c) + II(m) + TT(m) + Slack(m)
\* end of the observation of incarnation c
EndOf(m, c) == IF Other(m, c) = {} THEN ObsEnd(m) ELSE MinS(Other(m, c) \cup {ObsEnd(m)})

\* ------------------------------------------------------------------ clauses
DetectDecided(m, c) == FirstUn(m, c) > 0 /\ (Det(m, c) # {} \/ EndOf(m, c) > Deadline(m, c))
DetectLateC(m, c) ==
    /\ FirstUn(m, c) > 0
    /\ IF Det(m, c) # {} THEN MinS(Det(m, c)) > Deadline(m, c) ELSE EndOf(m, c) > Deadline(m, c)

\* "if the broker stops answering pings, the client declares the connection lost within interval + timeout": counted from the moment
\* the broker stopped answering (whether or not the client sent a ping afterwards), while the silence lasts and the link is otherwise up
SilenceEnd(m, k) == LET later == { m.offs[j].t : j \in { x \in (k + 1)..Len(m.offs) : ~m.offs[x].on } }
                    IN IF later = {} THEN EndOf(m, m.offs[k].c) ELSE MinS(later \cup {EndOf(m, m.offs[k].c)})
SilenceLateK(m, k) ==
    LET c == m.offs[k].c  d == m.offs[k].t + II(m) + TT(m) + Slack(m)
    IN /\ m.offs[k].on /\ c > 0 /\ c \in Incs(m)
       /\ \A x \in Det(m, c) \cup Other(m, c) : x > m.offs[k].t          \* the link was still up when the broker fell silent
       /\ SilenceEnd(m, k) > d
       /\ \A x \in Det(m, c) : x > d
       /\ \A x \in Other(m, c) : x > d
SilenceLate(m) == \E k \in 1..Len(m.offs) : SilenceLateK(m, k)

\* the client pings every live incarnation at its interval: never four pings within 7/4 of an interval (two keep-alive loops), and
\* never silence for two intervals (+ slack) after a ping that was answered in time while the link stays up (no keep-alive loop)
\* (one ticker-driven loop: a tick delayed by a scheduling stall is followed by the next on-time tick, so two pings may come close
\* together - but any FOUR consecutive pings span at least two intervals, because a Go ticker queues at most one tick; two loops put
\* four pings into little more than one interval)
PingTooOftenC(m, c) == LET ps == PingsOf(m, c) IN II(m) >= 100000 /\ \E k \in 1..(Len(ps) - 3) : ps[k + 3].t - ps[k].t < 2 * II(m) - II(m) \div 4
PingMissingC(m, c) ==
    LET ps == PingsOf(m, c)
    IN /\ Det(m, c) = {} /\ ps # <<>>
       /\ LET last == ps[Len(ps)] IN
            /\ AnsweredWithin(m, last, TT(m))
            /\ EndOf(m, c) > last.t + 2 * II(m) + Slack(m)
            /\ ~\E k \in 1..Len(m.offs) : m.offs[k].c = c /\ m.offs[k].on /\ m.offs[k].t >= last.t
PingPacingWrong(m) == \E c \in Incs(m) : PingTooOftenC(m, c) \/ PingMissingC(m, c)

RecRef(m, td) == MaxS({td} \cup { r \in RangeS(m.releases) : r >= td })
RecBound(m, td) == RecRef(m, td) + (Us(m.p.recMs) * 3) \div 2 + 250000 + StallAll(m)
Recovered(m, c) ==
    LET td == MinS(Det(m, c))  b == RecBound(m, td)
    IN /\ \E x \in RangeS(m.disc) : x >= td - 50000 /\ x <= b
       /\ \E d \in RangeS(m.dials) : d.t >= td - 50000 /\ d.t <= b
       /\ \E r \in RangeS(m.reqs) : r.c > c /\ r.t <= b
       /\ \E x \in RangeS(m.recon) : x >= td /\ x <= b
\* recovery is owed after a keep-alive detection (the client closed c after a ping went unanswered)
RecOwed(m, c) == FirstUn(m, c) > 0 /\ Det(m, c) # {} /\ (Other(m, c) = {} \/ MinS(Other(m, c)) > MinS(Det(m, c)))
NoRecoveryC(m, c) == RecOwed(m, c) /\ ~Recovered(m, c) /\ ObsEnd(m) > RecBound(m, MinS(Det(m, c)))

TimelyUntil(m, c, td) ==
    \A k \in 1..Len(PingsOf(m, c)) :
        LET p == PingsOf(m, c)[k] IN p.t < td => (AnsweredWithin(m, p, (3 * TT(m)) \div 4) \/ td - p.t <= (3 * TT(m)) \div 4)
\* scheduling stalls recorded between 3T before and 50 ms after the close excuse it (the Stall event is logged when the stall
\* ends) when they add up to a third of the margin T/4 that a timely pong (<= 3T/4) leaves: the harness's detector sees the
\* delay of its own goroutine only, the library's goroutines may have been held up longer
StallSum(m, td) == LET W == { k \in 1..Len(m.stalls) : m.stalls[k].t >= td - 3 * TT(m) /\ m.stalls[k].t <= td + 50000 }
                   IN FoldSet(LAMBDA k, acc : acc + m.stalls[k].us, 0, W)
StallNear(m, td) == 3 * StallSum(m, td) >= TT(m) \div 4
SpuriousPremise(m, c) == Det(m, c) # {} /\ ~StallNear(m, MinS(Det(m, c))) /\ (Other(m, c) = {} \/ MinS(Other(m, c)) > MinS(Det(m, c)))
SpuriousCloseC(m, c) == SpuriousPremise(m, c) /\ TimelyUntil(m, c, MinS(Det(m, c)))
DeadIncs(m) == { x.c : x \in RangeS(m.clis) } \cup { x.c : x \in RangeS(m.downs) }
SpuriousDisconnect(m) == Cardinality({ k \in 1..Len(m.disc) : Observed(m, m.disc[k]) }) > Cardinality(DeadIncs(m))

Rids(q, c) == LET f == SelectSeq(q, LAMBDA x : x.c = c) IN [k \in 1..Len(f) |-> f[k].rid]
BIncs(m) == { x.c : x \in RangeS(m.bpings) } \cup { x.c : x \in RangeS(m.bpongs) }
PongWrongId(m) == \E c \in BIncs(m) : ~BagIncl(Rids(m.bpongs, c), Rids(m.bpings, c))
LinkUpThrough(m, c, t) == /\ \A x \in RangeS(m.clis) : x.c = c => x.t > t
                          /\ \A x \in RangeS(m.downs) : x.c = c => x.t > t
OwedPong(m, x) == LinkUpThrough(m, x.c, x.t + 250000) /\ m.lastT >= x.t + 250000
PongMissing(m) == \E x \in RangeS(m.bpings) : OwedPong(m, x) /\ CountIn(Rids(m.bpings, x.c), x.rid) > CountIn(Rids(m.bpongs, x.c), x.rid)

Announce(ms) == (ms \div 1000) * 1000
AnnounceWrong(m) == \E r \in RangeS(m.reqs) : r.pingI # Announce(m.p.cfgI) \/ r.pingT # Announce(m.p.cfgT)

Clause(name, b) == IF b THEN {name} ELSE {}
MonVerdict(m) ==
    Clause("DetectLate", \E c \in Incs(m) : DetectLateC(m, c)) \cup Clause("SilenceUndetected", SilenceLate(m)) \cup Clause("PingPacingWrong", PingPacingWrong(m))
    \cup Clause("NoRecovery", \E c \in Incs(m) : NoRecoveryC(m, c))
    \cup Clause("SpuriousClose", (\E c \in Incs(m) : SpuriousCloseC(m, c)) \/ SpuriousDisconnect(m))
    \cup Clause("PongWrongId", PongWrongId(m)) \cup Clause("PongMissing", PongMissing(m))
    \cup Clause("AnnounceWrong", AnnounceWrong(m))

\* an incarnation observed alive with at least 5 timely pings and never closed by the client: evidence for the live clause
LiveInc(m, c) == Det(m, c) = {} /\ Len(PingsOf(m, c)) >= 5 /\ TimelyUntil(m, c, ObsEnd(m))
MonStats(m) == [ incs |-> Cardinality(Incs(m)), pings |-> Len(m.pings), pongs |-> Len(m.pongs),
                 detectJudged |-> Cardinality({ c \in Incs(m) : DetectDecided(m, c) }),
                 detectUndecided |-> Cardinality({ c \in Incs(m) : FirstUn(m, c) > 0 /\ ~DetectDecided(m, c) }),
                 detectedInTime |-> Cardinality({ c \in Incs(m) : DetectDecided(m, c) /\ ~DetectLateC(m, c) }),
                 recovered |-> Cardinality({ c \in Incs(m) : RecOwed(m, c) /\ Recovered(m, c) }),
                 liveIncs |-> Cardinality({ c \in Incs(m) : LiveInc(m, c) }),
                 livePings |-> FoldSet(LAMBDA c, a : a + Len(PingsOf(m, c)), 0, { c \in Incs(m) : LiveInc(m, c) }),
                 bpings |-> Len(m.bpings), bpongs |-> Len(m.bpongs),
                 announces |-> Len(m.reqs), appCalls |-> m.appRet, appOk |-> m.appOk, stalls |-> Len(m.stalls) ]
=============================================================================
