SPECIFICATION Spec
CONSTANTS
  EncVals = {"", "json", "proto", "bogus"}
  CompVals = {"", "per-message", "context-takeover", "bogus"}
  LvlVals <- LvlAll
  WinVals <- WinQ
  RcVals = {FALSE, TRUE}
  TidVals = {"", "t"}
  GrpVals = {0, 1}
  CorruptBaseIds = {1, 2, 3, 4}
  StrictKV = FALSE
VIEW StView
INVARIANTS RoundTrip InvalidRejected PeersAgree BothEnds Modelled
CHECK_DEADLOCK FALSE
