---------------------------- MODULE SentStorageCore ----------------------------
(* The sent-chunk store of a connection (iscp/storage.go: sentStorage, inmemSentStorage,
   inmemSentStorageNoPayload):  buf[stream][seq] -> chunk.  One store is shared by all
   upstreams of a connection; every call is one critical section (one mutex), so the
   sequential meaning of the four operations is the whole specification.

   Functional style: the component state is one record `st`, Apply(st, op) is used by
   the exhaustive model (SentStorage.tla), by the script generator and by the trace
   monitor MonC07a which replays recorded operations lock-step on the model.

   Abstractions: a stream id is a number 1..ns (the harness maps it to a fixed uuid);
   a chunk is an abstract value v (the harness builds a DataPointGroups value from
   (stream, seq, v) and decodes what it gets back); a list is a set of <<seq, v>>.
   Intended meaning of Clear(s): forget stream s only (its entry is deleted, the stream
   is unknown afterwards) and return no error, also for an unknown stream.            *)
EXTENDS Integers, Sequences, FiniteSets, TLC, Json

CONSTANTS NSeqs,     \* sequence numbers 1..NSeqs
          NVals,     \* abstract chunk values 1..NVals
          MaxOps,    \* bound on the number of operations of one history
          GenList    \* script generation: generate explicit List calls (the harness lists every stream after every op anyway)

Seqs == 1..NSeqs
Vals == 1..NVals
StreamsOf(st) == DOMAIN st.buf

\* observable content of stream s: what List(s) returns
ListOf(st, s) == IF s \in st.known THEN [ret |-> "ok", ents |-> st.buf[s]]
                 ELSE [ret |-> "errStream", ents |-> {}]
ListsOf(st) == [s \in StreamsOf(st) |-> ListOf(st, s)]

NoOp == [a |-> "none", n |-> 0]

Init0(ns) == [known |-> {}, buf |-> [s \in 1..ns |-> {}], n |-> 0,
              last |-> NoOp, ret |-> "none", rval |-> 0, rents |-> {},
              pre |-> [s \in 1..ns |-> [ret |-> "errStream", ents |-> {}]]]

HasSeq(st, s, q) == \E p \in st.buf[s] : p[1] = q
ValOf(st, s, q) == (CHOOSE p \in st.buf[s] : p[1] = q)[2]

\* bookkeeping common to all operations: count, remember the op and the lists before it
Book(st, op) == [st EXCEPT !.n = @ + 1, !.last = op, !.pre = ListsOf(st), !.rval = 0, !.rents = {}]

\* Store: creates the stream entry on demand, overwrites an existing sequence number
Store(st, op) ==
    [Book(st, op) EXCEPT !.known = @ \cup {op.n},
                         !.buf[op.n] = { p \in @ : p[1] # op.seq } \cup {<<op.seq, op.tag>>},
                         !.ret = "ok"]

\* Remove: error for an unknown stream, error for an unknown sequence number,
\* otherwise deletes the one element and returns it
Remove(st, op) ==
    IF op.n \notin st.known THEN [Book(st, op) EXCEPT !.ret = "errStream"]
    ELSE IF ~HasSeq(st, op.n, op.seq) THEN [Book(st, op) EXCEPT !.ret = "errSeq"]
    ELSE [Book(st, op) EXCEPT !.buf[op.n] = { p \in @ : p[1] # op.seq },
                              !.ret = "ok", !.rval = ValOf(st, op.n, op.seq)]

\* List: read-only; error for an unknown stream
List(st, op) ==
    IF op.n \notin st.known THEN [Book(st, op) EXCEPT !.ret = "errStream"]
    ELSE [Book(st, op) EXCEPT !.ret = "ok", !.rents = st.buf[op.n]]

\* Clear: forgets that one stream; never an error
Clear(st, op) ==
    [Book(st, op) EXCEPT !.known = @ \ {op.n}, !.buf[op.n] = {}, !.ret = "ok"]

Apply(st, op) ==
    CASE op.a = "store"  -> Store(st, op)
      [] op.a = "remove" -> Remove(st, op)
      [] op.a = "list"   -> List(st, op)
      [] op.a = "clear"  -> Clear(st, op)

EnabledOps(st) ==
    IF st.n >= MaxOps THEN {}
    ELSE { [a |-> "store", n |-> s, seq |-> q, tag |-> v] : s \in StreamsOf(st), q \in Seqs, v \in Vals }
         \cup { [a |-> "remove", n |-> s, seq |-> q] : s \in StreamsOf(st), q \in Seqs }
         \cup { [a |-> "clear", n |-> s] : s \in StreamsOf(st) }
         \cup (IF GenList THEN { [a |-> "list", n |-> s] : s \in StreamsOf(st) } ELSE {})

\* ------------------------------------------------------------------ properties
\* Frame (the C07 clause): an operation on stream s leaves what List(s') returns unchanged for every s' # s
FrameOf(st) ==
    st.last.a # "none" => \A s \in StreamsOf(st) \ {st.last.n} : ListOf(st, s) = st.pre[s]
\* at most one element per sequence number; unknown streams hold nothing
WellFormedOf(st) ==
    /\ \A s \in StreamsOf(st) : \A p1, p2 \in st.buf[s] : p1[1] = p2[1] => p1 = p2
    /\ \A s \in StreamsOf(st) \ st.known : st.buf[s] = {}
\* sequential meaning of each operation, stated on the lists before / after
StoreMeaningOf(st) ==
    st.last.a = "store" =>
        /\ st.ret = "ok"
        /\ ListOf(st, st.last.n).ret = "ok"
        /\ ListOf(st, st.last.n).ents = { p \in st.pre[st.last.n].ents : p[1] # st.last.seq } \cup {<<st.last.seq, st.last.tag>>}
RemoveMeaningOf(st) ==
    st.last.a = "remove" =>
        LET before == st.pre[st.last.n]  after == ListOf(st, st.last.n)
            had == \E p \in before.ents : p[1] = st.last.seq
        IN /\ (before.ret = "errStream") <=> (st.ret = "errStream")
           /\ (before.ret = "ok" /\ ~had) <=> (st.ret = "errSeq")
           /\ st.ret # "ok" => after = before
           /\ st.ret = "ok" => /\ <<st.last.seq, st.rval>> \in before.ents
                               /\ after = [ret |-> "ok", ents |-> before.ents \ {<<st.last.seq, st.rval>>}]
ListMeaningOf(st) ==
    st.last.a = "list" =>
        /\ ListsOf(st) = st.pre
        /\ st.ret = st.pre[st.last.n].ret
        /\ st.rents = st.pre[st.last.n].ents
ClearMeaningOf(st) ==
    st.last.a = "clear" => st.ret = "ok" /\ ListOf(st, st.last.n) = [ret |-> "errStream", ents |-> {}]

AllInvOf(st) == /\ FrameOf(st) /\ WellFormedOf(st) /\ StoreMeaningOf(st) /\ RemoveMeaningOf(st)
                /\ ListMeaningOf(st) /\ ClearMeaningOf(st)
=============================================================================
