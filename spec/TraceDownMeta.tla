---------------------------- MODULE TraceDownMeta ----------------------------
(* Trace specification for DownMeta.tla: a trace recorded from the real library (the broker's BSendMeta events and the returns of
   ReadMetadata of ONE downstream opened with the filter list `Filters`) is accepted iff it is a behaviour of DownMeta's Next in which
   the logged events are the environment actions BSend / Read with the logged arguments and results, and the library-internal steps
   (wire read loop, dispatcher, forwarders, readMetadataLoop) are silent steps chosen by TLC between two logged events.
   Several scenarios are concatenated: a Reset line starts a fresh downstream.
   Acceptance: the highest trace position any behaviour reaches (TLC register 1, maintained by the state constraint) is the end of the
   trace; the postcondition prints it, the pipeline maps a shortfall to the scenario that could not be explained.
   Input lines (reduced by the pipeline): {ev: "Reset"} | {ev: "BSendMeta", src, tag} | {ev: "ReadMeta", err: "" | "ctx", src, tag}.   *)
EXTENDS DownMeta, IOUtils

TraceLog == ndJsonDeserialize(IOEnv.VERIF_TRACE)
VARIABLE l
tvars == <<s, script, l>>

InitState == [ sent |-> <<>>, link |-> <<>>, inbox |-> <<>>, chan |-> [f \in FIdx |-> <<>>], fhold |-> [f \in FIdx |-> None],
               res |-> <<>>, mhold |-> None, mch |-> <<>>, delivered |-> <<>>, acks |-> <<>>, dropped |-> {} ]
TraceInit == s = InitState /\ script = <<>> /\ l = 1 /\ TLCSet(1, 1)

IsEvent(name) == l <= Len(TraceLog) /\ TraceLog[l].ev = name /\ l' = l + 1
TagBase == 500      \* the scenarios number their metadata 501, 502, ... in sending order

TraceReset == IsEvent("Reset") /\ s' = InitState /\ UNCHANGED script
TraceSend == /\ IsEvent("BSendMeta")
             /\ TraceLog[l].tag = TagBase + Len(s.sent) + 1
             /\ BSend(TraceLog[l].src)
\* a ReadMetadata that returned an item: the model's Read hands out exactly that item
TraceRead == /\ IsEvent("ReadMeta") /\ TraceLog[l].err = ""
             /\ s.mch # <<>> /\ Head(s.mch).src = TraceLog[l].src /\ TagBase + Head(s.mch).tag = TraceLog[l].tag
             /\ Read
\* a ReadMetadata that waited and came back empty-handed: possible only when nothing is left anywhere in the path
TraceReadEmpty == /\ IsEvent("ReadMeta") /\ TraceLog[l].err = "ctx"
                  /\ Quiet
                  /\ UNCHANGED <<s, script>>
Silent == Internal /\ UNCHANGED l

TraceNext == TraceReset \/ TraceSend \/ TraceRead \/ TraceReadEmpty \/ Silent
TraceSpec == TraceInit /\ [][TraceNext]_tvars

\* high-water mark of the trace position (needs -workers 1)
HighWater == TLCSet(1, IF TLCGet(1) < l THEN l ELSE TLCGet(1))
TraceView == <<s, l>>
TraceAccepted == /\ PrintT("HIGHWATER " \o ToString(TLCGet(1)) \o " OF " \o ToString(Len(TraceLog) + 1))
                 /\ TLCGet(1) = Len(TraceLog) + 1
=============================================================================
