---------------------------- MODULE MonC13 ----------------------------
(* Trace monitor for C13: lock-step validation of the real transports against WsWindowCore.
   Every recorded operation (WsOp) is applied to the model state with the same Apply that the
   exhaustive model uses; the real results are compared with the model after every step:
     ReadMismatch            Read did not return exactly the message at the head of the model channel
                             (one message per call, same bytes -- the harness reports the id of the
                             written message that equals the result byte for byte --, same order)
     WindowMismatchWriter    writeWindowBuf is not the model's writer dictionary (length, and being the
                             suffix of the concatenated plaintext), or not empty without context takeover
     WindowMismatchReader    the same for readWindowBuf; and at quiescence both buffers have equal content
     CounterMismatch         Tx/RxBytesCounterValue differ from the bytes the in-memory connection carried
     IndependentDecodeFailed the captured frame is not decodable by the independent decoder, or it decodes
                             to something else than the written message
     FrameCarriesDictionary  special case of the former: the frame decodes to dictionary+message (the preset
                             dictionary was emitted as data)
     Interleaved             another writer wrote into the connection / stream inside a message
     BoundaryMismatch        a Write produced other than exactly one frame
     OrderMismatch           per-writer order on the wire differs from the order of the Write calls
     WriteFailed, Crash
   The frame length on the wire is an input of the monitor (DEFLATE is not modelled).
   The verdict is the set of clauses of the FIRST diverging step: after a divergence the real state and
   the model state differ, so later comparisons would only report consequences.
   kind "quic": no dictionaries; the reader goroutine decodes ahead of Read, so the rx counter is
   compared only when nothing is in flight.                                                   *)
EXTENDS WsWindowCore

MonInit == [st |-> Init0("off", 1), kind |-> "ws", bad |-> {}, flens |-> <<>>, txsum |-> 0, rxsum |-> 0, wwcrc |-> -1,
            steps |-> 0, writes |-> 0, reads |-> 0, trims |-> 0, dictreads |-> 0, ctwrites |-> 0, gatedops |-> 0,
            inflight2 |-> 0, finals |-> 0, zero |-> 0, big |-> 0]
MonReset(e) == [MonInit EXCEPT !.st = Init0(EffMode(e.p.mode, e.p.level), WinSize(e.p.bits)), !.kind = e.p.kind]

OpOf(e) == CASE e.a \in {"write", "start"} -> [a |-> e.a, tag |-> e.tag, n |-> e.n]
             [] e.a \in {"acq", "enc", "emit", "rel"} -> [a |-> e.a, tag |-> e.tag]
             [] OTHER -> [a |-> e.a]

WinBad(st, d, w) == IF st.mode = "ct" THEN w[1] # Total(d) \/ w[2] # 1 ELSE w[1] # 0

\* completion of a message write: e.a = "write" (id = newest message) or "rel" (id = the writer's current message)
CheckWrite(m, st2, e, id) ==
    (IF e.ret = "panic" THEN {"Crash"} ELSE IF e.ret # "ok" THEN {"WriteFailed"} ELSE {})
    \cup (IF e.frames # 1 THEN {"BoundaryMismatch"} ELSE {})
    \cup (IF e.seq # st2.msgs[id].q THEN {"OrderMismatch"} ELSE {})
    \cup (IF e.indep = 2 THEN {"FrameCarriesDictionary"} ELSE IF e.indep # 1 THEN {"IndependentDecodeFailed"} ELSE {})
    \cup (IF e.aligned # 1 \/ st2.inter THEN {"Interleaved"} ELSE {})
    \cup (IF e.chk = 1 /\ e.ret = "ok" /\ m.kind = "ws" /\ WinBad(st2, st2.ww, e.ww) THEN {"WindowMismatchWriter"} ELSE {})
    \cup (IF e.chk = 1 /\ e.ret = "ok" /\ (e.tx # m.txsum + e.flen \/ e.wire # m.txsum + e.flen) THEN {"CounterMismatch"} ELSE {})

Sum(s) == LET RECURSIVE S(_) S(i) == IF i = 0 THEN 0 ELSE s[i] + S(i - 1) IN S(Len(s))

CheckRead(m, st2, e) ==
    IF m.st.chan = <<>> THEN {"ReadMismatch"}
    ELSE LET k == Head(m.st.chan).k
             idx == Len(st2.reads)
         IN (IF e.ret = "panic" THEN {"Crash"} ELSE {})
            \cup (IF e.ret # "ok" \/ e.rdm # k \/ e.rdlen # m.st.msgs[k].n \/ ~st2.reads[idx].ok THEN {"ReadMismatch"} ELSE {})
            \cup (IF e.ret = "ok" /\ m.kind = "ws" /\
                     (WinBad(st2, st2.rw, e.rw) \/ (Quiescent(st2) /\ m.wwcrc # -1 /\ st2.mode = "ct" /\ e.rw[3] # m.wwcrc))
                  THEN {"WindowMismatchReader"} ELSE {})
            \cup (IF e.ret = "ok" /\ m.kind = "ws" /\ (e.rx # m.rxsum + m.flens[idx] \/ e.rwire # e.rx) THEN {"CounterMismatch"} ELSE {})
            \cup (IF e.ret = "ok" /\ m.kind = "quic" /\ st2.chan = <<>> /\ (e.rx # Sum(m.flens) \/ e.rwire # e.rx) THEN {"CounterMismatch"} ELSE {})

\* end of a free-running scenario: everything written was read
CheckFinal(m, e) ==
    (IF e.nfail # 0 THEN {"WriteFailed"} ELSE {})
    \cup (IF e.frames # e.nwrites \/ Len(m.st.wire) # e.nwrites THEN {"BoundaryMismatch"} ELSE {})
    \cup (IF m.st.chan # <<>> THEN {"ReadMismatch"} ELSE {})
    \cup (IF e.tx # Sum(m.flens) \/ e.wire # e.tx \/ e.rx # e.tx \/ e.rwire # e.rx THEN {"CounterMismatch"} ELSE {})
    \cup (IF m.kind = "ws" /\ WinBad(m.st, m.st.ww, e.ww) THEN {"WindowMismatchWriter"} ELSE {})
    \cup (IF m.kind = "ws" /\ (WinBad(m.st, m.st.rw, e.rw) \/ e.rw[3] # e.ww[3]) THEN {"WindowMismatchReader"} ELSE {})

IsGated(a) == a \in {"start", "acq", "enc", "emit", "rel"}
\* a scripted step that the model does not enable cannot be judged
Enabled(st, e) ==
    CASE e.a = "start" -> st.pc[e.tag] = "idle"
      [] e.a = "acq"   -> st.pc[e.tag] = "wait"
      [] e.a = "enc"   -> st.pc[e.tag] = "acq"
      [] e.a = "emit"  -> st.pc[e.tag] = "enc"
      [] e.a = "rel"   -> st.pc[e.tag] = "emit"
      [] e.a = "write" -> \A g \in Writers : st.pc[g] = "idle"
      [] OTHER -> TRUE

MonStep(m, e) ==
    IF e.ev # "WsOp" THEN m
    ELSE IF e.a = "final"
    THEN [m EXCEPT !.bad = IF @ # {} THEN @ ELSE CheckFinal(m, e), !.finals = @ + 1, !.steps = @ + 1]
    ELSE IF ~Enabled(m.st, e) THEN [m EXCEPT !.bad = IF @ # {} THEN @ ELSE {"ScriptNotEnabled"}]
    ELSE LET st2 == Apply(m.st, OpOf(e))
             done == e.a \in {"write", "rel"}
             id == IF e.a = "write" THEN Len(st2.msgs) ELSE IF e.a = "rel" THEN m.st.cur[e.tag] ELSE 0
             n == IF done THEN st2.msgs[id].n ELSE 0
         IN [m EXCEPT !.st = st2,
                      !.bad = IF @ # {} THEN @
                              ELSE (IF done THEN CheckWrite(m, st2, e, id) ELSE {})
                                   \cup (IF e.a = "read" THEN CheckRead(m, st2, e) ELSE {})
                                   \cup (IF IsGated(e.a) /\ ~done /\ e.ret # "ok" THEN {"WriteFailed"} ELSE {}),
                      !.flens = IF done THEN Append(@, e.flen) ELSE @,
                      !.txsum = IF done THEN @ + e.flen ELSE @,
                      !.rxsum = IF e.a = "read" /\ m.st.chan # <<>> THEN @ + m.flens[Len(st2.reads)] ELSE @,
                      !.wwcrc = IF done THEN (IF e.chk = 1 THEN e.ww[3] ELSE -1) ELSE @,
                      !.steps = @ + 1,
                      !.writes = @ + (IF done THEN 1 ELSE 0),
                      !.reads = @ + (IF e.a = "read" THEN 1 ELSE 0),
                      !.ctwrites = @ + (IF done /\ st2.mode = "ct" THEN 1 ELSE 0),
                      \* the trim rule actually dropped bytes from the writer dictionary
                      !.trims = @ + (IF e.a \in {"write", "enc"} /\ st2.mode = "ct" /\
                                        Total(m.st.ww) + st2.msgs[IF e.a = "write" THEN id ELSE m.st.cur[e.tag]].n > st2.W THEN 1 ELSE 0),
                      \* a frame was decoded against a non-empty dictionary
                      !.dictreads = @ + (IF e.a = "read" /\ m.st.rw # <<>> THEN 1 ELSE 0),
                      !.gatedops = @ + (IF IsGated(e.a) THEN 1 ELSE 0),
                      !.inflight2 = @ + (IF Len(st2.chan) >= 2 THEN 1 ELSE 0),
                      !.zero = @ + (IF done /\ n = 0 THEN 1 ELSE 0),
                      !.big = @ + (IF done /\ n >= 1048576 THEN 1 ELSE 0)]

MonVerdict(m) == m.bad \cup (IF AllInvOf(m.st) THEN {} ELSE {"ModelInvariant"})
MonStats(m) == [steps |-> m.steps, writes |-> m.writes, reads |-> m.reads, trims |-> m.trims, dictreads |-> m.dictreads,
                ctwrites |-> m.ctwrites, gatedops |-> m.gatedops, inflight2 |-> m.inflight2, finals |-> m.finals,
                zero |-> m.zero, big |-> m.big]
=============================================================================
