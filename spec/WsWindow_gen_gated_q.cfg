SPECIFICATION Spec
CONSTANTS
  MaxMsgs = 2
  Classes <- ClassesOne
  NWriters = 2
  Conc = TRUE
  Excl = TRUE
  WinLock = TRUE
  Fault = "none"
  ReadPolicy = "any"
  StrictBackend = TRUE
  DrainAfterDecode = TRUE
  Modes <- ModesCt
  Levels <- LevelsOne
  Bits <- BitsOne

INVARIANTS NoReaderRefused DictionariesEqual HeadDecodable ReadEqualsWrite InOrder NoInterleave NoDecodeFailure WindowIsSuffix NoWindowWithoutTakeover
CONSTRAINT GenPrint
CHECK_DEADLOCK FALSE
