------------------------------ MODULE DownMeta ------------------------------
(* The metadata path of one downstream, stage by stage as coded:

     broker --link--> wire read loop --inbox (blocking, cap InboxCap)--> readDownstreamMetadataLoop
            --metadata[alias][src] channel (cap Cap, drop when full)--> one forwarder goroutine per filter
            --resCh (cap Cap, drop when full)--> metadataOrDone / readMetadataLoop
            --metadataCh (cap Cap, drop when full)--> ReadMetadata (+ DownstreamMetadataAck with the request id)

   wire.ClientConn.SubscribeDownstreamMeta is called once per filter, in filter order; a later call for the same
   source node REPLACES the channel of the earlier one (the earlier forwarder keeps its now unreferenced channel and
   starves). SharedSub = TRUE is the variant where the later call is handed the existing channel instead: two
   forwarders then drain one channel and per-source order is lost (PerSourceOrder violated).

   Property C03 (metadata part): each metadata the broker sent for a subscribed source node is returned at most once,
   in the broker's order per source node; exactly once while no stage overflows; each one returned is acknowledged
   with its own request id; metadata of a source node that no filter names is never returned.                       *)
EXTENDS Naturals, Sequences, FiniteSets, TLC, Json

CONSTANTS Srcs,          \* source nodes the broker sends metadata for (strings)
          Filters,       \* sequence of source nodes, one per filter of the downstream (may repeat)
          NMeta,         \* number of metadata the broker sends
          Cap,           \* capacity of the buffered stages
          InboxCap,      \* capacity of the wire inbox (blocking stage)
          SharedSub,     \* variant: a second subscription for the same node shares the first one's channel
          RecordScript

\* filter lists for the configurations (cfg: Filters <- F_...)
F_1 == <<"n1">>
F_12 == <<"n1", "n2">>
F_11 == <<"n1", "n1">>
F_121 == <<"n1", "n2", "n1">>
F_111 == <<"n1", "n1", "n1">>

VARIABLES s, script
vars == <<s, script>>

NF == Len(Filters)
FIdx == 1..NF
Subscribed == { Filters[f] : f \in FIdx }

\* channel id used by the subscription call of filter f, and the channel the dispatcher's map points to per source node
ChanOfFilter(f) == IF SharedSub THEN CHOOSE g \in FIdx : Filters[g] = Filters[f] /\ \A h \in FIdx : Filters[h] = Filters[f] => g <= h
                   ELSE f
MapChan(src) == IF SharedSub THEN CHOOSE g \in FIdx : Filters[g] = src /\ \A h \in FIdx : Filters[h] = src => g <= h
                ELSE CHOOSE g \in FIdx : Filters[g] = src /\ \A h \in FIdx : Filters[h] = src => g >= h

None == [src |-> "", tag |-> 0]

Init == /\ s = [ sent |-> <<>>,                       \* what the broker sent, in order: [src, tag]; tag doubles as request id
                 link |-> <<>>,                       \* on the wire
                 inbox |-> <<>>,
                 chan |-> [f \in FIdx |-> <<>>],      \* subscription channels (indexed by the filter whose call created them)
                 fhold |-> [f \in FIdx |-> None],     \* item a forwarder has taken and not yet pushed
                 res |-> <<>>,                        \* resCh
                 mhold |-> None,                      \* item metadataOrDone has taken
                 mch |-> <<>>,                        \* metadataCh
                 delivered |-> <<>>, acks |-> <<>>, dropped |-> {} ]
        /\ script = <<>>

Rec(op) == IF RecordScript THEN Append(script, op) ELSE script

\* --- environment ---
BSend(src) == /\ Len(s.sent) < NMeta
              /\ LET x == [src |-> src, tag |-> Len(s.sent) + 1] IN
                 s' = [s EXCEPT !.sent = Append(@, x), !.link = Append(@, x)]
              /\ script' = Rec([a |-> "sendMeta", src |-> src, tag |-> Len(s.sent) + 1])
Read == /\ s.mch # <<>>
        /\ s' = [s EXCEPT !.mch = Tail(@), !.delivered = Append(@, Head(s.mch)), !.acks = Append(@, Head(s.mch).tag)]
        /\ script' = Rec([a |-> "readMeta"])

\* --- library-internal steps ---
WireRead == /\ s.link # <<>> /\ Len(s.inbox) < InboxCap
            /\ s' = [s EXCEPT !.link = Tail(@), !.inbox = Append(@, Head(s.link))]
            /\ UNCHANGED script
Dispatch == /\ s.inbox # <<>>
            /\ LET x == Head(s.inbox) IN
               IF x.src \notin Subscribed THEN s' = [s EXCEPT !.inbox = Tail(@)]
               ELSE LET c == MapChan(x.src) IN
                    IF Len(s.chan[c]) < Cap THEN s' = [s EXCEPT !.inbox = Tail(@), !.chan[c] = Append(@, x)]
                    ELSE s' = [s EXCEPT !.inbox = Tail(@), !.dropped = @ \cup {x.tag}]
            /\ UNCHANGED script
FwdTake(f) == /\ s.fhold[f] = None /\ s.chan[ChanOfFilter(f)] # <<>>
              /\ s' = [s EXCEPT !.fhold[f] = Head(s.chan[ChanOfFilter(f)]), !.chan[ChanOfFilter(f)] = Tail(@)]
              /\ UNCHANGED script
FwdPush(f) == /\ s.fhold[f] # None
              /\ IF Len(s.res) < Cap THEN s' = [s EXCEPT !.fhold[f] = None, !.res = Append(@, s.fhold[f])]
                 ELSE s' = [s EXCEPT !.fhold[f] = None, !.dropped = @ \cup {s.fhold[f].tag}]
              /\ UNCHANGED script
MTake == /\ s.mhold = None /\ s.res # <<>>
         /\ s' = [s EXCEPT !.mhold = Head(s.res), !.res = Tail(@)]
         /\ UNCHANGED script
MPush == /\ s.mhold # None
         /\ IF Len(s.mch) < Cap THEN s' = [s EXCEPT !.mhold = None, !.mch = Append(@, s.mhold)]
            ELSE s' = [s EXCEPT !.mhold = None, !.dropped = @ \cup {s.mhold.tag}]
         /\ UNCHANGED script

Internal == WireRead \/ Dispatch \/ (\E f \in FIdx : FwdTake(f) \/ FwdPush(f)) \/ MTake \/ MPush
Next == (\E src \in Srcs : BSend(src)) \/ Read \/ Internal
Spec == Init /\ [][Next]_vars
FairSpec == Spec /\ WF_vars(Internal) /\ WF_vars(Read)

\* --- properties ---
Of(q, src) == SelectSeq(q, LAMBDA x : x.src = src)
Tags(q) == [k \in 1..Len(q) |-> q[k].tag]
Increasing(t) == \A a, b \in 1..Len(t) : a < b => t[a] < t[b]
\* per source node the metadata come back in the broker's order, each at most once (tags grow along `sent`)
PerSourceOrder == \A src \in Srcs : Increasing(Tags(Of(s.delivered, src)))
OnceEach == \A a, b \in 1..Len(s.delivered) : a # b => s.delivered[a].tag # s.delivered[b].tag
OnlySent == \A k \in 1..Len(s.delivered) : \E j \in 1..Len(s.sent) : s.sent[j] = s.delivered[k]
OnlySubscribed == \A k \in 1..Len(s.delivered) : s.delivered[k].src \in Subscribed
AckMatches == s.acks = Tags(s.delivered)
\* nothing overflows while at most Cap items are outstanding
NoDropWithinCap == NMeta <= Cap => s.dropped = {}
Quiet == s.link = <<>> /\ s.inbox = <<>> /\ s.res = <<>> /\ s.mhold = None /\ s.mch = <<>>
         /\ \A f \in FIdx : s.fhold[f] = None /\ s.chan[f] = <<>>
\* when everything has drained, exactly the subscribed part of what was sent has been returned (no overflow)
AllDeliveredWhenQuiet == (Quiet /\ s.dropped = {}) =>
                            \A src \in Subscribed : Of(s.delivered, src) = Of(s.sent, src)
\* a channel nobody drains (replaced subscription) never receives anything
OrphanEmpty == \A f \in FIdx : MapChan(Filters[f]) # f => s.chan[f] = <<>>
\* NOT an invariant (sanity of the model): order across different source nodes is not promised
GlobalOrder == Increasing(Tags(s.delivered))

EventuallyAll == <>[](\A src \in Subscribed : Len(Of(s.delivered, src)) = Len(Of(s.sent, src)) \/ s.dropped # {})

View == s
Terminal == Len(s.sent) = NMeta /\ Quiet
GenPrint == IF Terminal /\ RecordScript THEN PrintT("SCRIPT " \o ToJson(script)) ELSE TRUE
=============================================================================
