SPECIFICATION Spec
CONSTANTS
  Streams = {"S1", "S2"}
  Callers = {"P1"}
  MaxFaults = 2
  MaxDialFails = 1
  MaxResumeNg = 1
  WatcherByEpoch = TRUE
  HookCurrent = TRUE
  SwapGuarded = TRUE
  SupervisorOrClosed = TRUE
  RetryByEpoch = TRUE
  AllowClose = TRUE
  EpochBeforeResume = TRUE
  HalfBroken = TRUE
VIEW View
INVARIANTS TokenPerDial NoStreamDetached CallersSurvive NotificationsOnce NoPanic NoDialAfterClose NoCallerParkedWhenClosed NoSupervisorParkedWhenClosed SilentAfterDisconnect
CHECK_DEADLOCK FALSE
