SPECIFICATION Spec
CONSTANTS
  Flushers = {F1, F2, F3}
  Writer = W
  SharedResult = TRUE
  WatchDone = FALSE
INVARIANTS TypeOK CtxOnlyIfExpired
PROPERTIES LoopComesBack
CHECK_DEADLOCK FALSE
