SPECIFICATION Spec
CONSTANTS
  Flushers = {F1, F2, F3}
  Writer = W
  WatchDone = FALSE
INVARIANTS TypeOK CtxOnlyIfExpired
PROPERTIES LoopComesBack
CHECK_DEADLOCK FALSE
