---------------------------- MODULE ReconnectTransport ----------------------------
(* L1 wrapper of ReconnectTransportCore: exhaustive exploration of all interleavings of
   the environment operations with the goroutine steps of the write/read loops. *)
EXTENDS ReconnectTransportCore

VARIABLES st, script
vars == <<st, script>>

Init == st = Init0(Budget) /\ script = <<>>
Next == \E op \in EnabledOps(st) : st' = Apply(st, op) /\ script' = Append(script, op)
Spec == Init /\ [][Next]_vars

AcceptedExactlyOnce == AcceptedExactlyOnceOf(st)
OrderPreserved == OrderPreservedOf(st)
RedialKeepsIdAndFlag == RedialKeepsIdAndFlagOf(st)
PingFiltered == PingFilteredOf(st)
ReadsContinue == ReadsContinueOf(st)
NoBlockAfterBudgetOrClose == NoBlockAfterBudgetOrCloseOf(st)
SummaryAgrees == SummaryAgreesOf(st)
Quiescent == QuiescentOf(st)
StView == st

\* script generation: print the operation sequence at every quiescent state that exercised something
\* (the orchestration drops scripts that are prefixes of longer ones)
GenPrint == IF Quiescent /\ Len(script) > 0 /\ (st.cnt.w > 0 \/ st.cnt.ur > 0 \/ st.closeSt = "done")
            THEN PrintT("SCRIPT " \o ToJson([ops |-> script,
                                              stuck |-> { st.wr[w] : w \in { x \in Writers : Stuck(st, x) } }]))   \* model's prediction
            ELSE TRUE
=============================================================================
