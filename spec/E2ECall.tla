------------------------------ MODULE E2ECall ------------------------------
(* L1 system specification of the end-to-end call layer of one iscp connection:
   iscp/e2e.go (SendCall, SendReplyCall, SendCallAndWaitReplayCall, subscribeReply, call,
   receiveReplyCall, ReceiveCall, ReceiveReplyCall) and iscp/conn.go (readUpstreamCallAckLoop,
   readDownstreamCallLoop, send, reconnect, close) together with the broker and the link.

   Implementation-shaped: one action per critical section / channel hand-off of the code.
     * call ids come from a generator (uuid in the code; a counter here; FreshIds = FALSE pins the
       id to a constant, the situation of e2e_test.go and of a broken generator);
     * ackW  = upstreamCallAckCh : call id -> 1-buffered ack channel, under upstreamCallAckMu;
       replyW = replyCallChs     : call id -> 1-buffered reply channel, under replyCallsChsMu;
       a channel is created per call (make(chan, 1)), so channels are indexed by the call number k;
     * registration is check (RLock) then insert (Lock): two critical sections;
     * the two dispatcher goroutines: receive from the wire channel, lookup + delete under the
       lock (one critical section), then deliver on the waiter's channel outside the lock;
       readDownstreamCallLoop pushes every reply into the replyCallCh inbox AND to the waiter;
     * the inboxes downstreamCallCh / replyCallCh have capacity Cap (1024 in the code), a message
       that does not fit is discarded (select default);
     * a link failure drops what is in flight; the waiter tables survive the reconnect, so an ack
       sent on the next incarnation still finds its caller.

   Environment actions (API calls, broker decisions, ctx expiry, link failure, redial, Close) are
   separated from system actions (goroutine steps); the environment projection of a behaviour is the
   scenario script replayed on the real library (history variable `script`, hidden from the VIEW).
   The whole state is one record `s`.                                                            *)
EXTENDS Integers, Sequences, FiniteSets, TLC, Json, SequencesExt, FiniteSetsExt

CONSTANTS
    Callers,        \* caller processes, e.g. {"P1","P2","P3"}
    CallKinds,      \* subset of {"call", "callWait", "replyCall"}
    MaxCallsPer,    \* calls per caller process (one after the other)
    CallReceivers,  \* processes calling ReceiveCall, e.g. {"RC"}
    ReplyReceivers, \* processes calling ReceiveReplyCall, e.g. {"RR"}
    MaxRecv,        \* receive calls per receiver process
    Cap,            \* inbox capacity (1024 in the code)
    MaxAcks,        \* acks the broker sends for received calls (including duplicates)
    MaxDupAcks,     \* ... of which duplicates
    MaxNegAcks,     \* ... of which negative
    MaxUnkAcks,     \* acks for a call id nobody uses
    MaxReplies,     \* replies to received calls (including duplicates)
    MaxDupReplies,  \* ... of which duplicates
    MaxUnkReplies,  \* replies for a request call id nobody uses
    MaxInCalls,     \* incoming calls (no request call id)
    MaxFaults,      \* link failures between a call and its ack
    MaxExpire,      \* callers whose context expires while they wait
    CloseAnytime,   \* TRUE: Close may be called at any moment; FALSE: only when the system is quiet (script generation)
    FreshIds,       \* TRUE as coded (uuid); FALSE = constant call id
    DeleteWaiter    \* TRUE as coded: the dispatcher removes the waiter entry before delivering

VARIABLES s, script
vars == <<s, script>>
View == s

NegCode == 19       \* ResultCodeProcessFailed
NoAck == [id |-> 0, code |-> 0]
NoMsg == [cid |-> 0, req |-> 0]     \* a DownstreamCall: cid = its call id, req = request call id (0 = "", -1 = an id nobody uses)
NoRes == [st |-> "none", ack |-> NoAck, reply |-> NoMsg]
Idle == [st |-> "recv", k |-> 0, ack |-> NoAck, m |-> NoMsg]
Recvs == CallReceivers \cup ReplyReceivers

Init0 ==
  [ calls |-> <<>>,        \* call number k -> [p, kind, id]
    cst |-> [p \in Callers |-> [pc |-> "idle", k |-> 0, n |-> 0]],
    idgen |-> 0,
    ackW |-> {},           \* upstreamCallAckCh as a set of <<id, k>> (at most one pair per id)
    replyW |-> {},         \* replyCallChs
    ach |-> <<>>,          \* k -> content of the ack channel made by call k (capacity 1)
    rch |-> <<>>,          \* k -> content of the reply channel made by call k (capacity 1)
    res |-> <<>>,          \* k -> what the API call returned
    ackQ |-> <<>>,         \* wire: msgUpstreamCallAckCh
    dcQ |-> <<>>,          \* wire: msgDownstreamCallCh
    aDisp |-> Idle,        \* readUpstreamCallAckLoop
    dDisp |-> Idle,        \* readDownstreamCallLoop
    inCall |-> <<>>,       \* downstreamCallCh
    inReply |-> <<>>,      \* replyCallCh
    rst |-> [r \in Recvs |-> [pc |-> "idle", n |-> 0]],
    gotC |-> <<>>, gotR |-> <<>>,      \* messages handed to ReceiveCall / ReceiveReplyCall, in hand-over order
    closed |-> FALSE, alive |-> TRUE, inc |-> 1,
    \* ---- broker ledger and bounds (ghost)
    bgot |-> {},           \* call numbers k whose UpstreamCall the broker has received
    backs |-> {},          \* acks sent: [id, code]
    bsent |-> <<>>,        \* DownstreamCalls sent: [cid, req]
    gone |-> {},           \* cids discarded at a full inbox or lost with the link
    nack |-> 0, ndup |-> 0, nneg |-> 0, nunk |-> 0, nrep |-> 0, ndupr |-> 0, nunkr |-> 0, nin |-> 0,
    faults |-> 0, expires |-> 0 ]

Init == s = Init0 /\ script = <<>>

Say(op) == script' = Append(script, op)
Quiet == UNCHANGED script

KOf(p) == s.cst[p].k
IdOfCall(k) == s.calls[k].id
KindOf(k) == s.calls[k].kind
Put(W, id, k) == { w \in W : w[1] # id } \cup { <<id, k>> }      \* map assignment
Hit(W, id) == { w \in W : w[1] = id }
Done(p, r) == s' = [s EXCEPT !.res[KOf(p)] = r, !.cst[p].pc = "idle"]

\* ---------------------------------------------------------------- API: SendCall / SendReplyCall / SendCallAndWaitReplayCall
\* callID = randomString()
CallStart(p, kind) ==
    /\ s.cst[p].pc = "idle" /\ s.cst[p].n < MaxCallsPer /\ kind \in CallKinds /\ ~s.closed
    /\ LET k == Len(s.calls) + 1
           id == IF FreshIds THEN s.idgen + 1 ELSE 1
       IN /\ s' = [s EXCEPT !.calls = Append(@, [p |-> p, kind |-> kind, id |-> id]), !.idgen = @ + 1,
                            !.ach = Append(@, <<>>), !.rch = Append(@, <<>>), !.res = Append(@, NoRes),
                            !.cst[p] = [pc |-> IF kind = "callWait" THEN "subChk" ELSE "chk", k |-> k, n |-> @.n + 1]]
          /\ Say([a |-> "call", g |-> p, kind |-> kind, tag |-> k])

\* subscribeReply: RLock; lookup; RUnlock
SubChk(p) ==
    /\ s.cst[p].pc = "subChk"
    /\ IF Hit(s.replyW, IdOfCall(KOf(p))) # {} THEN Done(p, [NoRes EXCEPT !.st = "exists"])
       ELSE s' = [s EXCEPT !.cst[p].pc = "subIns"]
    /\ Quiet
\* subscribeReply: Lock; replyCallChs[id] = make(chan, 1); Unlock
SubIns(p) ==
    /\ s.cst[p].pc = "subIns"
    /\ s' = [s EXCEPT !.replyW = Put(@, IdOfCall(KOf(p)), KOf(p)), !.cst[p].pc = "chk"]
    /\ Quiet
\* call: RLock; lookup; RUnlock
Chk(p) ==
    /\ s.cst[p].pc = "chk"
    /\ IF Hit(s.ackW, IdOfCall(KOf(p))) # {} THEN Done(p, [NoRes EXCEPT !.st = "exists"])
       ELSE s' = [s EXCEPT !.cst[p].pc = "ins"]
    /\ Quiet
\* call: Lock; upstreamCallAckCh[id] = make(chan, 1); Unlock
Ins(p) ==
    /\ s.cst[p].pc = "ins"
    /\ s' = [s EXCEPT !.ackW = Put(@, IdOfCall(KOf(p)), KOf(p)), !.cst[p].pc = "send"]
    /\ Quiet
\* c.send: wait until connected, write the UpstreamCall (synchronous link: written = received by the broker)
Send(p) ==
    /\ s.cst[p].pc = "send" /\ s.alive /\ ~s.closed
    /\ s' = [s EXCEPT !.bgot = @ \cup {KOf(p)}, !.cst[p].pc = "waitAck"]
    /\ Quiet
\* select: ack := <-ch
TakeAck(p) ==
    /\ s.cst[p].pc = "waitAck" /\ s.ach[KOf(p)] # <<>>
    /\ LET k == KOf(p)  a == Head(s.ach[k]) IN
       IF a.code # 1 THEN s' = [s EXCEPT !.ach[k] = Tail(@), !.res[k] = [NoRes EXCEPT !.st = "failed", !.ack = a], !.cst[p].pc = "idle"]
       ELSE IF KindOf(k) = "callWait" THEN s' = [s EXCEPT !.ach[k] = Tail(@), !.res[k].ack = a, !.cst[p].pc = "waitReply"]
       ELSE s' = [s EXCEPT !.ach[k] = Tail(@), !.res[k] = [NoRes EXCEPT !.st = "ok", !.ack = a], !.cst[p].pc = "idle"]
    /\ Quiet
\* receiveReplyCall: call := <-ch
TakeReply(p) ==
    /\ s.cst[p].pc = "waitReply" /\ s.rch[KOf(p)] # <<>>
    /\ LET k == KOf(p) IN
       s' = [s EXCEPT !.rch[k] = Tail(@), !.res[k].st = "ok", !.res[k].reply = Head(s.rch[k]), !.cst[p].pc = "idle"]
    /\ Quiet
\* select: <-ctx.Done() with the connection closed
RetClosed(p) ==
    /\ s.closed /\ s.cst[p].pc \in {"send", "waitAck", "waitReply"}
    /\ Done(p, [s.res[KOf(p)] EXCEPT !.st = "closed"])
    /\ Quiet
\* select: <-ctx.Done(), the caller's context expired (the waiter entries stay registered)
Expire(p) ==
    /\ s.cst[p].pc \in {"waitAck", "waitReply"} /\ s.expires < MaxExpire /\ ~s.closed
    /\ s' = [s EXCEPT !.res[KOf(p)].st = "expired", !.cst[p].pc = "idle", !.expires = @ + 1]
    /\ Say([a |-> "expire", tag |-> KOf(p)])

\* ---------------------------------------------------------------- broker
AckedIds(x) == { a.id : a \in x.backs }
RepliedIds(x) == { x.bsent[i].req : i \in 1..Len(x.bsent) }
Up(x) == x.alive /\ ~x.closed
NextCid(x) == Len(x.bsent) + 1

BAck(j, code) ==
    /\ Up(s) /\ j \in s.bgot /\ s.nack < MaxAcks
    /\ LET id == s.calls[j].id
           dup == IF id \in AckedIds(s) THEN 1 ELSE 0
           neg == IF code # 1 THEN 1 ELSE 0
       IN /\ s.ndup + dup <= MaxDupAcks /\ s.nneg + neg <= MaxNegAcks
          /\ \A i \in s.bgot : i < j => s.calls[i].id # id          \* one broker action per distinct id
          /\ s' = [s EXCEPT !.nack = @ + 1, !.ndup = @ + dup, !.nneg = @ + neg,
                            !.backs = @ \cup {[id |-> id, code |-> code]}, !.ackQ = Append(@, [id |-> id, code |-> code])]
          /\ Say([a |-> "ack", tag |-> j, code |-> code])
BAckUnknown ==
    /\ Up(s) /\ s.nunk < MaxUnkAcks
    /\ s' = [s EXCEPT !.nunk = @ + 1, !.backs = @ \cup {[id |-> -1, code |-> 1]}, !.ackQ = Append(@, [id |-> -1, code |-> 1])]
    /\ Say([a |-> "ack", tag |-> 0, code |-> 1])
BReply(j) ==
    /\ Up(s) /\ j \in s.bgot /\ s.nrep < MaxReplies
    /\ LET id == s.calls[j].id
           dup == IF id \in RepliedIds(s) THEN 1 ELSE 0
       IN /\ s.ndupr + dup <= MaxDupReplies
          /\ \A i \in s.bgot : i < j => s.calls[i].id # id
          /\ s' = [s EXCEPT !.nrep = @ + 1, !.ndupr = @ + dup,
                            !.bsent = Append(@, [cid |-> NextCid(s), req |-> id]), !.dcQ = Append(@, [cid |-> NextCid(s), req |-> id])]
          /\ Say([a |-> "reply", tag |-> j, cid |-> NextCid(s)])
BReplyUnknown ==
    /\ Up(s) /\ s.nunkr < MaxUnkReplies
    /\ s' = [s EXCEPT !.nunkr = @ + 1, !.bsent = Append(@, [cid |-> NextCid(s), req |-> -1]), !.dcQ = Append(@, [cid |-> NextCid(s), req |-> -1])]
    /\ Say([a |-> "reply", tag |-> 0, cid |-> NextCid(s)])
BInCall ==
    /\ Up(s) /\ s.nin < MaxInCalls
    /\ s' = [s EXCEPT !.nin = @ + 1, !.bsent = Append(@, [cid |-> NextCid(s), req |-> 0]), !.dcQ = Append(@, [cid |-> NextCid(s), req |-> 0])]
    /\ Say([a |-> "incall", cid |-> NextCid(s)])

\* ---------------------------------------------------------------- readUpstreamCallAckLoop
\* ack := Receive; Lock; ch, ok := table[ack.CallID]; if !ok { Unlock; continue }; delete; Unlock
AckLookup ==
    /\ s.aDisp.st = "recv" /\ s.ackQ # <<>>
    /\ LET a == Head(s.ackQ)  hit == Hit(s.ackW, a.id) IN
       IF hit = {} THEN s' = [s EXCEPT !.ackQ = Tail(@)]
       ELSE s' = [s EXCEPT !.ackQ = Tail(@), !.ackW = IF DeleteWaiter THEN @ \ hit ELSE @,
                           !.aDisp = [st |-> "deliver", k |-> (CHOOSE w \in hit : TRUE)[2], ack |-> a, m |-> NoMsg]]
    /\ Quiet
\* ch <- ack   ("nonblocking": the channel has room for one)
AckDeliver ==
    /\ s.aDisp.st = "deliver" /\ Len(s.ach[s.aDisp.k]) < 1
    /\ s' = [s EXCEPT !.ach[s.aDisp.k] = Append(@, s.aDisp.ack), !.aDisp = Idle]
    /\ Quiet

\* ---------------------------------------------------------------- readDownstreamCallLoop
\* dc := Receive; request call: select { downstreamCallCh <- dc; default: discard }; continue
\*                reply call  : select { replyCallCh <- dc; default: discard }, then the waiter table
DcRecv ==
    /\ s.dDisp.st = "recv" /\ s.dcQ # <<>>
    /\ LET d == Head(s.dcQ) IN
       IF d.req = 0
       THEN IF Len(s.inCall) < Cap THEN s' = [s EXCEPT !.dcQ = Tail(@), !.inCall = Append(@, d)]
            ELSE s' = [s EXCEPT !.dcQ = Tail(@), !.gone = @ \cup {d.cid}]
       ELSE IF Len(s.inReply) < Cap THEN s' = [s EXCEPT !.dcQ = Tail(@), !.inReply = Append(@, d), !.dDisp = [Idle EXCEPT !.st = "lookup", !.m = d]]
            ELSE s' = [s EXCEPT !.dcQ = Tail(@), !.gone = @ \cup {d.cid}, !.dDisp = [Idle EXCEPT !.st = "lookup", !.m = d]]
    /\ Quiet
\* Lock; ch, ok := replyCallChs[dc.RequestCallID]; if !ok { Unlock; continue }; delete; Unlock
DcLookup ==
    /\ s.dDisp.st = "lookup"
    /\ LET hit == Hit(s.replyW, s.dDisp.m.req) IN
       IF hit = {} THEN s' = [s EXCEPT !.dDisp = Idle]
       ELSE s' = [s EXCEPT !.replyW = IF DeleteWaiter THEN @ \ hit ELSE @,
                           !.dDisp = [@ EXCEPT !.st = "deliver", !.k = (CHOOSE w \in hit : TRUE)[2]]]
    /\ Quiet
\* ch <- dc
DcDeliver ==
    /\ s.dDisp.st = "deliver" /\ Len(s.rch[s.dDisp.k]) < 1
    /\ s' = [s EXCEPT !.rch[s.dDisp.k] = Append(@, s.dDisp.m), !.dDisp = Idle]
    /\ Quiet

\* ---------------------------------------------------------------- API: ReceiveCall / ReceiveReplyCall
RecvStart(r) ==
    /\ s.rst[r].pc = "idle" /\ s.rst[r].n < MaxRecv /\ ~s.closed
    /\ s' = [s EXCEPT !.rst[r] = [pc |-> "wait", n |-> @.n + 1]]
    /\ Say([a |-> IF r \in CallReceivers THEN "recvCall" ELSE "recvReply", g |-> r])
RecvTake(r) ==
    /\ s.rst[r].pc = "wait"
    /\ IF r \in CallReceivers
       THEN /\ s.inCall # <<>>
            /\ s' = [s EXCEPT !.inCall = Tail(@), !.gotC = Append(@, Head(s.inCall)), !.rst[r].pc = "idle"]
       ELSE /\ s.inReply # <<>>
            /\ s' = [s EXCEPT !.inReply = Tail(@), !.gotR = Append(@, Head(s.inReply)), !.rst[r].pc = "idle"]
    /\ Quiet
RecvClosed(r) ==
    /\ s.closed /\ s.rst[r].pc = "wait"
    /\ s' = [s EXCEPT !.rst[r].pc = "idle"]
    /\ Quiet

\* ---------------------------------------------------------------- link failure, reconnect, Close
Unacked(x) == { j \in x.bgot : x.calls[j].id \notin AckedIds(x) }
InFlight(q) == { q[i].cid : i \in 1..Len(q) }
\* between a call and its ack; whatever is in flight on the old wire connection is lost
LinkDown ==
    /\ Up(s) /\ s.faults < MaxFaults /\ Unacked(s) # {}
    /\ s' = [s EXCEPT !.alive = FALSE, !.faults = @ + 1, !.ackQ = <<>>, !.dcQ = <<>>, !.gone = @ \cup InFlight(s.dcQ)]
    /\ Say([a |-> "cut"])
\* reconnect(): a new wire connection, run() starts the two loops again; the tables are untouched
Redial ==
    /\ ~s.alive /\ ~s.closed
    /\ s' = [s EXCEPT !.alive = TRUE, !.inc = @ + 1]
    /\ Say([a |-> "redial"])

Blocked(x, p) == \/ x.cst[p].pc = "idle"
                 \/ x.cst[p].pc = "waitAck" /\ x.ach[x.cst[p].k] = <<>>
                 \/ x.cst[p].pc = "waitReply" /\ x.rch[x.cst[p].k] = <<>>
RBlocked(x, r) == \/ x.rst[r].pc = "idle"
                  \/ x.rst[r].pc = "wait" /\ (IF r \in CallReceivers THEN x.inCall ELSE x.inReply) = <<>>
QuietSys(x) == /\ x.alive /\ x.ackQ = <<>> /\ x.dcQ = <<>> /\ x.aDisp.st = "recv" /\ x.dDisp.st = "recv"
               /\ \A p \in Callers : Blocked(x, p)
               /\ \A r \in Recvs : RBlocked(x, r)
Close ==
    /\ ~s.closed /\ (CloseAnytime \/ QuietSys(s))
    /\ s' = [s EXCEPT !.closed = TRUE]
    /\ Say([a |-> "close"])

Next ==
    \/ \E p \in Callers : \/ \E kind \in CallKinds : CallStart(p, kind)
                          \/ SubChk(p) \/ SubIns(p) \/ Chk(p) \/ Ins(p) \/ Send(p) \/ TakeAck(p) \/ TakeReply(p)
                          \/ RetClosed(p) \/ Expire(p)
    \/ \E j \in s.bgot : BAck(j, 1) \/ BAck(j, NegCode) \/ BReply(j)
    \/ BAckUnknown \/ BReplyUnknown \/ BInCall
    \/ AckLookup \/ AckDeliver \/ DcRecv \/ DcLookup \/ DcDeliver
    \/ \E r \in Recvs : RecvStart(r) \/ RecvTake(r) \/ RecvClosed(r)
    \/ LinkDown \/ Redial \/ Close

Spec == Init /\ [][Next]_vars

\* ================================================================== properties (design level)
RangeOf(q) == { q[i] : i \in 1..Len(q) }
NCalls == Len(s.calls)
\* every call gets a call id no other call of this connection has
CallIdsFresh == \A j, k \in 1..NCalls : j # k => s.calls[j].id # s.calls[k].id
\* an ack is handed only to the call whose id it carries; what SendCall / SendReplyCall report is an ack the broker sent for that id
AckToOwnerOnly ==
    /\ \A k \in 1..NCalls : \A i \in 1..Len(s.ach[k]) : s.ach[k][i].id = s.calls[k].id
    /\ s.aDisp.st = "deliver" => s.aDisp.ack.id = s.calls[s.aDisp.k].id
    /\ \A k \in 1..NCalls : s.res[k].ack # NoAck => s.res[k].ack.id = s.calls[k].id /\ s.res[k].ack \in s.backs
    /\ \A k \in 1..NCalls : s.res[k].st = "ok" => s.res[k].ack # NoAck /\ s.res[k].ack.code = 1
\* a reply is handed only to the SendCallAndWaitReplayCall whose call id it names
ReplyToOwnerOnly ==
    /\ \A k \in 1..NCalls : \A i \in 1..Len(s.rch[k]) : s.rch[k][i].req = s.calls[k].id
    /\ s.dDisp.st = "deliver" => s.dDisp.m.req = s.calls[s.dDisp.k].id
    /\ \A k \in 1..NCalls : s.res[k].reply # NoMsg => s.res[k].reply.req = s.calls[k].id /\ s.res[k].reply \in RangeOf(s.bsent)
    /\ \A k \in 1..NCalls : (s.res[k].st = "ok" /\ s.calls[k].kind = "callWait") => s.res[k].reply # NoMsg
\* ReceiveCall / ReceiveReplyCall: every message the broker sent (and that was neither discarded at a full inbox nor lost
\* with the link) exactly once, unmodified, in arrival order
Kept(isReply) == SelectSeq(s.bsent, LAMBDA d : (d.req # 0) = isReply /\ d.cid \notin s.gone)
InboxOnceInOrder ==
    /\ s.gotC \o s.inCall \o SelectSeq(s.dcQ, LAMBDA d : d.req = 0) = Kept(FALSE)
    /\ s.gotR \o s.inReply \o SelectSeq(s.dcQ, LAMBDA d : d.req # 0) = Kept(TRUE)
\* an error is reported only to the caller whose own call was answered negatively (or whose own context / connection ended)
NegativeAckOnlyThatCaller ==
    \A k \in 1..NCalls :
        /\ s.res[k].st = "failed" => s.res[k].ack.id = s.calls[k].id /\ s.res[k].ack.code # 1 /\ s.res[k].ack \in s.backs
        /\ s.res[k].st = "closed" => s.closed
        /\ s.res[k].st # "exists"
\* the dispatcher's send on the waiter channel never blocks (the comment "nonblocking" in the code)
DeliverNonBlocking ==
    /\ s.aDisp.st = "deliver" => s.ach[s.aDisp.k] = <<>>
    /\ s.dDisp.st = "deliver" => s.rch[s.dDisp.k] = <<>>

\* reduction used by the quick exhaustive configuration (ACTION_CONSTRAINT): the registration steps of a call touch only
\* the entry of its own fresh id, they commute with every other action; run them eagerly (the thorough configuration and
\* the FreshIds = FALSE configurations explore them in every interleaving)
LocalPcs == {"subChk", "subIns", "chk", "ins"}
Locals(x) == { p \in Callers : x.cst[p].pc \in LocalPcs }
EagerLocal == Locals(s) # {} => \E p \in Locals(s) : s'.cst[p].pc # s.cst[p].pc
Sym == Permutations(Callers)

\* script generation: print the environment projection once Close was called and every API call has returned
Terminal == s.closed /\ (\A p \in Callers : s.cst[p].pc = "idle") /\ (\A r \in Recvs : s.rst[r].pc = "idle")
GenPrint == IF Terminal THEN PrintT("SCRIPT " \o ToJson(script)) ELSE TRUE
=============================================================================
