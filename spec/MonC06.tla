---------------------------- MODULE MonC06 ----------------------------
(* Trace monitor for C06 (each request receives its own response; request ids are unique).
   The real component is concurrent (caller goroutines, dispatcher), its internal steps are not
   observable: the monitor tracks the environment-visible history (which requests the broker
   received with which id, which it answered / duplicated, spurious ids sent, contexts cancelled,
   connection closing) and accepts for every returning call exactly the outcomes the model
   ReqReplyCore allows for that history (Allowed = OutcomeAllowed of the L1 model):
       a response  -- only after the broker answered that caller, and it must bear the caller's own
                      request id and the stamp the broker put into the answer to this caller's request
       ctx         -- only if the caller's context was cancelled
       closed      -- only once the connection is being closed (harness Closing / ping deadline)
   Events: BRecv(rid, kind, tag) BSend(rid, tag, how) CallStart(tag) Cancel(tag)
           CallRet(tag, err, rid, srid, stag, how, xok) Stuck(tag) ConnClosed Closing.            *)
EXTENDS ReqReplyCore

MonInit == [n |-> 0, ptimeout |-> FALSE, ids |-> {}, rids |-> {}, started |-> {}, cancelled |-> {}, answered |-> {},
            returned |-> {}, closing |-> FALSE, ndup |-> 0, nspur |-> 0, crossed |-> {}, bad |-> {},
            calls |-> 0, resp |-> 0, ctx |-> 0, closedRet |-> 0, maxOut |-> 0, outOfOrder |-> 0, pings |-> 0, lateAns |-> 0]
\* (a scenario whose process crashed is re-run isolated; if it crashes before logging, the runner synthesises a Reset without p)
MonReset(e) == IF "p" \in DOMAIN e THEN [MonInit EXCEPT !.n = e.p.n, !.ptimeout = e.p.ptimeout] ELSE MonInit

RidOf(m, tag) == IF \E x \in m.rids : x[1] = tag THEN (CHOOSE x \in m.rids : x[1] = tag)[2] ELSE -2
\* requests at the broker whose caller has not returned yet
Outstanding(m) == { x \in m.rids : x[1] \notin m.returned }
\* who is to blame when a caller that should have got its response did not
Disturbed(m, tag) == IF m.nspur + m.ndup > 0 THEN {"SpuriousDisturbed"}
                     ELSE IF m.cancelled \ {tag} # {} THEN {"CancelStole"} ELSE {"UnexpectedError"}

OnRecv(m, e) ==
    [m EXCEPT !.bad = @ \cup (IF e.rid \in m.ids THEN {"IdNotUnique"} ELSE {}) \cup (IF e.rid % 2 # 0 THEN {"IdOdd"} ELSE {})
                        \cup (IF e.tag >= 1 /\ \E x \in m.rids : x[1] = e.tag THEN {"RequestTwice"} ELSE {}),
              !.ids = @ \cup {e.rid},
              !.rids = IF e.tag >= 1 /\ ~\E x \in m.rids : x[1] = e.tag THEN @ \cup {<<e.tag, e.rid>>} ELSE @,
              !.pings = @ + (IF e.kind = "ping" THEN 1 ELSE 0),
              !.maxOut = LET k == Cardinality(Outstanding(m)) + (IF e.tag >= 1 THEN 1 ELSE 0) IN IF k > @ THEN k ELSE @]

OnSend(m, e) ==
    [m EXCEPT !.answered = IF e.how = "ans" /\ e.tag >= 1 THEN @ \cup {e.tag} ELSE @,
              \* a response of another message kind that bears the id of this caller's outstanding request: the call fails with an error
              !.crossed = IF e.how = "cross" /\ e.tag >= 1 /\ e.tag \notin m.returned THEN @ \cup {e.tag} ELSE @,
              !.ndup = @ + (IF e.how = "dup" THEN 1 ELSE 0),
              !.nspur = @ + (IF e.how = "spur" THEN 1 ELSE 0),
              \* an answer overtaking an older outstanding request
              !.outOfOrder = @ + (IF e.how = "ans" /\ e.tag >= 1 /\ \E x \in Outstanding(m) : x[1] \notin m.answered /\ x[2] < e.rid THEN 1 ELSE 0),
              !.lateAns = @ + (IF e.how = "ans" /\ e.tag \in m.returned THEN 1 ELSE 0)]

OnRet(m, e) ==
    LET own == RidOf(m, e.tag)
        isOwn == e.rid = own /\ e.srid = own /\ e.stag = e.tag /\ e.how \in {"ans", "dup"} /\ e.xok
        allowed == Allowed(e.tag \in m.answered, e.tag \in m.cancelled, m.closing \/ m.ptimeout)
        v == CASE e.err = "" ->
                    (IF isOwn /\ "resp" \in allowed THEN {}
                     ELSE (IF e.how = "spur" THEN {"SpuriousDisturbed"} ELSE {"WrongResponse"})
                          \cup (IF e.tag \in m.cancelled THEN {"CancelStole"} ELSE {}))
               [] e.err = "ctx" -> (IF "ctx" \in allowed THEN {} ELSE {"UnexpectedError"})
               [] e.err = "closed" -> (IF "closed" \in allowed THEN {} ELSE Disturbed(m, e.tag))
               [] e.err = "panic" -> {"WrongResponse"} \cup Disturbed(m, e.tag)    \* type assertion on a foreign response
               [] OTHER -> IF e.tag \in m.crossed THEN {} ELSE Disturbed(m, e.tag)
    IN [m EXCEPT !.bad = @ \cup v \cup (IF e.tag \in m.returned THEN {"ReturnedTwice"} ELSE {}),
                 !.returned = @ \cup {e.tag},
                 !.resp = @ + (IF e.err = "" THEN 1 ELSE 0),
                 !.ctx = @ + (IF e.err = "ctx" THEN 1 ELSE 0),
                 !.closedRet = @ + (IF e.err = "closed" THEN 1 ELSE 0)]

OnStuck(m, e) ==
    [m EXCEPT !.bad = @ \cup {"CallerStuck"}
                        \cup (IF e.tag \in m.answered /\ e.tag \notin m.cancelled
                              THEN (IF m.nspur + m.ndup > 0 THEN {"SpuriousDisturbed"} ELSE {})
                                   \cup (IF m.cancelled \ {e.tag} # {} THEN {"CancelStole"} ELSE {})
                              ELSE {})]

MonStep(m, e) ==
    CASE e.ev = "BRecv"     -> OnRecv(m, e)
      [] e.ev = "BSend"     -> OnSend(m, e)
      [] e.ev = "CallStart" -> [m EXCEPT !.started = @ \cup {e.tag}, !.calls = @ + 1]
      [] e.ev = "Cancel"    -> [m EXCEPT !.cancelled = @ \cup {e.tag}]
      [] e.ev = "CallRet"   -> OnRet(m, e)
      [] e.ev = "Stuck"     -> OnStuck(m, e)
      \* the keep-alive ping got no pong with its id - only a Pong with a foreign id - and yet did not run into its deadline
      [] e.ev = "PingNotTimedOut" -> [m EXCEPT !.bad = @ \cup {"PingAnsweredByStranger"}]
      [] e.ev = "ConnClosed" -> [m EXCEPT !.bad = @ \cup (IF m.ptimeout THEN {} ELSE {"ConnLost"}), !.closing = TRUE]
      [] e.ev = "Closing"   -> [m EXCEPT !.closing = TRUE]
      \* the harness positioned the id counter: ids of finished requests lie about 2^31 requests back - only the outstanding ones count
      [] e.ev = "IdCounterSet" -> [m EXCEPT !.ids = { x[2] : x \in Outstanding(m) }]
      \* isolated re-run: the scenario's process died (a library goroutine panicked, e.g. on a foreign response) or hung
      [] e.ev = "Exit"      -> [m EXCEPT !.bad = @ \cup (IF e.status # 0 \/ e.timedOut THEN {"Crash"} ELSE {})]
      [] OTHER -> m

MonVerdict(m) == m.bad \cup (IF m.started \ m.returned # {} THEN {"CallerStuck"} ELSE {})
MonStats(m) == [calls |-> m.calls, resp |-> m.resp, ctx |-> m.ctx, closedRet |-> m.closedRet, dups |-> m.ndup, spurs |-> m.nspur,
                cancels |-> Cardinality(m.cancelled), maxOutstanding |-> m.maxOut, outOfOrder |-> m.outOfOrder, pings |-> m.pings,
                ansAfterReturn |-> m.lateAns, ids |-> Cardinality(m.ids)]
=============================================================================
