SPECIFICATION Spec
CONSTANTS
  SWriters = 3
  SPer = 2
  DWriters = 0
  DPer = 0
  SharedEncoder = TRUE
  SendLock = TRUE
INVARIANTS NoCorruptMessage FramingIntact StreamOrder
CHECK_DEADLOCK FALSE
