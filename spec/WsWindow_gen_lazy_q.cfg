SPECIFICATION Spec
CONSTANTS
  MaxMsgs = 4
  Classes <- ClassesAll
  NWriters = 1
  Conc = FALSE
  Excl = TRUE
  WinLock = TRUE
  Fault = "none"
  ReadPolicy = "lazy"
  StrictBackend = TRUE
  DrainAfterDecode = TRUE
  Modes <- ModesCt
  Levels <- LevelsOne
  Bits <- BitsOne

INVARIANTS NoReaderRefused DictionariesEqual HeadDecodable ReadEqualsWrite InOrder NoInterleave NoDecodeFailure WindowIsSuffix NoWindowWithoutTakeover
CONSTRAINT GenPrint
CHECK_DEADLOCK FALSE
