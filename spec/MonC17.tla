---------------------------- MODULE MonC17 ----------------------------
(* Trace monitor for C17. Every NegOp event recorded from the real code (one grid point of
   negotiation parameters, or one corruption operator applied to a carrier form) is applied
   to the model with the same Apply used by Negotiation.tla; the real outputs (Validate,
   key/value map, URL values, QUIC bytes, the round trips through every carrier,
   CompressConfig for two bases, dialer side vs accepting side) are compared with the
   model's expectation for that operation.                                               *)
EXTENDS NegotiationCore

MonInit == [st |-> Init0(0), bad |-> {}, steps |-> 0, grid |-> 0, valid |-> 0, invalid |-> 0, named |-> 0,
            dialer |-> 0, corrupt |-> 0, mustReject |-> 0, prefixCut |-> 0, uncheckedNoType |-> 0, enabledCfg |-> 0]
MonReset(e) == MonInit

OpOf(e) == [a |-> e.a, match |-> e.match]
Good(p) == [ok |-> TRUE, p |-> p]
StrictKinds == {"strictutf8v", "strictzerokey"}

\* x = the model's expectation for the grid point e.match
CheckGrid(x, e) ==
    LET p == e.match
        urlWant == URLMarshal(p)
    IN (IF x.valid /\ ~e.vok THEN {"ValidRejected"} ELSE {})
       \cup (IF ~x.valid /\ e.vok THEN {"InvalidAccepted"} ELSE {})
       \cup (IF x.valid /\ e.vok /\ e.vp # x.canon THEN {"ValidateDisagrees"} ELSE {})
       \* the premise "as every dialer of the library produces": DialConfig.NegotiationParams names type, level, window
       \cup (IF NamedP(p) /\ e.dial # p THEN {"DialerParams"} ELSE {})
       \* wire forms (what a peer that is not this library has to produce / understand)
       \cup (IF x.valid /\ (~e.kvok \/ e.kv # x.kv) THEN {"KVForm"} ELSE {})
       \cup (IF x.valid /\ (e.wsurl # urlWant \/ e.wturl # urlWant) THEN {"URLForm"} ELSE {})
       \cup (IF x.valid /\ (~e.qok \/ ~e.qwf \/ e.qlen # x.qlen \/ e.qkv # x.kv) THEN {"QuicForm"} ELSE {})
       \* round trips: Unmarshal(Marshal(p)) = p on a fresh value
       \cup (IF x.valid /\ e.kvrt # Good(p) THEN {"KVRoundTrip"} ELSE {})
       \cup (IF x.valid /\ \E i \in 1..Len(e.urlrt) : e.urlrt[i] # Good(p) THEN {"URLRoundTrip"} ELSE {})
       \cup (IF x.valid /\ e.qrt # Good(p) THEN {"QuicRoundTrip"} ELSE {})
       \* derived compression configuration, only for sets naming type, level and window
       \cup (IF x.named /\ Eff(e.cfgA) # Eff(e.cfgB) THEN {"CompressConfigDependsOnBase"} ELSE {})
       \cup (IF x.named /\ (Eff(e.cfgA) # NamedCfg(x.canon) \/ Eff(e.cfgB) # NamedCfg(x.canon)) THEN {"CompressConfigWrong"} ELSE {})
       \* dialer side (derives from what it sends, base A) vs accepting side (unmarshal, Validate, base B), every carrier
       \cup (IF x.dialer /\ \E i \in 1..Len(e.peerS) : (~e.peerS[i].ok \/ Eff(e.peerS[i].cfg) # Eff(e.peerC))
             THEN {"PeersDisagree"} ELSE {})

\* x = the model's expectation [ok, p] for the corrupted form
CheckCorrupt(x, e) ==
    LET c == e.match IN
    (IF ~x.ok /\ \E i \in 1..Len(e.res) : e.res[i].ok
     THEN (IF c.kind \in StrictKinds THEN {"StrictKVAccepted"} ELSE {"CorruptAccepted"}) ELSE {})
    \cup (IF x.ok /\ \E i \in 1..Len(e.res) : e.res[i] # x THEN {"PrefixMisread"} ELSE {})
    \* harness and model must describe the same bytes (a mismatch is a harness defect: the run is inconclusive)
    \cup (IF c.carrier = "quic" /\ e.blen # Size(QuicCorrupt(c.pairs, c.kind, c.idx, c.off), 1) THEN {"HarnessLayout"} ELSE {})
    \cup (IF x = Unmodelled THEN {"HarnessLayout"} ELSE {})

MonStep(m, e) ==
    IF e.ev = "Exit" THEN (IF e.status # 0 THEN [m EXCEPT !.bad = @ \cup {"Crash"}] ELSE m)   \* isolated run: the process died
    ELSE IF e.ev # "NegOp" THEN m
    ELSE LET st2 == Apply(m.st, OpOf(e))
             x == st2.exp
             g == e.a = "grid"
         IN [m EXCEPT !.st = st2,
                      !.bad = @ \cup (IF e.ret = "panic" THEN {"Crash"} ELSE {})
                                \cup (IF g THEN CheckGrid(x, e) ELSE CheckCorrupt(x, e)),
                      !.steps = @ + 1,
                      !.grid = @ + (IF g THEN 1 ELSE 0),
                      !.valid = @ + (IF g /\ x.valid THEN 1 ELSE 0),
                      !.invalid = @ + (IF g /\ ~x.valid THEN 1 ELSE 0),
                      !.named = @ + (IF g /\ x.named THEN 1 ELSE 0),
                      !.dialer = @ + (IF g /\ x.dialer THEN 1 ELSE 0),
                      !.enabledCfg = @ + (IF g /\ x.named /\ NamedCfg(x.canon).enable THEN 1 ELSE 0),
                      !.uncheckedNoType = @ + (IF g /\ x.valid /\ UncheckedNoType(e.match) THEN 1 ELSE 0),
                      !.corrupt = @ + (IF ~g THEN 1 ELSE 0),
                      !.mustReject = @ + (IF ~g /\ ~x.ok THEN 1 ELSE 0),
                      !.prefixCut = @ + (IF ~g /\ x.ok THEN 1 ELSE 0)]

MonVerdict(m) == m.bad \cup (IF AllInvOf(m.st) THEN {} ELSE {"ModelInvariant"})
MonStats(m) == [steps |-> m.steps, grid |-> m.grid, valid |-> m.valid, invalid |-> m.invalid, named |-> m.named,
                dialer |-> m.dialer, enabledCfg |-> m.enabledCfg, uncheckedNoType |-> m.uncheckedNoType,
                corrupt |-> m.corrupt, mustReject |-> m.mustReject, prefixCut |-> m.prefixCut]
=============================================================================
