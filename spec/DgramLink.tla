---------------------------- MODULE DgramLink ----------------------------
(* L1 wrapper of DgramLinkCore: exhaustive exploration of all writes (size, failing
   SendDatagram call or none) interleaved with the receiver goroutine, and script
   generation (every complete environment script: writes, final drain).            *)
EXTENDS DgramLinkCore

VARIABLES st, script
vars == <<st, script>>

Init == st = Init0 /\ script = <<>>
\* `script` records the environment operations only (recv is the receiver goroutine)
Next == \E op \in EnabledOps(st) : /\ st' = Apply(st, op)
                                  /\ script' = IF IsEnv(op) THEN Append(script, op) ELSE script
Spec == Init /\ [][Next]_vars

ExactOrNothing == ExactOrNothingOf(st)
AtMostOnce == AtMostOnceOf(st)
FailedNeverDelivered == FailedNeverDeliveredOf(st)
AllDelivered == AllDeliveredOf(st)
FreshSeq == FreshSeqOf(st)
TableConsistent == TableConsistentOf(st)
Terminal == TerminalOf(st)
StView == st

\* script generation: print the environment script of every complete path
GenPrint == IF Terminal THEN PrintT("SCRIPT " \o ToJson(script)) ELSE TRUE
=============================================================================
