------------------------------ MODULE MonC10 ------------------------------
(* Property monitor for C10: Close is final.  After a stream's or the connection's Close has returned, further calls on
   it fail promptly with the documented sentinel errors (library errors) instead of panicking, blocking or succeeding
   silently; nothing but keep-alive is sent after the Disconnect; no redial; closed notifications at most once; once the
   peer side is closed too, no library goroutine survives; the process does not die.
   Weak reading for repeated / concurrent Close: any return value, but it must return promptly and not crash.  *)
EXTENDS MonCommon

Bound == 1500     \* ms: 1 s + slack

MonInit == [ connCloseRet |-> 0, streamClose |-> <<>>, calls |-> <<>>, disconnects |-> <<>>, afterDisc |-> <<>>, dialsAfter |-> 0,
             closedEvs |-> <<>>, discAfterClose |-> 0, census |-> -1, censusTops |-> <<>>, exitStatus |-> 0, panics |-> 0, watchdog |-> 0,
             exitSeen |-> FALSE, complete |-> TRUE ]
MonReset(e) == MonInit

IsStreamOp(op) == op \in {"Write", "Flush", "Read", "ReadMeta", "CloseUp", "CloseDown"}
IsConnOp(op) == op \in {"SendMeta", "OpenUpstream", "OpenDownstream", "SendCall", "SendCallWait", "SendReplyCall", "ReceiveCall", "ReceiveReplyCall", "CloseConn"}

MonStep(m, e) ==
    CASE e.ev = "ApiRet" /\ e.op = "CloseConn" ->
            [m EXCEPT !.connCloseRet = IF @ = 0 THEN e.i ELSE @,
                      !.calls = Append(@, [op |-> e.op, obj |-> e.obj, ci |-> e.ci, err |-> e.err, iscp |-> e.isISCP, dur |-> e.durMs])]
      [] e.ev = "ApiRet" /\ e.op \in {"CloseUp", "CloseDown"} ->
            [m EXCEPT !.streamClose = IF \E x \in RangeS(@) : x.obj = e.obj THEN @ ELSE Append(@, [obj |-> e.obj, i |-> e.i]),
                      !.calls = Append(@, [op |-> e.op, obj |-> e.obj, ci |-> e.ci, err |-> e.err, iscp |-> e.isISCP, dur |-> e.durMs])]
      [] e.ev = "ApiRet" /\ (IsStreamOp(e.op) \/ IsConnOp(e.op)) ->
            [m EXCEPT !.calls = Append(@, [op |-> e.op, obj |-> e.obj, ci |-> e.ci, err |-> e.err, iscp |-> e.isISCP, dur |-> e.durMs])]
      [] e.ev = "BRecvDisconnect" -> [m EXCEPT !.disconnects = Append(@, e.c)]
      [] e.ev \in {"BRecvReq", "BRecvChunk", "BRecvCall", "BRecvDownAck", "BRecvMetaAck"} ->
            IF e.c \in RangeS(m.disconnects) THEN [m EXCEPT !.afterDisc = Append(@, e.ev)] ELSE m
      \* the client handed a message other than keep-alive to the transport after its Disconnect (client-side order of the writes)
      [] e.ev = "CliWriteAfterDisconnect" -> [m EXCEPT !.afterDisc = Append(@, e.kind)]
      [] e.ev \in {"Dial", "Token"} -> IF m.connCloseRet > 0 THEN [m EXCEPT !.dialsAfter = @ + 1] ELSE m
      [] e.ev \in {"UpClosed", "DownClosed"} -> [m EXCEPT !.closedEvs = Append(@, e.obj)]
      [] e.ev = "Disconnected" -> IF m.connCloseRet > 0 THEN [m EXCEPT !.discAfterClose = @ + 1] ELSE m
      [] e.ev = "Census" -> [m EXCEPT !.census = e.n, !.censusTops = e.tops]
      [] e.ev = "Panic" -> [m EXCEPT !.panics = @ + 1]
      [] e.ev = "Watchdog" -> [m EXCEPT !.watchdog = @ + 1]
      [] e.ev = "Exit" -> [m EXCEPT !.exitStatus = e.status, !.exitSeen = TRUE, !.complete = e.complete]
      [] OTHER -> m

StreamClosedAt(m, obj) == IF \E x \in RangeS(m.streamClose) : x.obj = obj THEN (CHOOSE x \in RangeS(m.streamClose) : x.obj = obj).i ELSE 0
\* calls issued after the connection's Close returned
AfterConn(m) == SelectSeq(m.calls, LAMBDA c : m.connCloseRet > 0 /\ c.ci > m.connCloseRet)
\* calls on a stream issued after that stream's Close returned (connection still open)
AfterStream(m) == SelectSeq(m.calls, LAMBDA c : IsStreamOp(c.op) /\ StreamClosedAt(m, c.obj) > 0 /\ c.ci > StreamClosedAt(m, c.obj)
                                                 /\ (m.connCloseRet = 0 \/ c.ci < m.connCloseRet))
IsClose(op) == op \in {"CloseConn", "CloseUp", "CloseDown"}

Died(m) == m.panics > 0 \/ (m.exitSeen /\ m.exitStatus # 0)
CallAfterConnCloseWrong(m) == \E c \in RangeS(AfterConn(m)) : ~IsClose(c.op) /\ ~(c.err \in {"connClosed", "streamClosed"} /\ c.iscp)
CallAfterStreamCloseWrong(m) == \E c \in RangeS(AfterStream(m)) : ~IsClose(c.op) /\ ~(c.err \in {"streamClosed", "connClosed"} /\ c.iscp)
CallAfterCloseSlow(m) == \E c \in RangeS(AfterConn(m)) \cup RangeS(AfterStream(m)) : c.dur > Bound
SentAfterDisconnect(m) == m.afterDisc # <<>>
DialAfterClose(m) == m.dialsAfter > 0
ClosedNotifiedTwice(m) == ~IsDistinct(m.closedEvs) \/ m.discAfterClose > 1
GoroutineLeft(m) == m.census > 0
Hang(m) == m.watchdog > 0

Clause(name, b) == IF b THEN {name} ELSE {}
MonVerdict(m) == Clause("ProcessDied", Died(m)) \cup Clause("CallAfterConnCloseWrong", CallAfterConnCloseWrong(m))
                 \cup Clause("CallAfterStreamCloseWrong", CallAfterStreamCloseWrong(m)) \cup Clause("CallAfterCloseSlow", CallAfterCloseSlow(m))
                 \cup Clause("SentAfterDisconnect", SentAfterDisconnect(m)) \cup Clause("DialAfterClose", DialAfterClose(m))
                 \cup Clause("ClosedNotifiedTwice", ClosedNotifiedTwice(m)) \cup Clause("GoroutineLeft", GoroutineLeft(m)) \cup Clause("Hang", Hang(m))
MonStats(m) == [ callsAfterConnClose |-> Len(AfterConn(m)), callsAfterStreamClose |-> Len(AfterStream(m)), census |-> IF m.census >= 0 THEN 1 ELSE 0,
                 disconnects |-> Len(m.disconnects), closedEvs |-> Len(m.closedEvs), died |-> IF Died(m) THEN 1 ELSE 0 ]
=============================================================================
