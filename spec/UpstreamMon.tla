----------------------------- MODULE UpstreamMon -----------------------------
(* Coupling of the L1 system specification Upstream.tla with the property monitor MonC01 (section 2 of DESIGN.md):
   every behaviour of the specification is turned into the event stream the harness would record from the real code
   (ApiCall/ApiRet Write, CloseUp; BRecvChunk; BSendAck; HookBefore/HookAfter; BRecvReq UpstreamCloseRequest; Quiesced)
   by an OBSERVER that looks only at the difference between s and s', and the monitor is advanced by exactly the
   MonStep used on real traces.  TLC then checks on the model that
     - the monitor's prefix-closed safety clauses never fire, and
     - at terminal states (Close returned) the complete verdict is empty.
   This is the statement "MonC01 raises no alarm on any behaviour of the design" (no false alarm at the design level) and
   at the same time "the design satisfies C01 as formalised by the monitor".  Checked exhaustively for small constants
   (VIEW hides the monitor) and by simulation for larger ones.                                                       *)
EXTENDS Upstream, MonC01

VARIABLES mon, ei, wci
mvars == <<s, script, mon, ei, wci>>

Pt(t, x) == <<t, 1, 0>>
AliasNo(d) == CHOOSE k \in 1..Len(SetToSeq(DataIds)) : SetToSeq(DataIds)[k] = d

\* the group list of chunk number q as the broker would log it
ChunkGroups(x, q, enc) ==
    LET ids == SetToSeq(x.chunks[q].ids)
    IN [k \in 1..Len(ids) |->
          [f |-> IF ids[k] \in enc THEN "al" ELSE "id", id |-> ids[k], al |-> IF ids[k] \in enc THEN AliasNo(ids[k]) ELSE 0,
           pts |-> [j \in 1..Len(x.chunks[q].g[ids[k]]) |-> Pt(x.chunks[q].g[ids[k]][j], x)]]]
HookGroups(x, q) ==
    LET ids == SetToSeq(x.chunks[q].ids)
    IN [k \in 1..Len(ids) |-> [id |-> ids[k], pts |-> [j \in 1..Len(x.chunks[q].g[ids[k]]) |-> Pt(x.chunks[q].g[ids[k]][j], x)]]]

\* events visible between two states, in the order the harness would record them
Ev(a, b, wc) ==
    LET base == [sc |-> "m", sid |-> "u1", obj |-> "U1"]
        wcall == IF b.nw > a.nw
                 THEN LET w == CHOOSE w \in Writers : b.woffer[w] # a.woffer[w] \/ b.wst[w] # a.wst[w]
                      IN << [ev |-> "ApiCall", op |-> "Write", sid |-> "u1", g |-> w, id |-> b.woffer[w].id,
                              pts |-> [j \in 1..Len(b.woffer[w].toks) |-> <<b.woffer[w].toks[j], 1, 0>>]] >>
                 ELSE <<>>
        wret == IF b.acc # a.acc \/ (\E w \in Writers : a.wst[w] = "offer" /\ b.wst[w] = "idle")
                THEN LET w == CHOOSE w \in Writers : a.wst[w] = "offer" /\ b.wst[w] = "idle"
                     IN << [ev |-> "ApiRet", op |-> "Write", sid |-> "u1", g |-> w, id |-> a.woffer[w].id, err |-> "", ci |-> wc[w],
                             pts |-> [j \in 1..Len(a.woffer[w].toks) |-> <<a.woffer[w].toks[j], 1, 0>>]] >>
                ELSE <<>>
        hookb == IF Len(b.hookB) > Len(a.hookB)
                 THEN << [ev |-> "HookBefore", sid |-> "u1", seq |-> b.hookB[Len(b.hookB)], groups |-> HookGroups(b, b.hookB[Len(b.hookB)])] >>
                 ELSE <<>>
        brecv == IF Len(b.bRecv) > Len(a.bRecv)
                 THEN LET r == b.bRecv[Len(b.bRecv)]
                      IN IF r[1] = "chunk"
                         THEN << [ev |-> "BRecvChunk", sid |-> "u1", c |-> r[2], seq |-> r[3], groups |-> ChunkGroups(b, r[3], r[4]),
                                  ids |-> SetToSeq(b.chunks[r[3]].ids \ r[4])] >>
                         ELSE IF r[1] = "close"
                              THEN << [ev |-> "BRecvReq", kind |-> "UpstreamCloseRequest", sid |-> "u1", c |-> r[2], final |-> r[3], total |-> r[4]] >>
                              ELSE <<>>
                 ELSE <<>>
        back == IF Len(b.sentRes) > Len(a.sentRes) \/ b.bGrant # a.bGrant
                THEN << [ev |-> "BSendAck", sid |-> "u1", c |-> b.conn,
                         results |-> [j \in 1..(Len(b.sentRes) - Len(a.sentRes)) |-> <<b.sentRes[Len(a.sentRes) + j], 1>>],
                         aliases |-> [j \in 1..Cardinality(b.bGrant \ a.bGrant) |-> <<AliasNo(SetToSeq(b.bGrant \ a.bGrant)[j]), SetToSeq(b.bGrant \ a.bGrant)[j]>>]] >>
                ELSE <<>>
        hooka == IF Len(b.hookA) > Len(a.hookA)
                 THEN << [ev |-> "HookAfter", sid |-> "u1", seq |-> b.hookA[Len(b.hookA)], code |-> 1] >>
                 ELSE <<>>
        ccall == IF a.cst = "idle" /\ b.cst # "idle" THEN << [ev |-> "ApiCall", op |-> "CloseUp", sid |-> "u1", g |-> "C"] >> ELSE <<>>
        cret == IF a.cst # "done" /\ b.cst = "done" THEN << [ev |-> "ApiRet", op |-> "CloseUp", sid |-> "u1", g |-> "C", err |-> "", ci |-> 0],
                                                             [ev |-> "Quiesced"] >> ELSE <<>>
        fault == IF b.faults > a.faults THEN << [ev |-> "BLinkDown", c |-> a.conn, cause |-> "script"] >> ELSE <<>>
    IN wcall \o wret \o hookb \o brecv \o back \o hooka \o ccall \o cret \o fault

RECURSIVE Feed(_, _, _)
Feed(m, evs, n) == IF evs = <<>> THEN m ELSE Feed(MonStep(m, [Head(evs) EXCEPT !.i = n] ), Tail(evs), n + 1)
WithI(e) == IF "i" \in DOMAIN e THEN e ELSE [x \in (DOMAIN e) \cup {"i"} |-> IF x = "i" THEN 0 ELSE e[x]]
Stamp(evs) == [k \in 1..Len(evs) |-> WithI(evs[k])]

MInit == /\ Init
         /\ mon = MonStep(MonInit, [ev |-> "ApiRet", op |-> "OpenUpstream", err |-> "", sid |-> "u1", i |-> 1])
         /\ ei = 2 /\ wci = [w \in Writers |-> 0]
MNext == /\ Next
         /\ LET evs == Stamp(Ev(s, s', wci)) IN /\ mon' = Feed(mon, evs, ei) /\ ei' = ei + Len(evs)
         /\ wci' = IF s'.nw > s.nw THEN [w \in Writers |-> IF s'.woffer[w] # s.woffer[w] \/ s'.wst[w] # s.wst[w] THEN ei ELSE wci[w]] ELSE wci
MSpec == MInit /\ [][MNext]_mvars
MView == s

\* the monitor's safety clauses never fire on a behaviour of the design (connection up)
MonSafetyHolds == s.faults = 0 => Safety(mon) = {}
\* at terminal states the complete verdict is empty
MonFinalHolds == (s.cst = "done" /\ s.faults = 0) => MonVerdict(mon) = {}
\* vacuity guard: the premise of the monitor is met in terminal states
MonPremiseMet == (s.cst = "done" /\ s.faults = 0) => Premise(mon)
=============================================================================
