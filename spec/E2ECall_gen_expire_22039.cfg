SPECIFICATION Spec
CONSTANTS
  Callers = {"P1", "P2", "P3"}
  CallKinds = {"call", "callWait"}
  MaxCallsPer = 1
  CallReceivers = {}
  ReplyReceivers = {"RR"}
  MaxRecv = 1
  Cap = 8
  MaxAcks = 4
  MaxDupAcks = 1
  MaxNegAcks = 1
  MaxUnkAcks = 0
  MaxReplies = 3
  MaxDupReplies = 0
  MaxUnkReplies = 0
  MaxInCalls = 0
  MaxFaults = 0
  MaxExpire = 1
  CloseAnytime = FALSE
  FreshIds = TRUE
  DeleteWaiter = TRUE

INVARIANTS CallIdsFresh AckToOwnerOnly ReplyToOwnerOnly InboxOnceInOrder NegativeAckOnlyThatCaller DeliverNonBlocking
CONSTRAINT GenPrint
CHECK_DEADLOCK FALSE
