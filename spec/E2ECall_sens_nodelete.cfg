\* sensitivity (expected: DeliverNonBlocking violated): the dispatcher keeps the waiter entry
SPECIFICATION Spec
CONSTANTS
  Callers = {P1, P2}
  CallKinds = {"call", "callWait"}
  MaxCallsPer = 1
  CallReceivers = {}
  ReplyReceivers = {}
  MaxRecv = 1
  Cap = 1
  MaxAcks = 3
  MaxDupAcks = 1
  MaxNegAcks = 0
  MaxUnkAcks = 0
  MaxReplies = 2
  MaxDupReplies = 1
  MaxUnkReplies = 0
  MaxInCalls = 0
  MaxFaults = 0
  MaxExpire = 0
  CloseAnytime = FALSE
  FreshIds = TRUE
  DeleteWaiter = FALSE
VIEW View
SYMMETRY Sym
ACTION_CONSTRAINT EagerLocal
INVARIANTS CallIdsFresh AckToOwnerOnly ReplyToOwnerOnly InboxOnceInOrder NegativeAckOnlyThatCaller DeliverNonBlocking
CHECK_DEADLOCK FALSE
