---------------------- MODULE ReconnectTransportCore ----------------------
(* Reconnectable transport (transport/reconnect/transport.go) modelled as coded.

   Goroutines of the implementation and how they appear here
     write loop WL : pc idle -> lock (has a request, needs r.mu to capture r.transport)
                        -> write (inside tr.Write on the captured incarnation)
                        -> wantmu (write failed, wants r.mu to call reconnect)
                        -> recon (holds r.mu, dial loop, att attempts so far) -> lock | exited
     read loop  RL : pc lock -> read -> (msg|ping: lock) | (err: wantmu -> recon -> lock | exited)
     ping loop  PL : idle/busy/dead; a ping read by RL becomes a pong write request in the SAME queue
     callers      : writers (Write = enqueue + wait for the result), one reader (Read), Close.
   r.mu is the field `mu` (free / wl / rl). reconnect() runs with r.mu held, Close needs r.mu.
   ctx cancellation is the field `closed`.

   Environment operations (what the scripted fakes / the driver decide):
     write(w,k)   writer w calls Write with the unique tag k
     uw(res)      outcome of the underlying Write WL is blocked in:        ok | fail
     ur(kind)     outcome of the underlying Read RL is blocked in:        msg | ping | err
     dial(res)    outcome of the next redial of the running reconnect():    ok | fail | hsfail
     read(mode)   the reader calls Read         close   somebody calls Close
   Internal operations (goroutine steps, nondeterministically interleaved by TLC):
     wl_take wl_lock wl_autofail wl_mu rl_lock rl_autofail rl_mu close_go

   Observable history.  Every operation emits the SAME events the Go harness records
   (WCall WRet UWEnter UWrite UDial URead RCall RRet Closed Watchdog Skip); they are folded by Obs
   into a summary `s`.  All property clauses are operators on that summary, so the
   invariants of the exhaustive model and the clauses of the trace monitor MonC18 are
   literally the same definitions.                                                    *)
EXTENDS Integers, Sequences, FiniteSets, TLC, Json

CONSTANTS NW,          \* number of writers
          Budget,      \* maxReconnectAttempts
          MaxWrites,   \* bound: Write calls in total (tags 1..MaxWrites)
          MaxUWFail,   \* bound: scripted underlying write failures
          MaxUR,       \* bound: scripted underlying read results (msg+ping+err)
          MaxPing,     \* bound: of which pings
          MaxRErr,     \* bound: of which errors
          MaxInc,      \* bound: incarnations (successful dials incl. the first)
          MaxDialFail, \* bound: scripted dial failures while a success is still possible
          MaxHsFail,   \* bound: of which handshake-read failures
          MaxReads,    \* bound: Read calls of the reader
          AllowClose,  \* Close is part of the environment
          LateOk,      \* TRUE = an underlying Write that was in flight when its connection was replaced does not fail by itself: the
                       \*        script decides (it may return nil late - the bytes had been accepted before the connection broke)
          FixWL,       \* FALSE = as coded; TRUE = write loop cancels the context on budget exhaustion
          GenCanon     \* script generation: internal steps eagerly, in a canonical order

Writers == 1..NW
PongTag == 0

\* ------------------------------------------------------------------ history summary
Sum0(budget) ==
    [budget |-> budget, called |-> {}, retNil |-> {}, retErr |-> {}, hb |-> {}, entered |-> {}, ulog |-> <<>>,
     nping |-> 0, npong |-> 0, pingLeaked |-> FALSE, badTag |-> FALSE,
     ndial |-> 0, dialBad |-> FALSE, failRun |-> 0, exhausted |-> FALSE, closed |-> FALSE,
     rin |-> <<>>, rout |-> <<>>, rerrs |-> 0, wd |-> {}, skips |-> 0, nuw |-> 0, nuwfail |-> 0,
     lateCalls |-> {}, okAfterClose |-> FALSE]

\* fold one event into the summary. Guard on e.ev before touching any other field.
Obs(s, e) ==
    IF e.ev = "WCall" THEN
        \* issued before: the earlier Write had returned nil, or its request had already been taken by the write loop (it was inside
        \* an underlying Write) when this one was called - whatever happens to it later, it stays ahead of this one
        [s EXCEPT !.called = @ \cup {e.tag}, !.hb = @ \cup { <<a, e.tag>> : a \in s.retNil \cup s.entered },
                  !.lateCalls = IF s.closed THEN @ \cup {e.tag} ELSE @]          \* Write called after Close had returned
    ELSE IF e.ev = "WRet" THEN
        IF e.ok THEN [s EXCEPT !.retNil = @ \cup {e.tag}, !.okAfterClose = @ \/ e.tag \in s.lateCalls] ELSE [s EXCEPT !.retErr = @ \cup {e.tag}]
    ELSE IF e.ev = "UWEnter" THEN
        IF e.tag > 0 THEN [s EXCEPT !.entered = @ \cup {e.tag}] ELSE s
    ELSE IF e.ev = "UWrite" THEN
        IF ~e.ok THEN [s EXCEPT !.nuwfail = @ + 1]
        ELSE IF e.tag = PongTag THEN [s EXCEPT !.npong = @ + 1, !.nuw = @ + 1]
        ELSE IF e.tag < 0 THEN [s EXCEPT !.badTag = TRUE, !.nuw = @ + 1]
        ELSE [s EXCEPT !.ulog = Append(@, <<e.inc, e.tag>>), !.nuw = @ + 1]
    ELSE IF e.ev = "UDial" THEN
        LET redial == e.n > 1
            fr == IF ~redial THEN 0 ELSE IF e.res = "ok" THEN 0 ELSE s.failRun + 1
        IN [s EXCEPT !.ndial = @ + 1,
                     !.dialBad = @ \/ (redial /\ (~e.re \/ e.tid # 1)),
                     !.failRun = fr,
                     !.exhausted = @ \/ fr >= s.budget]
    ELSE IF e.ev = "URead" THEN
        IF e.kind = "ping" THEN [s EXCEPT !.nping = @ + 1]
        ELSE IF e.kind = "msg" THEN [s EXCEPT !.rin = Append(@, e.tag)]
        ELSE s
    ELSE IF e.ev = "RRet" THEN
        IF e.kind = "msg" THEN [s EXCEPT !.rout = Append(@, e.tag)]
        ELSE IF e.kind = "ping" THEN [s EXCEPT !.pingLeaked = TRUE]
        ELSE [s EXCEPT !.rerrs = @ + 1]
    ELSE IF e.ev = "Closed" THEN [s EXCEPT !.closed = TRUE]
    ELSE IF e.ev = "Watchdog" THEN
        [s EXCEPT !.wd = @ \cup {<<e.op, e.tag, IF s.closed THEN "close" ELSE IF s.exhausted THEN "budget" ELSE "other">>}]
    ELSE IF e.ev = "Skip" THEN [s EXCEPT !.skips = @ + 1]
    ELSE s

\* ------------------------------------------------------------------ clauses on the summary
UIdx(s, t) == { i \in 1..Len(s.ulog) : s.ulog[i][2] = t }
UCount(s, t) == Cardinality(UIdx(s, t))
UTags(s) == { s.ulog[i][2] : i \in 1..Len(s.ulog) }
FirstIdx(s, t) == CHOOSE i \in UIdx(s, t) : \A j \in UIdx(s, t) : i <= j
\* position in the concatenation of the per-incarnation write logs: (incarnation, position)
Precedes(s, a, b) == LET i == FirstIdx(s, a)  j == FirstIdx(s, b)
                     IN s.ulog[i][1] < s.ulog[j][1] \/ (s.ulog[i][1] = s.ulog[j][1] /\ i < j)
IsPrefix(p, q) == Len(p) <= Len(q) /\ \A i \in 1..Len(p) : p[i] = q[i]

LostWriteC(s)   == \E t \in s.retNil : UCount(s, t) = 0
DupWriteC(s)    == \E t \in UTags(s) : UCount(s, t) > 1
ReorderedC(s)   == \E p \in s.hb : p[1] \in UTags(s) /\ p[2] \in UTags(s) /\ ~Precedes(s, p[1], p[2])
RedialFlagOrIdC(s) == s.dialBad
PingLeakedC(s)  == s.pingLeaked
BadPayloadC(s)  == s.badTag
PongSpuriousC(s) == s.npong > s.nping
\* only meaningful at the end of a history in which the transport is still alive
PongMissingC(s) == ~s.closed /\ ~s.exhausted /\ s.wd = {} /\ s.npong < s.nping
ReadMismatchC(s) == ~IsPrefix(s.rout, s.rin)
WriteOkAfterCloseC(s) == s.okAfterClose
BlockedAfterBudgetC(s) == \E x \in s.wd : x[3] = "budget"
BlockedAfterCloseC(s)  == \E x \in s.wd : x[3] = "close"
BlockedOtherC(s)       == \E x \in s.wd : x[3] = "other"

\* clauses that must hold after every prefix of a history
PrefixClauses(s) ==
    (IF LostWriteC(s) THEN {"LostWrite"} ELSE {}) \cup (IF DupWriteC(s) THEN {"DupWrite"} ELSE {})
    \cup (IF ReorderedC(s) THEN {"Reordered"} ELSE {}) \cup (IF RedialFlagOrIdC(s) THEN {"RedialFlagOrId"} ELSE {})
    \cup (IF PingLeakedC(s) THEN {"PingLeaked"} ELSE {}) \cup (IF BadPayloadC(s) THEN {"BadPayload"} ELSE {})
    \cup (IF PongSpuriousC(s) THEN {"PongSpurious"} ELSE {}) \cup (IF ReadMismatchC(s) THEN {"ReadMismatch"} ELSE {})
    \cup (IF WriteOkAfterCloseC(s) THEN {"WriteOkAfterClose"} ELSE {})
\* clauses of a complete history
FinalClauses(s) ==
    PrefixClauses(s) \cup (IF PongMissingC(s) THEN {"PongMissing"} ELSE {})
    \cup (IF BlockedAfterBudgetC(s) THEN {"BlockedAfterBudget"} ELSE {})
    \cup (IF BlockedAfterCloseC(s) THEN {"BlockedAfterClose"} ELSE {})
    \cup (IF BlockedOtherC(s) THEN {"BlockedOther"} ELSE {})

\* ------------------------------------------------------------------ model state
NoReq == [w |-> -1, tag |-> -1]
PongReq == [w |-> 0, tag |-> PongTag]

Emit(st, e) == [st EXCEPT !.s = Obs(@, e)]

Init0(budget) ==
    [cur |-> 1, ninc |-> 1, dead |-> {}, closed |-> FALSE, closeSt |-> "no", mu |-> "free",
     q |-> <<>>,
     wl |-> [pc |-> "idle", req |-> NoReq, inc |-> 0, att |-> 0],
     rl |-> [pc |-> "lock", inc |-> 0, att |-> 0],
     wr |-> [w \in Writers |-> 0],          \* 0 = idle, k = blocked in Write(tag k)
     rd |-> "idle", rbuf |-> <<>>, pl |-> "idle", pingq |-> 0,
     cnt |-> [w |-> 0, uwf |-> 0, ur |-> 0, ping |-> 0, rerr |-> 0, dial |-> 1, df |-> 0, hsf |-> 0, read |-> 0, msg |-> 0, wmax |-> 0],
     s |-> Obs(Sum0(budget), [ev |-> "UDial", n |-> 1, re |-> FALSE, tid |-> 1, res |-> "ok"])]

\* ---- the reader: Read() = select { ctx.Done -> err ; readResCh -> item / closed -> err }
\* mode "buf": take a buffered item if there is one; mode "ctx": the ctx.Done branch wins
TryRead(st, mode) ==
    IF st.rd # "pend" THEN st
    ELSE IF st.rbuf # <<>> /\ ~(st.closed /\ mode = "ctx")
    THEN LET it == Head(st.rbuf)
         IN Emit([st EXCEPT !.rbuf = Tail(@), !.rd = "idle"], [ev |-> "RRet", kind |-> it.kind, tag |-> it.tag])
    ELSE IF st.closed \/ st.rl.pc = "exited"
    THEN Emit([st EXCEPT !.rd = "idle"], [ev |-> "RRet", kind |-> "err", tag |-> 0])
    ELSE st

\* ---- ctx cancel: every blocked caller returns an error; idle loops exit; the ping loop ends
RECURSIVE FailWriters(_, _)
FailWriters(st, ws) ==
    IF ws = {} THEN st
    ELSE LET w == CHOOSE x \in ws : TRUE
             st1 == IF st.wr[w] = 0 THEN st
                    ELSE Emit([st EXCEPT !.wr[w] = 0], [ev |-> "WRet", w |-> w, tag |-> st.wr[w], ok |-> FALSE])
         IN FailWriters(st1, ws \ {w})

Cancel(st) ==
    LET st1 == FailWriters([st EXCEPT !.closed = TRUE, !.pl = "dead"], Writers)
        st2 == IF st1.wl.pc = "idle" THEN [st1 EXCEPT !.wl.pc = "exited"] ELSE st1
    IN TryRead(st2, "buf")

\* ---- a write request is finished by the write loop (result delivered to its caller)
Complete(st, req, ok) ==
    IF req.w = 0
    THEN IF st.pl = "dead" THEN st
         ELSE IF ~ok THEN [st EXCEPT !.pl = "dead"]            \* pingLoop returns on a write error
         ELSE IF st.pingq > 0 THEN [st EXCEPT !.pingq = @ - 1, !.q = Append(@, PongReq)]
         ELSE [st EXCEPT !.pl = "idle"]
    ELSE IF st.wr[req.w] # req.tag THEN st                      \* caller already gone (cancelled)
    ELSE Emit([st EXCEPT !.wr[req.w] = 0], [ev |-> "WRet", w |-> req.w, tag |-> req.tag, ok |-> ok])

\* ---- environment: Write call
DoWrite(st, w, k) ==
    LET st1 == Emit([st EXCEPT !.cnt.w = @ + 1, !.cnt.wmax = IF w > @ THEN w ELSE @], [ev |-> "WCall", w |-> w, tag |-> k])
    IN IF st1.closed
       THEN Emit(st1, [ev |-> "WRet", w |-> w, tag |-> k, ok |-> FALSE])
       ELSE [st1 EXCEPT !.q = Append(@, [w |-> w, tag |-> k]), !.wr[w] = k]

\* ---- write loop
WriteFailed(st) ==
    IF st.closed THEN [st EXCEPT !.wl.pc = "exited", !.wl.req = NoReq]
    ELSE [st EXCEPT !.wl.pc = "wantmu"]

DoUW(st, res, auto) ==
    LET req == st.wl.req
        st1 == Emit(st, [ev |-> "UWrite", inc |-> st.wl.inc, tag |-> req.tag, ok |-> (res = "ok")])
    IN IF res = "ok"
       THEN Complete([st1 EXCEPT !.wl.pc = "idle", !.wl.req = NoReq], req, TRUE)
       ELSE WriteFailed(IF auto THEN st1 ELSE [st1 EXCEPT !.cnt.uwf = @ + 1])

StartRecon(st, h) ==
    IF h = "wl" THEN [st EXCEPT !.dead = @ \cup {st.cur}, !.mu = "wl", !.wl.pc = "recon", !.wl.att = 0]
    ELSE [st EXCEPT !.dead = @ \cup {st.cur}, !.mu = "rl", !.rl.pc = "recon", !.rl.att = 0]

DoWLMu(st) ==
    IF st.wl.inc # st.cur THEN [st EXCEPT !.wl.pc = "lock"]                 \* "Already reconnected": retry
    ELSE IF st.closed THEN [st EXCEPT !.wl.pc = "exited", !.wl.req = NoReq]  \* reconnect: ErrConnectionClosed
    ELSE StartRecon(st, "wl")

\* ---- read loop
DoUR(st, kind) ==
    LET c1 == [st EXCEPT !.cnt.ur = @ + 1]
    IN IF kind = "msg"
       THEN LET k == st.cnt.msg + 1
                st1 == Emit([c1 EXCEPT !.cnt.msg = k, !.rl.pc = "lock"], [ev |-> "URead", inc |-> st.rl.inc, kind |-> "msg", tag |-> k])
            IN TryRead([st1 EXCEPT !.rbuf = Append(@, [kind |-> "msg", tag |-> k])], "buf")
       ELSE IF kind = "ping"
       THEN LET st1 == Emit([c1 EXCEPT !.cnt.ping = @ + 1, !.rl.pc = "lock"], [ev |-> "URead", inc |-> st.rl.inc, kind |-> "ping", tag |-> 0])
            IN IF st1.pl = "idle" THEN [st1 EXCEPT !.pl = "busy", !.q = Append(@, PongReq)]
               ELSE IF st1.pl = "busy" THEN [st1 EXCEPT !.pingq = @ + 1]
               ELSE st1
       ELSE LET st1 == Emit([c1 EXCEPT !.cnt.rerr = @ + 1], [ev |-> "URead", inc |-> st.rl.inc, kind |-> "err", tag |-> 0])
            IN [st1 EXCEPT !.rl.pc = "wantmu"]

RLExit(st) == TryRead([st EXCEPT !.rl.pc = "exited"], "buf")       \* deferred close(readResCh)

DoRLAutofail(st) ==
    LET st1 == Emit(st, [ev |-> "URead", inc |-> st.rl.inc, kind |-> "closed", tag |-> 0])
    IN IF st1.closed THEN RLExit(st1) ELSE [st1 EXCEPT !.rl.pc = "wantmu"]

DoRLMu(st) ==
    IF st.rl.inc # st.cur THEN [st EXCEPT !.rl.pc = "lock"]
    ELSE IF st.closed THEN RLExit(st)
    ELSE StartRecon(st, "rl")

\* ---- reconnect(): one dial attempt of the goroutine holding r.mu
Exhausted(st, h) ==
    IF h = "wl"
    THEN LET req == st.wl.req
             st1 == Complete([st EXCEPT !.mu = "free", !.wl.pc = "exited", !.wl.req = NoReq], req, FALSE)
         IN IF FixWL THEN Cancel(st1) ELSE st1          \* as coded: returns WITHOUT cancelling the context
    ELSE LET st1 == [st EXCEPT !.mu = "free", !.rbuf = Append(@, [kind |-> "err", tag |-> 0])]
         IN RLExit(st1)

DoDial(st, res) ==
    LET h == st.mu
        n == st.cnt.dial + 1
        st1 == Emit([st EXCEPT !.cnt.dial = n,
                               !.cnt.df = @ + (IF res = "ok" THEN 0 ELSE 1),
                               !.cnt.hsf = @ + (IF res = "hsfail" THEN 1 ELSE 0)],
                    [ev |-> "UDial", n |-> n, re |-> TRUE, tid |-> 1, res |-> res])
        att == (IF h = "wl" THEN st.wl.att ELSE st.rl.att) + 1
    IN IF res = "ok"
       THEN LET i == st.ninc + 1
            IN IF h = "wl" THEN [st1 EXCEPT !.ninc = i, !.cur = i, !.mu = "free", !.wl.pc = "lock"]
               ELSE [st1 EXCEPT !.ninc = i, !.cur = i, !.mu = "free", !.rl.pc = "lock"]
       ELSE IF att >= Budget THEN Exhausted(st1, h)
       ELSE IF h = "wl" THEN [st1 EXCEPT !.wl.att = att] ELSE [st1 EXCEPT !.rl.att = att]

\* ---- Close: CloseWithStatus on the current incarnation, then cancel (needs r.mu)
DoCloseGo(st) ==
    Emit(Cancel([st EXCEPT !.dead = @ \cup {st.cur}, !.closeSt = "done"]), [ev |-> "Closed"])

Apply(st, op) ==
    CASE op.a = "write"  -> DoWrite(st, op.w, op.k)
      [] op.a = "uw"     -> DoUW(st, op.res, FALSE)
      [] op.a = "ur"     -> DoUR(st, op.kind)
      [] op.a = "dial"   -> DoDial(st, op.res)
      [] op.a = "read"   -> TryRead(Emit([st EXCEPT !.rd = "pend", !.cnt.read = @ + 1], [ev |-> "RCall"]), op.mode)
      [] op.a = "close"  -> IF st.mu = "free" THEN DoCloseGo(st) ELSE [st EXCEPT !.closeSt = "wait"]
      [] op.a = "close_go"    -> DoCloseGo(st)
      [] op.a = "wl_take"     -> [st EXCEPT !.wl.pc = "lock", !.wl.req = Head(st.q), !.q = Tail(@)]
      [] op.a = "wl_lock"     -> Emit([st EXCEPT !.wl.pc = "write", !.wl.inc = st.cur], [ev |-> "UWEnter", tag |-> st.wl.req.tag])
      [] op.a = "wl_autofail" -> DoUW(st, "fail", TRUE)
      [] op.a = "wl_mu"       -> DoWLMu(st)
      [] op.a = "rl_lock"     -> IF st.closed THEN RLExit(st) ELSE [st EXCEPT !.rl.pc = "read", !.rl.inc = st.cur]
      [] op.a = "rl_autofail" -> DoRLAutofail(st)
      [] op.a = "rl_mu"       -> DoRLMu(st)

\* ------------------------------------------------------------------ enabling
InternalOps(st) ==
    (IF st.wl.pc = "idle" /\ st.q # <<>> /\ ~st.closed THEN {[a |-> "wl_take"]} ELSE {})
    \cup (IF st.wl.pc = "lock" /\ st.mu = "free" THEN {[a |-> "wl_lock"]} ELSE {})
    \cup (IF st.wl.pc = "write" /\ st.wl.inc \in st.dead /\ ~LateOk THEN {[a |-> "wl_autofail"]} ELSE {})
    \cup (IF st.wl.pc = "wantmu" /\ st.mu = "free" THEN {[a |-> "wl_mu"]} ELSE {})
    \cup (IF st.rl.pc = "lock" /\ st.mu = "free" THEN {[a |-> "rl_lock"]} ELSE {})
    \cup (IF st.rl.pc = "read" /\ st.rl.inc \in st.dead THEN {[a |-> "rl_autofail"]} ELSE {})
    \cup (IF st.rl.pc = "wantmu" /\ st.mu = "free" THEN {[a |-> "rl_mu"]} ELSE {})
    \cup (IF st.closeSt = "wait" /\ st.mu = "free" THEN {[a |-> "close_go"]} ELSE {})

DialOps(st) ==
    IF st.mu = "free" THEN {}
    ELSE LET okOK == st.ninc < MaxInc
             failOK == st.cnt.df < MaxDialFail \/ ~okOK
             hsOK == st.cnt.df < MaxDialFail /\ st.cnt.hsf < MaxHsFail /\ okOK
         IN (IF okOK THEN {[a |-> "dial", res |-> "ok"]} ELSE {})
            \cup (IF failOK THEN {[a |-> "dial", res |-> "fail"]} ELSE {})
            \cup (IF hsOK THEN {[a |-> "dial", res |-> "hsfail"]} ELSE {})

CallOps(st) ==
    (IF st.cnt.w < MaxWrites
     THEN { [a |-> "write", w |-> w, k |-> st.cnt.w + 1] : w \in { x \in Writers : st.wr[x] = 0 /\ (~GenCanon \/ x <= st.cnt.wmax + 1) } } ELSE {})   \* GenCanon: writers are symmetric
    \cup (IF st.rd = "idle" /\ st.cnt.read < MaxReads
          THEN {[a |-> "read", mode |-> "buf"]}
               \cup (IF st.closed /\ st.rbuf # <<>> /\ ~GenCanon THEN {[a |-> "read", mode |-> "ctx"]} ELSE {})
          ELSE {})
    \cup (IF AllowClose /\ st.closeSt = "no" /\ (~GenCanon \/ st.mu = "free") THEN {[a |-> "close"]} ELSE {})

GateOps(st) ==
    (IF st.wl.pc = "write" /\ (st.wl.inc \notin st.dead \/ LateOk)
     THEN {[a |-> "uw", res |-> "ok"]} \cup (IF st.cnt.uwf < MaxUWFail THEN {[a |-> "uw", res |-> "fail"]} ELSE {})
     ELSE {})
    \cup (IF st.rl.pc = "read" /\ st.rl.inc \notin st.dead /\ st.cnt.ur < MaxUR
          THEN {[a |-> "ur", kind |-> "msg"]}
               \cup (IF st.cnt.ping < MaxPing THEN {[a |-> "ur", kind |-> "ping"]} ELSE {})
               \cup (IF st.cnt.rerr < MaxRErr THEN {[a |-> "ur", kind |-> "err"]} ELSE {})
          ELSE {})

\* GenCanon: goroutine steps first (one, canonical), then the running dial loop, then the environment
EnabledOps(st) ==
    IF GenCanon
    THEN IF InternalOps(st) # {} THEN {CHOOSE o \in InternalOps(st) : TRUE}
         ELSE IF DialOps(st) # {} THEN DialOps(st)
         ELSE CallOps(st) \cup GateOps(st)
    ELSE InternalOps(st) \cup DialOps(st) \cup CallOps(st) \cup GateOps(st)

\* ------------------------------------------------------------------ properties of the model
AcceptedExactlyOnceOf(st) == ~LostWriteC(st.s) /\ ~DupWriteC(st.s)
OrderPreservedOf(st) == ~ReorderedC(st.s)
RedialKeepsIdAndFlagOf(st) == ~RedialFlagOrIdC(st.s)
PingFilteredOf(st) == ~PingLeakedC(st.s) /\ ~PongSpuriousC(st.s) /\ ~BadPayloadC(st.s)
ReadsContinueOf(st) == ~ReadMismatchC(st.s)
\* safety form of "fail with an error instead of blocking": a caller can only be blocked while the
\* goroutine that has to answer it is still running and the context is not cancelled
NoBlockAfterBudgetOrCloseOf(st) ==
    /\ ~WriteOkAfterCloseC(st.s)
    /\ (st.wl.pc = "exited" \/ st.closed) => \A w \in Writers : st.wr[w] = 0
    /\ (st.rl.pc = "exited" \/ st.closed) => st.rd = "idle"
\* the summary's view of exhaustion/close agrees with the model's
SummaryAgreesOf(st) ==
    /\ st.s.closed = (st.closeSt = "done")
    /\ (st.wl.pc = "exited" /\ ~st.closed) => st.s.exhausted
    /\ (st.rl.pc = "exited" /\ ~st.closed) => st.s.exhausted
    /\ st.mu = "wl" => st.wl.pc = "recon"
    /\ st.mu = "rl" => st.rl.pc = "recon"
    /\ st.ninc <= MaxInc /\ st.cur = st.ninc

AllInvOf(st) == /\ AcceptedExactlyOnceOf(st) /\ OrderPreservedOf(st) /\ RedialKeepsIdAndFlagOf(st)
                /\ PingFilteredOf(st) /\ ReadsContinueOf(st) /\ SummaryAgreesOf(st)

\* nothing is in flight: every caller has returned or (as coded) is stuck behind a dead write loop
Stuck(st, w) == st.wr[w] # 0 /\ st.wl.pc = "exited"
QuiescentOf(st) ==
    /\ InternalOps(st) = {} /\ st.mu = "free" /\ st.closeSt # "wait"
    /\ st.wl.pc \in {"idle", "exited"} /\ (st.q = <<>> \/ st.wl.pc = "exited")
    /\ \A w \in Writers : st.wr[w] = 0 \/ Stuck(st, w)
    /\ st.rd = "idle"
    /\ st.pl # "busy" \/ st.wl.pc = "exited"
=============================================================================
