---------------------------- MODULE MonC18 ----------------------------
(* Trace monitor for C18 (reconnectable transport).

   The real component is concurrent (write loop, read loop, ping loop), so the recorded
   history is judged as a whole instead of lock-step: every recorded event is folded by the
   SAME observer Obs of ReconnectTransportCore that the exhaustive model uses, and the
   verdict is the set of clauses of ReconnectTransportCore that the summary violates:

     LostWrite           a Write returned nil but no underlying Write of its tag succeeded
     DupWrite            a tag was accepted by underlying connections more than once
     Reordered           a returned nil before b was called, but b precedes a in the
                         concatenation of the per-incarnation write logs
     RedialFlagOrId      a redial without the reconnect flag or with another transport id
     PingLeaked          Read handed a control ping to the caller
     PongMissing         (end of history, transport alive) fewer pongs written than pings read
     PongSpurious        more pongs than pings;  BadPayload: an unknown payload was written
     ReadMismatch        the messages returned by Read are not a prefix of the messages read
     BlockedAfterBudget  a Read/Write/Close had not returned 2 s after the script although the
     BlockedAfterClose   redial budget was exhausted / Close had returned (Watchdog event)
     BlockedOther        a call hung although neither happened
     Crash               a panic was recorded

   Prefix clauses are evaluated after every event, final clauses at the End event.
   No timing is interpreted: the only time-related input is the driver's Watchdog event. *)
EXTENDS ReconnectTransportCore

MonInit == [s |-> Sum0(2), bad |-> {}, n |-> 0, panics |-> 0]
MonReset(e) == [MonInit EXCEPT !.s = Sum0(e.p.budget)]

MonStep(m, e) ==
    LET s2 == Obs(m.s, e)
    IN [m EXCEPT !.s = s2,
                 !.n = @ + 1,
                 !.panics = @ + (IF e.ev = "Panic" THEN 1 ELSE 0),
                 !.bad = @ \cup PrefixClauses(s2) \cup (IF e.ev = "Panic" THEN {"Crash"} ELSE {})]

MonVerdict(m) == m.bad \cup FinalClauses(m.s)

B2I(b) == IF b THEN 1 ELSE 0
MonStats(m) == [events |-> m.n, wcalls |-> Cardinality(m.s.called), wnil |-> Cardinality(m.s.retNil),
                werr |-> Cardinality(m.s.retErr), uwok |-> m.s.nuw, uwfail |-> m.s.nuwfail,
                dials |-> m.s.ndial, pings |-> m.s.nping, pongs |-> m.s.npong,
                rmsgs |-> Len(m.s.rout), rerrs |-> m.s.rerrs, hbpairs |-> Cardinality(m.s.hb),
                watchdogs |-> Cardinality(m.s.wd), skips |-> m.s.skips,
                exhausted |-> B2I(m.s.exhausted), closed |-> B2I(m.s.closed),
                multiInc |-> B2I(\E i \in 1..Len(m.s.ulog) : m.s.ulog[i][1] > 1)]
=============================================================================
