SPECIFICATION Spec
CONSTANTS
  MaxFails = 3
  Members = {"m1", "m2", "m3"}
  Ids = {"m1", "m2", "m3", "zz", ""}
  AsCoded = FALSE
  GenCanon = FALSE
  Fams <- ExhFams
  MaxSel = 1
  MaxWrites = 1
  MaxReads = 2
  MaxProbe = 1
  MaxRac = 1
VIEW StView
INVARIANTS WritesToCurrent ReadsOnce CloseClosesAll CountersAreSums UnknownIdHarmless
CHECK_DEADLOCK FALSE
