SPECIFICATION Spec
CONSTANTS
  Kinds <- KindsB
  LeakRLock = TRUE
  CloseWaitWakes = FALSE
  MuHeldDuringWait = TRUE
  MaxMeta = 2
INVARIANTS NoLockLeak NoOverrun
PROPERTIES EveryCallReturns
CHECK_DEADLOCK FALSE
