\* C15 script generator (reference copy; tools/props/c15.py writes the same file as Keepalive_run_gen8.cfg):
\* real delay classes only (0, T/2, 3T, never), k in {0, 1, 3}; every complete behaviour is printed as SCRIPT <json>
SPECIFICATION Spec
CONSTANTS
  TT = 4
  NI = 8
  Delays = {0, 2, 12}
  Delays2 = {0}
  LateAt = {1, 2, 4}
  LateConns = {1}
  SilentAnytime = FALSE
  MaxConn = 2
  Horizon = 36
  BPingAt = {1, 10}
  BPingIds = {1000000, 7}
  MaxBPings = 1
  AppAt = {9}
  MaxApp = 1
  Variant = "code"
INVARIANTS DetectWithinBound DetectAfterSilence DetectFromLastAnsweredPing NoSpuriousClose NoEarlyClose PongEchoesId PingPacing RecoveryImmediate
CONSTRAINT GenPrint
CHECK_DEADLOCK FALSE
