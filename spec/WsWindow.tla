---------------------------- MODULE WsWindow ----------------------------
(* L1 wrapper of WsWindowCore: exhaustive exploration of all operation sequences for every
   negotiated configuration in Cfgs, and script generation (GenPrint).
   The first script entry is the configuration: [a |-> "cfg", mode, code = level, n = window bits]. *)
EXTENDS WsWindowCore

CONSTANTS Modes, Levels, Bits    \* the configuration grid
VARIABLES st, script
vars == <<st, script>>

\* off ignores level and bits, per-message ignores bits: enumerate each effective configuration once
Cfgs == { [mode |-> "off", level |-> 0, bits |-> 0] : x \in (IF "off" \in Modes THEN {1} ELSE {}) }
        \cup { [mode |-> "pm", level |-> l, bits |-> 0] : l \in (IF "pm" \in Modes THEN Levels ELSE {}) }
        \cup { [mode |-> "ct", level |-> l, bits |-> b] : l \in (IF "ct" \in Modes THEN Levels ELSE {}), b \in Bits }

Init == \E c \in Cfgs : /\ st = Init0(EffMode(c.mode, c.level), WinSize(c.bits))
                        /\ script = <<[a |-> "cfg", mode |-> c.mode, code |-> c.level, n |-> c.bits]>>
Next == \E op \in EnabledOps(st) : st' = Apply(st, op) /\ script' = Append(script, op)
Spec == Init /\ [][Next]_vars

DictionariesEqual == DictionariesEqualOf(st)
HeadDecodable == HeadDecodableOf(st)
ReadEqualsWrite == ReadEqualsWriteOf(st)
InOrder == InOrderOf(st)
NoInterleave == NoInterleaveOf(st)
NoDecodeFailure == NoDecodeFailureOf(st)
NoReaderRefused == NoReaderRefusedOf(st)
WindowIsSuffix == WindowIsSuffixOf(st)
NoWindowWithoutTakeover == NoWindowWithoutTakeoverOf(st)
StView == st

Terminal == Len(st.msgs) = MaxMsgs /\ st.chan = <<>> /\ ~Busy(st)
\* script generation: print the operation sequence of every complete path
GenPrint == IF Terminal THEN PrintT("SCRIPT " \o ToJson(script)) ELSE TRUE

\* named constants for the configurations (cfg files cannot write sets of strings compactly)
ModesAll == {"off", "pm", "ct"}
ModesCt == {"ct"}
ModesPmCt == {"pm", "ct"}
ClassesAll == {"z", "lt", "eq", "gt", "gg"}
ClassesConc == {"lt", "gt"}
ClassesOne == {"gt"}
LevelsL1 == {0, 6}
LevelsAll == 0..9
LevelsOne == {6}
BitsL1 == {0, 1, 2}
BitsOne == {2}
BitsGrid == {0, 1, 8, 9, 15, 32}
BitsGridT == {0, 1, 8, 9, 15, 16, 32}
=============================================================================
