SPECIFICATION Spec
CONSTANTS
  SWriters = 2
  SPer = 1
  SendLock = FALSE
INVARIANTS FramingIntact StreamOrder
CHECK_DEADLOCK FALSE
