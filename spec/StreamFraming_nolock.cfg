SPECIFICATION Spec
CONSTANTS
  SWriters = 2
  SPer = 1
  DWriters = 1
  DPer = 2
  SharedEncoder = FALSE
  SendLock = FALSE
INVARIANTS FramingIntact StreamOrder NoCorruptMessage
CHECK_DEADLOCK FALSE
