------------------------------ MODULE MonC07 ------------------------------
(* Property monitor for C07 (connection part): streams that share a connection are isolated from each other.
   Relational: the scenario script of stream P is run alone (role "solo") and then interleaved with a script of
   another stream Q (role "with"); the monitor keeps P's projection of the solo run across the Reset and requires the
   projection of the second run to be equal.  Projection of P = everything P sends, receives, retransmits or reports,
   normalised for legal scheduling differences (arrival order, incarnation and alias numbers):
     upstream P  : set of <<seq, groups>> received, set of seqs received on more than one incarnation (retransmissions),
                   bag of <<op, err>> of P's API returns, bag of ack-hook reports, close totals, resumed count, closed-with-error
     downstream P: sequence of read results (seq, upstream, groups, ok), set of acknowledged <<upstream, seq>>, API returns, resumed count
   Direct clauses: nothing addressed to Q's alias shows up at P (ack-hook reports only for results sent to P; reads only
   chunks sent to P).                                                                                                   *)
EXTENDS MonCommon

Empty == [ chunks |-> {}, recvOn |-> {}, rets |-> <<>>, hookA |-> <<>>, close |-> <<>>, resumed |-> 0, closedErr |-> FALSE,
           reads |-> <<>>, acked |-> {}, states |-> <<>> ]
MonInit == [ role |-> "solo", psid |-> "", pobj |-> "P", proj |-> Empty, solo |-> Empty, haveSolo |-> FALSE, sentAcks |-> <<>>, sentChunks |-> {} ]
MonResetM(m, e) == IF e.p.role = "solo" THEN [MonInit EXCEPT !.role = "solo"]
                   ELSE [MonInit EXCEPT !.role = "with", !.solo = m.proj, !.haveSolo = (m.role = "solo")]

GroupsOf(gs) == { <<gs[k].id, gs[k].pts>> : k \in 1..Len(gs) }
IsP(m, e) == e.obj = m.pobj

MonStep(m, e) ==
    CASE e.ev = "ApiRet" /\ e.op \in {"OpenUpstream", "OpenDownstream"} /\ e.obj = m.pobj /\ e.err = "" -> [m EXCEPT !.psid = e.sid]
      [] e.ev = "ApiRet" /\ e.op \in {"Write", "Flush", "CloseUp", "CloseDown"} /\ e.obj = m.pobj ->
            [m EXCEPT !.proj.rets = Append(@, <<e.op, e.err>>)]
      [] e.ev = "ApiRet" /\ e.op = "Read" /\ e.obj = m.pobj ->
            [m EXCEPT !.proj.reads = Append(@, <<e.err, e.seq, e.up, [k \in 1..Len(e.groups) |-> <<e.groups[k].id, e.groups[k].pts>>]>>)]
      [] e.ev = "BRecvChunk" /\ m.psid # "" /\ e.sid = m.psid ->
            [m EXCEPT !.proj.chunks = @ \cup {<<e.seq, GroupsOf(e.groups)>>}, !.proj.recvOn = @ \cup {<<e.seq, e.c>>}]
      [] e.ev = "HookAfter" /\ m.psid # "" /\ e.sid = m.psid -> [m EXCEPT !.proj.hookA = Append(@, <<e.seq, e.code>>)]
      [] e.ev = "BSendAck" /\ m.psid # "" /\ e.sid = m.psid ->
            [m EXCEPT !.sentAcks = @ \o [k \in 1..Len(e.results) |-> <<e.results[k][1], e.results[k][2]>>]]
      [] e.ev = "BRecvReq" /\ e.kind = "UpstreamCloseRequest" /\ m.psid # "" /\ e.sid = m.psid ->
            [m EXCEPT !.proj.close = Append(@, <<e.final, e.total>>)]
      [] e.ev \in {"UpResumed", "DownResumed"} /\ m.psid # "" /\ e.sid = m.psid -> [m EXCEPT !.proj.resumed = @ + 1]
      [] e.ev \in {"UpClosed", "DownClosed"} /\ e.obj = m.pobj -> [m EXCEPT !.proj.closedErr = @ \/ e.err # ""]
      [] e.ev = "BSendChunk" /\ m.psid # "" /\ e.sid = m.psid -> [m EXCEPT !.sentChunks = @ \cup {<<e.up, e.seq>>}]
      \* State() samples of P taken by the script at quiet moments: what is still buffered, what was cut so far
      [] e.ev = "State" /\ e.obj = m.pobj -> [m EXCEPT !.proj.states = Append(@, <<e.bufN, e.total, e.lastSeq>>)]
      [] e.ev = "BRecvDownAck" /\ m.psid # "" /\ e.sid = m.psid ->
            [m EXCEPT !.proj.acked = @ \cup { <<e.results[k][1], e.results[k][2]>> : k \in 1..Len(e.results) }]
      [] OTHER -> m

Retrans(p) == { s \in { x[1] : x \in p.recvOn } : Cardinality({ x[2] : x \in { y \in p.recvOn : y[1] = s } }) > 1 }
Norm(p) == [ chunks |-> p.chunks, retrans |-> Retrans(p), resumed |-> p.resumed, closedErr |-> p.closedErr, close |-> p.close,
             reads |-> p.reads, acked |-> p.acked ]
\* ---- clauses
ChunksDiffer(m) == Norm(m.proj).chunks # Norm(m.solo).chunks
RetransDiffer(m) == Norm(m.proj).retrans # Norm(m.solo).retrans
ReturnsDiffer(m) == ~SameBag(m.proj.rets, m.solo.rets)
HookDiffer(m) == ~SameBag(m.proj.hookA, m.solo.hookA)
LifecycleDiffer(m) == Norm(m.proj).resumed # Norm(m.solo).resumed \/ Norm(m.proj).closedErr # Norm(m.solo).closedErr \/ Norm(m.proj).close # Norm(m.solo).close
ReadsDiffer(m) == Norm(m.proj).reads # Norm(m.solo).reads
AcksDiffer(m) == Norm(m.proj).acked # Norm(m.solo).acked
StatesDiffer(m) == m.proj.states # m.solo.states
\* direct: P's ack hook reports only results the broker addressed to P; P reads only chunks sent to P
ForeignAckAtP(m) == ~BagIncl(m.proj.hookA, m.sentAcks)
ForeignChunkAtP(m) == \E r \in RangeS(m.proj.reads) : r[1] = "" /\ <<r[3], r[2]>> \notin m.sentChunks

Clause(name, b) == IF b THEN {name} ELSE {}
MonVerdict(m) ==
    Clause("ForeignAckAtP", ForeignAckAtP(m)) \cup Clause("ForeignChunkAtP", ForeignChunkAtP(m))
    \cup (IF m.role = "with" /\ m.haveSolo
          THEN Clause("ChunksDiffer", ChunksDiffer(m)) \cup Clause("RetransDiffer", RetransDiffer(m)) \cup Clause("ReturnsDiffer", ReturnsDiffer(m))
               \cup Clause("HookDiffer", HookDiffer(m)) \cup Clause("LifecycleDiffer", LifecycleDiffer(m))
               \cup Clause("ReadsDiffer", ReadsDiffer(m)) \cup Clause("AcksDiffer", AcksDiffer(m)) \cup Clause("StatesDiffer", StatesDiffer(m))
          ELSE {})
MonStats(m) == [ pairs |-> IF m.role = "with" /\ m.haveSolo THEN 1 ELSE 0, chunks |-> Cardinality(m.proj.chunks), retrans |-> Cardinality(Retrans(m.proj)),
                 reads |-> Len(m.proj.reads), resumed |-> m.proj.resumed ]
=============================================================================
