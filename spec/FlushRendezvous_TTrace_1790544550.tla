---- MODULE FlushRendezvous_TTrace_1790544550 ----
EXTENDS Sequences, TLCExt, Toolbox, FlushRendezvous_TEConstants, Naturals, TLC, FlushRendezvous

_expression ==
    LET FlushRendezvous_TEExpression == INSTANCE FlushRendezvous_TEExpression
    IN FlushRendezvous_TEExpression!expression
----

_trace ==
    LET FlushRendezvous_TETrace == INSTANCE FlushRendezvous_TETrace
    IN FlushRendezvous_TETrace!trace
----

_inv ==
    ~(
        TLCGet("level") = Len(_TETrace)
        /\
        cur = (F2)
        /\
        expired = ((F1 :> TRUE @@ F2 :> FALSE @@ F3 :> FALSE @@ W :> FALSE))
        /\
        pc = ((F1 :> "wait" @@ F2 :> "wait" @@ F3 :> "idle" @@ W :> "idle"))
        /\
        loop = ("flushing")
        /\
        got = ((F1 :> "none" @@ F2 :> "none" @@ F3 :> "none" @@ W :> "none"))
    )
----

_init ==
    /\ expired = _TETrace[1].expired
    /\ loop = _TETrace[1].loop
    /\ pc = _TETrace[1].pc
    /\ cur = _TETrace[1].cur
    /\ got = _TETrace[1].got
----

_next ==
    /\ \E i,j \in DOMAIN _TETrace:
        /\ \/ /\ j = i + 1
              /\ i = TLCGet("level")
        /\ expired  = _TETrace[i].expired
        /\ expired' = _TETrace[j].expired
        /\ loop  = _TETrace[i].loop
        /\ loop' = _TETrace[j].loop
        /\ pc  = _TETrace[i].pc
        /\ pc' = _TETrace[j].pc
        /\ cur  = _TETrace[i].cur
        /\ cur' = _TETrace[j].cur
        /\ got  = _TETrace[i].got
        /\ got' = _TETrace[j].got

\* Uncomment the ASSUME below to write the states of the error trace
\* to the given file in Json format. Note that you can pass any tuple
\* to `JsonSerialize`. For example, a sub-sequence of _TETrace.
    \* ASSUME
    \*     LET J == INSTANCE Json
    \*         IN J!JsonSerialize("FlushRendezvous_TTrace_1790544550.json", _TETrace)

=============================================================================

 Note that you can extract this module `FlushRendezvous_TEExpression`
  to a dedicated file to reuse `expression` (the module in the 
  dedicated `FlushRendezvous_TEExpression.tla` file takes precedence 
  over the module `FlushRendezvous_TEExpression` below).

---- MODULE FlushRendezvous_TEExpression ----
EXTENDS Sequences, TLCExt, Toolbox, FlushRendezvous_TEConstants, Naturals, TLC, FlushRendezvous

expression == 
    [
        \* To hide variables of the `FlushRendezvous` spec from the error trace,
        \* remove the variables below.  The trace will be written in the order
        \* of the fields of this record.
        expired |-> expired
        ,loop |-> loop
        ,pc |-> pc
        ,cur |-> cur
        ,got |-> got
        
        \* Put additional constant-, state-, and action-level expressions here:
        \* ,_stateNumber |-> _TEPosition
        \* ,_expiredUnchanged |-> expired = expired'
        
        \* Format the `expired` variable as Json value.
        \* ,_expiredJson |->
        \*     LET J == INSTANCE Json
        \*     IN J!ToJson(expired)
        
        \* Lastly, you may build expressions over arbitrary sets of states by
        \* leveraging the _TETrace operator.  For example, this is how to
        \* count the number of times a spec variable changed up to the current
        \* state in the trace.
        \* ,_expiredModCount |->
        \*     LET F[s \in DOMAIN _TETrace] ==
        \*         IF s = 1 THEN 0
        \*         ELSE IF _TETrace[s].expired # _TETrace[s-1].expired
        \*             THEN 1 + F[s-1] ELSE F[s-1]
        \*     IN F[_TEPosition - 1]
    ]

=============================================================================



Parsing and semantic processing can take forever if the trace below is long.
 In this case, it is advised to uncomment the module below to deserialize the
 trace from a generated binary file.

\*
\*---- MODULE FlushRendezvous_TETrace ----
\*EXTENDS IOUtils, FlushRendezvous_TEConstants, TLC, FlushRendezvous
\*
\*trace == IODeserialize("FlushRendezvous_TTrace_1790544550.bin", TRUE)
\*
\*=============================================================================
\*

---- MODULE FlushRendezvous_TETrace ----
EXTENDS FlushRendezvous_TEConstants, TLC, FlushRendezvous

trace == 
    <<
    ([cur |-> "none",expired |-> (F1 :> FALSE @@ F2 :> FALSE @@ F3 :> FALSE @@ W :> FALSE),pc |-> (F1 :> "idle" @@ F2 :> "idle" @@ F3 :> "idle" @@ W :> "idle"),loop |-> "idle",got |-> (F1 :> "none" @@ F2 :> "none" @@ F3 :> "none" @@ W :> "none")]),
    ([cur |-> "none",expired |-> (F1 :> FALSE @@ F2 :> FALSE @@ F3 :> FALSE @@ W :> FALSE),pc |-> (F1 :> "send" @@ F2 :> "idle" @@ F3 :> "idle" @@ W :> "idle"),loop |-> "idle",got |-> (F1 :> "none" @@ F2 :> "none" @@ F3 :> "none" @@ W :> "none")]),
    ([cur |-> "none",expired |-> (F1 :> TRUE @@ F2 :> FALSE @@ F3 :> FALSE @@ W :> FALSE),pc |-> (F1 :> "send" @@ F2 :> "idle" @@ F3 :> "idle" @@ W :> "idle"),loop |-> "idle",got |-> (F1 :> "none" @@ F2 :> "none" @@ F3 :> "none" @@ W :> "none")]),
    ([cur |-> F1,expired |-> (F1 :> TRUE @@ F2 :> FALSE @@ F3 :> FALSE @@ W :> FALSE),pc |-> (F1 :> "wait" @@ F2 :> "idle" @@ F3 :> "idle" @@ W :> "idle"),loop |-> "flushing",got |-> (F1 :> "none" @@ F2 :> "none" @@ F3 :> "none" @@ W :> "none")]),
    ([cur |-> F1,expired |-> (F1 :> TRUE @@ F2 :> FALSE @@ F3 :> FALSE @@ W :> FALSE),pc |-> (F1 :> "wait" @@ F2 :> "send" @@ F3 :> "idle" @@ W :> "idle"),loop |-> "flushing",got |-> (F1 :> "none" @@ F2 :> "none" @@ F3 :> "none" @@ W :> "none")]),
    ([cur |-> F1,expired |-> (F1 :> TRUE @@ F2 :> FALSE @@ F3 :> FALSE @@ W :> FALSE),pc |-> (F1 :> "wait" @@ F2 :> "send" @@ F3 :> "idle" @@ W :> "idle"),loop |-> "handing",got |-> (F1 :> "none" @@ F2 :> "none" @@ F3 :> "none" @@ W :> "none")]),
    ([cur |-> "none",expired |-> (F1 :> TRUE @@ F2 :> FALSE @@ F3 :> FALSE @@ W :> FALSE),pc |-> (F1 :> "wait" @@ F2 :> "send" @@ F3 :> "idle" @@ W :> "idle"),loop |-> "idle",got |-> (F1 :> "none" @@ F2 :> "none" @@ F3 :> "none" @@ W :> "none")]),
    ([cur |-> F2,expired |-> (F1 :> TRUE @@ F2 :> FALSE @@ F3 :> FALSE @@ W :> FALSE),pc |-> (F1 :> "wait" @@ F2 :> "wait" @@ F3 :> "idle" @@ W :> "idle"),loop |-> "flushing",got |-> (F1 :> "none" @@ F2 :> "none" @@ F3 :> "none" @@ W :> "none")])
    >>
----


=============================================================================

---- MODULE FlushRendezvous_TEConstants ----
EXTENDS FlushRendezvous

CONSTANTS F1, F2, F3, W

=============================================================================

---- CONFIG FlushRendezvous_TTrace_1790544550 ----
CONSTANTS
    Flushers = { F1 , F2 , F3 }
    Writer = W
    SharedResult = TRUE
    WatchDone = TRUE
    F1 = F1
    W = W
    F3 = F3
    F2 = F2

INVARIANT
    _inv

CHECK_DEADLOCK
    \* CHECK_DEADLOCK off because of PROPERTY or INVARIANT above.
    FALSE

INIT
    _init

NEXT
    _next

CONSTANT
    _TETrace <- _trace

ALIAS
    _expression
=============================================================================
\* Generated on Sun Sep 27 21:29:11 UTC 2026