---------------------------- MODULE ReqReplyCore ----------------------------
(* Request / response correlation of a wire.ClientConn (wire/client_conn.go: sendRequest,
   readRequestLoop, replyCh map, idGenerator; wire/req_id_generator.go).  Implementation
   shaped: one action per atomic step / critical section of the code.

     caller p (a goroutine inside Send...Request / sendPing):
        gen      id := idGenerator.Next()                 (atomic add 2, returns the old value)
        reg      mu.Lock; replyCh[id] = new 1-buffered channel; mu.Unlock
        write    transport.Write(req)                      (transport.Pipe is synchronous: the broker has it)
        wait     select { reply | ctx.Done | conn ctx.Done }   -> recv / ctxret / closedret
     dispatcher (transport reader -> msgRequestCh -> readRequestLoop), FIFO:
        look     mu.Lock; ch, ok := replyCh[id]; if ok { delete } ; mu.Unlock   (unknown id: dropped)
        deliver  ch <- msg                                  (1-buffered: must never block)
     process 0 is the keep-alive ping (started by the connection itself right after the handshake; the
     ConnectRequest took id 0). If its context times out the keep-alive loop closes the connection (pclose).
   Environment: which callers start (start), caller contexts ending at any point (cancel), the broker
   answering any received request in any order (ans), <= MaxDup duplicates of an answer (dup),
   <= MaxSpur responses with an id the client never issued (spur), the ping deadline (ptimeout).

   Functional style: state record `st`, Apply(st, op); the exhaustive model (ReqReply.tla) interleaves all
   operations; the script generator applies environment operations only and lets the internal steps run
   to quiescence after each (Settle) -- its paths are the environment projections of the behaviours.
   A response message is [rid, for, how]: `for` = the process the broker made it for (the stamp the
   harness puts into the payload), how in {"ans", "dup", "spur"}.                                     *)
EXTENDS Integers, Sequences, FiniteSets, TLC, Json

CONSTANTS Callers,     \* the callers (1..n in the generator; symmetric model values in the exhaustive model)
          Ping,        \* the keep-alive ping process (0 in the generator)
          MaxDup, MaxSpur, MaxCancel,
          PingTimeout, \* BOOLEAN: the ping deadline may expire (connection is closed by the keep-alive loop)
          GenBarrier,  \* generator: the broker collects all requests before it sends anything
          PingStarts,  \* BOOLEAN: the keep-alive ping takes part (FALSE: callers only)
          GenPong,     \* generator: the pong of the first ping is scripted (FALSE: the broker sends it at once)
          GenCanon     \* generator: callers start in the order 1, 2, ... (requires integer callers)

Procs == Callers \cup {Ping}
SpurIds == {1, 1000000}       \* an odd id and an even id that is never issued
NoRet == [k |-> "none", rid |-> -1, for |-> -1, how |-> ""]
DIdle == [s |-> "idle", rid |-> -1, for |-> -1, how |-> "", to |-> -1]

Init0 == [nextId |-> 2,                      \* the ConnectRequest of the handshake took id 0
          pc |-> [p \in Procs |-> "idle"],
          id |-> [p \in Procs |-> -1],
          reply |-> {},                       \* the replyCh map: set of <<id, owner of the channel>>
          chan |-> [p \in Procs |-> <<>>],    \* the reply channel created by p (capacity 1)
          got |-> {}, answered |-> {},        \* broker: received request ids; processes answered
          down |-> <<>>,                      \* responses in flight to the dispatcher (FIFO)
          disp |-> DIdle,
          cancelled |-> {}, closed |-> FALSE,
          ret |-> [p \in Procs |-> NoRet],
          ndup |-> 0, nspur |-> 0, ncancel |-> 0]

Done(st, p, r) == [st EXCEPT !.pc[p] = "done", !.ret[p] = r]
Msg(rid, for, how) == [rid |-> rid, for |-> for, how |-> how]

Apply(st, op) ==
    CASE op.a = "start"  -> [st EXCEPT !.id[op.n] = st.nextId, !.nextId = @ + 2, !.pc[op.n] = "gen"]   \* the call begins with Next()
      [] op.a = "reg"    -> [st EXCEPT !.reply = @ \cup {<<st.id[op.n], op.n>>}, !.pc[op.n] = "reg"]
      [] op.a = "write"  -> IF st.closed THEN Done(st, op.n, [NoRet EXCEPT !.k = "closed"])
                            ELSE [st EXCEPT !.got = @ \cup {st.id[op.n]}, !.pc[op.n] = "wait"]
      [] op.a = "recv"   -> LET m == Head(st.chan[op.n])
                            IN [Done(st, op.n, [k |-> "resp", rid |-> m.rid, for |-> m.for, how |-> m.how]) EXCEPT !.chan[op.n] = Tail(@)]
      [] op.a = "ctxret" -> Done(st, op.n, [NoRet EXCEPT !.k = "ctx"])
      [] op.a = "closedret" -> Done(st, op.n, [NoRet EXCEPT !.k = "closed"])
      [] op.a = "pclose" -> [st EXCEPT !.closed = TRUE]
      [] op.a = "cancel" -> [st EXCEPT !.cancelled = @ \cup {op.n}, !.ncancel = @ + 1]
      [] op.a = "ptimeout" -> [st EXCEPT !.cancelled = @ \cup {Ping}]
      [] op.a = "ans"    -> [st EXCEPT !.down = Append(@, Msg(st.id[op.n], op.n, "ans")), !.answered = @ \cup {op.n}]
      [] op.a = "dup"    -> [st EXCEPT !.down = Append(@, Msg(st.id[op.n], op.n, "dup")), !.ndup = @ + 1]
      [] op.a = "spur"   -> [st EXCEPT !.down = Append(@, Msg(op.seq, -1, "spur")), !.nspur = @ + 1]
      [] op.a = "look"   -> LET m == Head(st.down)
                                hit == { e \in st.reply : e[1] = m.rid }
                            IN IF hit = {} THEN [st EXCEPT !.down = Tail(@)]
                               ELSE LET e == CHOOSE x \in hit : TRUE
                                    IN [st EXCEPT !.down = Tail(@), !.reply = @ \ {e},
                                                  !.disp = [s |-> "deliver", rid |-> m.rid, for |-> m.for, how |-> m.how, to |-> e[2]]]
      [] op.a = "deliver" -> [st EXCEPT !.chan[st.disp.to] = Append(@, Msg(st.disp.rid, st.disp.for, st.disp.how)), !.disp = DIdle]

InternalOps(st) ==
    { [a |-> "reg", n |-> p] : p \in { q \in Procs : st.pc[q] = "gen" } }
    \cup { [a |-> "write", n |-> p] : p \in { q \in Procs : st.pc[q] = "reg" } }
    \cup { [a |-> "recv", n |-> p] : p \in { q \in Procs : st.pc[q] = "wait" /\ st.chan[q] # <<>> } }
    \cup { [a |-> "ctxret", n |-> p] : p \in { q \in Procs : st.pc[q] = "wait" /\ q \in st.cancelled } }
    \cup { [a |-> "closedret", n |-> p] : p \in { q \in Procs : st.pc[q] = "wait" /\ st.closed } }
    \cup (IF st.ret[Ping].k = "ctx" /\ ~st.closed THEN {[a |-> "pclose"]} ELSE {})
    \cup (IF st.disp.s = "idle" /\ st.down # <<>> THEN {[a |-> "look"]} ELSE {})
    \cup (IF st.disp.s = "deliver" /\ Len(st.chan[st.disp.to]) < 1 THEN {[a |-> "deliver"]} ELSE {})

AllIn(st) == \A c \in Callers : st.id[c] \in st.got \/ st.pc[c] = "done"
BrokerMay(st) == ~st.closed /\ (GenBarrier => AllIn(st))

EnvOps(st) ==
    { [a |-> "start", n |-> c] : c \in { x \in Procs : st.pc[x] = "idle" /\ (x = Ping => PingStarts) /\ (GenCanon => \A y \in Callers : y < x => st.pc[y] # "idle") } }
    \cup { [a |-> "cancel", n |-> c] : c \in { x \in Callers \ st.cancelled : st.pc[x] # "done" /\ st.ncancel < MaxCancel
                                                 /\ (GenBarrier => (st.pc[x] = "idle" \/ AllIn(st))) } }
    \cup (IF PingTimeout /\ Ping \notin st.cancelled /\ Ping \notin st.answered /\ st.pc[Ping] \notin {"idle", "done"} THEN {[a |-> "ptimeout"]} ELSE {})
    \cup (IF BrokerMay(st)
          THEN { [a |-> "ans", n |-> p] : p \in { q \in Procs \ st.answered : st.id[q] \in st.got /\ (q = Ping => GenPong) } }
               \cup { [a |-> "dup", n |-> p] : p \in { q \in st.answered : st.ndup < MaxDup /\ (q = Ping => GenPong) } }
               \cup { [a |-> "spur", seq |-> i] : i \in { j \in SpurIds : st.nspur < MaxSpur } }
          ELSE {})

EnabledOps(st) == EnvOps(st) \cup InternalOps(st)
IsEnv(op) == op.a \in {"start", "cancel", "ptimeout", "ans", "dup", "spur"}

\* run the internal steps to quiescence (one representative interleaving; used by the script generator:
\* the harness's "sync" mode waits for the corresponding observable effect after every environment op)
RECURSIVE Settle(_)
Settle(st) == LET ops == InternalOps(st) IN IF ops = {} THEN st ELSE Settle(Apply(st, CHOOSE op \in ops : TRUE))

\* ------------------------------------------------------------------ properties
\* request ids: pairwise distinct on the connection, of the client's parity
IdsDistinctAndEvenOf(st) ==
    LET used == { p \in Procs : st.pc[p] # "idle" }
    IN /\ \A p, q \in used : st.id[p] = st.id[q] => p = q
       /\ \A p \in used : st.id[p] % 2 = 0 /\ st.id[p] # 0       \* 0 = the ConnectRequest
\* a caller that gets a response gets the one bearing its own id, made for its own request
OwnResponseOnlyOf(st) ==
    \A p \in Procs : st.ret[p].k = "resp" => st.ret[p].rid = st.id[p] /\ st.ret[p].for = p
\* duplicates and responses with unknown ids reach nobody (not even an abandoned channel)
SpuriousHarmlessOf(st) ==
    /\ \A p \in Procs : st.ret[p].k = "resp" => st.ret[p].how = "ans"
    /\ \A p \in Procs : \A i \in 1..Len(st.chan[p]) : st.chan[p][i].how = "ans"
    /\ st.disp.s = "deliver" => st.disp.how = "ans"
\* a caller whose context ended leaves without anybody else's response; whatever is routed to a channel
\* (also an abandoned one) was made for its owner; "ctx" is returned only to cancelled callers
CancelDoesNotStealOf(st) ==
    /\ \A p \in Procs : \A i \in 1..Len(st.chan[p]) : st.chan[p][i].for = p /\ st.chan[p][i].rid = st.id[p]
    /\ st.disp.s = "deliver" => st.disp.for = st.disp.to
    /\ \A p \in Procs : st.ret[p].k = "ctx" => p \in st.cancelled
\* the dispatcher's channel send can never block (entry deleted at lookup => at most one send per channel)
DispatcherNeverBlocksOf(st) == st.disp.s = "deliver" => Len(st.chan[st.disp.to]) = 0
\* the outcome of a call is one the environment-visible history allows
Allowed(answered, cancelled, closed) == (IF answered THEN {"resp"} ELSE {}) \cup (IF cancelled THEN {"ctx"} ELSE {})
                                        \cup (IF closed THEN {"closed"} ELSE {})
AllowedKinds(st, p) == Allowed(p \in st.answered, p \in st.cancelled, st.closed)
OutcomeAllowedOf(st) == \A p \in Procs : st.ret[p].k # "none" => st.ret[p].k \in AllowedKinds(st, p)
\* nobody is left waiting: when nothing can happen any more every started call has returned, and every
\* call that was neither cancelled nor cut off by the connection closing returned its response
NoCallerStuckOf(st) ==
    EnabledOps(st) = {} =>
        \A p \in Procs : st.pc[p] # "idle" =>
            /\ st.pc[p] = "done"
            /\ (p \notin st.cancelled /\ ~st.closed) => st.ret[p].k = "resp"

AllInvOf(st) == /\ IdsDistinctAndEvenOf(st) /\ OwnResponseOnlyOf(st) /\ SpuriousHarmlessOf(st) /\ CancelDoesNotStealOf(st)
                /\ DispatcherNeverBlocksOf(st) /\ OutcomeAllowedOf(st) /\ NoCallerStuckOf(st)
=============================================================================
