SPECIFICATION Spec
CONSTANTS
  Callers = {"P1", "P2", "P3", "P4", "P5", "P6", "P7", "P8"}
  CallKinds = {"call", "callWait", "replyCall"}
  MaxCallsPer = 1
  CallReceivers = {"RC"}
  ReplyReceivers = {"RR"}
  MaxRecv = 2
  Cap = 8
  MaxAcks = 9
  MaxDupAcks = 1
  MaxNegAcks = 2
  MaxUnkAcks = 1
  MaxReplies = 7
  MaxDupReplies = 1
  MaxUnkReplies = 1
  MaxInCalls = 1
  MaxFaults = 0
  MaxExpire = 0
  CloseAnytime = FALSE
  FreshIds = TRUE
  DeleteWaiter = TRUE

INVARIANTS CallIdsFresh AckToOwnerOnly ReplyToOwnerOnly InboxOnceInOrder NegativeAckOnlyThatCaller DeliverNonBlocking
CONSTRAINT GenPrint
CHECK_DEADLOCK FALSE
