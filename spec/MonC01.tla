------------------------------ MODULE MonC01 ------------------------------
(* Property monitor for C01 (upstream delivers every accepted data point exactly once, intact
   and accounted) evaluated by TLC on traces recorded from the real library.  The monitor only
   reads harness-observed events of ONE upstream (sid given by the first OpenUpstream return).

   Premise (C01): connection stays up (no scripted link cut / fault before the close request)
   and CloseUp returned nil.  Obligations are evaluated at the end of the scenario, after the
   driver's Quiesced event (asynchronously dispatched hooks have settled).               *)
EXTENDS MonCommon

MonInit == [ sid |-> "", called |-> <<>>, writes |-> <<>>, chunks |-> <<>>, acks |-> <<>>, grants |-> <<>>, hookB |-> <<>>, hookA |-> <<>>,
             closeReq |-> <<>>, closeCall |-> 0, closeRet |-> "none", faults |-> 0, quiesced |-> FALSE, sendFail |-> 0,
             flushes |-> 0, watchdog |-> 0, closeTO |-> 0, ackTO |-> 0, closeCallT |-> 0, closeBound |-> 0, ackAt |-> <<>>, closeRetI |-> 0, hookLate |-> 0 ]
\* (scenario parameter p.track = short id of the upstream to judge, e.g. "u2"; default: the first upstream opened)
MonReset(e) == IF "p" \in DOMAIN e /\ "track" \in DOMAIN e.p THEN [MonInit EXCEPT !.sid = e.p.track] ELSE MonInit

\* a chunk group as <<id, pts>>; alias-form groups are resolved by the broker's own alias table ("?" if unknown)
GroupsOf(gs) == { <<gs[k].id, gs[k].pts>> : k \in 1..Len(gs) }

OptF(e, f) == IF f \in DOMAIN e THEN e[f] ELSE 0
MonStep(m, e) ==
    CASE e.ev = "ApiRet" /\ e.op = "OpenUpstream" /\ e.err = "" /\ (m.sid = "" \/ (m.sid = e.sid /\ m.closeTO = 0)) ->
            [m EXCEPT !.sid = e.sid, !.closeTO = OptF(e, "closeTimeoutMs"), !.ackTO = OptF(e, "ackTimeoutMs")]
      [] e.ev = "ApiRet" /\ e.op = "Write" /\ e.sid = m.sid ->
            [m EXCEPT !.writes = Append(@, [id |-> e.id, pts |-> e.pts, call |-> e.ci, ret |-> e.i, err |-> e.err])]
      [] e.ev = "ApiCall" /\ e.op = "Write" /\ e.sid = m.sid -> [m EXCEPT !.called = Append(@, [id |-> e.id, pts |-> e.pts])]
      [] e.ev = "ApiRet" /\ e.op = "Flush" /\ e.sid = m.sid -> [m EXCEPT !.flushes = @ + 1]
      [] e.ev = "ApiCall" /\ e.op = "CloseUp" /\ e.sid = m.sid -> [m EXCEPT !.closeCall = e.i, !.closeCallT = OptF(e, "t"), !.closeBound = OptF(e, "boundMs")]
      [] e.ev = "ApiRet" /\ e.op = "CloseUp" /\ e.sid = m.sid -> [m EXCEPT !.closeRet = e.err, !.closeRetI = e.i]
      [] e.ev = "BRecvChunk" /\ e.sid = m.sid ->
            [m EXCEPT !.chunks = Append(@, [seq |-> e.seq, g |-> GroupsOf(e.groups), gl |-> e.groups, ids |-> RangeS(e.ids), i |-> e.i])]
      [] e.ev = "BRecvChunk" /\ e.sid = "?" -> [m EXCEPT !.chunks = Append(@, [seq |-> e.seq, g |-> {<<"?", <<>>>>}, gl |-> <<>>, ids |-> {}, i |-> e.i])]
      [] e.ev = "BRecvReq" /\ e.kind = "UpstreamCloseRequest" /\ e.sid = m.sid ->
            [m EXCEPT !.closeReq = Append(@, [final |-> e.final, total |-> e.total, i |-> e.i, t |-> OptF(e, "t")])]
      [] e.ev = "BSendAck" /\ e.sid = m.sid ->
            [m EXCEPT !.acks = @ \o [k \in 1..Len(e.results) |-> <<e.results[k][1], e.results[k][2]>>],
                      !.ackAt = @ \o [k \in 1..Len(e.results) |-> <<e.results[k][1], e.i>>],
                      !.grants = @ \o [k \in 1..Len(e.aliases) |-> [al |-> e.aliases[k][1], id |-> e.aliases[k][2], i |-> e.i]]]
      [] e.ev = "BSendFail" -> [m EXCEPT !.sendFail = @ + 1]
      [] e.ev = "HookBefore" /\ e.sid = m.sid -> [m EXCEPT !.hookB = Append(@, [seq |-> e.seq, g |-> GroupsOf(e.groups)])]
      [] e.ev = "HookAfter" /\ e.sid = m.sid -> [m EXCEPT !.hookA = Append(@, <<e.seq, e.code>>),
                                                                  \* diagnostic only (never a verdict): a result reported after Close had returned
                                                                  !.hookLate = @ + (IF m.closeRetI > 0 THEN 1 ELSE 0)]
      [] e.ev = "Fault" /\ e.do \in {"cutBefore", "cutAfter", "cutOnRecv"} -> [m EXCEPT !.faults = @ + 1]
      [] e.ev = "BLinkDown" /\ e.cause = "script" -> [m EXCEPT !.faults = @ + 1]
      [] e.ev = "Watchdog" -> [m EXCEPT !.watchdog = @ + 1]
      [] e.ev = "Quiesced" -> [m EXCEPT !.quiesced = TRUE]
      [] OTHER -> m

\* ------------------------------------------------------------------ derived values
OkWrites(m) == SelectSeq(m.writes, LAMBDA w : w.err = "")
N(m) == Max0({ m.chunks[k].seq : k \in 1..Len(m.chunks) })
\* first reception of each sequence number
FirstOf(m, n) == m.chunks[CHOOSE k \in 1..Len(m.chunks) : m.chunks[k].seq = n /\ \A j \in 1..(k - 1) : m.chunks[j].seq # n]
HasSeq(m, n) == \E k \in 1..Len(m.chunks) : m.chunks[k].seq = n
AllIds(m) == { w.id : w \in RangeS(m.writes) } \cup UNION { { g[1] : g \in c.g } : c \in RangeS(m.chunks) }
PtsOfGroup(c, d) == IF \E g \in c.g : g[1] = d THEN (CHOOSE g \in c.g : g[1] = d)[2] ELSE <<>>
\* points of data id d in sequence-number order as received
RECURSIVE RecvUpTo(_, _, _)
RecvUpTo(m, d, n) == IF n = 0 THEN <<>> ELSE RecvUpTo(m, d, n - 1) \o (IF HasSeq(m, n) THEN PtsOfGroup(FirstOf(m, n), d) ELSE <<>>)
Recv(m, d) == RecvUpTo(m, d, N(m))
Written(m, d) == Concat([k \in 1..Len(OkWrites(m)) |-> IF OkWrites(m)[k].id = d THEN OkWrites(m)[k].pts ELSE <<>>])
TotalWritten(m) == Len(Concat([k \in 1..Len(OkWrites(m)) |-> OkWrites(m)[k].pts]))

Premise(m) == /\ m.sid # "" /\ m.faults = 0 /\ m.closeRet = "" /\ m.quiesced /\ m.watchdog = 0
              /\ \A w \in RangeS(m.writes) : w.ret < m.closeCall      \* history of calls that returned, followed by Close

\* ------------------------------------------------------------------ clauses
\* (a) exactly the multiset of written points per data id, nothing lost, duplicated, altered or re-attributed
LostDupAltered(m) == \E d \in AllIds(m) : ~SameBag(Recv(m, d), Written(m, d))
\* per-data-id order: points of one write keep their order; a write that returned before another was called precedes it
OrderBroken(m) ==
    \E d \in AllIds(m) :
        LET r == Recv(m, d)  ws == SelectSeq(OkWrites(m), LAMBDA w : w.id = d)
        IN \/ \E k \in 1..Len(ws) : \E a, b \in 1..Len(ws[k].pts) : a < b /\ PosIn(r, ws[k].pts[a]) > PosIn(r, ws[k].pts[b])
           \/ \E k, l \in 1..Len(ws) : ws[k].ret < ws[l].call /\
                 \E a \in 1..Len(ws[k].pts), b \in 1..Len(ws[l].pts) : PosIn(r, ws[k].pts[a]) > PosIn(r, ws[l].pts[b])
\* (b) chunks numbered 1..N without gaps; a sequence number is never reused for different content
SeqGap(m) == \E n \in 1..N(m) : ~HasSeq(m, n)
SeqReuse(m) == \E j, k \in 1..Len(m.chunks) : m.chunks[j].seq = m.chunks[k].seq /\ m.chunks[j].g # m.chunks[k].g
SeqTwice(m) == \E j, k \in 1..Len(m.chunks) : j # k /\ m.chunks[j].seq = m.chunks[k].seq
\* (c) alias form only for aliases the broker handed out before; DataIDs lists exactly the full-form ids
AliasBeforeGrant(m) == \E c \in RangeS(m.chunks) : \E k \in 1..Len(c.gl) :
                           c.gl[k].f = "al" /\ ~\E x \in RangeS(m.grants) : x.al = c.gl[k].al /\ x.id = c.gl[k].id /\ x.i < c.i
DataIdsWrong(m) == \E c \in RangeS(m.chunks) : c.gl # <<>> /\ c.ids # { c.gl[k].id : k \in { j \in 1..Len(c.gl) : c.gl[j].f = "id" } }
\* (d) the close request reports N and the exact point total
CloseTotalsWrong(m) == \/ Len(m.closeReq) # 1
                       \/ m.closeReq[1].final # N(m) \/ m.closeReq[1].total # TotalWritten(m)
\* (g) no chunk reaches the broker after the close request
ChunkAfterClose(m) == \E c \in RangeS(m.chunks) : \E q \in RangeS(m.closeReq) : c.i > q.i
\* (f) every chunk announced to the send hook exactly once with the content transmitted
SendHookWrong(m) == \/ \E n \in 1..N(m) : Cardinality({ k \in 1..Len(m.hookB) : m.hookB[k].seq = n }) # 1
                    \/ \E h \in RangeS(m.hookB) : h.seq > N(m) \/ (HasSeq(m, h.seq) /\ FirstOf(m, h.seq).g # h.g)
\* (e) ack hook: never more reports than results sent; the first result of every acknowledged seq is reported; codes are the broker's
AckHookUnsound(m) == ~BagIncl(m.hookA, m.acks)
AckHookMissing(m) == m.sendFail = 0 /\ \E n \in 1..N(m) : (\E a \in RangeS(m.acks) : a[1] = n) /\ ~(\E h \in RangeS(m.hookA) : h[1] = n)
\* Close gives the broker the close timeout to acknowledge (no ack timeout configured): a close request that reaches the broker while a
\* received chunk is still unacknowledged comes no earlier than 3/4 of the bound that governs the wait (close timeout, Close's context)
MinP(a, b) == IF a = 0 THEN b ELSE IF b = 0 THEN a ELSE IF a < b THEN a ELSE b
ClosedEarly(m) == /\ m.closeTO > 0 /\ m.ackTO = 0 /\ m.closeCall > 0 /\ Len(m.closeReq) >= 1 /\ m.sendFail = 0
                  /\ LET q == m.closeReq[1] IN
                     /\ \E c \in RangeS(m.chunks) : c.i < q.i /\ ~\E a \in RangeS(m.ackAt) : a[1] = c.seq /\ a[2] < q.i
                     /\ (q.t - m.closeCallT) * 4 < MinP(m.closeTO, m.closeBound) * 1000 * 3
\* an empty chunk must never be transmitted
EmptyChunk(m) == \E c \in RangeS(m.chunks) : c.g = {} \/ (\E g \in c.g : g[2] = <<>> /\ ~\E w \in RangeS(m.writes) : w.id = g[1] /\ w.pts = <<>>)

\* prefix-closed safety (holds at every moment, whether or not Close ever returns): every received point is a point of
\* a write that was at least called, under its data id, and never received more often than written
CalledPts(m, d) == Concat([k \in 1..Len(m.called) |-> IF m.called[k].id = d THEN m.called[k].pts ELSE <<>>])
DupOrInvented(m) == \E d \in AllIds(m) : ~BagIncl(Recv(m, d), CalledPts(m, d))
SendHookTwice(m) == \/ \E j, k \in 1..Len(m.hookB) : j # k /\ m.hookB[j].seq = m.hookB[k].seq
                    \/ \E h \in RangeS(m.hookB) : HasSeq(m, h.seq) /\ FirstOf(m, h.seq).g # h.g

Clause(name, b) == IF b THEN {name} ELSE {}
Safety(m) == Clause("DupOrInvented", DupOrInvented(m)) \cup Clause("SeqReuse", SeqReuse(m)) \cup Clause("AckHookUnsound", AckHookUnsound(m))
             \cup Clause("AliasBeforeGrant", AliasBeforeGrant(m)) \cup Clause("DataIdsWrong", DataIdsWrong(m))
             \cup Clause("ChunkAfterClose", ChunkAfterClose(m)) \cup Clause("SendHookTwice", SendHookTwice(m))
             \cup Clause("EmptyChunk", EmptyChunk(m))
MonVerdict(m) ==
    IF m.sid = "" \/ m.faults > 0 THEN {}
    ELSE IF ~Premise(m) THEN Safety(m)
    ELSE Safety(m) \cup Clause("LostDupAltered", LostDupAltered(m))
         \cup (IF LostDupAltered(m) THEN {} ELSE Clause("OrderBroken", OrderBroken(m)))
         \cup Clause("SeqGap", SeqGap(m)) \cup Clause("SeqReuse", SeqReuse(m)) \cup Clause("SeqTwice", SeqTwice(m))
         \cup Clause("AliasBeforeGrant", AliasBeforeGrant(m)) \cup Clause("DataIdsWrong", DataIdsWrong(m))
         \cup Clause("CloseTotalsWrong", CloseTotalsWrong(m)) \cup Clause("ChunkAfterClose", ChunkAfterClose(m))
         \cup Clause("SendHookWrong", SendHookWrong(m))
         \cup Clause("AckHookUnsound", AckHookUnsound(m)) \cup Clause("AckHookMissing", AckHookMissing(m))
         \cup Clause("EmptyChunk", EmptyChunk(m)) \cup Clause("ClosedBeforeAckOrTimeout", ClosedEarly(m))

MonStats(m) == [ premise |-> IF Premise(m) THEN 1 ELSE 0, writes |-> Len(m.writes), chunks |-> Len(m.chunks), acks |-> Len(m.acks),
                 grants |-> Len(m.grants), hookA |-> Len(m.hookA), hookB |-> Len(m.hookB),
                 aliasChunks |-> Cardinality({ k \in 1..Len(m.chunks) : \E j \in 1..Len(m.chunks[k].gl) : m.chunks[k].gl[j].f = "al" }),
                 multiChunk |-> IF N(m) >= 2 THEN 1 ELSE 0, watchdog |-> m.watchdog, hookAfterCloseReturned |-> m.hookLate ]
=============================================================================
