SPECIFICATION Spec
CONSTANTS
  Kinds <- KindsA
  LeakRLock = FALSE
  CloseWaitWakes = TRUE
  MuHeldDuringWait = FALSE
  MaxMeta = 2
INVARIANTS NoLockLeak NoOverrun
PROPERTIES EveryCallReturns
CHECK_DEADLOCK FALSE
