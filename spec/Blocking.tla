------------------------------ MODULE Blocking ------------------------------
(* L1 specification for C08: every blocking public call returns no later than the bound that governs it,
   whatever the broker does, and the connection's dispatching keeps running.

   Every wait of the library is modelled as the disjunction of the events the code selects on (or, for
   condition variables, of the broadcasts that exist), and the three locks whose leak or convoy stalls callers
   are modelled with separate acquire / release steps on the paths as coded:
     wireConnMu            (iscp.Conn): held by OpenUpstream / SendMetadata ... while they wait for the broker
     downstreams.mu (RW)   (wire.ClientConn): RLock per dispatched DownstreamMetadata, Lock on open/close of a downstream
     Upstream.mu           (iscp.Upstream): held by processResult while it hands a chunk result to the sender that waits for it;
                           WriteDataPoints, Flush and State() take it as well (kinds "write", "state")
   Time is abstract: each caller has a context deadline that may fire at any moment after the call started
   (`expired`), and a call still blocked after its deadline fired in a wait that is not context-aware is an OVERRUN.

   Model switches: LeakRLock (metadata for an unsubscribed source node leaves the read lock held - as coded at the
   pinned commit), CloseWaitWakes (upstream Close's ack wait is woken by context / close timeout - FALSE as coded at
   the pinned commit), MuHeldDuringWait (wireConnMu is held while waiting for the broker's response - as coded),
   ResultChBuffered (the per-chunk result channel has room for the result, so the hand-over never waits for the sender - FALSE as coded
   at the pinned commit: a result that arrives after the sender's ack timeout blocks the result loop with Upstream.mu held).        *)
EXTENDS Integers, Sequences, FiniteSets, TLC

CONSTANTS Kinds,           \* function caller -> kind in {"open","meta","closeUp","read","closeDown","openDown"}
          LeakRLock, CloseWaitWakes, MuHeldDuringWait, ResultChBuffered,
          WakeUnderLock,   \* TRUE as coded: the goroutine that wakes Close's wait when a bound fires broadcasts while holding the condition
                           \* variable's lock, so it cannot fall between Close's look at its bounds and its Wait; FALSE = a lock-free
                           \* Broadcast (e.g. context.AfterFunc(ctx, cond.Broadcast)): a bound that fires in that gap wakes nobody
          Hooks,           \* TRUE: the flush loop cuts a chunk and the user's send hook runs (only the configurations about Upstream.mu need it)
          HookUnderLock,   \* FALSE: as coded, user hooks are queued to the stream's event dispatcher and run with no library lock held;
                           \* TRUE: the send hook is called from the flush critical section (Upstream.mu held)
          MaxMeta          \* number of DownstreamMetadata messages the adversary sends

Callers == DOMAIN Kinds
Adversary == {"answer", "drop", "late", "misaddress"}

VARIABLES pc,        \* caller -> "idle" | "wantMu" | "wait" | "ackWait" | "wantDsMu" | "done"
          expired,   \* caller -> its context deadline has fired
          overrun,   \* caller -> was blocked in a non-context-aware wait when its deadline fired
          mu,        \* holder of wireConnMu ("none" or caller)
          rlocks,    \* number of read locks held on downstreams.mu
          dsw,       \* writer holding downstreams.mu ("none" or caller)
          resp,      \* caller -> what the adversary does with its request ("none" until sent)
          nmeta,     \* metadata messages dispatched so far
          acked,     \* the upstream's chunk has been acknowledged
          umu,       \* holder of Upstream.mu ("none", "rl" = the result loop, or a caller)
          waiter,    \* the chunk's sender: "waiting" for its result | "gone" (ack timeout) | "served"
          rl,        \* result loop: "idle" | "handing" (holds Upstream.mu, hands the result over) | "done"
          hook       \* the user's send hook for one chunk: "none" | "queued" | "running" (it calls back into the stream: State()) | "done"
vars == <<pc, expired, overrun, mu, rlocks, dsw, resp, nmeta, acked, umu, waiter, rl, hook>>
ust == <<umu, waiter, rl, hook>>

Init == /\ pc = [p \in Callers |-> "idle"] /\ expired = [p \in Callers |-> FALSE] /\ overrun = [p \in Callers |-> FALSE]
        /\ mu = "none" /\ rlocks = 0 /\ dsw = "none" /\ resp = [p \in Callers |-> "none"] /\ nmeta = 0 /\ acked = FALSE
        /\ umu = "none" /\ waiter = "waiting" /\ rl = "idle" /\ hook = "none"

NeedsMu(p) == Kinds[p] \in {"open", "meta", "openDown"}

Call(p) == /\ pc[p] = "idle"
           /\ pc' = [pc EXCEPT ![p] = CASE NeedsMu(p) -> "wantMu" [] Kinds[p] = "closeUp" -> "ackLook"
                                          [] Kinds[p] \in {"write", "state"} -> "wantUmu" [] OTHER -> "wait"]
           /\ UNCHANGED <<expired, overrun, mu, rlocks, dsw, resp, nmeta, acked, ust>>

\* sync.Mutex.Lock is not context-aware
TakeMu(p) == /\ pc[p] = "wantMu" /\ mu = "none"
             /\ mu' = (IF MuHeldDuringWait THEN p ELSE "none") /\ pc' = [pc EXCEPT ![p] = "wait"]
             /\ UNCHANGED <<expired, overrun, rlocks, dsw, resp, nmeta, acked, ust>>

\* the adversary decides what happens to the request of p
Decide(p, a) == /\ pc[p] = "wait" /\ resp[p] = "none" /\ Kinds[p] # "read"
                /\ resp' = [resp EXCEPT ![p] = a]
                /\ UNCHANGED <<pc, expired, overrun, mu, rlocks, dsw, nmeta, acked, ust>>

\* after the response (or the context) a downstream open/close updates the downstream table under the write lock
NextAfterWait(p) == IF Kinds[p] \in {"openDown", "closeDown"} THEN "wantDsMu" ELSE "done"

\* select { reply | ctx.Done | conn.Done }
WaitReturns(p) ==
    /\ pc[p] = "wait"
    /\ \/ resp[p] = "answer"
       \/ expired[p]
    /\ pc' = [pc EXCEPT ![p] = IF resp[p] = "answer" THEN NextAfterWait(p) ELSE "done"]
    /\ mu' = IF mu = p THEN "none" ELSE mu
    /\ UNCHANGED <<expired, overrun, rlocks, dsw, resp, nmeta, acked, ust>>

\* upstream Close: wait for all acks on the condition variable
AckArrives == /\ ~acked /\ acked' = TRUE /\ UNCHANGED <<pc, expired, overrun, mu, rlocks, dsw, resp, nmeta, ust>>
AckWaitReturns(p) ==
    /\ pc[p] \in {"ackWait", "ackWaitLost"}
    /\ acked \/ (pc[p] = "ackWait" /\ CloseWaitWakes /\ expired[p])
    /\ pc' = [pc EXCEPT ![p] = "wait"]
    /\ UNCHANGED <<expired, overrun, mu, rlocks, dsw, resp, nmeta, acked, ust>>
\* Close looks at the sent storage and at its bounds (under the condition variable's lock) ...
AckLook(p) ==
    /\ pc[p] = "ackLook"
    /\ pc' = [pc EXCEPT ![p] = IF acked \/ (CloseWaitWakes /\ expired[p]) THEN "wait" ELSE "ackGap"]
    /\ UNCHANGED <<expired, overrun, mu, rlocks, dsw, resp, nmeta, acked, ust>>
\* ... and parks in Wait(). A bound that fired in between: with the broadcast under the lock it is delivered after the parking (the
\* broadcaster had to wait for the lock), with a lock-free broadcast it went to nobody
AckPark(p) ==
    /\ pc[p] = "ackGap"
    /\ pc' = [pc EXCEPT ![p] = IF expired[p] /\ ~WakeUnderLock THEN "ackWaitLost" ELSE "ackWait"]
    /\ UNCHANGED <<expired, overrun, mu, rlocks, dsw, resp, nmeta, acked, ust>>

\* sync.RWMutex.Lock: waits for readers and writers, not context-aware
TakeDsMu(p) == /\ pc[p] = "wantDsMu" /\ rlocks = 0 /\ dsw = "none"
               /\ pc' = [pc EXCEPT ![p] = "done"]
               /\ UNCHANGED <<expired, overrun, mu, rlocks, dsw, resp, nmeta, acked, ust>>

\* readDownstreamMetadataLoop handles one message: RLock, look up alias and source, deliver, RUnlock
Meta(known) == /\ nmeta < MaxMeta /\ dsw = "none"
               /\ nmeta' = nmeta + 1
               /\ rlocks' = IF ~known /\ LeakRLock THEN rlocks + 1 ELSE rlocks
               /\ UNCHANGED <<pc, expired, overrun, mu, dsw, resp, acked, ust>>

\* ---- Upstream.mu: result hand-over and the calls that need the stream lock
\* the sender's ack timeout fires: it stops waiting for the result
WaiterGivesUp == /\ waiter = "waiting" /\ rl = "idle" /\ waiter' = "gone"
                 /\ UNCHANGED <<pc, expired, overrun, mu, rlocks, dsw, resp, nmeta, acked, umu, rl, hook>>
\* the broker's acknowledgement arrives (in time or late): processResult takes Upstream.mu
ResultArrives == /\ rl = "idle" /\ umu = "none" /\ rl' = "handing" /\ umu' = "rl"
                 /\ UNCHANGED <<pc, expired, overrun, mu, rlocks, dsw, resp, nmeta, acked, waiter, hook>>
\* ch <- result: completes if the sender still waits, or if the channel is buffered; otherwise processResult stays blocked with the lock
HandOver == /\ rl = "handing" /\ (waiter = "waiting" \/ ResultChBuffered)
            /\ rl' = "done" /\ umu' = "none" /\ waiter' = IF waiter = "waiting" THEN "served" ELSE waiter
            /\ UNCHANGED <<pc, expired, overrun, mu, rlocks, dsw, resp, nmeta, acked, hook>>
\* the flush loop cuts a chunk under Upstream.mu and announces it to the user's send hook
FlushCut == /\ Hooks /\ hook = "none" /\ umu = "none"
            /\ IF HookUnderLock THEN umu' = "flush" /\ hook' = "running" ELSE umu' = umu /\ hook' = "queued"
            /\ UNCHANGED <<pc, expired, overrun, mu, rlocks, dsw, resp, nmeta, acked, waiter, rl>>
\* the stream's event dispatcher calls the queued hook (no library lock held)
HookStarts == /\ hook = "queued" /\ hook' = "running"
              /\ UNCHANGED <<pc, expired, overrun, mu, rlocks, dsw, resp, nmeta, acked, umu, waiter, rl>>
\* the hook reads the stream's State(): it needs Upstream.mu like any other caller; afterwards the flush critical section (if it is the
\* one that called the hook) ends
HookCallsState == /\ hook = "running" /\ umu \in {"none"}
                  /\ hook' = "done"
                  /\ UNCHANGED <<pc, expired, overrun, mu, rlocks, dsw, resp, nmeta, acked, umu, waiter, rl>>
\* WriteDataPoints / Flush / State(): sync.(RW)Mutex, not context-aware; the critical section itself is short
TakeUmu(p) == /\ pc[p] = "wantUmu" /\ umu = "none"
              /\ pc' = [pc EXCEPT ![p] = "done"]
              /\ UNCHANGED <<expired, overrun, mu, rlocks, dsw, resp, nmeta, acked, ust>>

\* the context deadline of p fires; if p sits in a wait that does not look at the context this is an overrun
Blind(p) == \/ (pc[p] = "wantMu" /\ mu # "none")
            \/ (pc[p] = "wantDsMu" /\ (rlocks > 0 \/ dsw # "none"))
            \/ (pc[p] = "ackWait" /\ ~CloseWaitWakes /\ ~acked)
            \/ (pc[p] = "wantUmu" /\ umu = "rl" /\ ~(waiter = "waiting" \/ ResultChBuffered))   \* behind a holder that cannot move (a short critical section is slack)
            \/ (pc[p] = "wantUmu" /\ umu = "flush")                                                \* behind a critical section that waits for itself
Expire(p) == /\ pc[p] \notin {"idle", "done"} /\ ~expired[p]
             /\ expired' = [expired EXCEPT ![p] = TRUE]
             /\ overrun' = [overrun EXCEPT ![p] = Blind(p)]
             /\ UNCHANGED <<pc, mu, rlocks, dsw, resp, nmeta, acked, ust>>

Next == \/ \E p \in Callers : Call(p) \/ TakeMu(p) \/ WaitReturns(p) \/ AckWaitReturns(p) \/ AckLook(p) \/ AckPark(p) \/ TakeDsMu(p) \/ Expire(p) \/ TakeUmu(p)
        \/ WaiterGivesUp \/ ResultArrives \/ HandOver \/ FlushCut \/ HookStarts \/ HookCallsState
        \/ \E p \in Callers, a \in Adversary : Decide(p, a)
        \/ AckArrives \/ \E k \in BOOLEAN : Meta(k)

\* fairness: the library's own steps and the timers are fair; the adversary (Decide, AckArrives, Meta) is not
Fair == /\ \A p \in Callers : WF_vars(TakeMu(p)) /\ WF_vars(WaitReturns(p)) /\ WF_vars(AckWaitReturns(p)) /\ WF_vars(AckLook(p)) /\ WF_vars(AckPark(p)) /\ WF_vars(TakeDsMu(p)) /\ WF_vars(Expire(p))
                               /\ WF_vars(TakeUmu(p))
        /\ WF_vars(HandOver) /\ WF_vars(HookStarts) /\ WF_vars(HookCallsState)
Spec == Init /\ [][Next]_vars /\ Fair

\* ---- properties
\* every started call returns (its context deadline fires eventually, so this is "no API call blocks forever")
EveryCallReturns == \A p \in Callers : (pc[p] # "idle") ~> (pc[p] = "done")
\* no call is still blocked in a context-blind wait when its deadline fires
NoOverrun == \A p \in Callers : ~overrun[p]
\* no input sequence leaves the client holding a lock it never releases
NoLockLeak == (\A p \in Callers : pc[p] \in {"idle", "done"}) => (mu = "none" /\ rlocks = 0 /\ dsw = "none")
\* the wake-up of a bound is never lost between Close's look and its Wait
NoLostWakeup == \A p \in Callers : pc[p] # "ackWaitLost"
\* a user callback never runs inside a library critical section it needs itself
NoHookUnderLock == ~(hook = "running" /\ umu = "flush")
\* the result loop never sits on the stream lock waiting for a sender that has gone
NoStuckHandOver == ~(rl = "handing" /\ waiter = "gone" /\ ~ENABLED HandOver)

KindsA == [P1 |-> "open", P2 |-> "meta", P3 |-> "closeUp"]
KindsB == [P1 |-> "openDown", P2 |-> "closeDown", P3 |-> "read"]
KindsC == [P1 |-> "write", P2 |-> "state", P3 |-> "closeUp"]
=============================================================================
