---------------------------- MODULE ReqReplyInd ----------------------------
(* Unbounded-depth safety of the request/response correlation core (C06), as an inductive invariant checked
   by Apalache.  Same actions as ReqReplyCore.tla (gen+start, reg, write, recv, ctxret, closedret, pclose,
   cancel, ans, dup, spur, look, deliver), with two deliberate generalisations that only ADD behaviours:
     - the downlink is an unordered, never-consumed set of messages (every message may be looked up any
       number of times, in any order) instead of a FIFO with MaxDup/MaxSpur copies;
     - any process may be cancelled, the connection may be closed at any time.
   Spurious ids are every id the client can never issue (odd ids, ids <= 0).
   What is proved for runs of ANY length, any number of duplicate / spurious responses and any id values
   (callers: the fixed set Procs):
     IdsDistinctAndEven, OwnResponseOnly, CancelDoesNotSteal, DispatcherNeverBlocks
   (SpuriousHarmless's "only the first copy is delivered" needs FIFO order and stays with TLC/ReqReply.tla).
   Checked as:  Init => IndInv (length 0),  IndInv /\ Next => IndInv' (length 1 from IndInit),  IndInv => Safety. *)
EXTENDS Integers, FiniteSets, Apalache

Procs == 0..2

\* @typeAlias: msg = { rid: Int, for: Int, how: Str };
\* @typeAlias: disp = { s: Str, rid: Int, for: Int, how: Str, to: Int };
\* @typeAlias: ret = { k: Str, rid: Int, for: Int };
RR_aliases == TRUE

VARIABLES
    \* @type: Int;
    nextId,
    \* @type: Int -> Str;
    pc,
    \* @type: Int -> Int;
    id,
    \* @type: Set(<<Int, Int>>);
    reply,
    \* @type: Int -> Set($msg);
    chan,
    \* @type: Set(Int);
    got,
    \* @type: Set($msg);
    down,
    \* @type: $disp;
    disp,
    \* @type: Set(Int);
    cancelled,
    \* @type: Bool;
    closed,
    \* @type: Int -> $ret;
    ret

vars == <<nextId, pc, id, reply, chan, got, down, disp, cancelled, closed, ret>>

PCs == {"idle", "gen", "reg", "wait", "done"}
\* @type: $ret;
NoRet == [k |-> "none", rid |-> -1, for |-> -1]
\* @type: $disp;
DIdle == [s |-> "idle", rid |-> -1, for |-> -1, how |-> "", to |-> -1]
\* @type: (Int, Int, Str) => $msg;
Msg(r, f, h) == [rid |-> r, for |-> f, how |-> h]

Init ==
    /\ nextId = 2
    /\ pc = [p \in Procs |-> "idle"]
    /\ id = [p \in Procs |-> -1]
    /\ reply = {}
    /\ chan = [p \in Procs |-> {}]
    /\ got = {}
    /\ down = {}
    /\ disp = DIdle
    /\ cancelled = {}
    /\ closed = FALSE
    /\ ret = [p \in Procs |-> NoRet]

Done(p, r) == pc' = [pc EXCEPT ![p] = "done"] /\ ret' = [ret EXCEPT ![p] = r]

Start(p) == /\ pc[p] = "idle"
            /\ id' = [id EXCEPT ![p] = nextId] /\ nextId' = nextId + 2 /\ pc' = [pc EXCEPT ![p] = "gen"]
            /\ UNCHANGED <<reply, chan, got, down, disp, cancelled, closed, ret>>
Reg(p) == /\ pc[p] = "gen"
          /\ reply' = reply \union {<<id[p], p>>} /\ pc' = [pc EXCEPT ![p] = "reg"]
          /\ UNCHANGED <<nextId, id, chan, got, down, disp, cancelled, closed, ret>>
Write(p) == /\ pc[p] = "reg"
            /\ IF closed THEN Done(p, [NoRet EXCEPT !.k = "closed"]) /\ UNCHANGED got
               ELSE got' = got \union {id[p]} /\ pc' = [pc EXCEPT ![p] = "wait"] /\ UNCHANGED ret
            /\ UNCHANGED <<nextId, id, reply, chan, down, disp, cancelled, closed>>
Recv(p) == /\ pc[p] = "wait"
           /\ \E m \in chan[p] :
                 /\ Done(p, [k |-> "resp", rid |-> m.rid, for |-> m.for])
                 /\ chan' = [chan EXCEPT ![p] = chan[p] \ {m}]
           /\ UNCHANGED <<nextId, id, reply, got, down, disp, cancelled, closed>>
CtxRet(p) == /\ pc[p] = "wait" /\ p \in cancelled
             /\ Done(p, [NoRet EXCEPT !.k = "ctx"])
             /\ UNCHANGED <<nextId, id, reply, chan, got, down, disp, cancelled, closed>>
ClosedRet(p) == /\ pc[p] = "wait" /\ closed
                /\ Done(p, [NoRet EXCEPT !.k = "closed"])
                /\ UNCHANGED <<nextId, id, reply, chan, got, down, disp, cancelled, closed>>
Close == /\ closed' = TRUE
         /\ UNCHANGED <<nextId, pc, id, reply, chan, got, down, disp, cancelled, ret>>
Cancel(p) == /\ cancelled' = cancelled \union {p}
             /\ UNCHANGED <<nextId, pc, id, reply, chan, got, down, disp, closed, ret>>
\* the broker answers (or answers again) a request it has received
Ans(p, h) == /\ id[p] \in got /\ h \in {"ans", "dup"}
             /\ down' = down \union {Msg(id[p], p, h)}
             /\ UNCHANGED <<nextId, pc, id, reply, chan, got, disp, cancelled, closed, ret>>
\* a response bearing an id the client can never issue
Spur(i) == /\ (i % 2 = 1 \/ i <= 0)
           /\ down' = down \union {Msg(i, -1, "spur")}
           /\ UNCHANGED <<nextId, pc, id, reply, chan, got, disp, cancelled, closed, ret>>
Look(m) == /\ disp.s = "idle" /\ m \in down
           /\ LET hit == { e \in reply : e[1] = m.rid }
              IN IF hit = {} THEN UNCHANGED <<reply, disp>>
                 ELSE \E e \in hit :
                        /\ reply' = reply \ {e}
                        /\ disp' = [s |-> "deliver", rid |-> m.rid, for |-> m.for, how |-> m.how, to |-> e[2]]
           /\ UNCHANGED <<nextId, pc, id, chan, got, down, cancelled, closed, ret>>
Deliver == /\ disp.s = "deliver" /\ Cardinality(chan[disp.to]) < 1
           /\ chan' = [chan EXCEPT ![disp.to] = chan[disp.to] \union {Msg(disp.rid, disp.for, disp.how)}]
           /\ disp' = DIdle
           /\ UNCHANGED <<nextId, pc, id, reply, got, down, cancelled, closed, ret>>

Next == \/ \E p \in Procs : Start(p) \/ Reg(p) \/ Write(p) \/ Recv(p) \/ CtxRet(p) \/ ClosedRet(p) \/ Cancel(p)
                               \/ Ans(p, "ans") \/ Ans(p, "dup")
        \/ Close
        \/ \E i \in -3..9 : Spur(i)          \* representative spurious ids (odd or <= 0); the invariant is generic in i
        \/ \E m \in down : Look(m)
        \/ Deliver

\* ---------------------------------------------------------------- properties (as in ReqReplyCore)
Used == { p \in Procs : pc[p] # "idle" }
IdsDistinctAndEven == /\ \A p \in Used : \A q \in Used : id[p] = id[q] => p = q
                      /\ \A p \in Used : id[p] % 2 = 0 /\ id[p] # 0
OwnResponseOnly == \A p \in Procs : ret[p].k = "resp" => ret[p].rid = id[p] /\ ret[p].for = p
CancelDoesNotSteal == /\ \A p \in Procs : \A m \in chan[p] : m.for = p /\ m.rid = id[p]
                      /\ disp.s = "deliver" => disp.for = disp.to
                      /\ \A p \in Procs : ret[p].k = "ctx" => p \in cancelled
DispatcherNeverBlocks == disp.s = "deliver" => chan[disp.to] = {}
Safety == IdsDistinctAndEven /\ OwnResponseOnly /\ CancelDoesNotSteal /\ DispatcherNeverBlocks

\* ---------------------------------------------------------------- inductive invariant
Tokens(p) == (IF <<id[p], p>> \in reply THEN 1 ELSE 0)
             + (IF disp.s = "deliver" /\ disp.to = p THEN 1 ELSE 0)
             + Cardinality(chan[p])
TypeOK ==
    /\ DOMAIN pc = Procs /\ DOMAIN id = Procs /\ DOMAIN chan = Procs /\ DOMAIN ret = Procs
    /\ \A p \in Procs : pc[p] \in PCs
    /\ disp.s \in {"idle", "deliver"}
    /\ cancelled \subseteq Procs
IndInv ==
    /\ TypeOK
    /\ nextId % 2 = 0 /\ nextId >= 2
    /\ \A p \in Procs : IF pc[p] = "idle" THEN id[p] = -1 ELSE id[p] % 2 = 0 /\ id[p] >= 2 /\ id[p] < nextId
    /\ \A p \in Used : \A q \in Used : id[p] = id[q] => p = q
    /\ \A e \in reply : e[2] \in Procs /\ e[1] = id[e[2]] /\ pc[e[2]] \in {"reg", "wait", "done"}
    /\ \A p \in Procs : Tokens(p) <= 1 /\ (pc[p] \in {"idle", "gen"} => Tokens(p) = 0)
    /\ \A p \in Procs : \A m \in chan[p] : m.for = p /\ m.rid = id[p]
    /\ \A i \in got : \E p \in Procs : id[p] = i /\ pc[p] \in {"wait", "done"}
    /\ \A m \in down : IF m.how = "spur" THEN (m.rid % 2 = 1 \/ m.rid <= 0)
                       ELSE m.for \in Procs /\ m.rid = id[m.for] /\ pc[m.for] \in {"wait", "done"}
    /\ disp.s = "deliver" => disp.to \in Procs /\ disp.for = disp.to /\ disp.rid = id[disp.to]
    /\ disp.s = "idle" => disp = DIdle
    /\ \A p \in Procs : /\ ret[p].k \in {"none", "resp", "ctx", "closed"}
                        /\ ret[p].k # "none" => pc[p] = "done"
                        /\ ret[p].k = "resp" => ret[p].rid = id[p] /\ ret[p].for = p
                        /\ ret[p].k = "ctx" => p \in cancelled

IndInit ==
    /\ nextId = Gen(1) /\ pc = Gen(4) /\ id = Gen(4) /\ reply = Gen(5) /\ chan = Gen(4)
    /\ got = Gen(5) /\ down = Gen(6) /\ disp = Gen(1) /\ cancelled = Gen(4) /\ closed = Gen(1) /\ ret = Gen(4)
    /\ IndInv
=============================================================================
