SPECIFICATION Spec
CONSTANTS
  Callers = {"P1", "P2", "P3"}
  CallKinds = {"call", "callWait", "replyCall"}
  MaxCallsPer = 2
  CallReceivers = {"RC"}
  ReplyReceivers = {"RR"}
  MaxRecv = 3
  Cap = 8
  MaxAcks = 5
  MaxDupAcks = 1
  MaxNegAcks = 1
  MaxUnkAcks = 1
  MaxReplies = 4
  MaxDupReplies = 1
  MaxUnkReplies = 1
  MaxInCalls = 2
  MaxFaults = 0
  MaxExpire = 0
  CloseAnytime = FALSE
  FreshIds = TRUE
  DeleteWaiter = TRUE

INVARIANTS CallIdsFresh AckToOwnerOnly ReplyToOwnerOnly InboxOnceInOrder NegativeAckOnlyThatCaller DeliverNonBlocking
CONSTRAINT GenPrint
CHECK_DEADLOCK FALSE
