SPECIFICATION Spec
CONSTANTS
  MaxWrites = 3
  MaxSegs = 3
  RollbackSeq = TRUE
  Reorder = FALSE
  GenCanon = FALSE
VIEW StView
INVARIANTS ExactOrNothing
CHECK_DEADLOCK FALSE
