---------------------------- MODULE SentStorage ----------------------------
(* L1 wrapper of SentStorageCore: exhaustive exploration of all operation sequences
   (Store / Remove / List / Clear on every stream, sequence number and value) up to MaxOps. *)
EXTENDS SentStorageCore

CONSTANT NStreams
VARIABLES st, script
vars == <<st, script>>

Init == st = Init0(NStreams) /\ script = <<>>
Next == \E op \in EnabledOps(st) : st' = Apply(st, op) /\ script' = Append(script, op)
Spec == Init /\ [][Next]_vars

Frame == FrameOf(st)
WellFormed == WellFormedOf(st)
StoreMeaning == StoreMeaningOf(st)
RemoveMeaning == RemoveMeaningOf(st)
ListMeaning == ListMeaningOf(st)
ClearMeaning == ClearMeaningOf(st)
\* Frame as an action property on the variables themselves (not via the recorded `pre`)
FrameAct == [][\A s \in StreamsOf(st) \ {st'.last.n} : ListOf(st', s) = ListOf(st, s)]_vars
StView == st

\* script generation: print the operation sequence of every maximal path
GenPrint == IF st.n = MaxOps THEN PrintT("SCRIPT " \o ToJson(script)) ELSE TRUE
=============================================================================
