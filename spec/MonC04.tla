------------------------------ MODULE MonC04 ------------------------------
(* Property monitor for C04: every chunk returned by ReadDataPoints is acknowledged exactly once with the right
   upstream stream id and sequence number, in acks whose ids increase strictly from 1; each upstream / data id first
   seen in full form is announced exactly once under an alias never given to anything else; one upstream or data id
   never receives two aliases; on Close the last acks and announcements precede the close request.
   "At most once" / injectivity / order clauses are prefix-closed safety; "exactly once" is judged at Quiesced after a
   nil Close for reads that returned before Close was called (weaker reading, DESIGN section 6 C04).            *)
EXTENDS MonCommon

MonInit == [ sid |-> "", resumed |-> 0, reads |-> <<>>, acks |-> <<>>, pre |-> <<>>, closeCall |-> 0, closeRet |-> "none", closeReqAt |-> 0,
             faults |-> 0, quiesced |-> FALSE, ackAfterClose |-> FALSE ]
MonReset(e) == MonInit

MonStep(m, e) ==
    CASE e.ev = "ApiRet" /\ e.op = "OpenDownstream" /\ m.sid = "" /\ e.err = "" -> [m EXCEPT !.sid = e.sid]
      [] e.ev = "BRecvReq" /\ e.kind = "DownstreamOpenRequest" /\ m.sid = "" -> [m EXCEPT !.pre = e.idAliases]
      [] e.ev = "ApiRet" /\ e.op = "Read" /\ e.sid = m.sid /\ e.err = "" ->
            [m EXCEPT !.reads = Append(@, [up |-> e.up, seq |-> e.seq, i |-> e.i, ids |-> { e.groups[k].id : k \in 1..Len(e.groups) }])]
      [] e.ev = "BRecvDownAck" /\ e.sid = m.sid ->
            [m EXCEPT !.acks = Append(@, [id |-> e.ackID, c |-> e.c, res |-> e.results, ups |-> e.upAliases, ids |-> e.idAliases, i |-> e.i]),
                      !.ackAfterClose = @ \/ m.closeReqAt > 0]
      [] e.ev = "ApiCall" /\ e.op = "CloseDown" /\ e.sid = m.sid -> [m EXCEPT !.closeCall = e.i]
      [] e.ev = "ApiRet" /\ e.op = "CloseDown" /\ e.sid = m.sid -> [m EXCEPT !.closeRet = e.err]
      [] e.ev = "BRecvReq" /\ e.kind = "DownstreamCloseRequest" /\ e.sid = m.sid -> [m EXCEPT !.closeReqAt = e.i]
      [] e.ev = "Fault" \/ (e.ev = "BLinkDown" /\ e.cause = "script") -> [m EXCEPT !.faults = @ + 1]
      [] e.ev = "DownResumed" /\ e.sid = m.sid -> [m EXCEPT !.resumed = @ + 1]
      [] e.ev = "Quiesced" -> [m EXCEPT !.quiesced = TRUE]
      [] OTHER -> m

AllRes(m) == Concat([k \in 1..Len(m.acks) |-> [j \in 1..Len(m.acks[k].res) |-> <<m.acks[k].res[j][1], m.acks[k].res[j][2]>>]])
AllResCodes(m) == Concat([k \in 1..Len(m.acks) |-> [j \in 1..Len(m.acks[k].res) |-> m.acks[k].res[j][3]]])
AllUpAnn(m) == Concat([k \in 1..Len(m.acks) |-> [j \in 1..Len(m.acks[k].ups) |-> <<m.acks[k].ups[j][1], m.acks[k].ups[j][2]>>]])
AllIdAnn(m) == Concat([k \in 1..Len(m.acks) |-> [j \in 1..Len(m.acks[k].ids) |-> <<m.acks[k].ids[j][1], m.acks[k].ids[j][2]>>]])
PreAnn(m) == [k \in 1..Len(m.pre) |-> <<m.pre[k][1], m.pre[k][2]>>]
ReadKeys(m) == [k \in 1..Len(m.reads) |-> <<m.reads[k].up, m.reads[k].seq>>]

\* ---- safety
AckIdsNotIncreasing(m) == \E k \in 1..Len(m.acks) : m.acks[k].id < 1 \/ (k > 1 /\ m.acks[k].id <= m.acks[k - 1].id)
AckIdsNotFromOne(m) == m.faults = 0 /\ Len(m.acks) > 0 /\ \E k \in 1..Len(m.acks) : m.acks[k].id # k
AckedTwice(m) == ~IsDistinct(AllRes(m))
AckForUnread(m) == \E r \in RangeS(AllRes(m)) : r \notin RangeS(ReadKeys(m))
AckCodeWrong(m) == \E c \in RangeS(AllResCodes(m)) : c # 1
UpTwoAliases(m) == \E a, b \in RangeS(AllUpAnn(m)) : a[2] = b[2] /\ a[1] # b[1]
UpAliasShared(m) == \E a, b \in RangeS(AllUpAnn(m)) : a[1] = b[1] /\ a[2] # b[2]
UpAnnouncedTwice(m) == ~IsDistinct(AllUpAnn(m))
IdAnnAll(m) == PreAnn(m) \o AllIdAnn(m)
IdTwoAliases(m) == \E a, b \in RangeS(IdAnnAll(m)) : a[2] = b[2] /\ a[1] # b[1]
IdAliasShared(m) == \E a, b \in RangeS(IdAnnAll(m)) : a[1] = b[1] /\ a[2] # b[2]
IdAnnouncedTwice(m) == ~IsDistinct(IdAnnAll(m))
AckAfterCloseReq(m) == m.ackAfterClose
\* ---- final (after a nil Close, no fault): everything read before Close was called is acknowledged; everything seen in full form announced
Final(m) == m.quiesced /\ m.closeRet = ""
Unacked(m) == \E k \in 1..Len(m.reads) : m.reads[k].i < m.closeCall /\ ReadKeys(m)[k] \notin RangeS(AllRes(m))
UpNeverAnnounced(m) == \E k \in 1..Len(m.reads) : m.reads[k].i < m.closeCall /\ m.reads[k].up # "?" /\
                          ~(\E a \in RangeS(AllUpAnn(m)) : a[2] = m.reads[k].up)
IdNeverAnnounced(m) == \E k \in 1..Len(m.reads) : m.reads[k].i < m.closeCall /\ \E d \in m.reads[k].ids : ~(\E a \in RangeS(IdAnnAll(m)) : a[2] = d)

Clause(name, b) == IF b THEN {name} ELSE {}
MonVerdict(m) ==
    IF m.sid = "" THEN {}
    ELSE Clause("AckIdsNotIncreasing", AckIdsNotIncreasing(m)) \cup Clause("AckIdsNotFromOne", AckIdsNotFromOne(m))
         \cup Clause("AckedTwice", AckedTwice(m)) \cup Clause("AckForUnread", AckForUnread(m)) \cup Clause("AckCodeWrong", AckCodeWrong(m))
         \cup Clause("UpTwoAliases", UpTwoAliases(m)) \cup Clause("UpAliasShared", UpAliasShared(m)) \cup Clause("UpAnnouncedTwice", UpAnnouncedTwice(m))
         \cup Clause("IdTwoAliases", IdTwoAliases(m)) \cup Clause("IdAliasShared", IdAliasShared(m)) \cup Clause("IdAnnouncedTwice", IdAnnouncedTwice(m))
         \cup Clause("AckAfterCloseReq", AckAfterCloseReq(m))
         \cup (IF Final(m) THEN Clause("Unacked", Unacked(m)) \cup Clause("UpNeverAnnounced", UpNeverAnnounced(m)) \cup Clause("IdNeverAnnounced", IdNeverAnnounced(m)) ELSE {})
MonStats(m) == [ final |-> IF Final(m) THEN 1 ELSE 0, reads |-> Len(m.reads), acks |-> Len(m.acks), results |-> Len(AllRes(m)),
                 upAnn |-> Len(AllUpAnn(m)), idAnn |-> Len(AllIdAnn(m)), faults |-> m.faults, resumed |-> m.resumed ]
=============================================================================
