------------------------------ MODULE Upstream ------------------------------
(* L1 system specification of one iscp upstream on one connection: iscp/upstream.go
   (WriteDataPoints, Flush, Close, flushLoop, flush, sendChunkAndWaitAck, readAckLoop,
   readAliasLoop, readResultLoop, processResult, waitToSendAllDataPointsAndReceiveAllAck,
   run / resume, the stream watcher) together with the broker and the link.

   Implementation-shaped: one action per critical section / channel hand-off of the code.
   Environment actions (API calls, broker decisions, timer, link failure, redial, resume
   outcome) are separated from system actions (goroutine steps); the environment
   projection of a behaviour is the scenario script replayed on the real library
   (history variable `script`, hidden from the VIEW).

   The whole state is one record `s` (actions are guards + `s' = [s EXCEPT ...]`).
   Data points are tokens: write k carries token k, one data id and a size class.
   `acc[d]` is the history of accepted tokens per data id: a Write has returned nil
   exactly when the flush loop has taken its hand-off (unbuffered channel).          *)
EXTENDS Integers, Sequences, FiniteSets, TLC, Json, SequencesExt, FiniteSetsExt

CONSTANTS
    DataIds,        \* e.g. {"A","B"}
    Writers,        \* writer processes, e.g. {"W1","W2"}
    Flushers,       \* processes calling Flush explicitly
    MaxWrites,      \* bound on write calls
    Policy,         \* "none" | "size" | "immediate" | "interval"
    Threshold,      \* size-policy threshold (payload units)
    Sizes,          \* payload size classes per write, e.g. {1} or {0,1,3,5}
    ZeroPointWrites,\* TRUE: a write may carry no point at all
    Reliable,       \* QoS reliable?
    MaxFaults,      \* bound on link failures
    MaxDupAcks,     \* bound on duplicated results
    MaxAcks,        \* bound on ack messages
    AliasGrants,    \* may the broker grant data-id aliases?
    CloseShortcut,  \* TRUE = Close skips the wait when the highest seq is acked (as coded at the pinned commit)
    MaxConflicts,   \* resume answered with ResumeRequestConflict at most this many times
    CancelIsTimeout,\* TRUE = a sender waiting for its ack when the run is cancelled may report an ack timeout and remove the chunk (as coded at the pinned commit)
    FlushAbandon,   \* TRUE: a Flush caller may give up (its context ends) before or after it handed its request to the flush loop
    FlushResBuffered, \* FALSE = the explicit-flush result channel is unbuffered (as coded: an abandoned result is dropped); TRUE = it has room
                    \*         for one result (a variant: the result of an abandoned Flush stays there and is read by the next caller)
    NetLoss,        \* TRUE: a chunk may be written successfully into a link that dies before the broker gets it (lost in flight)
    RecordScript    \* TRUE: keep the environment projection in `script` (FALSE for liveness checking: no VIEW there)

VARIABLES s, script
vars == <<s, script>>
View == s

Emp == [d \in DataIds |-> <<>>]

Init0 ==
  [ nw |-> 0, wst |-> [w \in Writers |-> "idle"], woffer |-> [w \in Writers |-> [id |-> "", toks |-> <<>>, sz |-> 0]],
    fst |-> [f \in Flushers |-> "idle"],
    facc |-> [f \in Flushers |-> 0],   \* points accepted when the flusher called Flush (what its nil return vouches for)
    floop |-> "none",                  \* flusher whose request the flush loop has taken but not yet served (only in the stale-result variant)
    fres |-> 0,                        \* results sitting in the explicit-flush result channel
    acc |-> Emp, buf |-> Emp, bufSize |-> 0, bufCnt |-> 0, bufIds |-> {}, fl |-> "idle", seq |-> 0, total |-> 0,
    chunks |-> <<>>,      \* history: seq -> [g : [DataIds -> Seq(token)], ids: ids present, enc : ids sent as alias]
    stored |-> {},        \* seqs in the sent storage
    wait |-> {},          \* seqs with a registered result channel
    toSend |-> {},        \* senders spawned, chunk not yet written: <<seq, gen>>
    awaiting |-> {},      \* senders waiting for their result: <<seq, gen>>
    gotRes |-> {},        \* senders that received a result and will remove + broadcast
    maxAcked |-> 0,
    bRecv |-> <<>>,       \* broker: <<"chunk", conn, seq, enc>> | <<"close", conn, final, total>> | <<"resume", conn>>
    bAcked |-> {}, bGrant |-> {}, dups |-> 0, nacks |-> 0,
    ackQ |-> <<>>, aliasQ |-> <<>>, resQ |-> <<>>,
    known |-> {},         \* data ids whose alias the client knows
    hookB |-> <<>>, hookA |-> <<>>, sentRes |-> <<>>,
    sstatus |-> "connected", cst |-> "idle", closed |-> FALSE, closedErr |-> FALSE, finalDone |-> FALSE,
    conn |-> 1, alive |-> TRUE, cstatus |-> "connected", wireOf |-> 1, gen |-> 1, runst |-> "running",
    resendQ |-> {}, resendCur |-> 0, snapDue |-> FALSE, faults |-> 0, conflicts |-> 0, resumes |-> 0 ]

Init == s = Init0 /\ script = <<>>

Say(op) == script' = IF RecordScript THEN Append(script, op) ELSE script
Quiet == UNCHANGED script

IsFlush(sz) == CASE Policy = "size" -> sz > Threshold
                 [] Policy = "immediate" -> TRUE
                 [] OTHER -> FALSE

Running(x) == x.runst = "running" /\ ~x.closed
BufEmpty(x) == x.bufIds = {}
AccCount(x) == FoldSet(LAMBDA d, a : a + Len(x.acc[d]), 0, DataIds)

\* flush(): atomic under the stream lock; returns the new state. `g` = generation of the spawned sender.
Cut(x) ==
    IF BufEmpty(x) THEN x
    ELSE [x EXCEPT !.seq = @ + 1,
                   !.total = @ + x.bufCnt,
                   !.chunks = Append(@, [g |-> x.buf, ids |-> x.bufIds, enc |-> x.bufIds \cap x.known]),
                   !.stored = @ \cup {x.seq + 1},
                   !.wait = @ \cup {x.seq + 1},
                   !.toSend = @ \cup {<<x.seq + 1, x.gen>>},
                   !.hookB = Append(@, x.seq + 1),
                   !.buf = Emp, !.bufSize = 0, !.bufCnt = 0, !.bufIds = {}]

\* ---------------------------------------------------------------- API: Write
WriteCall(w, id, sz, n) ==
    /\ s.wst[w] = "idle" /\ s.nw < MaxWrites /\ ~s.closed /\ s.cst = "idle"
    /\ s' = [s EXCEPT !.nw = @ + 1,
                      !.woffer[w] = [id |-> id, toks |-> IF n = 0 THEN <<>> ELSE <<s.nw + 1>>, sz |-> IF n = 0 THEN 0 ELSE sz],
                      !.wst[w] = "offer"]
    /\ Say([a |-> "write", g |-> w, id |-> id, tok |-> s.nw + 1, sz |-> sz, n |-> n])

\* flush loop takes the hand-off: append under the stream lock, evaluate IsFlush
Absorb(w) ==
    /\ Running(s) /\ s.fl = "idle" /\ s.wst[w] = "offer"
    /\ LET o == s.woffer[w] IN
       s' = [s EXCEPT !.buf[o.id] = @ \o o.toks, !.acc[o.id] = @ \o o.toks,
                      !.bufSize = @ + o.sz, !.bufCnt = @ + Len(o.toks), !.bufIds = @ \cup {o.id},
                      !.fl = IF IsFlush(s.bufSize + o.sz) THEN "needCut" ELSE "idle",
                      !.wst[w] = "idle"]
    /\ Quiet

CutNeeded == /\ Running(s) /\ s.fl = "needCut"
             /\ s' = [Cut(s) EXCEPT !.fl = "idle"] /\ Quiet

Tick == /\ Policy = "interval" /\ Running(s) /\ s.fl = "idle" /\ ~BufEmpty(s)
        /\ s' = Cut(s) /\ Say([a |-> "tick"])

\* ---------------------------------------------------------------- API: Flush
FlushCall(f) ==
    /\ s.fst[f] = "idle" /\ ~s.closed /\ s.cst = "idle"
    /\ s' = [s EXCEPT !.fst[f] = "offer", !.facc[f] = AccCount(s)]
    /\ Say([a |-> "flush", g |-> f])

\* the flush loop serves the request and hands the result back (unbuffered rendezvous)
FlushServe(f) ==
    /\ Running(s) /\ s.fl = "idle" /\ s.fst[f] = "offer" /\ s.floop = "none" /\ s.fres = 0
    /\ s' = [Cut(s) EXCEPT !.fst[f] = "done"]
    /\ Quiet
\* the caller's context ends before the flush loop took its request: nothing happens
FlushGiveUpEarly(f) ==
    /\ FlushAbandon /\ s.fst[f] = "offer"
    /\ s' = [s EXCEPT !.fst[f] = "gone"]
    /\ Quiet
\* ... or after: the loop cuts, finds the caller gone (select on the caller's done channel) and drops the result - or parks it in a buffered channel
FlushServeAbandoned(f) ==
    /\ FlushAbandon /\ Running(s) /\ s.fl = "idle" /\ s.fst[f] = "offer" /\ s.floop = "none"
    /\ s' = [Cut(s) EXCEPT !.fst[f] = "gone", !.fres = IF FlushResBuffered THEN 1 ELSE @]
    /\ Quiet
\* (variant) a later caller hands its request over and reads the parked result of an EARLIER flush before the loop has served its own
FlushStale(f) ==
    /\ FlushResBuffered /\ s.fres = 1 /\ Running(s) /\ s.fl = "idle" /\ s.fst[f] = "offer" /\ s.floop = "none"
    /\ s' = [s EXCEPT !.fst[f] = "done", !.floop = f, !.fres = 0]
    /\ Quiet
FlushLateCut ==
    /\ s.floop # "none" /\ Running(s) /\ s.fl = "idle"
    /\ s' = [Cut(s) EXCEPT !.floop = "none", !.fres = 1]
    /\ Quiet

\* ---------------------------------------------------------------- chunk senders
\* go sendChunkAndWaitAck: read u.wireConn, write the chunk (the context is not consulted)
SendChunk(c) ==
    /\ c \in s.toSend
    /\ IF s.wireOf = s.conn /\ s.alive /\ c[2] = s.gen /\ s.runst = "running"
       THEN s' = [s EXCEPT !.toSend = @ \ {c},
                           !.bRecv = Append(@, <<"chunk", s.conn, c[1], s.chunks[c[1]].enc>>),
                           !.awaiting = IF Running(s) THEN @ \cup {c} ELSE @]
       ELSE s' = [s EXCEPT !.toSend = @ \ {c}]    \* write error, or a sender of a finished generation: its chunk carries the old stream alias,
                                                  \* which the broker does not know on the new connection (DESIGN section 8 #14): the chunk stays stored
    /\ Quiet
\* the write succeeds, the sender waits for the result - but the link dies before the chunk reaches the broker (lost in flight)
SendChunkLost(c) ==
    /\ NetLoss /\ c \in s.toSend /\ Running(s)
    /\ s.wireOf = s.conn /\ s.alive /\ c[2] = s.gen
    /\ s.faults < MaxFaults /\ s.cst = "idle" /\ s.cstatus = "connected"
    /\ s' = [s EXCEPT !.toSend = @ \ {c}, !.awaiting = @ \cup {c},
                      !.alive = FALSE, !.faults = @ + 1, !.ackQ = <<>>]
    /\ Say([a |-> "cut"])

\* ---------------------------------------------------------------- broker acks
ChunkIdx(x) == { j \in 1..Len(x.bRecv) : x.bRecv[j][1] = "chunk" }
RecvdSeqs(x) == { x.bRecv[i][3] : i \in ChunkIdx(x) }
RecvdOn(x, c) == { x.bRecv[i][3] : i \in { j \in ChunkIdx(x) : x.bRecv[j][2] = c } }
FullIdsSeen(x) == UNION { x.chunks[x.bRecv[i][3]].ids \ x.bRecv[i][4] : i \in ChunkIdx(x) }
SeqOfSet(S, desc) == IF desc THEN SetToSortSeq(S, LAMBDA a, b : a > b) ELSE SetToSortSeq(S, LAMBDA a, b : a < b)

BAck(S, desc, grant) ==
    /\ s.alive /\ s.wireOf = s.conn /\ S # {} /\ S \subseteq RecvdOn(s, s.conn) /\ s.nacks < MaxAcks /\ ~s.closed
    /\ Cardinality(S \cap s.bAcked) <= MaxDupAcks - s.dups
    /\ grant \subseteq (FullIdsSeen(s) \ s.bGrant)
    /\ (grant # {} => AliasGrants)
    /\ s' = [s EXCEPT !.dups = @ + Cardinality(S \cap s.bAcked), !.nacks = @ + 1,
                      !.bAcked = @ \cup S, !.bGrant = @ \cup grant,
                      !.ackQ = Append(@, [res |-> SeqOfSet(S, desc), al |-> grant]),
                      !.sentRes = @ \o SeqOfSet(S, desc)]
    /\ Say([a |-> "ack", seqs |-> SeqOfSet(S, desc), grant |-> SetToSeq(grant)])

\* the same broker step without the bounds on acks and duplicates (used only as the fair broker of the liveness specification)
BAckFair(S) ==
    /\ s.alive /\ s.wireOf = s.conn /\ ~s.closed /\ s.ackQ = <<>> /\ s.resQ = <<>> /\ s.aliasQ = <<>>
    /\ s' = [s EXCEPT !.bAcked = @ \cup S, !.ackQ = Append(@, [res |-> SeqOfSet(S, FALSE), al |-> {}]), !.sentRes = @ \o SeqOfSet(S, FALSE)]
    /\ UNCHANGED script

\* readAckLoop: aliasCh <- ack.DataIDAliases ; resCh <- ack.Results
RouteAck ==
    /\ Running(s) /\ s.wireOf = s.conn /\ s.ackQ # <<>> /\ Len(s.aliasQ) < 8 /\ Len(s.resQ) < 8
    /\ s' = [s EXCEPT !.aliasQ = Append(@, Head(s.ackQ).al), !.resQ = Append(@, Head(s.ackQ).res), !.ackQ = Tail(@)]
    /\ Quiet

ProcAlias ==
    /\ Running(s) /\ s.aliasQ # <<>>
    /\ s' = [s EXCEPT !.known = @ \cup Head(s.aliasQ), !.aliasQ = Tail(@)]
    /\ Quiet

\* readResultLoop + processResult: hook first, then hand the result to the registered waiter.
\* (range over the closed resCh still drains what was routed, hence no Running guard.)
ProcResult ==
    /\ s.resQ # <<>>
    /\ LET r == Head(Head(s.resQ))
           rest == Tail(Head(s.resQ))
           q2 == IF rest = <<>> THEN Tail(s.resQ) ELSE <<rest>> \o Tail(s.resQ)
           hit == { c \in s.awaiting : c[1] = r }
       IN IF r \in s.wait /\ hit # {}
          THEN s' = [s EXCEPT !.hookA = Append(@, r), !.resQ = q2, !.wait = @ \ {r},
                              !.awaiting = @ \ hit, !.gotRes = @ \cup hit]
          ELSE IF r \in s.wait /\ s.resendCur = r
               THEN s' = [s EXCEPT !.hookA = Append(@, r), !.resQ = q2, !.wait = @ \ {r}, !.gotRes = @ \cup {<<r, s.gen>>}]
               ELSE s' = [s EXCEPT !.hookA = Append(@, r), !.resQ = q2]
    /\ Quiet

\* sender got its result: under receivedAck.L: max, Remove, Broadcast
WaiterDone(c) ==
    /\ c \in s.gotRes
    /\ s' = [s EXCEPT !.gotRes = @ \ {c},
                      !.maxAcked = IF c[1] > @ THEN c[1] ELSE @,
                      !.stored = @ \ {c[1]},
                      !.resendCur = IF @ = c[1] THEN 0 ELSE @]
    /\ Quiet

\* ---------------------------------------------------------------- API: Close
AllIdle(x) == (\A w \in Writers : x.wst[w] = "idle") /\ (\A f \in Flushers : x.fst[f] # "offer")

CloseCall ==
    /\ s.cst = "idle" /\ ~s.closed /\ AllIdle(s) /\ s.sstatus = "connected" /\ s.cstatus = "connected" /\ s.alive
    /\ s' = [s EXCEPT !.sstatus = "draining", !.cst = "flushOffer"]
    /\ Say([a |-> "close"])

CloseFlushServe ==
    /\ Running(s) /\ s.fl = "idle" /\ s.cst = "flushOffer"
    /\ s' = [Cut(s) EXCEPT !.cst = "check"] /\ Quiet

CloseCheck ==
    /\ s.cst = "check"
    /\ s' = [s EXCEPT !.cst = IF CloseShortcut /\ s.maxAcked = s.seq THEN "sendClose" ELSE "waitAcks"]
    /\ Quiet

CloseWait ==
    /\ s.cst = "waitAcks" /\ BufEmpty(s) /\ s.stored = {}
    /\ s' = [s EXCEPT !.cst = "sendClose"] /\ Quiet

CloseSend ==
    /\ s.cst = "sendClose" /\ s.wireOf = s.conn /\ s.alive
    /\ s' = [s EXCEPT !.bRecv = Append(@, <<"close", s.conn, s.seq, s.total>>), !.cst = "waitResp"]
    /\ Quiet

CloseResp ==
    /\ s.cst = "waitResp" /\ s.alive
    /\ s' = [s EXCEPT !.closed = TRUE, !.cst = "done", !.awaiting = {}, !.wait = {}]   \* run ctx cancelled
    /\ Quiet

\* flushLoop: <-ctx.Done(): final flush with the cancelled context
FinalFlush ==
    /\ s.closed /\ ~s.finalDone /\ s.fl = "idle" /\ s.runst = "running"
    /\ s' = [Cut(s) EXCEPT !.finalDone = TRUE] /\ Quiet

\* ---------------------------------------------------------------- link failure, reconnect, resume
LinkDown ==
    /\ s.alive /\ s.faults < MaxFaults /\ ~s.closed /\ s.cst = "idle" /\ s.cstatus = "connected" /\ s.runst = "running"
    /\ s' = [s EXCEPT !.alive = FALSE, !.faults = @ + 1, !.ackQ = <<>>]      \* acks in flight are lost
    /\ Say([a |-> "cut"])

\* the connection notices the dead link (keep-alive / failing request) and starts reconnecting
Detect ==
    /\ ~s.alive /\ s.cstatus = "connected" /\ s.wireOf = s.conn
    /\ s' = [s EXCEPT !.cstatus = "reconnecting"] /\ Quiet

\* stream watcher sees Reconnecting: status -> resuming; run() exits: ctx of the generation is
\* cancelled, flushLoop does its final flush, result channels are closed and cleared
WatcherFire ==
    /\ s.cstatus = "reconnecting" /\ s.runst = "running" /\ ~s.closed /\ s.fl = "idle"
    /\ \E X \in SUBSET s.awaiting :
         /\ (~CancelIsTimeout => X = {})          \* X = senders that take the cancellation for an ack timeout (withAckTimeoutCh's random select)
         /\ s' = [Cut(s) EXCEPT !.sstatus = IF s.sstatus = "draining" THEN @ ELSE "resuming",
                                !.runst = "stopped", !.awaiting = {}, !.gotRes = @ \cup X, !.wait = {}, !.resendQ = {}, !.resendCur = 0, !.snapDue = FALSE,
                                !.aliasQ = <<>>, !.resQ = <<>>]
    /\ Quiet

\* slow-redial assumption of this configuration: the new connection is up only after the watcher fired
Redial ==
    /\ s.cstatus = "reconnecting" /\ ~s.alive /\ s.runst = "stopped"
    /\ s' = [s EXCEPT !.conn = @ + 1, !.alive = TRUE, !.cstatus = "connected"]
    /\ Say([a |-> "redial"])

\* supervisor: WaitUntil(Connected); resume(): bind to the new wire conn, send the resume request
ResumeConflict ==
    /\ s.runst = "stopped" /\ s.cstatus = "connected" /\ s.alive /\ ~s.closed /\ s.sstatus = "resuming"
    /\ s.conflicts < MaxConflicts
    /\ s' = [s EXCEPT !.conflicts = @ + 1, !.wireOf = s.conn, !.bRecv = Append(@, <<"resume", s.conn>>)]
    /\ Say([a |-> "resumeResp", code |-> "conflict"])

ResumeOk ==
    /\ s.runst = "stopped" /\ s.cstatus = "connected" /\ s.alive /\ ~s.closed /\ s.sstatus = "resuming"
    /\ s' = [s EXCEPT !.wireOf = s.conn, !.bRecv = Append(@, <<"resume", s.conn>>),
                      !.sstatus = "connected", !.gen = @ + 1, !.runst = "running", !.resumes = @ + 1,
                      !.resendQ = {}, !.snapDue = Reliable,
                      !.stored = IF Reliable THEN @ ELSE {}]
    /\ Say([a |-> "resumeResp", code |-> "ok"])

\* run(isResume): the goroutine that retransmits lists the sent storage some time after the stream has become
\* `connected` again - writes accepted in between are flushed, stored and sent first, and are part of the list
\* (they are then sent a second time: a harmless duplicate that the broker has to acknowledge like any other chunk)
TakeSnapshot ==
    /\ Running(s) /\ s.snapDue
    /\ s' = [s EXCEPT !.resendQ = s.stored, !.snapDue = FALSE]
    /\ Quiet

\* resume exchange cut by another failure: the stream is closed with an error (reported to the application)
ResumeCut ==
    /\ s.runst = "stopped" /\ s.cstatus = "connected" /\ ~s.alive /\ ~s.closed /\ s.sstatus = "resuming"
    /\ s' = [s EXCEPT !.closed = TRUE, !.closedErr = TRUE]
    /\ Quiet

\* reliable resume: re-send every stored chunk, one at a time, re-encoded with the current alias table
ResendNext(q) ==
    /\ Running(s) /\ s.resendCur = 0 /\ q \in s.resendQ
    /\ IF s.wireOf = s.conn /\ s.alive
       THEN s' = [s EXCEPT !.resendQ = @ \ {q}, !.resendCur = q, !.wait = @ \cup {q},
                           !.bRecv = Append(@, <<"chunk", s.conn, q, s.chunks[q].ids \cap s.known>>)]
       ELSE s' = [s EXCEPT !.resendQ = @ \ {q}]
    /\ Quiet

Next ==
    \/ \E w \in Writers, id \in DataIds, sz \in Sizes : WriteCall(w, id, sz, 1)
    \/ (ZeroPointWrites /\ \E w \in Writers, id \in DataIds : WriteCall(w, id, 0, 0))
    \/ \E w \in Writers : Absorb(w)
    \/ CutNeeded \/ Tick
    \/ \E f \in Flushers : FlushCall(f) \/ FlushServe(f) \/ FlushGiveUpEarly(f) \/ FlushServeAbandoned(f) \/ FlushStale(f)
    \/ FlushLateCut
    \/ \E c \in s.toSend : SendChunk(c) \/ SendChunkLost(c)
    \/ \E S \in SUBSET RecvdOn(s, s.conn), desc \in BOOLEAN, grant \in SUBSET (FullIdsSeen(s) \ s.bGrant) :
          (Cardinality(S) <= 1 => ~desc) /\ BAck(S, desc, grant)
    \/ RouteAck \/ ProcAlias \/ ProcResult
    \/ \E c \in s.gotRes : WaiterDone(c)
    \/ CloseCall \/ CloseFlushServe \/ CloseCheck \/ CloseWait \/ CloseSend \/ CloseResp \/ FinalFlush
    \/ LinkDown \/ Detect \/ WatcherFire \/ Redial \/ ResumeConflict \/ ResumeOk \/ ResumeCut \/ TakeSnapshot
    \/ \E q \in s.resendQ : ResendNext(q)

Spec == Init /\ [][Next]_vars

\* ---- liveness (C02): fairness of every library step, of the redial and of a broker that answers the resume and acknowledges
SysStep == \/ \E w \in Writers : Absorb(w)
           \/ CutNeeded \/ (\E f \in Flushers : FlushServe(f)) \/ FlushLateCut \/ (\E c \in s.toSend : SendChunk(c))
           \/ RouteAck \/ ProcAlias \/ ProcResult \/ (\E c \in s.gotRes : WaiterDone(c))
           \/ CloseFlushServe \/ CloseCheck \/ CloseWait \/ CloseSend \/ CloseResp \/ FinalFlush
           \/ Detect \/ WatcherFire \/ ResumeCut \/ TakeSnapshot \/ (\E q \in s.resendQ : ResendNext(q))
\* a cooperative broker acknowledges what it received on the current connection and has not acknowledged there yet
\* (a retransmitted chunk is acknowledged again): every chunk the client is still waiting for
\* (the senders that actually wait: `wait` may keep the map entry of a sender that has gone - such a result is simply dropped)
AckAllUnacked == LET S == RecvdOn(s, s.conn) \cap s.wait \cap (({ c[1] : c \in s.awaiting } \cup (IF s.resendCur # 0 THEN {s.resendCur} ELSE {}))
                                                     \ { c[1] : c \in s.gotRes })      \* (not those whose result is already with the sender)
                 IN S # {} /\ BAckFair(S)
FairNext == Next \/ AckAllUnacked
FairSpec == Init /\ [][FairNext]_vars /\ WF_vars(SysStep) /\ WF_vars(Redial) /\ WF_vars(ResumeOk) /\ WF_vars(AckAllUnacked)
\* once failures have stopped, every cut chunk has reached the broker -- unless the stream was reported closed
EventuallyDelivered == <>[]((1..s.seq) \subseteq RecvdSeqs(s) \/ s.closedErr \/ s.closed)

\* ================================================================== properties (design level)
Flat(x, d) == \* concatenation over all chunks, in seq order, of the tokens of data id d, then the buffer
    LET RECURSIVE F(_)
        F(k) == IF k = 0 THEN <<>> ELSE F(k - 1) \o x.chunks[k].g[d]
    IN F(Len(x.chunks)) \o x.buf[d]
PendingOffer(x, d) == { w \in Writers : x.wst[w] = "offer" /\ x.woffer[w].id = d }


\* C01/C20: nothing lost, duplicated or re-attributed between acceptance and cut; per-id order kept
Conservation == \A d \in DataIds : Flat(s, d) = s.acc[d]
\* C01: chunks numbered 1..N, totals exact
Numbering == /\ Len(s.chunks) = s.seq
             /\ s.total + s.bufCnt = AccCount(s)
\* C20: no chunk is ever cut empty
NoEmptyChunk == \A k \in 1..Len(s.chunks) : s.chunks[k].ids # {}
\* C01: alias form only for ids whose alias the broker granted before
AliasOnlyAfterGrant == \A i \in ChunkIdx(s) : s.bRecv[i][4] \subseteq s.bGrant
\* C01: send hook exactly once per cut chunk
SendHookOnce == s.hookB = [k \in 1..s.seq |-> k]
\* C01: ack hook reports only results the broker sent, never more often than sent
Count(q, v) == Cardinality({ i \in 1..Len(q) : q[i] = v })
AckHookSound == \A v \in 1..s.seq : Count(s.hookA, v) <= Count(s.sentRes, v)
\* C01: the close request reports N and the exact total
CloseIdx(x) == { j \in 1..Len(x.bRecv) : x.bRecv[j][1] = "close" }
CloseTotals == \A j \in CloseIdx(s) : s.bRecv[j][3] = s.seq /\ s.bRecv[j][4] = s.total
                                     /\ s.total = AccCount(s)
\* C01: no chunk reaches the broker after the close request
NoChunkAfterClose == \A j \in CloseIdx(s) : \A i \in ChunkIdx(s) : i < j
\* C01: when Close has returned on a connection that stayed up, every chunk has reached the broker
AllReceivedAtClose == (s.cst = "done" /\ s.faults = 0) => RecvdSeqs(s) = 1..s.seq
\* C20: Flush barrier: a served Flush leaves the buffer empty (checked in the step itself by construction);
\*      here: points reported sent + buffered never exceed the points accepted
SnapshotConservation == s.total + s.bufCnt <= s.nw

\* C20: with a size policy the buffered payload never stays above the threshold once the flush loop is back in its select
SizePolicyBound == (Policy = "size" /\ s.fl = "idle") => s.bufSize <= Threshold
\* C20: with the 'none' policy nothing is cut before an explicit Flush or Close was called
NoneCutsOnlyOnDemand == (Policy = "none" /\ s.seq > 0) => (s.cst # "idle" \/ \E f \in Flushers : s.fst[f] # "idle")
\* C20: Flush is a barrier - a Flush that returned nil vouches for every point accepted before the call
FlushBarrier == \A f \in Flushers : s.fst[f] = "done" => s.total >= s.facc[f]
\* C20: with the immediate policy the buffer is empty whenever the flush loop is back in its select
ImmediateCutsEveryWrite == (Policy = "immediate" /\ s.fl = "idle" /\ Running(s)) => BufEmpty(s)

\* C02: a stored chunk leaves the store only after its result was consumed (reliable)
StoredUntilAcked == Reliable => \A k \in 1..s.seq : k \notin s.stored => (k \in s.bAcked)
\* C02: quiescent and healthy => every cut chunk has reached the broker
Quiescent(x) == /\ x.alive /\ x.cstatus = "connected" /\ Running(x) /\ x.sstatus = "connected" /\ x.toSend = {}
                /\ x.resendQ = {} /\ x.resendCur = 0 /\ ~x.snapDue /\ x.fl = "idle"
NothingLostWhenQuiescent == (Reliable /\ Quiescent(s) /\ ~s.closedErr) => (1..s.seq) \subseteq RecvdSeqs(s)
\* C02: reliable resume retransmits exactly what was not acknowledged
ResendOnlyStored == s.resendQ \subseteq 1..s.seq   \* (a snapshot entry may be acknowledged meanwhile by a sender of the old generation: harmless duplicate)

\* script generation: print the environment projection at terminal states of interest
Terminal == s.cst = "done" \/ s.closedErr
GenPrint == IF Terminal THEN PrintT("SCRIPT " \o ToJson(script)) ELSE TRUE
=============================================================================
