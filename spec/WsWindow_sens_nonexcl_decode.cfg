SPECIFICATION Spec
CONSTANTS
  MaxMsgs = 3
  Classes <- ClassesConc
  NWriters = 2
  Conc = TRUE
  Excl = FALSE
  WinLock = TRUE
  Fault = "none"
  StrictBackend = TRUE
  DrainAfterDecode = TRUE
  ReadPolicy = "any"
  Modes <- ModesCt
  Levels <- LevelsOne
  Bits <- BitsOne
VIEW StView
INVARIANTS HeadDecodable NoDecodeFailure ReadEqualsWrite

CHECK_DEADLOCK FALSE
