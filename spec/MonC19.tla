---------------------------- MODULE MonC19 ----------------------------
(* Trace monitor for C19 (transport/multi).  The real component is concurrent: scheduler output is
   applied by a goroutine (applySel) and member reads are merged by per-member goroutines (pump).
   These steps are not observable, so the monitor keeps the *set* S of model states that are
   compatible with everything observed so far:  after every recorded operation
        S' = Closure( { Apply(s, op) : s \in S, the recorded result equals the model result in s } )
   where Closure adds all states reachable by the silent steps.  An operation whose recorded result is
   explained by no state of S is a violation (S' = {}); the monitor then re-synchronises on the
   observed result so that later clauses stay meaningful.  Legal asynchrony (a write that races with a
   selection goes to the old or to the new member; reads of different members in either order) is
   therefore never reported.  Uses the property-conformant model (AsCoded = FALSE): unknown ids are
   rejected (NewTransport) or ignored, they never crash a later call.                            *)
EXTENDS MultiTransportCore

MonB(M, init, ce) == [name |-> "mon", M |-> M, init |-> init, selIds |-> {}, maxSel |-> 0, maxW |-> 0, maxR |-> 0,
                      maxP |-> 0, probes |-> {}, maxRac |-> 0, hold |-> TRUE, cerr |-> ce]

MonInit == [S |-> {}, b |-> MonB({}, "none", {}), bad |-> {}, unk |-> FALSE, badCfg |-> "",
            steps |-> 0, writes |-> 0, raced |-> 0, selects |-> 0, unknownSels |-> 0, seen |-> 0, reads |-> 0,
            probes |-> 0, closes |-> 0, maxS |-> 0, held |-> 0, queuedSels |-> 0]
MonReset(e) == IF "p" \in DOMAIN e     \* (a child process that died before printing anything has a synthesised Reset without p)
              THEN [MonInit EXCEPT !.b = MonB({ e.p.members[i] : i \in 1..Len(e.p.members) }, e.p.init,
                                              { e.p.closeErr[i] : i \in 1..Len(e.p.closeErr) }),
                                   !.badCfg = e.p.badCfg]
              ELSE MonInit

RECURSIVE Closure(_)
Closure(S) == LET N == S \cup UNION { { Apply(s, op) : op \in InternalOps(s) } : s \in S }
              IN IF N = S THEN S ELSE Closure(N)

CrashName(m) == IF m.unk THEN "CrashOnUnknownId" ELSE "Crash"
IsMemberId(m, x) == x \in m.b.M

\* ---- NewTransport
StepNew(m, e) ==
    LET known == m.b.init \in m.b.M IN
    IF m.badCfg # ""         \* validateConfig: no members, an empty group id or a wrong group total must be refused
    THEN [m EXCEPT !.S = {}, !.bad = @ \cup (IF e.ret = "error" THEN {} ELSE IF e.ret = "panic" THEN {"Crash"} ELSE {"BadConfigAccepted"})]
    ELSE IF e.ret = "ok"
    THEN [m EXCEPT !.S = IF known THEN { Base(m.b, m.b.init) } ELSE { Base(m.b, x) : x \in m.b.M },   \* unknown id accepted = "ignored": any member may be current
                   !.unk = ~known]
    ELSE [m EXCEPT !.S = {}, !.unk = ~known,
                   !.bad = @ \cup (IF e.ret = "panic" THEN {IF known THEN "Crash" ELSE "CrashOnUnknownId"}
                                   ELSE IF known THEN {"NewFailed"} ELSE {})]

\* ---- select: the scheduler emitted e.id; optional observation of the current member (probe)
StepSelect(m, e) ==
    LET unk2 == m.unk \/ ~IsMemberId(m, e.id)
        S1 == Closure({ Apply(s, [a |-> "select", id |-> e.id]) : s \in m.S })
        S2 == IF IsMemberId(m, e.probe) THEN { s \in S1 : s.cur = e.probe } ELSE S1
        bad1 == (IF e.sawPanic THEN {"CrashOnUnknownId"} ELSE {})
                \cup (IF e.wait /\ IsMemberId(m, e.id) /\ ~e.seen THEN {"SelectionNotApplied"} ELSE {})
                \cup (IF S2 = {} /\ S1 # {} THEN {"ProbeWrongMember"} ELSE {})
    IN [m EXCEPT !.S = Closure(IF S2 = {} THEN S1 ELSE S2), !.unk = unk2, !.bad = @ \cup bad1,
                 !.selects = @ + 1, !.unknownSels = @ + (IF IsMemberId(m, e.id) THEN 0 ELSE 1),
                 !.seen = @ + (IF e.seen THEN 1 ELSE 0)]

\* ---- write: accepted iff it went to exactly the member that is current in some possible state
Dest(e) == IF Len(e.to) = 1 THEN e.to[1] ELSE None
StepWrite(m, e) ==
    LET cand == { Apply(s, [a |-> "write", n |-> e.n]) : s \in m.S }
        ok == { s \in cand : e.ret = "ok" /\ e.to = <<s.last.ret>> }
        forced == { [s EXCEPT !.to[Len(s.to)] = Dest(e), !.wsel[Len(s.wsel)] = IF Dest(e) = None THEN @ ELSE Dest(e)] : s \in cand }
        bad1 == IF ok # {} \/ m.S = {} THEN {}
                ELSE IF e.ret = "panic" THEN {CrashName(m)}
                ELSE IF e.ret = "ok" THEN {"WriteWrongMember"} ELSE {"WriteFailed"}
    IN [m EXCEPT !.S = Closure(IF ok # {} THEN ok ELSE forced), !.bad = @ \cup bad1, !.writes = @ + 1,
                 !.raced = @ + (IF Cardinality({ s.cur : s \in m.S }) > 1 THEN 1 ELSE 0)]

\* ---- a write that stays in flight inside the member (writeBegin: the member was entered; writeEnd: it returned).
\*      With `wait` the harness observes the current member after the return until it stops changing: every selection
\*      emitted while the write was in flight must then have been applied, in order (the last member id wins).
StepWriteBegin(m, e) ==
    LET cand == { Apply(s, [a |-> "writeBegin", n |-> e.n]) : s \in m.S }
        ok == { s \in cand : e.ret = "ok" /\ e.to = <<s.last.ret>> }
        forced == { [s EXCEPT !.to[Len(s.to)] = Dest(e), !.wsel[Len(s.wsel)] = IF Dest(e) = None THEN @ ELSE Dest(e), !.hold = Dest(e)] : s \in cand }
        bad1 == IF ok # {} \/ m.S = {} THEN {}
                ELSE IF e.ret = "panic" THEN {CrashName(m)}
                ELSE IF e.ret = "ok" THEN {"WriteWrongMember"} ELSE {"WriteFailed"}
    IN [m EXCEPT !.S = Closure(IF ok # {} THEN ok ELSE forced), !.bad = @ \cup bad1, !.writes = @ + 1, !.held = @ + 1,
                 !.raced = @ + (IF Cardinality({ s.cur : s \in m.S }) > 1 THEN 1 ELSE 0)]
StepWriteEnd(m, e) ==
    LET S1 == Closure({ Apply(s, [a |-> "writeEnd"]) : s \in m.S })
        settled == { s \in S1 : s.pending = <<>> }
        S2 == { s \in settled : s.cur = e.probe }
        bad1 == (IF e.ret = "panic" THEN {CrashName(m)} ELSE IF e.ret # "ok" THEN {"WriteFailed"} ELSE {})
                \cup (IF e.wait /\ S2 = {} /\ S1 # {} THEN {IF e.probe = "panic" THEN CrashName(m) ELSE "SelectionNotApplied"} ELSE {})
    IN [m EXCEPT !.S = IF e.wait /\ S2 # {} THEN S2 ELSE IF e.wait THEN settled ELSE S1, !.bad = @ \cup bad1,
                 !.queuedSels = @ + (IF \E s \in m.S : s.pending # <<>> THEN 1 ELSE 0)]

\* ---- asUnreliable / negotiationParams: answered by the current member
StepProbe(m, e) ==
    LET cand == { Apply(s, [a |-> e.a]) : s \in m.S }
        ok == { s \in cand : s.last.ret = e.ret }
        bad1 == IF ok # {} \/ m.S = {} THEN {}
                ELSE IF e.ret = "panic" THEN {CrashName(m)} ELSE {"ProbeWrongMember"}
    IN [m EXCEPT !.S = Closure(IF ok # {} THEN ok ELSE cand), !.bad = @ \cup bad1, !.probes = @ + 1]

\* ---- counters: the transport's counters are the sums of the members' counters (observed and model)
PairSum(l) == FoldSet(LAMBDA i, acc : acc + l[i][2], 0, 1..Len(l))
StepCounters(m, e) ==
    LET cand == { Apply(s, [a |-> "counters"]) : s \in m.S }
        okObs == e.ret = "ok" /\ e.tx = PairSum(e.mtx) /\ e.rx = PairSum(e.mrx)
        okMod == \A s \in cand : /\ e.tx = TxOf(s) /\ e.rx = RxOf(s)
                                 /\ \A i \in 1..Len(e.mtx) : e.mtx[i][2] = MemberTx(s, e.mtx[i][1])
                                 /\ \A i \in 1..Len(e.mrx) : e.mrx[i][2] = MemberRx(s, e.mrx[i][1])
    IN [m EXCEPT !.S = Closure(cand), !.probes = @ + 1,
                 !.bad = @ \cup (IF e.ret = "panic" THEN {CrashName(m)} ELSE IF okObs /\ okMod THEN {} ELSE {"CounterMismatch"})]

\* ---- member hands out message n
StepMemberRead(m, e) ==
    [m EXCEPT !.S = Closure({ Apply(s, [a |-> "memberRead", src |-> e.src, n |-> e.n]) : s \in m.S }),
              !.bad = @ \cup (IF e.ret # "ok" THEN {"ReadLostOrDup"} ELSE {})]     \* the transport does not read this member

StepMemberFail(m, e) ==
    [m EXCEPT !.S = Closure({ Apply(s, [a |-> "memberFail", src |-> e.src]) : s \in m.S }),
              !.bad = @ \cup (IF e.ret # "ok" THEN {"ReadLostOrDup"} ELSE {})]     \* nobody was reading this member

\* ---- Read
ForceRead(s, k) == [s EXCEPT !.inbox = [x \in Members |-> SelectSeq(s.inbox[x], LAMBDA y : y # k)],
                             !.q = SelectSeq(s.q, LAMBDA y : y # k),
                             !.got = IF k \in SeqRange(s.got) \/ k \notin 1..Len(s.fedTo) THEN @ ELSE Append(@, k)]
StepRead(m, e) ==
    LET open == \A s \in m.S : s.status = "open"
        okMsg == { ReadMsg(s) : s \in { x \in m.S : x.q # <<>> /\ Head(x.q) = e.n } }
        okClosed == { ReadClosed(s) : s \in { x \in m.S : x.status = "closed" } }
    IN IF e.ret = "msg"
       THEN [m EXCEPT !.S = Closure(IF okMsg # {} THEN okMsg ELSE { ForceRead(s, e.n) : s \in m.S }), !.reads = @ + 1,
                      !.bad = @ \cup (IF okMsg # {} \/ m.S = {} THEN {} ELSE {"ReadLostOrDup"})]
       ELSE IF e.ret = "closed" /\ okClosed # {}
       THEN [m EXCEPT !.S = Closure(okClosed), !.reads = @ + 1]
       ELSE [m EXCEPT !.reads = @ + 1,
                      !.bad = @ \cup (IF m.S = {} THEN {} ELSE IF e.ret = "panic" THEN {CrashName(m)} ELSE {"ReadLostOrDup"})]   \* timeout / error / garbage / closed while open

\* ---- Close: every member closed exactly once
StepClose(m, e) ==
    LET cl == { <<e.closes[i][1], e.closes[i][2]>> : i \in 1..Len(e.closes) }
        okCl == cl = { <<x, 1>> : x \in m.b.M }
    IN [m EXCEPT !.S = Closure({ Apply(s, [a |-> "close"]) : s \in m.S }), !.closes = @ + 1,
                 !.bad = @ \cup (IF e.ret = "panic" THEN {CrashName(m)}
                                 ELSE IF e.ret # (IF m.b.cerr \cap m.b.M # {} THEN "error" ELSE "ok") THEN {"CloseFailed"} ELSE {})
                           \cup (IF okCl THEN {} ELSE {"CloseMissedMember"})]

\* ---- end of scenario: the members' complete write logs equal the model's (no duplicate, no stray write),
\*      and the counters are the sums once more
StepFinal(m, e) ==
    LET okLogs == \A s \in m.S : \A i \in 1..Len(e.wlogs) : e.wlogs[i][2] = WLog(s, e.wlogs[i][1])
        okCnt == /\ e.tx = PairSum(e.mtx) /\ e.rx = PairSum(e.mrx)
                 /\ \A s \in m.S : e.tx = TxOf(s) /\ e.rx = RxOf(s)
    IN [m EXCEPT !.bad = @ \cup (IF okLogs THEN {} ELSE {"WriteWrongMember"})
                           \cup (IF okCnt THEN {} ELSE {"CounterMismatch"})
                           \cup (IF e.ret = "panic" THEN {CrashName(m)} ELSE {})]

MonStep(m, e) ==
    IF e.ev = "Exit"
    THEN [m EXCEPT !.bad = @ \cup (IF e.timedOut THEN {"Hang"} ELSE IF e.status # 0 THEN {"ProcessDied"} ELSE {})]
    ELSE IF e.ev # "MtOp" THEN m
    ELSE LET m1 == CASE e.a = "new" -> StepNew(m, e)
                     [] e.a = "select" -> StepSelect(m, e)
                     [] e.a = "write" -> StepWrite(m, e)
                     [] e.a = "writeBegin" -> StepWriteBegin(m, e)
                     [] e.a = "writeEnd" -> StepWriteEnd(m, e)
                     [] e.a \in {"asUnreliable", "negotiationParams"} -> StepProbe(m, e)
                     [] e.a = "counters" -> StepCounters(m, e)
                     [] e.a = "memberRead" -> StepMemberRead(m, e)
                     [] e.a = "memberFail" -> StepMemberFail(m, e)
                     [] e.a = "read" -> StepRead(m, e)
                     [] e.a = "close" -> StepClose(m, e)
                     [] e.a = "final" -> StepFinal(m, e)
                     [] e.a = "pollerGet" -> [m EXCEPT !.bad = @ \cup (IF e.ret = "panic" THEN {"PollerCrash"} ELSE {})]
                     [] OTHER -> m
         IN [m1 EXCEPT !.steps = @ + 1, !.maxS = IF Cardinality(m1.S) > @ THEN Cardinality(m1.S) ELSE @]

\* the model invariants are evaluated on every possible state as long as the trace has been explained
MonVerdict(m) == m.bad \cup (IF m.bad # {} \/ \A s \in m.S : AllInvOf(s) THEN {} ELSE {"ModelInvariant"})
MonStats(m) == [steps |-> m.steps, writes |-> m.writes, racedWrites |-> m.raced, selects |-> m.selects,
                unknownSels |-> m.unknownSels, seen |-> m.seen, reads |-> m.reads, probes |-> m.probes,
                closes |-> m.closes, maxS |-> m.maxS, heldWrites |-> m.held, holdsWithQueuedSelections |-> m.queuedSels]
=============================================================================
