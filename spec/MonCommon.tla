---------------------------- MODULE MonCommon ----------------------------
(* Helpers shared by the trace monitors. Events are records read from NDJSON. *)
EXTENDS Integers, Sequences, FiniteSets, TLC, Json, SequencesExt, FiniteSetsExt

RangeS(q) == { q[i] : i \in 1..Len(q) }
CountIn(q, v) == Cardinality({ i \in 1..Len(q) : q[i] = v })
\* multiset equality of two sequences
SameBag(p, q) == /\ Len(p) = Len(q)
                 /\ \A v \in RangeS(p) \cup RangeS(q) : CountIn(p, v) = CountIn(q, v)
\* multiset inclusion p <= q
BagIncl(p, q) == \A v \in RangeS(p) : CountIn(p, v) <= CountIn(q, v)
\* first position of v in q (0 if absent)
PosIn(q, v) == IF \E i \in 1..Len(q) : q[i] = v THEN CHOOSE i \in 1..Len(q) : q[i] = v /\ \A j \in 1..(i - 1) : q[j] # v ELSE 0
\* concatenation of a sequence of sequences
RECURSIVE Concat(_)
Concat(qq) == IF qq = <<>> THEN <<>> ELSE Head(qq) \o Concat(Tail(qq))
\* subsequence of the elements satisfying a predicate
Filter(q, P(_)) == SelectSeq(q, P)
\* sequence of f(x) for x in q
MapSeq(q, F(_)) == [i \in 1..Len(q) |-> F(q[i])]
IsDistinct(q) == \A i, j \in 1..Len(q) : q[i] = q[j] => i = j
Max0(S) == IF S = {} THEN 0 ELSE CHOOSE x \in S : \A y \in S : y <= x
=============================================================================
