SPECIFICATION FairSpec
CONSTANTS
  DataIds = {"A", "B"}
  Writers = {"W1"}
  Flushers = {}
  MaxWrites = 2
  Policy = "immediate"
  Threshold = 2
  Sizes = {1}
  ZeroPointWrites = FALSE
  Reliable = TRUE
  MaxFaults = 1
  MaxDupAcks = 0
  MaxAcks = 3
  AliasGrants = FALSE
  CloseShortcut = FALSE
  MaxConflicts = 1
  RecordScript = FALSE
  FlushAbandon = FALSE
  FlushResBuffered = FALSE
  NetLoss = TRUE

INVARIANTS Conservation
PROPERTIES EventuallyDelivered
CHECK_DEADLOCK FALSE
