------------------------------ MODULE MonC01m ------------------------------
(* Many short-lived upstreams on one connection (family writeThenClose of C01): per stream, by the broker's ledger,
     ChunkAfterClose    a chunk of the stream reached the broker after its close request
     CloseTotalsWrong   the close request does not report the number of chunks / points the broker received for the stream before it
     LostAtClose        Close returned nil for a stream whose accepted write never produced a chunk
   (one write of one point per stream; the connection stays up).                                                              *)
EXTENDS MonCommon

MonInit == [ chunks |-> <<>>, closes |-> <<>>, bad |-> {}, wrote |-> {}, closedOk |-> {}, faults |-> 0 ]
MonReset(e) == MonInit

MonStep(m, e) ==
    CASE e.ev = "BRecvChunk" ->
            [m EXCEPT !.chunks = Append(@, e.sid),
                      !.bad = @ \cup (IF \E k \in 1..Len(m.closes) : m.closes[k][1] = e.sid THEN {"ChunkAfterClose"} ELSE {})]
      [] e.ev = "BRecvReq" /\ e.kind = "UpstreamCloseRequest" ->
            LET n == Cardinality({ k \in 1..Len(m.chunks) : m.chunks[k] = e.sid })
            IN [m EXCEPT !.closes = Append(@, <<e.sid, e.final, e.total>>),
                         !.bad = @ \cup (IF e.final # n \/ e.total # n THEN {"CloseTotalsWrong"} ELSE {})]
      [] e.ev = "ApiRet" /\ e.op = "Write" /\ e.err = "" -> [m EXCEPT !.wrote = @ \cup {e.sid}]
      [] e.ev = "ApiRet" /\ e.op = "CloseUp" /\ e.err = "" -> [m EXCEPT !.closedOk = @ \cup {e.sid}]
      [] e.ev = "Fault" \/ (e.ev = "BLinkDown" /\ e.cause = "script") -> [m EXCEPT !.faults = @ + 1]
      [] OTHER -> m

LostAtClose(m) == \E s \in m.wrote \cap m.closedOk : ~\E k \in 1..Len(m.chunks) : m.chunks[k] = s
MonVerdict(m) == IF m.faults > 0 THEN {} ELSE m.bad \cup (IF LostAtClose(m) THEN {"LostAtClose"} ELSE {})
MonStats(m) == [ streams |-> Cardinality(m.closedOk), chunks |-> Len(m.chunks), closes |-> Len(m.closes) ]
=============================================================================
