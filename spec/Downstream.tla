------------------------------ MODULE Downstream ------------------------------
(* L1 system specification of one iscp downstream: iscp/downstream.go (ReadDataPoints with its three
   critical sections, alias assignment for upstreams and data ids, the three ack buffers, flushAck,
   flushAckLoop / final flush on Close, run / resume) with the broker and the link.

   The broker sends chunk k carrying token k from upstream `up` with one data point group of data id
   `id`; upstream and data id are each sent in full form or as an alias.  Broker discipline: an alias is
   used only if the client announced it in an ack the broker received, or pre-registered it at open,
   or it is the deliberately bogus alias 99.
   Environment actions: BSend, ReadCall, AckTick, CloseCall, LinkDown, Redial/ResumeOk. *)
EXTENDS Integers, Sequences, FiniteSets, TLC, Json, SequencesExt, FiniteSetsExt

CONSTANTS
    Ups,            \* upstream names, e.g. {"X","Y"}
    DataIds,        \* {"A","B"}
    PreReg,         \* data ids the application asks to pre-register at open (WithDownstreamDataIDs): a sequence, possibly with repetitions
    DedupPreReg,    \* TRUE = a data id listed more than once is registered once (fixed code); FALSE = one alias per list position (as coded at the pinned commit)
    MaxChunks,
    Readers,        \* reader processes
    Cap,            \* capacity of the stream's chunk channel (1024 in the code; small here to reach the overflow branch)
    MaxFaults,
    UpAliasByValue, \* TRUE = upstream infos compared by value when assigning aliases (fixed code); FALSE = by pointer (as coded at the pinned commit)
    RequeueOnDeadLink, \* TRUE = acks that could not be written are kept for the next flush
    Bogus,          \* TRUE: the broker may use the never-announced alias 99
    ReleaseOnCloseMeta  \* FALSE as coded: alias tables only grow. TRUE = reading the UpstreamNormalClose metadata of an upstream forgets its
                        \* alias (variant: metadata and chunks travel through independent queues, so alias-form chunks of that upstream
                        \* may still be waiting - ResolvedRight is violated)

VARIABLES s, script
vars == <<s, script>>
View == s

PreRegA == <<"A">>
PreRegNone == <<>>

PreRegAA == <<"A", "A">>
PreRegABA == <<"A", "B", "A">>

\* OpenDownstream: aliases 1..n for the listed data ids, in list order
RECURSIVE FirstOnly(_)
FirstOnly(q) == IF q = <<>> THEN <<>>
                ELSE LET f == FirstOnly(SubSeq(q, 1, Len(q) - 1)) x == q[Len(q)]
                     IN IF \E i \in 1..Len(f) : f[i] = x THEN f ELSE Append(f, x)
PreRegMap == IF DedupPreReg THEN FirstOnly(PreReg) ELSE PreReg
NPre == Len(PreRegMap)

Init0 ==
  [ sent |-> <<>>,          \* broker: chunks sent [k, up, upF ("info"|"alias"), upAl, id, idF, idAl, conn]
    q |-> <<>>,             \* chunks queued in the client (dpsCh + dataPointsCh), FIFO
    dropped |-> {},         \* chunks dropped because the queue was full (premise of C03 violated)
    rd |-> [r \in Readers |-> [pc |-> "idle", c |-> 0]],
    results |-> <<>>,       \* history of read results in return order: [k, ok, up, id]
    upAl |-> <<>>,          \* client: alias -> upstream (sequence: alias i = position i)
    idAl |-> PreRegMap,     \* client: alias -> data id
    upBuf |-> {}, idBuf |-> {}, resBuf |-> <<>>,      \* ack buffers: sets of aliases, sequence of chunk numbers
    ackId |-> 0,
    bAcks |-> <<>>,         \* broker: acks received [id, res, ups, ids, conn]
    bKnownUp |-> {}, bKnownId |-> {},                  \* aliases the broker has learnt from acks
    lostAcks |-> <<>>,      \* acks written to a dead connection
    sstatus |-> "connected", cst |-> "idle", finalFlushed |-> FALSE, closed |-> FALSE, closeSeen |-> 0,
    conn |-> 1, alive |-> TRUE, cstatus |-> "connected", runst |-> "running", faults |-> 0, nsent |-> 0 ]

Init == s = Init0 /\ script = <<>>
Say(op) == script' = Append(script, op)
Quiet == UNCHANGED script

Running(x) == x.runst = "running" /\ ~x.closed
AliasOfUp(x, u) == { a \in 1..Len(x.upAl) : x.upAl[a] = u }
AliasOfId(x, d) == { a \in 1..Len(x.idAl) : x.idAl[a] = d }

\* ---------------------------------------------------------------- broker sends a chunk
BSend(u, uf, ua, d, df, da) ==
    /\ s.alive /\ s.cstatus = "connected" /\ s.runst = "running" /\ s.nsent < MaxChunks /\ s.cst = "idle" /\ ~s.closed
    /\ (uf = "alias" => (ua \in s.bKnownUp \/ (Bogus /\ ua = 99)))
    /\ (uf = "info" => ua = 0)
    /\ (df = "al" => (da \in s.bKnownId \/ da \in 1..NPre \/ (Bogus /\ da = 99)))
    /\ (df = "id" => da = 0)
    \* when an alias is used the names are what the client announced for it (the broker echoes its own table)
    /\ (uf = "alias" /\ ua # 99 => s.upAl[ua] = u)
    /\ (df = "al" /\ da # 99 => s.idAl[da] = d)
    /\ LET c == [k |-> s.nsent + 1, up |-> u, upF |-> uf, upAl |-> ua, id |-> d, idF |-> df, idAl |-> da, conn |-> s.conn]
       IN s' = [s EXCEPT !.nsent = @ + 1, !.sent = Append(@, c),
                         !.q = IF Len(s.q) < Cap THEN Append(@, c) ELSE @,
                         !.dropped = IF Len(s.q) < Cap THEN @ ELSE @ \cup {c.k}]
    /\ Say([a |-> "sendChunk", k |-> s.nsent + 1, up |-> u, upF |-> uf, upAl |-> ua, id |-> d, idF |-> df, idAl |-> da])

\* ---------------------------------------------------------------- ReadDataPoints: three critical sections
ReadCall(r) ==
    /\ s.rd[r].pc = "idle" /\ ~s.closed /\ s.cst = "idle"
    /\ s' = [s EXCEPT !.rd[r].pc = "wait"]
    /\ Say([a |-> "read", g |-> r])

ReadTake(r) ==
    /\ s.rd[r].pc = "wait" /\ s.q # <<>> /\ ~s.closed
    /\ s' = [s EXCEPT !.rd[r] = [pc |-> "up", c |-> Head(s.q)], !.q = Tail(@)]
    /\ Quiet

\* processUpstreamAlias: full form -> assign an alias unless already assigned, push to the announce buffer
ReadUp(r) ==
    /\ s.rd[r].pc = "up"
    /\ LET c == s.rd[r].c IN
       IF c.upF = "info" /\ (~UpAliasByValue \/ AliasOfUp(s, c.up) = {})
       THEN s' = [s EXCEPT !.upAl = Append(@, c.up), !.upBuf = @ \cup {Len(s.upAl) + 1}, !.rd[r].pc = "id"]
       ELSE s' = [s EXCEPT !.rd[r].pc = "id"]
    /\ Quiet

\* processDataPoints: full-form data ids -> assign aliases for unseen ids, push to the announce buffer
ReadId(r) ==
    /\ s.rd[r].pc = "id"
    /\ LET c == s.rd[r].c IN
       IF c.idF = "id" /\ AliasOfId(s, c.id) = {}
       THEN s' = [s EXCEPT !.idAl = Append(@, c.id), !.idBuf = @ \cup {Len(s.idAl) + 1}, !.rd[r].pc = "res"]
       ELSE s' = [s EXCEPT !.rd[r].pc = "res"]
    /\ Quiet

\* wireToDownstreamChunk + pushResultAckBuffer + return
ReadRes(r) ==
    /\ s.rd[r].pc = "res"
    /\ LET c == s.rd[r].c
           upOk == c.upF = "info" \/ c.upAl \in 1..Len(s.upAl)
           idOk == c.idF = "id" \/ c.idAl \in 1..Len(s.idAl)
           upV == IF c.upF = "info" THEN c.up ELSE IF upOk THEN s.upAl[c.upAl] ELSE "?"
           idV == IF c.idF = "id" THEN c.id ELSE IF idOk THEN s.idAl[c.idAl] ELSE "?"
       IN IF upOk /\ idOk
          THEN s' = [s EXCEPT !.results = Append(@, [k |-> c.k, ok |-> TRUE, up |-> upV, id |-> idV]),
                              !.resBuf = Append(@, c.k), !.rd[r] = [pc |-> "idle", c |-> 0]]
          ELSE s' = [s EXCEPT !.results = Append(@, [k |-> c.k, ok |-> FALSE, up |-> upV, id |-> idV]),
                              !.rd[r] = [pc |-> "idle", c |-> 0]]
    /\ Quiet

\* the consumer reads the UpstreamNormalClose metadata of upstream u (the metadata path is independent of the chunk queue); as coded
\* this does not touch the alias table, so the action exists only in the variant
ReadCloseMeta(u) ==
    /\ ReleaseOnCloseMeta /\ ~s.closed /\ AliasOfUp(s, u) # {}
    /\ s' = [s EXCEPT !.upAl = [a \in 1..Len(s.upAl) |-> IF s.upAl[a] = u THEN "?" ELSE s.upAl[a]]]
    /\ Quiet

\* ---------------------------------------------------------------- flushAck
BufsEmpty(x) == x.upBuf = {} /\ x.idBuf = {} /\ x.resBuf = <<>>
Flush(x) ==
    IF BufsEmpty(x) THEN x
    ELSE LET ack == [id |-> x.ackId + 1, res |-> x.resBuf, ups |-> x.upBuf, ids |-> x.idBuf, conn |-> x.conn]
         IN IF x.alive
            THEN [x EXCEPT !.ackId = @ + 1, !.upBuf = {}, !.idBuf = {}, !.resBuf = <<>>,
                           !.bAcks = Append(@, ack), !.bKnownUp = @ \cup x.upBuf, !.bKnownId = @ \cup x.idBuf]
            ELSE IF RequeueOnDeadLink
                 THEN x                                         \* write failed: everything stays buffered for the next flush
                 ELSE [x EXCEPT !.ackId = @ + 1, !.upBuf = {}, !.idBuf = {}, !.resBuf = <<>>, !.lostAcks = Append(@, ack)]

AckTick ==
    /\ Running(s) /\ ~BufsEmpty(s) /\ ~s.finalFlushed
    /\ s' = Flush(s)
    /\ Say([a |-> "ackTick"])

\* ---------------------------------------------------------------- Close
ReadersIdle(x) == \A r \in Readers : x.rd[r].pc = "idle"     \* reads concurrent with Close are outside the weaker reading (DESIGN §6 C04)

CloseCall ==
    /\ s.cst = "idle" /\ ~s.closed /\ s.sstatus = "connected" /\ s.alive /\ s.cstatus = "connected" /\ ReadersIdle(s)
    /\ s' = [s EXCEPT !.sstatus = "draining", !.cst = "waitFinal"]
    /\ Say([a |-> "close"])

\* flushAckLoop: the watcher goroutine sees Draining, the loop does its last flushAck and closes finalAckFlushed
FinalFlush ==
    /\ s.cst = "waitFinal" /\ ~s.finalFlushed /\ s.runst = "running"
    /\ s' = [Flush(s) EXCEPT !.finalFlushed = TRUE]
    /\ Quiet

CloseSend ==
    /\ s.cst = "waitFinal" /\ s.finalFlushed /\ s.alive
    /\ s' = [s EXCEPT !.cst = "done", !.closed = TRUE, !.closeSeen = Len(s.bAcks) + 1,
                      !.rd = [r \in Readers |-> [pc |-> "idle", c |-> 0]]]
    /\ Quiet

\* ---------------------------------------------------------------- link failure and resume
LinkDown ==
    /\ s.alive /\ s.faults < MaxFaults /\ ~s.closed /\ s.cst = "idle" /\ s.runst = "running"
    /\ s' = [s EXCEPT !.alive = FALSE, !.faults = @ + 1]
    /\ Say([a |-> "cut"])

\* connection notices, watcher fires, run() exits: the deferred flushAck of flushAckLoop runs against the dead connection
WatcherFire ==
    /\ ~s.alive /\ s.runst = "running" /\ ~s.closed
    /\ s' = [Flush(s) EXCEPT !.runst = "stopped", !.cstatus = "reconnecting", !.sstatus = "resuming", !.q = <<>>]
    /\ Quiet

RedialResume ==
    /\ s.runst = "stopped" /\ ~s.alive /\ ~s.closed
    /\ s' = [s EXCEPT !.conn = @ + 1, !.alive = TRUE, !.cstatus = "connected", !.runst = "running", !.sstatus = "connected"]
    /\ Say([a |-> "redial"])

Forms == { <<"info", 0>> } \cup { <<"alias", a>> : a \in 1..3 } \cup (IF Bogus THEN {<<"alias", 99>>} ELSE {})
IdForms == { <<"id", 0>> } \cup { <<"al", a>> : a \in 1..3 } \cup (IF Bogus THEN {<<"al", 99>>} ELSE {})

Next ==
    \/ \E u \in Ups, f \in Forms, d \in DataIds, g \in IdForms : BSend(u, f[1], f[2], d, g[1], g[2])
    \/ \E r \in Readers : ReadCall(r) \/ ReadTake(r) \/ ReadUp(r) \/ ReadId(r) \/ ReadRes(r)
    \/ AckTick \/ CloseCall \/ FinalFlush \/ CloseSend
    \/ \E u \in Ups : ReadCloseMeta(u)
    \/ LinkDown \/ WatcherFire \/ RedialResume

Spec == Init /\ [][Next]_vars

\* ================================================================== properties
SentNotDropped(x) == SelectSeq(x.sent, LAMBDA c : c.k \notin x.dropped)
\* C03: results correspond in order to the chunks the client queued (single reader: exactly; the per-chunk value always)
ResultOf(x, k) == CHOOSE i \in 1..Len(x.results) : x.results[i].k = k
Returned(x) == { x.results[i].k : i \in 1..Len(x.results) }
OnceEach == \A i, j \in 1..Len(s.results) : s.results[i].k = s.results[j].k => i = j
InOrderSingleReader == Cardinality(Readers) = 1 => \A i, j \in 1..Len(s.results) : i < j => s.results[i].k < s.results[j].k
\* resolved exactly as announced / pre-registered; unknown alias => error, never a wrongly attributed chunk
Chunk(x, k) == x.sent[k]
ResolvedRight ==
    \A i \in 1..Len(s.results) :
        LET r == s.results[i]  c == Chunk(s, r.k)
        IN /\ (c.upAl = 99 \/ c.idAl = 99) => ~r.ok
           /\ r.ok => r.up = c.up /\ r.id = c.id
\* C04: ack ids increase strictly from 1 at the broker
AllAcks(x) == x.bAcks
AckIdsIncrease == /\ \A i \in 1..Len(s.bAcks) : s.bAcks[i].id >= 1 /\ (i > 1 => s.bAcks[i].id > s.bAcks[i - 1].id)
                  /\ (s.faults = 0 => \A i \in 1..Len(s.bAcks) : s.bAcks[i].id = i)
AckedKs(x) == UNION { { a.res[j] : j \in 1..Len(a.res) } : a \in { x.bAcks[i] : i \in 1..Len(x.bAcks) } }
TimesAcked(x, k) == LET F[i \in 0..Len(x.bAcks)] == IF i = 0 THEN 0 ELSE F[i - 1] + Cardinality({ j \in 1..Len(x.bAcks[i].res) : x.bAcks[i].res[j] = k }) IN F[Len(x.bAcks)]
AckAtMostOnce == \A k \in 1..s.nsent : TimesAcked(s, k) <= 1
AckOnlyReturned == \A k \in AckedKs(s) : k \in Returned(s) /\ s.results[ResultOf(s, k)].ok
\* every consumed chunk acknowledged once a normal Close has completed (no fault)
AckAllAtClose == (s.cst = "done" /\ s.faults = 0) => \A k \in Returned(s) : s.results[ResultOf(s, k)].ok => TimesAcked(s, k) = 1
\* across a resume nothing that was returned stays unacknowledged once the stream is closed normally
AckAllAcrossResume == (s.cst = "done") => \A k \in Returned(s) : s.results[ResultOf(s, k)].ok => TimesAcked(s, k) = 1
\* aliases: one upstream / data id never receives two aliases
UpAliasInjective == \A a, b \in 1..Len(s.upAl) : s.upAl[a] = s.upAl[b] => a = b
IdAliasInjective == \A a, b \in 1..Len(s.idAl) : s.idAl[a] = s.idAl[b] => a = b
\* each assigned alias announced at most once, and exactly once after a normal close
TimesAnnUp(x, a) == Cardinality({ i \in 1..Len(x.bAcks) : a \in x.bAcks[i].ups })
TimesAnnId(x, a) == Cardinality({ i \in 1..Len(x.bAcks) : a \in x.bAcks[i].ids })
AnnounceAtMostOnce == (\A a \in 1..Len(s.upAl) : TimesAnnUp(s, a) <= 1) /\ (\A a \in 1..Len(s.idAl) : TimesAnnId(s, a) <= 1)
AnnounceAllAtClose == (s.cst = "done" /\ s.faults = 0) =>
                        /\ \A a \in 1..Len(s.upAl) : TimesAnnUp(s, a) = 1
                        /\ \A a \in (NPre + 1)..Len(s.idAl) : TimesAnnId(s, a) = 1
\* the last acks precede the close request
NoAckAfterClose == s.closeSeen > 0 => Len(s.bAcks) < s.closeSeen

Terminal == s.cst = "done"
GenPrint == IF Terminal THEN PrintT("SCRIPT " \o ToJson(script)) ELSE TRUE
=============================================================================
