------------------------------ MODULE MonC16 ------------------------------
(* Property monitor for C16 (end-to-end calls and replies reach exactly the caller they belong to), evaluated by TLC
   on traces recorded from the real library against the in-memory broker.

   What is observed: ApiCall/ApiRet of SendCall, SendReplyCall, SendCallWait (= SendCallAndWaitReplayCall), ReceiveCall,
   ReceiveReplyCall per process g; at the broker BRecvCall (UpstreamCall with the call id the library chose), BSendCallAck,
   BSendCall (DownstreamCall; reqCallID # "" = reply), BSendFail, BLinkDown; Quiesced, Reconnected, Watchdog.
   A caller is tied to its UpstreamCall by the payload checksum (payloads are derived from g and tag, all distinct).

   Legal asynchrony: an API call may return by context / close although its ack is on the way; therefore "the ack was
   reported" is judged (a) on returns: an error return is wrong only if the ack had been written at least 400 ms earlier on
   an incarnation that was still up, (b) at the first Quiesced (the script's settle point before Close): whatever the
   broker has delivered on a live incarnation must have produced its return.  With link faults in the trace "the first
   ack/reply for the id" is weakened to "some ack/reply for the id" (messages in flight may be lost).                  *)
EXTENDS MonCommon

CallOps == {"SendCall", "SendReplyCall", "SendCallWait"}
RecvOps == {"ReceiveCall", "ReceiveReplyCall"}
InboxCap == 1024
SlackUs == 400000

MonInit == [ calls |-> <<>>, rets |-> <<>>, bcalls |-> <<>>, acks |-> <<>>, sent |-> <<>>, rcalls |-> <<>>, recvs |-> <<>>,
             downs |-> <<>>, q1 |-> 0, closeAt |-> 0, faults |-> 0, recon |-> 0, watchdog |-> 0 ]
MonReset(e) == MonInit

\* mark the last message written on incarnation c as failed
RECURSIVE MarkLast(_, _, _)
MarkLast(q, c, n) == IF n = 0 THEN q
                     ELSE IF q[n].c = c THEN [q EXCEPT ![n].failed = TRUE] ELSE MarkLast(q, c, n - 1)

MonStep(m, e) ==
    CASE e.ev = "ApiCall" /\ e.op \in CallOps ->
            [m EXCEPT !.calls = Append(@, [g |-> e.g, op |-> e.op, tag |-> e.tag, psum |-> e.psum, i |-> e.i, t |-> e.t])]
      [] e.ev = "ApiRet" /\ e.op \in {"SendCall", "SendReplyCall"} ->
            [m EXCEPT !.rets = Append(@, [g |-> e.g, op |-> e.op, tag |-> e.tag, psum |-> e.psum, err |-> e.err, callID |-> e.callID,
                                          rcid |-> "", rreq |-> "", rsum |-> 0, i |-> e.i, t |-> e.t])]
      [] e.ev = "ApiRet" /\ e.op = "SendCallWait" ->
            [m EXCEPT !.rets = Append(@, [g |-> e.g, op |-> e.op, tag |-> e.tag, psum |-> e.psum, err |-> e.err, callID |-> "",
                                          rcid |-> e.replyCallID, rreq |-> e.replyReq, rsum |-> e.replySum, i |-> e.i, t |-> e.t])]
      [] e.ev = "ApiCall" /\ e.op \in RecvOps -> [m EXCEPT !.rcalls = Append(@, [g |-> e.g, op |-> e.op, i |-> e.i])]
      [] e.ev = "ApiRet" /\ e.op \in RecvOps ->
            [m EXCEPT !.recvs = Append(@, [g |-> e.g, op |-> e.op, err |-> e.err, callID |-> e.callID, req |-> e.reqCallID, psum |-> e.psum,
                                           src |-> e.src, name |-> e.name, i |-> e.i, ci |-> e.ci, bound |-> e.boundMs])]
      [] e.ev = "BRecvCall" -> [m EXCEPT !.bcalls = Append(@, [psum |-> e.psum, callID |-> e.callID, req |-> e.reqCallID, c |-> e.c, i |-> e.i])]
      [] e.ev = "BSendCallAck" -> [m EXCEPT !.acks = Append(@, [callID |-> e.callID, code |-> e.code, c |-> e.c, i |-> e.i, t |-> e.t, failed |-> FALSE])]
      [] e.ev = "BSendCall" -> [m EXCEPT !.sent = Append(@, [callID |-> e.callID, req |-> e.reqCallID, psum |-> e.psum, c |-> e.c, i |-> e.i, t |-> e.t, failed |-> FALSE])]
      [] e.ev = "BSendFail" /\ e.of = "BSendCallAck" -> [m EXCEPT !.acks = MarkLast(@, e.c, Len(@))]
      [] e.ev = "BSendFail" /\ e.of = "BSendCall" -> [m EXCEPT !.sent = MarkLast(@, e.c, Len(@))]
      [] e.ev = "BLinkDown" -> [m EXCEPT !.downs = Append(@, [c |-> e.c, i |-> e.i]), !.faults = IF e.cause = "script" THEN @ + 1 ELSE @]
      [] e.ev = "Fault" -> [m EXCEPT !.faults = @ + 1]
      [] e.ev = "Reconnected" -> [m EXCEPT !.recon = @ + 1]
      [] e.ev = "Quiesced" -> [m EXCEPT !.q1 = IF @ = 0 THEN e.i ELSE @]
      [] e.ev = "ApiCall" /\ e.op = "CloseConn" -> [m EXCEPT !.closeAt = IF @ = 0 THEN e.i ELSE @]
      [] e.ev = "Watchdog" -> [m EXCEPT !.watchdog = @ + 1]
      [] OTHER -> m

\* ------------------------------------------------------------------ derived values
Min0(S) == IF S = {} THEN 0 ELSE CHOOSE x \in S : \A y \in S : x <= y
\* the call id the broker observed for the call with this payload ("" = the call never reached the broker)
IdOf(m, psum) == LET S == { k \in 1..Len(m.bcalls) : m.bcalls[k].psum = psum } IN IF S = {} THEN "" ELSE m.bcalls[Min0(S)].callID
KnownIds(m) == { m.bcalls[k].callID : k \in 1..Len(m.bcalls) }
\* a link went down before Close was called: messages in flight may be lost
Faulty(m) == m.faults > 0 \/ \E d \in RangeS(m.downs) : m.closeAt = 0 \/ d.i < m.closeAt
LiveUntil(m, c, i) == ~\E d \in RangeS(m.downs) : d.c = c /\ d.i < i
OkAcks(m, id, before) == SelectSeq(m.acks, LAMBDA a : a.callID = id /\ ~a.failed /\ a.i < before)
OkReplies(m, id, before) == SelectSeq(m.sent, LAMBDA b : b.req = id /\ ~b.failed /\ b.i < before)
FailedStr(code) == "failed:" \o ToString(code)
\* the ack that decides the outcome: the first one written for the id (any one if messages may have been lost)
Decides(m, A, P(_)) == IF Faulty(m) THEN \E a \in RangeS(A) : P(a) ELSE A # <<>> /\ P(A[1])
InTime(m, x, r) == x.t + SlackUs <= r.t /\ LiveUntil(m, x.c, r.i)
\* a message addressed to somebody else that must not influence the caller of `id`: negative / duplicated / unknown-id ack, duplicated / unknown-id reply
Disturbed(m, id, before) ==
    \/ \E k \in 1..Len(m.acks) : LET a == m.acks[k] IN
          /\ a.i < before /\ a.callID # id
          /\ (a.code # 1 \/ a.callID \notin KnownIds(m) \/ \E j \in 1..(k - 1) : m.acks[j].callID = a.callID)
    \/ \E k \in 1..Len(m.sent) : LET b == m.sent[k] IN
          /\ b.i < before /\ b.req # "" /\ b.req # id
          /\ (b.req \notin KnownIds(m) \/ \E j \in 1..(k - 1) : m.sent[j].req = b.req)

\* ------------------------------------------------------------------ clauses
\* every call carries a call id no other call carries; a call keeps its id when it is written again
CallIdReused(m) == \/ \E k \in 1..Len(m.bcalls) : m.bcalls[k].callID = ""
                   \/ \E j, k \in 1..Len(m.bcalls) : j < k /\ (m.bcalls[j].callID = m.bcalls[k].callID) # (m.bcalls[j].psum = m.bcalls[k].psum)

\* verdict for one return r: a set of clause names
JudgeAck(m, r) ==      \* SendCall / SendReplyCall
    LET id == IdOf(m, r.psum)
        A == OkAcks(m, id, r.i)
        leak == IF Disturbed(m, id, r.i) THEN {"ErrorLeaked"} ELSE {}
    IN IF r.err = "" THEN
            IF id = "" \/ A = <<>> \/ r.callID # id THEN {"AckWrongCaller"}            \* success without an own ack / foreign id reported
            ELSE IF ~Decides(m, A, LAMBDA a : a.code = 1) THEN {"AckResultWrong"}      \* negative ack reported as success
            ELSE {}
       ELSE IF r.err \in {"ctx", "connClosed"} THEN
            IF id # "" /\ Decides(m, A, LAMBDA a : InTime(m, a, r)) THEN {"AckResultWrong"} \cup leak   \* the ack was never reported
            ELSE {}
       ELSE IF id # "" /\ Decides(m, A, LAMBDA a : a.code # 1 /\ r.err = FailedStr(a.code)) THEN {}
       ELSE IF Faulty(m) /\ ~\E a \in RangeS(m.acks) : a.code # 1 /\ r.err = FailedStr(a.code) THEN {}   \* transport error during a fault: not judged
       ELSE {"AckResultWrong"} \cup leak                                                \* an error nobody sent to this caller

JudgeWait(m, r) ==     \* SendCallAndWaitReplayCall
    LET id == IdOf(m, r.psum)
        A == OkAcks(m, id, r.i)
        B == OkReplies(m, id, r.i)
        leak == IF Disturbed(m, id, r.i) THEN {"ErrorLeaked"} ELSE {}
    IN IF r.err = "" THEN
            (IF id = "" \/ A = <<>> THEN {"AckWrongCaller"}
             ELSE IF ~Decides(m, A, LAMBDA a : a.code = 1) THEN {"AckResultWrong"} ELSE {})
            \cup (IF id = "" \/ r.rreq # id THEN {"ReplyWrongCaller"}                  \* a reply meant for somebody else
                  ELSE IF ~Decides(m, B, LAMBDA b : b.callID = r.rcid /\ b.psum = r.rsum) THEN {"ReplyWrongCaller"}   \* not the reply the broker sent for it
                  ELSE {})
       ELSE IF r.err \in {"ctx", "connClosed"} THEN
            IF id # "" /\ Decides(m, A, LAMBDA a : a.code # 1 /\ InTime(m, a, r)) THEN {"AckResultWrong"} \cup leak
            ELSE IF id # "" /\ Decides(m, A, LAMBDA a : a.code = 1 /\ InTime(m, a, r)) /\ Decides(m, B, LAMBDA b : InTime(m, b, r))
                 THEN {"ReplyWrongCaller"} \cup leak                                    \* ack and reply delivered, never returned
            ELSE {}
       ELSE IF r.err = "other:x" /\ id # "" /\ Decides(m, A, LAMBDA a : a.code # 1) THEN {}
       ELSE IF Faulty(m) /\ r.err # "other:x" THEN {}
       ELSE {"AckResultWrong"} \cup leak

RetOf(m, c) == { k \in 1..Len(m.rets) : m.rets[k].psum = c.psum }
\* at the settle point: what was delivered on a live incarnation must have produced its return
JudgeSettled(m, c) ==
    LET id == IdOf(m, c.psum)
        A == OkAcks(m, id, m.q1)
        B == OkReplies(m, id, m.q1)
        live(x) == LiveUntil(m, x.c, m.q1)
        leak == IF Disturbed(m, id, m.q1) THEN {"ErrorLeaked"} ELSE {}
        \* returned before the settle point, or later with something other than ctx / connClosed (slow, but delivered)
        returned == \E k \in RetOf(m, c) : m.rets[k].i < m.q1 \/ m.rets[k].err \notin {"ctx", "connClosed"}
    IN IF m.q1 = 0 \/ c.i > m.q1 \/ returned \/ id = "" THEN {}
       ELSE IF c.op # "SendCallWait" THEN (IF Decides(m, A, LAMBDA a : live(a)) THEN {"AckResultWrong"} \cup leak ELSE {})
       ELSE IF Decides(m, A, LAMBDA a : a.code # 1 /\ live(a)) THEN {"AckResultWrong"} \cup leak
       ELSE IF Decides(m, A, LAMBDA a : a.code = 1 /\ live(a)) /\ Decides(m, B, LAMBDA b : live(b)) THEN {"ReplyWrongCaller"} \cup leak
       ELSE {}

CallHung(m) == \E k \in 1..Len(m.calls) : RetOf(m, m.calls[k]) = {}
ReturnedTwice(m) == \E k \in 1..Len(m.calls) : Cardinality(RetOf(m, m.calls[k])) > 1

\* ---- inboxes: ReceiveCall / ReceiveReplyCall hand over what arrived, once each, unmodified, in arrival order
Arr(m, op) == SelectSeq(m.sent, LAMBDA b : ~b.failed /\ ((b.req = "") = (op = "ReceiveCall")))
Got(m, op) == SelectSeq(m.recvs, LAMBDA r : r.op = op /\ r.err = "")
PosArr(A, r) == Min0({ j \in 1..Len(A) : A[j].callID = r.callID /\ A[j].req = r.req /\ A[j].psum = r.psum })
InboxWrongOp(m, op) ==
    LET A == Arr(m, op)
        R == Got(m, op)
        pos == [k \in 1..Len(R) |-> PosArr(A, R[k])]
        Rq == SelectSeq(R, LAMBDA r : r.ci < m.q1)        \* receives issued before the settle point that handed something over (possibly late)
        waiting == { k \in 1..Len(m.rcalls) : /\ m.rcalls[k].op = op /\ m.rcalls[k].i < m.q1
                                              /\ ~\E r \in RangeS(m.recvs) : r.ci = m.rcalls[k].i /\ r.err # "" /\ r.i < m.q1 }
        arrived == Cardinality({ j \in 1..Len(A) : A[j].i < m.q1 })
        expect == IF Cardinality(waiting) < arrived THEN Cardinality(waiting) ELSE arrived
    IN \/ \E k \in 1..Len(R) : pos[k] = 0 \/ R[k].src # "srcnode" \/ R[k].name # "nm"                 \* invented or modified
       \/ \E j, k \in 1..Len(R) : j # k /\ pos[j] = pos[k]                                               \* handed over twice
       \/ \E j, k \in 1..Len(R) : R[j].i < R[k].ci /\ pos[j] > pos[k]                                    \* out of arrival order
       \/ \E r \in RangeS(m.recvs) : r.op = op /\ r.err = "" /\ ((r.req = "") # (op = "ReceiveCall"))   \* wrong inbox
       \/ /\ m.q1 > 0 /\ ~Faulty(m) /\ Len(A) <= InboxCap                                                \* settled: nothing lost, nothing skipped
          /\ (Len(Rq) # expect \/ { PosArr(A, Rq[k]) : k \in 1..Len(Rq) } # 1..Len(Rq))
\* an item that arrived is never handed over although a receive waited for it (at least 200 ms) after everything had arrived
InboxLostOp(m, op) ==
    LET A == Arr(m, op)  lastArr == Max0({ A[j].i : j \in 1..Len(A) })
    IN /\ ~Faulty(m) /\ Len(A) <= InboxCap /\ Len(Got(m, op)) < Len(A)
       /\ \E r \in RangeS(m.recvs) : r.op = op /\ r.err = "ctx" /\ r.bound >= 200 /\ r.ci > lastArr
InboxWrong(m) == InboxWrongOp(m, "ReceiveCall") \/ InboxWrongOp(m, "ReceiveReplyCall") \/ InboxLostOp(m, "ReceiveCall") \/ InboxLostOp(m, "ReceiveReplyCall")

Clause(name, b) == IF b THEN {name} ELSE {}
\* "a closed connection surfaces as an error": a connection that is merely being re-established is not closed - a call in flight across a
\* reconnect waits for the ack that comes on the next connection. A connection-closed error before the application called Close is wrong.
ClosedWhileOpen(m) == \E r \in RangeS(m.rets) : r.err = "connClosed" /\ (m.closeAt = 0 \/ r.i < m.closeAt)
MonVerdict(m) ==
    Clause("CallIdReused", CallIdReused(m)) \cup Clause("ClosedWhileOpen", ClosedWhileOpen(m))
    \cup UNION { IF m.rets[k].op = "SendCallWait" THEN JudgeWait(m, m.rets[k]) ELSE JudgeAck(m, m.rets[k]) : k \in 1..Len(m.rets) }
    \cup UNION { JudgeSettled(m, m.calls[k]) : k \in 1..Len(m.calls) }
    \cup Clause("CallHung", CallHung(m)) \cup Clause("ReturnedTwice", ReturnedTwice(m))
    \cup Clause("InboxWrong", InboxWrong(m))

\* ------------------------------------------------------------------ statistics (vacuity evidence)
NumOf(q, P(_)) == Cardinality({ k \in 1..Len(q) : P(q[k]) })
FirstAckAt(m, id) == Min0({ m.acks[k].i : k \in { j \in 1..Len(m.acks) : m.acks[j].callID = id } })
FirstReplyAt(m, id) == Min0({ m.sent[k].i : k \in { j \in 1..Len(m.sent) : m.sent[j].req = id } })
MonStats(m) ==
    [ calls |-> Len(m.calls), retOk |-> NumOf(m.rets, LAMBDA r : r.err = ""), retFailed |-> NumOf(m.rets, LAMBDA r : r.err \notin {"", "ctx", "connClosed"}),
      retClosed |-> NumOf(m.rets, LAMBDA r : r.err = "connClosed"), retCtx |-> NumOf(m.rets, LAMBDA r : r.err = "ctx"),
      waitOk |-> NumOf(m.rets, LAMBDA r : r.err = "" /\ r.op = "SendCallWait"),
      acks |-> Len(m.acks), negAcks |-> NumOf(m.acks, LAMBDA a : a.code # 1),
      dupAcks |-> Cardinality({ k \in 1..Len(m.acks) : \E j \in 1..(k - 1) : m.acks[j].callID = m.acks[k].callID }),
      unkAcks |-> NumOf(m.acks, LAMBDA a : a.callID \notin KnownIds(m)),
      replies |-> NumOf(m.sent, LAMBDA b : b.req # ""), incalls |-> NumOf(m.sent, LAMBDA b : b.req = ""),
      unkReplies |-> NumOf(m.sent, LAMBDA b : b.req # "" /\ b.req \notin KnownIds(m)),
      replyBeforeAck |-> Cardinality({ k \in 1..Len(m.calls) : LET id == IdOf(m, m.calls[k].psum) IN
                                          id # "" /\ FirstReplyAt(m, id) > 0 /\ (FirstAckAt(m, id) = 0 \/ FirstReplyAt(m, id) < FirstAckAt(m, id)) }),
      recvOk |-> NumOf(m.recvs, LAMBDA r : r.err = ""), settled |-> IF m.q1 > 0 THEN 1 ELSE 0,
      faulty |-> IF Faulty(m) THEN 1 ELSE 0, reconnected |-> m.recon, watchdog |-> m.watchdog ]
=============================================================================
