---------------------------- MODULE MonC07a ----------------------------
(* Trace monitor for the sent-chunk-store clause of C07: lock-step validation of the two
   real stores (iscp.inmemSentStorage = "p", iscp.inmemSentStorageNoPayload = "n") against
   SentStorageCore. Every recorded operation is applied to the model with the same Apply
   as the exhaustive model; after every step the real return value and the real List() of
   every stream are compared with the model (ResultMismatch / ListMismatch) and -- real
   against real, independent of the model -- with the lists before the operation
   (FrameBroken: an operation on stream s changed what List(s') returns, s' # s).
   Payload codes: 1 = intact, 0 = dropped, 2 = anything else. The payload store must
   return 1 everywhere (else PayloadStripped), the no-payload store 0 everywhere (else
   PayloadKept); element times are part of the decoded value, so a store that loses them
   shows up as ListMismatch / ResultMismatch.                                          *)
EXTENDS SentStorageCore

EntsSet(l) == { <<l[k][1], l[k][2]>> : k \in 1..Len(l) }
FullSet(l) == { <<l[k][1], l[k][2], l[k][3]>> : k \in 1..Len(l) }
PaySet(l)  == { l[k][3] : k \in 1..Len(l) }
RealLists(ls) == [s \in 1..Len(ls) |-> [ret |-> ls[s].ret, ents |-> EntsSet(ls[s].ents)]]
RealFull(ls)  == [s \in 1..Len(ls) |-> [ret |-> ls[s].ret, ents |-> FullSet(ls[s].ents)]]
EmptyFull(ns) == [s \in 1..ns |-> [ret |-> "errStream", ents |-> {}]]

MonInit == [st |-> Init0(0), bad |-> {}, prevP |-> EmptyFull(0), prevN |-> EmptyFull(0),
            steps |-> 0, stores |-> 0, removes |-> 0, lists |-> 0, clears |-> 0,
            errStream |-> 0, errSeq |-> 0, overwrites |-> 0, frameChecks |-> 0, clearsWithOthers |-> 0]
MonReset(e) == [MonInit EXCEPT !.st = Init0(e.p.streams), !.prevP = EmptyFull(e.p.streams), !.prevN = EmptyFull(e.p.streams)]

OpOf(e) == CASE e.a = "store"  -> [a |-> "store", n |-> e.n, seq |-> e.seq, tag |-> e.tag]
             [] e.a = "remove" -> [a |-> "remove", n |-> e.n, seq |-> e.seq]
             [] OTHER          -> [a |-> e.a, n |-> e.n]

\* all payload codes a store showed in this step
PayCodes(e, r, ls) == UNION { PaySet(ls[s].ents) : s \in 1..Len(ls) }
                      \cup PaySet(r.ents)
                      \cup (IF e.a = "remove" /\ r.ret = "ok" THEN {r.pay} ELSE {})

\* one store: r = result of the op, ls = lists after, prev = lists before (with payload codes), want = expected payload code
CheckStore(st2, e, r, ls, prev, want) ==
    (IF r.ret = "panic" \/ \E s \in 1..Len(ls) : ls[s].ret = "panic" THEN {"Crash"} ELSE {})
    \cup (IF \/ r.ret # st2.ret
             \/ (e.a = "remove" /\ st2.ret = "ok" /\ r.ret = "ok" /\ r.val # st2.rval)
             \/ (e.a = "list" /\ st2.ret = "ok" /\ r.ret = "ok" /\ EntsSet(r.ents) # st2.rents)
          THEN {"ResultMismatch"} ELSE {})
    \cup (IF Len(ls) # Cardinality(StreamsOf(st2)) \/ RealLists(ls) # ListsOf(st2) THEN {"ListMismatch"} ELSE {})
    \cup (IF \E s \in (1..Len(ls)) \ {e.n} : RealFull(ls)[s] # prev[s] THEN {"FrameBroken"} ELSE {})
    \cup (IF want = 1 /\ 0 \in PayCodes(e, r, ls) THEN {"PayloadStripped"} ELSE {})
    \cup (IF want = 0 /\ 1 \in PayCodes(e, r, ls) THEN {"PayloadKept"} ELSE {})
    \cup (IF 2 \in PayCodes(e, r, ls) THEN {"PayloadCorrupt"} ELSE {})

MonStep(m, e) ==
    IF e.ev # "StOp" THEN m
    ELSE LET op == OpOf(e)
             st2 == Apply(m.st, op)
             others == { s \in StreamsOf(m.st) \ {e.n} : s \in m.st.known }
         IN [m EXCEPT !.st = st2,
                      !.bad = @ \cup CheckStore(st2, e, e.rp, e.lp, m.prevP, 1) \cup CheckStore(st2, e, e.rn, e.ln, m.prevN, 0),
                      !.prevP = RealFull(e.lp),
                      !.prevN = RealFull(e.ln),
                      !.steps = @ + 1,
                      !.stores = @ + (IF e.a = "store" THEN 1 ELSE 0),
                      !.overwrites = @ + (IF e.a = "store" /\ HasSeq(m.st, e.n, e.seq) THEN 1 ELSE 0),
                      !.removes = @ + (IF e.a = "remove" THEN 1 ELSE 0),
                      !.lists = @ + (IF e.a = "list" THEN 1 ELSE 0),
                      !.clears = @ + (IF e.a = "clear" THEN 1 ELSE 0),
                      !.clearsWithOthers = @ + (IF e.a = "clear" /\ others # {} THEN 1 ELSE 0),
                      !.errStream = @ + (IF st2.ret = "errStream" THEN 1 ELSE 0),
                      !.errSeq = @ + (IF st2.ret = "errSeq" THEN 1 ELSE 0),
                      !.frameChecks = @ + 2 * Cardinality(others)]

MonVerdict(m) == m.bad \cup (IF AllInvOf(m.st) THEN {} ELSE {"ModelInvariant"})
MonStats(m) == [steps |-> m.steps, stores |-> m.stores, overwrites |-> m.overwrites, removes |-> m.removes, lists |-> m.lists,
                clears |-> m.clears, clearsWithOthers |-> m.clearsWithOthers, errStream |-> m.errStream, errSeq |-> m.errSeq,
                frameChecks |-> m.frameChecks]
=============================================================================
