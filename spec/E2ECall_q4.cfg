\* quick: incoming calls, ReceiveCall, inbox overflow (Cap = 1), SendReplyCall
SPECIFICATION Spec
CONSTANTS
  Callers = {P1, P2}
  CallKinds = {"call", "replyCall"}
  MaxCallsPer = 1
  CallReceivers = {"RC"}
  ReplyReceivers = {}
  MaxRecv = 2
  Cap = 1
  MaxAcks = 2
  MaxDupAcks = 0
  MaxNegAcks = 0
  MaxUnkAcks = 0
  MaxReplies = 0
  MaxDupReplies = 0
  MaxUnkReplies = 0
  MaxInCalls = 3
  MaxFaults = 0
  MaxExpire = 0
  CloseAnytime = FALSE
  FreshIds = TRUE
  DeleteWaiter = TRUE
VIEW View
SYMMETRY Sym
ACTION_CONSTRAINT EagerLocal
INVARIANTS CallIdsFresh AckToOwnerOnly ReplyToOwnerOnly InboxOnceInOrder NegativeAckOnlyThatCaller DeliverNonBlocking
CHECK_DEADLOCK FALSE
