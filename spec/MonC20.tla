------------------------------ MODULE MonC20 ------------------------------
(* Property monitor for C20: Flush is a barrier and the flush policies cut chunks exactly where
   they promise; State() snapshots never invent or double-count data; no chunk is cut empty.

   Scenario parameters (Reset event, field p): policy ("none"|"size"|"immediate"|"interval"|"intervalOrSize"),
   thr (bytes, size policies), intervalMs, seqMode (TRUE: one process issues every call and waits for its
   return before the next one -> chunk boundaries are a function of the history and are PREDICTED here).  *)
EXTENDS MonCommon

MonInit == [ sid |-> "", p |-> [policy |-> "none", thr |-> 0, intervalMs |-> 0, seqMode |-> FALSE],
             hist |-> <<>>,        \* API history in return order: [op, id, pts, call, ret, err, (flush: total, lastSeq, bufN)]
             calledPts |-> 0,      \* points of Write calls issued so far
             inflight |-> 0,       \* Write calls issued and not yet returned
             chunks |-> <<>>, snaps |-> <<>>, firstFlushCall |-> 0, faults |-> 0, quiesced |-> FALSE, bad |-> {},
             stallUs |-> 0,
             faultOpen |-> FALSE, clearI |-> 0 ]   \* a transport fault not yet followed by the stream's resume; event index of the last resume       \* scheduling stalls recorded by the harness (stallWatch); they extend the interval bound
MonReset(e) == [MonInit EXCEPT !.p = [policy |-> e.p.policy, thr |-> e.p.thr, intervalMs |-> e.p.intervalMs, seqMode |-> e.p.seqMode]]

NPts(gs) == LET F[k \in 0..Len(gs)] == IF k = 0 THEN 0 ELSE F[k - 1] + Len(gs[k].pts) IN F[Len(gs)]
PaySize(pts) == LET F[k \in 0..Len(pts)] == IF k = 0 THEN 0 ELSE F[k - 1] + pts[k][2] IN F[Len(pts)]
RetPts(m) == LET ws == SelectSeq(m.hist, LAMBDA h : h.op = "Write" /\ h.err = "")
                 F[k \in 0..Len(ws)] == IF k = 0 THEN 0 ELSE F[k - 1] + Len(ws[k].pts) IN F[Len(ws)]

MonStep(m, e) ==
    CASE e.ev = "ApiRet" /\ e.op = "OpenUpstream" /\ m.sid = "" /\ e.err = "" -> [m EXCEPT !.sid = e.sid]
      [] e.ev = "ApiCall" /\ e.op = "Write" /\ e.sid = m.sid ->
            [m EXCEPT !.calledPts = @ + Len(e.pts), !.inflight = @ + 1]
      [] e.ev = "ApiRet" /\ e.op = "Write" /\ e.sid = m.sid ->
            [m EXCEPT !.inflight = @ - 1,
                      !.hist = Append(@, [op |-> "Write", id |-> e.id, pts |-> e.pts, call |-> e.ci, ret |-> e.i, t |-> e.t, err |-> e.err])]
      [] e.ev = "ApiCall" /\ e.op = "Flush" /\ e.sid = m.sid ->
            [m EXCEPT !.firstFlushCall = IF @ = 0 THEN e.i ELSE @]
      [] e.ev = "ApiCall" /\ e.op = "CloseUp" /\ e.sid = m.sid ->
            [m EXCEPT !.firstFlushCall = IF @ = 0 THEN e.i ELSE @,
                      !.hist = Append(@, [op |-> "CloseUp", call |-> e.i, ret |-> e.i, err |-> ""])]
      [] e.ev = "ApiRet" /\ e.op = "Flush" /\ e.sid = m.sid ->
            \* (a)/(f) the snapshot taken right after Flush returned: evaluated against the history when no Write was in flight
            LET quietFlush == m.inflight = 0 /\ e.err = ""
                writesDuring == \E h \in RangeS(m.hist) : h.op = "Write" /\ h.ret > e.ci     \* a write returned while the flush was in progress
                exact == quietFlush /\ ~writesDuring
            IN [m EXCEPT !.hist = Append(@, [op |-> "Flush", call |-> e.ci, ret |-> e.i, err |-> e.err, total |-> e.total, lastSeq |-> e.lastSeq,
                                              bufN |-> e.bufN, exact |-> exact, retPts |-> RetPts(m)]),
                         !.bad = @ \cup (IF exact /\ e.bufN # 0 THEN {"FlushLeavesBuffer"} ELSE {})
                                   \cup (IF exact /\ e.total # RetPts(m) THEN {"FlushTotalWrong"} ELSE {})
                                   \cup (IF e.total + e.bufN > m.calledPts THEN {"SnapshotInvents"} ELSE {})]
      [] e.ev = "State" /\ e.sid = m.sid ->
            [m EXCEPT !.snaps = Append(@, [total |-> e.total, bufN |-> e.bufN, i |-> e.i]),
                      !.bad = @ \cup (IF e.total + e.bufN > m.calledPts THEN {"SnapshotInvents"} ELSE {})]
      [] e.ev = "BRecvChunk" /\ e.sid = m.sid ->
            [m EXCEPT !.chunks = Append(@, [seq |-> e.seq, gl |-> e.groups, i |-> e.i, t |-> e.t]),
                      !.bad = @ \cup (IF m.p.policy = "none" /\ m.firstFlushCall = 0 THEN {"NoneTransmitsEarly"} ELSE {})
                                \cup (IF e.groups = <<>> THEN {"EmptyChunk"} ELSE {})]
      [] e.ev = "Fault" \/ (e.ev = "BLinkDown" /\ e.cause = "script") -> [m EXCEPT !.faults = @ + 1, !.faultOpen = TRUE]
      [] e.ev = "UpResumed" /\ e.sid = m.sid -> [m EXCEPT !.faultOpen = FALSE, !.clearI = e.i]
      [] e.ev = "Quiesced" -> [m EXCEPT !.quiesced = TRUE]
      [] e.ev = "Stall" -> [m EXCEPT !.stallUs = @ + e.ms * 1000]
      [] OTHER -> m

\* ------------------------------------------------------------------ predicted partition (sequential histories)
\* chunk k as the set of <<id, pts>> groups; prediction walks the history in return order
Groups(gl) == { <<gl[k].id, gl[k].pts>> : k \in 1..Len(gl) }
Cuts(policy, sz, thr) == CASE policy \in {"size", "intervalOrSize"} -> sz > thr
                           [] policy = "immediate" -> TRUE
                           [] OTHER -> FALSE
\* buffer: sequence of <<id, pts>> with one entry per id (appended to on repeated ids)
AddToBuf(buf, id, pts) ==
    IF \E k \in 1..Len(buf) : buf[k][1] = id
    THEN [k \in 1..Len(buf) |-> IF buf[k][1] = id THEN <<id, buf[k][2] \o pts>> ELSE buf[k]]
    ELSE Append(buf, <<id, pts>>)
RECURSIVE Predict(_, _, _, _, _)
\* h: remaining history; buf; sz; acc: predicted chunks so far (sequence of group sets)
Predict(h, buf, sz, acc, p) ==
    IF h = <<>> THEN [chunks |-> acc, buf |-> buf]
    ELSE LET x == Head(h) IN
         IF x.op = "Write" /\ x.err = ""
         THEN LET b2 == AddToBuf(buf, x.id, x.pts)  s2 == sz + PaySize(x.pts)
              IN IF Cuts(p.policy, s2, p.thr) THEN Predict(Tail(h), <<>>, 0, Append(acc, RangeS(b2)), p)
                 ELSE Predict(Tail(h), b2, s2, acc, p)
         ELSE IF x.op \in {"Flush", "CloseUp"} /\ buf # <<>>
              THEN Predict(Tail(h), <<>>, 0, Append(acc, RangeS(buf)), p)
              ELSE Predict(Tail(h), buf, sz, acc, p)

N(m) == Max0({ m.chunks[k].seq : k \in 1..Len(m.chunks) })
ChunkOf(m, n) == m.chunks[CHOOSE k \in 1..Len(m.chunks) : m.chunks[k].seq = n]
HasSeq(m, n) == \E k \in 1..Len(m.chunks) : m.chunks[k].seq = n
Predictable(m) == m.p.seqMode /\ m.p.policy \in {"none", "size", "immediate"} /\ m.faults = 0 /\ m.quiesced
PartitionWrong(m) ==
    LET pr == Predict(m.hist, <<>>, 0, <<>>, m.p)
    IN \/ Len(pr.chunks) # N(m)
       \/ \E n \in 1..N(m) : ~HasSeq(m, n) \/ (n <= Len(pr.chunks) /\ Groups(ChunkOf(m, n).gl) # pr.chunks[n])
\* (a) barrier: every point of a write that returned before an exact Flush was called sits in a chunk with seq <= lastSeq
BarrierBroken(m) ==
    m.quiesced /\ m.faults = 0 /\
    \E f \in RangeS(m.hist) : f.op = "Flush" /\ f.exact /\
        \E w \in RangeS(m.hist) : w.op = "Write" /\ w.err = "" /\ w.ret < f.call /\
            \E q \in RangeS(w.pts) : ~\E c \in RangeS(m.chunks) : c.seq <= f.lastSeq /\ \E k \in 1..Len(c.gl) : c.gl[k].id = w.id /\ q \in RangeS(c.gl[k].pts)
\* (e) interval policy: a point is never held longer than one interval (plus slack: 250 ms and 50 %)
IntervalLate(m) ==
    m.p.policy \in {"interval", "intervalOrSize"} /\ m.quiesced /\
    \* judged: every write of a fault-free scenario; after transport faults the writes issued after the stream's (last) resume -
    \* the policy's promise does not end with the first connection
    \E w \in RangeS(m.hist) : w.op = "Write" /\ w.err = "" /\ (m.faults = 0 \/ (~m.faultOpen /\ m.clearI > 0 /\ w.call > m.clearI)) /\
      \E q \in RangeS(w.pts) :
        LET cs == { c \in RangeS(m.chunks) : \E k \in 1..Len(c.gl) : c.gl[k].id = w.id /\ q \in RangeS(c.gl[k].pts) }
        IN cs = {} \/ \A c \in cs : c.t - w.t > (m.p.intervalMs * 1000 * 3) \div 2 + 250000 + m.stallUs
\* (g) no group without points unless a zero-point write put it there
EmptyGroup(m) == \E c \in RangeS(m.chunks) : \E k \in 1..Len(c.gl) : c.gl[k].pts = <<>> /\
                    ~\E w \in RangeS(m.hist) : w.op = "Write" /\ w.id = c.gl[k].id /\ w.pts = <<>>

Clause(name, b) == IF b THEN {name} ELSE {}
MonVerdict(m) ==
    IF m.sid = "" THEN {}
    ELSE m.bad \cup Clause("BarrierBroken", BarrierBroken(m)) \cup Clause("EmptyGroup", EmptyGroup(m))
         \cup Clause("IntervalLate", IntervalLate(m))
         \cup (IF Predictable(m) THEN Clause("PartitionWrong", PartitionWrong(m)) ELSE {})
MonStats(m) == [ writes |-> Cardinality({ k \in 1..Len(m.hist) : m.hist[k].op = "Write" }),
                 flushes |-> Cardinality({ k \in 1..Len(m.hist) : m.hist[k].op = "Flush" }),
                 exactFlushes |-> Cardinality({ k \in 1..Len(m.hist) : m.hist[k].op = "Flush" /\ m.hist[k].exact }),
                 chunks |-> Len(m.chunks), snaps |-> Len(m.snaps), predicted |-> IF Predictable(m) THEN 1 ELSE 0,
                 sizeCuts |-> IF Predictable(m) /\ m.p.policy = "size" THEN N(m) ELSE 0 ]
=============================================================================
