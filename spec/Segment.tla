---------------------------- MODULE Segment ----------------------------
(* L1 wrapper of SegmentCore: exhaustive exploration of all operation sequences. *)
EXTENDS SegmentCore

CONSTANT MsgLens    \* sequence of message lengths (bytes)
VARIABLES st, script
vars == <<st, script>>

Init == st = Init0(MsgLens) /\ script = <<>>
Next == \E op \in EnabledOps(st) : st' = Apply(st, op) /\ script' = Append(script, op)
Spec == Init /\ [][Next]_vars

ExactOrNothing == ExactOrNothingOf(st)
NothingIfMissing == NothingIfMissingOf(st)
AllSegmentsIn == AllSegmentsInOf(st)
ForgottenAfterExpiry == ForgottenAfterExpiryOf(st)
OversizeRefused == OversizeRefusedOf(st)
TableConsistent == TableConsistentOf(st)
Terminal == TerminalOf(st)
AllDeliveredIfNoLoss == AllDeliveredIfNoLossOf(st)
StView == st

\* script generation: print the operation sequence of every complete path
GenPrint == IF Terminal /\ st.last \notin {"tick", "lost"} THEN PrintT("SCRIPT " \o ToJson(script)) ELSE TRUE

\* constant values for the configurations (cfg files cannot write tuples)
LensQ  == <<2377, 1188, 0>>
LensQ2 == <<1, 1189>>
LensT  == <<3564, 2376, 1187>>
LensFour == <<3565>>        \* 4 segments
LensSix == <<5941>>          \* 6 segments (5*1188 + 1)
LensSixExact == <<5940>>     \* 6 segments, exact multiple: last one empty
LensTwoTwo == <<2376, 1189>>
LensBig == <<77856768, 1>>   \* 65536 * 1188: refused
LensWrap == <<6, 1>>         \* with P = 2, MaxSegIdx = 3: four segments (the last one empty) - the largest message the sender accepts
LensWrapOver == <<8>>        \* with P = 2, MaxSegIdx = 3: five segments - refused
=============================================================================
