SPECIFICATION Spec
CONSTANTS
  Ups = {"X", "Y"}
  DataIds = {"A", "B"}
  PreReg <- PreRegA
  DedupPreReg = TRUE
  MaxChunks = 3
  Readers = {"R1"}
  Cap = 2
  MaxFaults = 0
  UpAliasByValue = FALSE
  RequeueOnDeadLink = FALSE
  Bogus = TRUE
VIEW View
INVARIANTS OnceEach InOrderSingleReader ResolvedRight AckIdsIncrease AckAtMostOnce AckOnlyReturned AckAllAtClose UpAliasInjective IdAliasInjective AnnounceAtMostOnce AnnounceAllAtClose NoAckAfterClose
CHECK_DEADLOCK FALSE
