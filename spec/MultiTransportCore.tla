---------------------------- MODULE MultiTransportCore ----------------------------
(* transport/multi: a Transport that routes writes to the member selected by a scheduler and
   merges the reads of all members (transport.go, polling_scheduler.go, event_scheduler.go,
   event_scheduler_nic.go, *_poller.go).

   Functional style (see SegmentCore): the component state is one record `st`; every public
   call / critical section is one case of Apply(st, op).  The code is concurrent:
     - the scheduler output (EventScheduler subscriber channel / PollingScheduler ticker+Poller)
       travels through a FIFO pipeline of channels and is applied to currentTransportID by the
       goroutine transportIDLoop under m.mu  ==> environment op `select` only appends to
       `pending`; the internal op `applySel` is the critical section of transportIDLoop.
     - one goroutine per member calls member.Read() and forwards the message to readResCh
       ==> environment op `memberRead` puts the message into the member's `inbox` (the member's
       Read has returned it to that goroutine); the internal op `pump` is the send on readResCh.
   Write / AsUnreliable / NegotiationParams read currentTransportID under m.mu.RLock.
     - a Write holds m.mu.RLock for as long as the member's Write takes (back-pressure): transportIDLoop
       cannot apply a selection in the meantime (m.mu.Lock waits for the reader), the selections emitted
       by the scheduler queue up in the channel pipeline and are applied one by one, in order, once the
       write has returned  ==> environment ops `writeBegin` (the call entered the member; `hold` = that
       member) and `writeEnd` (the member's Write returned); `applySel` is disabled while hold # None.

   AsCoded = TRUE  models transport.go as written: ids are never validated (NewTransport accepts
                   any InitialTransportID, transportIDLoop stores any id) and a call that looks up
                   a non-member id dereferences a nil Transport (crash).
   AsCoded = FALSE models the behaviour the property demands: an unknown initial id is rejected
                   (or ignored = some member is current), unknown scheduler ids are ignored.
   The monitor MonC19 uses AsCoded = FALSE.

   Abstractions: write k carries WSize(k) bytes, the k-th message handed out by a member carries
   RSize(k) bytes (distinct powers of two: byte sums identify the set of messages).
   The per-scenario parameters and bounds live in st.b so that one TLC run can cover several
   member sets / families:  b = [name, M, init, selIds, maxSel, maxW, maxR, maxP, probes, maxRac, hold, cerr]
   (hold = TRUE: the family also issues writes that stay in flight; cerr = members whose Close reports an error). *)
EXTENDS Integers, Sequences, FiniteSets, FiniteSetsExt, TLC, Json

CONSTANTS MaxFails,  \* number of members whose Read may fail (environment op memberFail) in the exhaustive families
          Members,   \* universe of member ids, e.g. {"m1","m2","m3"}
          Ids,       \* universe of ids a configuration / scheduler may name, e.g. Members \cup {"zz",""}
          AsCoded,   \* see above
          GenCanon   \* TRUE: internal steps are applied eagerly (script generation: environment ops only)

None == "none"
WSize(k) == 2^(k - 1)
RSize(k) == 8 * 2^(k - 1)
SeqRange(s) == { s[i] : i \in 1..Len(s) }

Base(b, c) ==
    [b |-> b, status |-> "open",
     cur |-> c,            \* currentTransportID (code variable)
     chosen |-> c,         \* ghost: the member selected by the scheduler = last *member* id applied (initially the configured one)
     pending |-> <<>>,     \* scheduler output not yet applied by transportIDLoop (FIFO)
     nsel |-> 0,
     to |-> <<>>,          \* to[k]   = member that received write k (None: the call crashed)
     wsel |-> <<>>,        \* wsel[k] = ghost `chosen` at the time of write k
     failed |-> {},                        \* members whose Read has failed: their reader goroutine has ended, nothing else changes
     inbox |-> [m \in Members |-> <<>>],   \* messages a member's Read has returned, not yet on readResCh
     q |-> <<>>,           \* readResCh
     fedTo |-> <<>>,       \* fedTo[k] = member that handed out message k
     got |-> <<>>,         \* messages returned by Transport.Read, in order
     closes |-> [m \in Members |-> 0],
     hold |-> None,        \* member whose Write is in flight (m.mu read-locked), None if no write is in flight
     nprobe |-> 0, rac |-> 0, crashed |-> FALSE,
     last |-> [a |-> "new", ret |-> "ok", k |-> 0]]

\* NewTransport
InitSet(b) ==
    IF b.init \in b.M \/ AsCoded THEN { Base(b, b.init) }
    ELSE { [Base(b, b.init) EXCEPT !.status = "rejected", !.last = [a |-> "new", ret |-> "error", k |-> 0]] }   \* rejected ...
         \cup { Base(b, m) : m \in b.M }                                                                     \* ... or ignored

\* ---------------------------------------------------------------- environment operations
Select(st, id) == [st EXCEPT !.pending = Append(@, id), !.nsel = @ + 1, !.last = [a |-> "select", ret |-> "ok", k |-> 0]]

Write(st) ==
    LET k == Len(st.to) + 1 IN
    IF st.cur \in st.b.M
    THEN [st EXCEPT !.to = Append(@, st.cur), !.wsel = Append(@, st.chosen), !.last = [a |-> "write", ret |-> st.cur, k |-> k]]
    ELSE [st EXCEPT !.to = Append(@, None), !.wsel = Append(@, st.chosen), !.crashed = TRUE,
                    !.last = [a |-> "write", ret |-> "panic", k |-> k]]

\* a Write that blocks inside the member (the member applies back-pressure) and its return
WriteBegin(st) == LET w == Write(st) IN [w EXCEPT !.hold = IF st.cur \in st.b.M THEN st.cur ELSE None, !.last.a = "writeBegin"]
WriteEnd(st) == [st EXCEPT !.hold = None, !.last = [a |-> "writeEnd", ret |-> "ok", k |-> Len(st.to)]]

\* AsUnreliable / NegotiationParams: delegate to the current member
Probe(st, a) ==
    IF a = "counters" THEN [st EXCEPT !.nprobe = @ + 1, !.last = [a |-> a, ret |-> "ok", k |-> 0]]
    ELSE IF st.cur \in st.b.M
    THEN [st EXCEPT !.nprobe = @ + 1, !.last = [a |-> a, ret |-> st.cur, k |-> 0]]
    ELSE [st EXCEPT !.nprobe = @ + 1, !.crashed = TRUE, !.last = [a |-> a, ret |-> "panic", k |-> 0]]

MemberRead(st, m) ==
    LET k == Len(st.fedTo) + 1 IN
    [st EXCEPT !.fedTo = Append(@, m), !.inbox[m] = Append(@, k), !.last = [a |-> "memberRead", ret |-> "ok", k |-> k]]

\* a member's pending Read fails with a connection error: that member's reader ends; the transport stays open, the other members are
\* still read, writes still go to the current member, and Close still closes EVERY member
MemberFail(st, m) == [st EXCEPT !.failed = @ \cup {m}, !.last = [a |-> "memberFail", ret |-> "ok", k |-> 0]]

ReadMsg(st) ==       \* precondition: st.q # <<>>
    [st EXCEPT !.got = Append(@, Head(st.q)), !.q = Tail(@), !.last = [a |-> "read", ret |-> "msg", k |-> Head(st.q)],
               !.rac = IF st.status = "closed" THEN @ + 1 ELSE @]
ReadClosed(st) == [st EXCEPT !.rac = @ + 1, !.last = [a |-> "read", ret |-> "closed", k |-> 0]]

\* Close closes every member, also when some member's Close reports an error (b.cerr); the errors are joined into the result
Close(st) == [st EXCEPT !.status = "closed", !.closes = [m \in Members |-> IF m \in st.b.M THEN @[m] + 1 ELSE @[m]],
                        !.last = [a |-> "close", ret |-> IF st.b.cerr \cap st.b.M # {} THEN "error" ELSE "ok", k |-> 0]]

\* ---------------------------------------------------------------- internal (goroutine) steps
\* transportIDLoop: m.mu.Lock(); if current # id { current = id }; Unlock()
ApplySel(st) ==
    LET id == Head(st.pending)  valid == id \in st.b.M IN
    [st EXCEPT !.pending = Tail(@),
               !.cur = IF AsCoded \/ valid THEN id ELSE @,
               !.chosen = IF valid THEN id ELSE @]
\* read goroutine of member m: ch.WriteOrDone(ctx, res, readResCh)
Pump(st, m) == [st EXCEPT !.inbox[m] = Tail(@), !.q = Append(@, Head(st.inbox[m]))]

InternalOps(st) ==
    (IF st.status = "open" /\ st.pending # <<>> /\ st.hold = None THEN {[a |-> "applySel"]} ELSE {})
    \cup { [a |-> "pump", src |-> m] : m \in { x \in Members : st.inbox[x] # <<>> } }

Step(st, op) ==
    CASE op.a = "select"     -> Select(st, op.id)
      [] op.a = "write"      -> Write(st)
      [] op.a = "writeBegin" -> WriteBegin(st)
      [] op.a = "writeEnd"   -> WriteEnd(st)
      [] op.a = "memberRead" -> MemberRead(st, op.src)
      [] op.a = "memberFail" -> MemberFail(st, op.src)
      [] op.a = "read"       -> IF st.status = "closed" /\ (st.q = <<>> \/ "mode" \notin DOMAIN op) THEN ReadClosed(st) ELSE ReadMsg(st)
      [] op.a = "close"      -> Close(st)
      [] op.a \in {"counters", "asUnreliable", "negotiationParams"} -> Probe(st, op.a)
      [] op.a = "applySel"   -> ApplySel(st)
      [] op.a = "pump"       -> Pump(st, op.src)

\* quiescent state: every pending selection applied, every inbox pumped (member order)
RECURSIVE Settle(_)
Settle(st) ==
    IF st.status = "open" /\ st.pending # <<>> /\ st.hold = None THEN Settle(ApplySel(st))
    ELSE IF \E m \in Members : st.inbox[m] # <<>>
         THEN Settle(Pump(st, CHOOSE m \in Members : st.inbox[m] # <<>> /\ \A x \in Members : st.inbox[x] # <<>> => Head(st.inbox[m]) <= Head(st.inbox[x])))
         ELSE st

Apply(st, op) == IF GenCanon THEN Settle(Step(st, op)) ELSE Step(st, op)

IsEnv(op) == op.a \notin {"applySel", "pump"}

EnabledOps(st) ==
    LET b == st.b  open == st.status = "open" IN
    IF st.hold # None      \* a write is in flight: the calls that take m.mu are not issued (they would queue behind transportIDLoop's Lock)
    THEN (IF st.nsel < b.maxSel /\ Len(st.pending) < 2 THEN { [a |-> "select", id |-> i] : i \in b.selIds } ELSE {})
         \cup (IF Len(st.fedTo) < b.maxR THEN { [a |-> "memberRead", src |-> m, n |-> Len(st.fedTo) + 1] : m \in b.M \ st.failed } ELSE {})
         \cup (IF st.q # <<>> THEN { [a |-> "read"] } ELSE {})
         \cup { [a |-> "writeEnd"] }
         \cup (IF GenCanon THEN {} ELSE InternalOps(st))
    ELSE
    (IF open /\ st.nsel < b.maxSel THEN { [a |-> "select", id |-> i] : i \in b.selIds } ELSE {})
    \cup (IF open /\ Len(st.to) < b.maxW THEN { [a |-> "write", n |-> Len(st.to) + 1] } ELSE {})
    \cup (IF open /\ b.hold /\ Len(st.to) < b.maxW THEN { [a |-> "writeBegin", n |-> Len(st.to) + 1] } ELSE {})
    \cup (IF open /\ Len(st.fedTo) < b.maxR THEN { [a |-> "memberRead", src |-> m, n |-> Len(st.fedTo) + 1] : m \in b.M \ st.failed } ELSE {})
    \cup (IF open /\ Cardinality(st.failed) < MaxFails THEN { [a |-> "memberFail", src |-> m] : m \in b.M \ st.failed } ELSE {})
    \cup (IF open /\ st.q # <<>> THEN { [a |-> "read"] } ELSE {})
    \cup (IF open /\ st.nprobe < b.maxP THEN { [a |-> p] : p \in b.probes } ELSE {})
    \cup (IF open THEN { [a |-> "close"] } ELSE {})
    \cup (IF st.status = "closed" /\ st.rac < b.maxRac
          THEN { [a |-> "read"] } \cup (IF st.q # <<>> /\ ~GenCanon THEN { [a |-> "read", mode |-> "late"] } ELSE {})
          ELSE {})
    \cup (IF GenCanon THEN {} ELSE InternalOps(st))

\* ---------------------------------------------------------------- derived values
MemberTx(st, m) == SumSet({ WSize(k) : k \in { x \in 1..Len(st.to) : st.to[x] = m } })
MemberRx(st, m) == SumSet({ RSize(k) : k \in { x \in 1..Len(st.fedTo) : st.fedTo[x] = m } })
TxOf(st) == FoldSet(LAMBDA m, acc : acc + MemberTx(st, m), 0, st.b.M)
RxOf(st) == FoldSet(LAMBDA m, acc : acc + MemberRx(st, m), 0, st.b.M)
WLog(st, m) == SelectSeq([k \in 1..Len(st.to) |-> k], LAMBDA k : st.to[k] = m)

\* ---------------------------------------------------------------- properties
\* every write went to the member selected by the scheduler at that moment (and never crashed)
WritesToCurrentOf(st) == \A k \in 1..Len(st.to) : st.to[k] = st.wsel[k] /\ st.to[k] \in st.b.M
\* every message handed out by a member is returned exactly once (or still on its way), per-member order kept
ReadsOnceOf(st) ==
    LET inb == UNION { SeqRange(st.inbox[m]) : m \in Members } IN
    /\ \A i, j \in 1..Len(st.got) : st.got[i] = st.got[j] => i = j
    /\ SeqRange(st.got) \cup SeqRange(st.q) \cup inb = 1..Len(st.fedTo)
    /\ Len(st.got) + Len(st.q) + FoldSet(LAMBDA m, acc : acc + Len(st.inbox[m]), 0, Members) = Len(st.fedTo)
    /\ \A i, j \in 1..Len(st.got) : (i < j /\ st.fedTo[st.got[i]] = st.fedTo[st.got[j]]) => st.got[i] < st.got[j]
\* Close closes every member (once), and nothing that is not a member
CloseClosesAllOf(st) ==
    /\ st.status = "closed" => \A m \in Members : st.closes[m] = IF m \in st.b.M THEN 1 ELSE 0
    /\ st.status = "open" => \A m \in Members : st.closes[m] = 0
\* counters are the sums over members: every successful write / member message is counted in exactly one member
CountersAreSumsOf(st) ==
    /\ TxOf(st) = SumSet({ WSize(k) : k \in { x \in 1..Len(st.to) : st.to[x] # None } })
    /\ RxOf(st) = SumSet({ RSize(k) : k \in 1..Len(st.fedTo) })
\* an id that is not a member never becomes current and never crashes a call
UnknownIdHarmlessOf(st) ==
    /\ ~st.crashed
    /\ st.status # "rejected" => (st.cur \in st.b.M /\ st.cur = st.chosen)
    /\ st.status = "rejected" => st.b.init \notin st.b.M

AllInvOf(st) == /\ WritesToCurrentOf(st) /\ ReadsOnceOf(st) /\ CloseClosesAllOf(st) /\ CountersAreSumsOf(st) /\ UnknownIdHarmlessOf(st)
=============================================================================
