package h

import (
	"bytes"
	"encoding/binary"
	"fmt"
	"hash/fnv"
	"sort"
	"sync"
	"sync/atomic"
	"time"

	"github.com/aptpod/iscp-go/encoding"
	encjson "github.com/aptpod/iscp-go/encoding/json"
	"github.com/aptpod/iscp-go/encoding/protobuf"
	"github.com/aptpod/iscp-go/message"
	"github.com/aptpod/iscp-go/transport"
	uuid "github.com/google/uuid"
)

// ---------------------------------------------------------------------------
// abstract data points
// ---------------------------------------------------------------------------

// MkPoint builds a data point from a token and a payload length. The token is
// carried in the elapsed time and (if it fits) in the first 4 payload bytes.
func MkPoint(tok, n int) *message.DataPoint {
	p := make([]byte, n)
	for i := range p {
		p[i] = byte((tok*31 + i*7) & 0xff)
	}
	if n >= 4 {
		binary.BigEndian.PutUint32(p, uint32(tok))
	}
	return &message.DataPoint{ElapsedTime: time.Duration(tok), Payload: p}
}

func sum30(b []byte) int {
	f := fnv.New32a()
	f.Write(b)
	return int(f.Sum32() & 0x3fffffff)
}

// AbsPoint is the logged abstraction of a data point: [token, len, checksum].
func AbsPoint(p *message.DataPoint) []int {
	return []int{int(p.ElapsedTime), len(p.Payload), sum30(p.Payload)}
}

func AbsPoints(ps []*message.DataPoint) [][]int {
	out := make([][]int, 0, len(ps))
	for _, p := range ps {
		out = append(out, AbsPoint(p))
	}
	return out
}

// DataID builds the data id for an abstract name.
func DataID(name string) *message.DataID { return &message.DataID{Name: name, Type: "t"} }

// ---------------------------------------------------------------------------
// rules (fault injection / adversary)
// ---------------------------------------------------------------------------

// Rule describes what to do with the nth message of a kind.
//
// Client->broker kinds are evaluated first in the client-side transport
// wrapper (Do = cutBefore | cutAfter) and then by the broker on receipt
// (Do = drop | delay | code | misaddr | cutOnRecv | hold).
type Rule struct {
	On    string `json:"on"`            // message kind
	Nth   int    `json:"nth,omitempty"` // 1-based index among matching messages, 0 = every
	Inc   int    `json:"inc,omitempty"` // restrict to incarnation, 0 = any
	Do    string `json:"do"`
	Arg   int    `json:"arg,omitempty"`   // ms for delay, code for code
	Codes []int  `json:"codes,omitempty"` // code sequence (consumed one per match) for do=codes
	Seq   int    `json:"seq,omitempty"`   // UpstreamChunk only: restrict to this sequence number
	Gate  string `json:"gate,omitempty"`  // holdWrite: gate name the client-side Write waits on
	Obj   string `json:"obj,omitempty"`   // restrict to requests of this stream (script object name, resolved to Sid when installed)
	Sid   string `json:"-"`
	seen  int
	used  int
}

func (r *Rule) match(kind string, inc int) bool {
	if r.On != kind && r.On != "*" {
		return false
	}
	if r.Inc != 0 && r.Inc != inc {
		return false
	}
	r.seen++
	return r.Nth == 0 || r.Nth == r.seen
}

// ---------------------------------------------------------------------------
// broker
// ---------------------------------------------------------------------------

type outMsg struct {
	m    message.Message
	ev   string
	kv   []any
	done chan error
}

// Inc is one transport incarnation as seen by the broker.
type Inc struct {
	noRead    bool // rule stopRead: this incarnation reads nothing any more (guarded by b.mu)
	c         int
	b         *Broker
	srvRaw    transport.ReadWriter
	cliRaw    transport.ReadWriter
	usrvRaw   transport.ReadWriter // optional second pipe: the unreliable (datagram-like) path
	ucliRaw   transport.ReadWriter
	usrv      *encoding.Transport
	srv       *encoding.Transport
	out       chan outMsg
	closed    chan struct{}
	closeOnce sync.Once
	upAlias   map[uint32]*BUp
	downAlias map[uint32]*BDown
	nextAlias uint32
}

// BUp is the broker's ledger of one upstream.
type BUp struct {
	Sid     string
	ID      uuid.UUID
	Session string
	QoS     message.QoS
	recv    map[uint32]map[int]bool // seq -> incarnations on which it was received
	acked   map[uint32]map[int]bool // seq -> incarnations on which a result for it was sent
	aliases map[string]uint32       // data id name -> alias granted
	closed  bool
}

// BDown is the broker's ledger of one downstream.
type BDown struct {
	Sid    string
	ID     uuid.UUID
	Alias  uint32
	QoS    message.QoS
	closed bool
	annUp  map[string][]uint32 // upstream name -> aliases the client announced (in order)
	annId  map[string][]uint32 // data id name -> aliases announced or pre-registered
}

// DialStep scripts one dial attempt.
type DialStep struct {
	Do      string `json:"do"` // ok | fail | gate
	DelayMs int    `json:"delayMs,omitempty"`
	Gate    string `json:"gate,omitempty"`
}

type Broker struct {
	rec *Rec
	enc encoding.Encoding

	mu       sync.Mutex
	incs     []*Inc
	ups      map[uuid.UUID]*BUp
	upBySid  map[string]*BUp
	downs    map[uuid.UUID]*BDown
	dnBySid  map[string]*BDown
	ackMode  string // auto | manual
	callAck  string // auto | manual
	rules    []*Rule
	dialN    int
	tokenN   int
	dialPlan []DialStep
	dialDef  DialStep
	gates    map[string]chan struct{}
	mseq     int
	pongOff  bool
	silent   bool // broker answers nothing at all (still reads)
	upInfos  map[string]*message.UpstreamInfo
	nextRid  uint32
	aliasOff uint32
	// Unreliable: the dialer also offers an unreliable transport (second in-memory pipe)
	Unreliable   bool
	CloseDelayMs int // the client transport's first Close blocks that long after the link went down (a closing handshake nobody answers)
	pointHolds   []*pointHold
	handlerHolds []*handlerHold
	aliasReuse   bool // upstream stream aliases of closed streams are handed out again
	noRead       bool
}

// NewBrokerEnc is NewBroker with the wire encoding of the scenario ("json", otherwise protobuf).
func NewBrokerEnc(rec *Rec, enc string) *Broker {
	b := NewBroker(rec)
	if enc == "json" {
		b.enc = encjson.NewEncoding()
	}
	return b
}

// SetAliasReuse makes the broker reuse the stream aliases of closed upstreams.
func (b *Broker) SetAliasReuse(on bool) {
	b.mu.Lock()
	b.aliasReuse = on
	b.mu.Unlock()
}

func NewBroker(rec *Rec) *Broker {
	return &Broker{
		rec:     rec,
		enc:     protobuf.NewEncoding(),
		ups:     map[uuid.UUID]*BUp{},
		upBySid: map[string]*BUp{},
		downs:   map[uuid.UUID]*BDown{},
		dnBySid: map[string]*BDown{},
		ackMode: "manual",
		callAck: "auto",
		gates:   map[string]chan struct{}{},
		upInfos: map[string]*message.UpstreamInfo{},
		nextRid: 1,
		dialDef: DialStep{Do: "ok"},
	}
}

func (b *Broker) gate(name string) chan struct{} {
	b.mu.Lock()
	defer b.mu.Unlock()
	g, ok := b.gates[name]
	if !ok {
		g = make(chan struct{})
		b.gates[name] = g
	}
	return g
}

// Release opens a gate (idempotent).
func (b *Broker) Release(name string) {
	g := b.gate(name)
	select {
	case <-g:
	default:
		close(g)
	}
}

func (b *Broker) AddRule(r *Rule) {
	b.mu.Lock()
	b.rules = append(b.rules, r)
	b.mu.Unlock()
}

func (b *Broker) ClearRules() {
	b.mu.Lock()
	b.rules = nil
	b.mu.Unlock()
}

// findRule returns the first matching rule whose action is in the given set.
func (b *Broker) findRule(kind string, inc int, actions ...string) *Rule {
	b.mu.Lock()
	defer b.mu.Unlock()
	for _, r := range b.rules {
		ok := false
		for _, a := range actions {
			if r.Do == a {
				ok = true
			}
		}
		if !ok {
			continue
		}
		if r.match(kind, inc) {
			r.used++
			return r
		}
	}
	return nil
}

// findRuleSid is findRule restricted to rules without a stream restriction or whose stream matches.
func (b *Broker) findRuleSid(kind string, inc int, sid string, actions ...string) *Rule {
	b.mu.Lock()
	defer b.mu.Unlock()
	for _, r := range b.rules {
		ok := false
		for _, a := range actions {
			if r.Do == a {
				ok = true
			}
		}
		if !ok || (r.Sid != "" && r.Sid != sid) {
			continue
		}
		if r.match(kind, inc) {
			r.used++
			return r
		}
	}
	return nil
}

// findRuleSeq is findRule restricted to rules whose Seq matches (0 = any).
func (b *Broker) findRuleSeq(kind string, inc, seq int, actions ...string) *Rule {
	b.mu.Lock()
	defer b.mu.Unlock()
	for _, r := range b.rules {
		ok := false
		for _, a := range actions {
			if r.Do == a {
				ok = true
			}
		}
		if !ok || (r.Seq != 0 && r.Seq != seq) {
			continue
		}
		if r.match(kind, inc) {
			r.used++
			return r
		}
	}
	return nil
}

// SidOf returns the short stream id for a uuid ("?" if unknown).
func (b *Broker) SidOf(id uuid.UUID) string {
	b.mu.Lock()
	defer b.mu.Unlock()
	if u, ok := b.ups[id]; ok {
		return u.Sid
	}
	if d, ok := b.downs[id]; ok {
		return d.Sid
	}
	return "?"
}

// Token implements iscp.TokenSource semantics (called by the driver's token source).
func (b *Broker) NextToken() string {
	b.mu.Lock()
	b.tokenN++
	n := b.tokenN
	b.mu.Unlock()
	b.rec.Log("Token", "n", n)
	return fmt.Sprintf("tok%d", n)
}

// ---------------------------------------------------------------------------
// dialer + client side transport wrapper
// ---------------------------------------------------------------------------

type cliTr struct {
	inc    *Inc
	np     transport.NegotiationParams
	closed int32
	disc   int32 // the client has handed its Disconnect to the transport
}

func (t *cliTr) Read() ([]byte, error) { return t.inc.cliRaw.Read() }

func (t *cliTr) Write(bs []byte) error {
	b := t.inc.b
	kind := "?"
	seq := 0
	if _, m, err := b.enc.DecodeFrom(bytes.NewBuffer(bs)); err == nil {
		kind = KindOf(m)
		if uc, ok := m.(*message.UpstreamChunk); ok && uc.StreamChunk != nil {
			seq = int(uc.StreamChunk.SequenceNumber)
		}
	}
	// holdWrite: this goroutine's Write is delayed (a legal behaviour of a transport used by
	// several goroutines: concurrent writes complete in any order)
	if r := b.findRuleSeq(kind, t.inc.c, seq, "holdWrite"); r != nil {
		b.rec.Log("Fault", "c", t.inc.c, "do", "holdWrite", "on", kind, "seq", seq, "gate", r.Gate)
		select {
		case <-b.gate(r.Gate):
		case <-time.After(10 * time.Second):
		}
		b.rec.Log("Fault", "c", t.inc.c, "do", "holdWriteReleased", "on", kind, "seq", seq, "gate", r.Gate)
	}
	// failWrite: the transport reports a write error while its read direction keeps working (half-broken link)
	if r := b.findRule(kind, t.inc.c, "failWrite"); r != nil {
		b.rec.Log("Fault", "c", t.inc.c, "do", "failWrite", "on", kind)
		return transport.ErrAlreadyClosed
	}
	// failWriteIO: the same, reported as a plain I/O error (EPIPE-like) instead of the transport's "closed" sentinel
	if r := b.findRule(kind, t.inc.c, "failWriteIO"); r != nil {
		b.rec.Log("Fault", "c", t.inc.c, "do", "failWriteIO", "on", kind)
		return fmt.Errorf("write: broken pipe")
	}
	if r := b.findRule(kind, t.inc.c, "cutBefore"); r != nil {
		b.rec.Log("Fault", "c", t.inc.c, "do", "cutBefore", "on", kind)
		t.inc.cut("script")
		return transport.ErrAlreadyClosed
	}
	// the order in which the library hands its messages to the transport: nothing but keep-alive may follow the Disconnect (on a real
	// socket such a message would still reach the peer; the synchronous pipe refuses it once the transport has been closed)
	if kind == "Disconnect" {
		atomic.StoreInt32(&t.disc, 1)
	} else if atomic.LoadInt32(&t.disc) == 1 && kind != "Ping" && kind != "Pong" {
		b.rec.Log("CliWriteAfterDisconnect", "c", t.inc.c, "kind", kind)
	}
	err := t.inc.cliRaw.Write(bs)
	if err == nil {
		if r := b.findRule(kind, t.inc.c, "cutAfter"); r != nil {
			b.rec.Log("Fault", "c", t.inc.c, "do", "cutAfter", "on", kind)
			t.inc.cut("script")
		}
	}
	return err
}

func (t *cliTr) Close() error {
	t.inc.b.rec.Log("CliClose", "c", t.inc.c)
	err := t.inc.cliRaw.Close()
	if d := t.inc.b.CloseDelayMs; d > 0 && atomic.AddInt32(&t.closed, 1) == 1 {
		// like a WebSocket closing handshake with a peer that no longer answers: the link is down, the call returns only after a timeout
		time.Sleep(time.Duration(d) * time.Millisecond)
	}
	return err
}
func (t *cliTr) CloseWithStatus(transport.CloseStatus) error { return t.Close() }
func (t *cliTr) RxBytesCounterValue() uint64                 { return t.inc.cliRaw.RxBytesCounterValue() }
func (t *cliTr) TxBytesCounterValue() uint64                 { return t.inc.cliRaw.TxBytesCounterValue() }
func (t *cliTr) AsUnreliable() (transport.UnreliableTransport, bool) {
	if t.inc.ucliRaw == nil {
		return nil, false
	}
	return &ucliTr{inc: t.inc}, true
}

// ucliTr is the client end of the unreliable pipe.
type ucliTr struct{ inc *Inc }

func (t *ucliTr) Read() ([]byte, error)                         { return t.inc.ucliRaw.Read() }
func (t *ucliTr) Write(bs []byte) error                         { return t.inc.ucliRaw.Write(bs) }
func (t *ucliTr) Close() error                                  { return t.inc.ucliRaw.Close() }
func (t *ucliTr) RxBytesCounterValue() uint64                   { return t.inc.ucliRaw.RxBytesCounterValue() }
func (t *ucliTr) TxBytesCounterValue() uint64                   { return t.inc.ucliRaw.TxBytesCounterValue() }
func (t *ucliTr) IsUnreliable()                                 {}
func (t *cliTr) NegotiationParams() transport.NegotiationParams { return t.np }
func (t *cliTr) Name() transport.Name                           { return transport.Name("verifmem") }

// Dial implements transport.Dialer.
func (b *Broker) Dial(dc transport.DialConfig) (transport.Transport, error) {
	b.mu.Lock()
	b.dialN++
	n := b.dialN
	step := b.dialDef
	if len(b.dialPlan) > 0 {
		step = b.dialPlan[0]
		b.dialPlan = b.dialPlan[1:]
	}
	b.mu.Unlock()
	b.rec.Log("Dial", "n", n, "do", step.Do, "reconnect", dc.Reconnect)
	if step.Gate != "" {
		<-b.gate(step.Gate)
	}
	if step.DelayMs > 0 {
		time.Sleep(time.Duration(step.DelayMs) * time.Millisecond)
	}
	if step.Do == "fail" {
		b.rec.Log("DialRet", "n", n, "ok", false)
		return nil, fmt.Errorf("scripted dial failure %d", n)
	}
	srvRaw, cliRaw := transport.Pipe()
	inc := &Inc{
		b: b, srvRaw: srvRaw, cliRaw: cliRaw,
		srv:       encoding.NewTransport(&encoding.TransportConfig{Transport: srvRaw, Encoding: b.enc}),
		out:       make(chan outMsg, 4096),
		closed:    make(chan struct{}),
		upAlias:   map[uint32]*BUp{},
		downAlias: map[uint32]*BDown{},
	}
	if b.Unreliable {
		inc.usrvRaw, inc.ucliRaw = transport.Pipe()
		inc.usrv = encoding.NewTransport(&encoding.TransportConfig{Transport: inc.usrvRaw, Encoding: b.enc})
	}
	b.mu.Lock()
	b.incs = append(b.incs, inc)
	inc.c = len(b.incs)
	inc.nextAlias = uint32(inc.c*10) + b.aliasOff
	b.mu.Unlock()
	b.rec.Log("BAccept", "c", inc.c, "n", n)
	go inc.readLoop()
	go inc.writeLoop()
	if inc.usrv != nil {
		go inc.ureadLoop()
	}
	return &cliTr{inc: inc, np: dc.NegotiationParams()}, nil
}

// CurInc returns the latest incarnation (nil if none).
func (b *Broker) CurInc() *Inc {
	b.mu.Lock()
	defer b.mu.Unlock()
	if len(b.incs) == 0 {
		return nil
	}
	return b.incs[len(b.incs)-1]
}

func (b *Broker) IncN(c int) *Inc {
	b.mu.Lock()
	defer b.mu.Unlock()
	if c <= 0 || c > len(b.incs) {
		return nil
	}
	return b.incs[c-1]
}

// CloseAll closes the broker side of every incarnation.
func (b *Broker) CloseAll() {
	b.mu.Lock()
	incs := append([]*Inc(nil), b.incs...)
	gs := b.gates
	b.mu.Unlock()
	for name := range gs {
		b.Release(name)
	}
	for _, i := range incs {
		i.cut("teardown")
	}
}

func (i *Inc) alive() bool {
	select {
	case <-i.closed:
		return false
	default:
		return true
	}
}

func (i *Inc) cut(cause string) {
	i.closeOnce.Do(func() {
		i.b.rec.Log("BLinkDown", "c", i.c, "cause", cause)
		close(i.closed)
		i.srvRaw.Close()
		if i.usrvRaw != nil {
			i.usrvRaw.Close()
		}
	})
}

func (i *Inc) writeLoop() {
	for {
		select {
		case <-i.closed:
			return
		case o := <-i.out:
			if o.ev != "" {
				i.b.rec.Log(o.ev, o.kv...)
			}
			err := i.srv.Write(o.m)
			if err != nil && o.ev != "" {
				i.b.rec.Log("BSendFail", "c", i.c, "of", o.ev)
			}
			if o.done != nil {
				o.done <- err
			}
		}
	}
}

// send enqueues a broker->client message; the event is logged just before the write.
func (i *Inc) send(m message.Message, ev string, kv ...any) {
	kv = append([]any{"c", i.c}, kv...)
	select {
	case i.out <- outMsg{m: m, ev: ev, kv: kv}:
	case <-i.closed:
	}
}

func (i *Inc) sendSync(m message.Message, ev string, kv ...any) error {
	kv = append([]any{"c", i.c}, kv...)
	done := make(chan error, 1)
	select {
	case i.out <- outMsg{m: m, ev: ev, kv: kv, done: done}:
	case <-i.closed:
		return transport.ErrAlreadyClosed
	}
	select {
	case err := <-done:
		return err
	case <-i.closed:
		return transport.ErrAlreadyClosed
	}
}

// ureadLoop reads the unreliable path (chunks of unreliable upstreams).
func (i *Inc) ureadLoop() {
	for {
		m, err := i.usrv.Read()
		if err != nil {
			return
		}
		i.b.rec.Log("BUnreliable", "c", i.c, "kind", KindOf(m))
		i.handle(m)
	}
}

func (i *Inc) readLoop() {
	for {
		// stopReading: the peer is alive but does not read any more (every client write blocks)
		for {
			i.b.mu.Lock()
			nr := i.b.noRead || i.noRead
			i.b.mu.Unlock()
			if !nr || !i.alive() {
				break
			}
			time.Sleep(5 * time.Millisecond)
		}
		m, err := i.srv.Read()
		if err != nil {
			cause := "clientClosed"
			if !i.alive() {
				cause = "already"
			}
			if cause != "already" {
				i.cut(cause)
			}
			return
		}
		i.handle(m)
	}
}

// KindOf names a message.
func KindOf(m message.Message) string {
	switch m.(type) {
	case *message.ConnectRequest:
		return "ConnectRequest"
	case *message.ConnectResponse:
		return "ConnectResponse"
	case *message.Disconnect:
		return "Disconnect"
	case *message.Ping:
		return "Ping"
	case *message.Pong:
		return "Pong"
	case *message.UpstreamOpenRequest:
		return "UpstreamOpenRequest"
	case *message.UpstreamResumeRequest:
		return "UpstreamResumeRequest"
	case *message.UpstreamCloseRequest:
		return "UpstreamCloseRequest"
	case *message.UpstreamChunk:
		return "UpstreamChunk"
	case *message.UpstreamMetadata:
		return "UpstreamMetadata"
	case *message.UpstreamCall:
		return "UpstreamCall"
	case *message.DownstreamOpenRequest:
		return "DownstreamOpenRequest"
	case *message.DownstreamResumeRequest:
		return "DownstreamResumeRequest"
	case *message.DownstreamCloseRequest:
		return "DownstreamCloseRequest"
	case *message.DownstreamChunkAck:
		return "DownstreamChunkAck"
	case *message.DownstreamMetadataAck:
		return "DownstreamMetadataAck"
	default:
		return fmt.Sprintf("%T", m)
	}
}

func qosName(q message.QoS) string {
	switch q {
	case message.QoSReliable:
		return "reliable"
	case message.QoSPartial:
		return "partial"
	default:
		return "unreliable"
	}
}

// respond applies broker-side rules to a request and sends the response built by mk(code, rid).
func (i *Inc) respond(kind string, rid uint32, mk func(code message.ResultCode, rid uint32) message.Message, kv ...any) {
	b := i.b
	code := message.ResultCodeSucceeded
	b.mu.Lock()
	silent := b.silent
	b.mu.Unlock()
	if silent {
		return
	}
	reqSid := ""
	for k := 0; k+1 < len(kv); k += 2 {
		if kv[k] == "sid" {
			reqSid, _ = kv[k+1].(string)
		}
	}
	if r := b.findRuleSid(kind, i.c, reqSid, "drop", "delay", "code", "codes", "misaddr", "cutOnRecv", "hold"); r != nil {
		switch r.Do {
		case "drop":
			b.rec.Log("Fault", "c", i.c, "do", "drop", "on", kind, "rid", int(rid))
			return
		case "cutOnRecv":
			b.rec.Log("Fault", "c", i.c, "do", "cutOnRecv", "on", kind, "rid", int(rid))
			i.cut("script")
			return
		case "delay":
			b.rec.Log("Fault", "c", i.c, "do", "delay", "on", kind, "rid", int(rid), "ms", r.Arg)
			d := time.Duration(r.Arg) * time.Millisecond
			go func() {
				select {
				case <-time.After(d):
					i.send(mk(code, rid), "BSendResp", append([]any{"kind", kind, "rid", int(rid), "code", int(code)}, kv...)...)
				case <-i.closed:
				}
			}()
			return
		case "hold":
			b.rec.Log("Fault", "c", i.c, "do", "hold", "on", kind, "rid", int(rid))
			g := b.gate(fmt.Sprintf("hold%d", r.Arg))
			go func() {
				select {
				case <-g:
					i.send(mk(code, rid), "BSendResp", append([]any{"kind", kind, "rid", int(rid), "code", int(code)}, kv...)...)
				case <-i.closed:
				}
			}()
			return
		case "code":
			code = message.ResultCode(r.Arg)
		case "codes":
			if r.used-1 < len(r.Codes) {
				code = message.ResultCode(r.Codes[r.used-1])
			}
		case "misaddr":
			b.rec.Log("Fault", "c", i.c, "do", "misaddr", "on", kind, "rid", int(rid))
			rid = rid + 1000
		}
	}
	i.send(mk(code, rid), "BSendResp", append([]any{"kind", kind, "rid", int(rid), "code", int(code)}, kv...)...)
}

func absGroups(gs []*message.DataPointGroup, aliasName func(uint32) string) []Ev {
	out := make([]Ev, 0, len(gs))
	for _, g := range gs {
		e := Ev{"pts": AbsPoints(g.DataPoints)}
		switch t := g.DataIDOrAlias.(type) {
		case *message.DataID:
			e["f"] = "id"
			e["id"] = t.Name
			e["al"] = 0
			if t.Type != "t" {
				e["id"] = t.Name + ":" + t.Type
			}
		case message.DataIDAlias:
			e["f"] = "al"
			e["al"] = int(t)
			e["id"] = aliasName(uint32(t))
		}
		out = append(out, e)
	}
	return out
}

func (i *Inc) handle(m message.Message) {
	b := i.b
	kind := KindOf(m)
	// stopRead: this message is the last one the peer reads (a peer that died: alive on the wire, reading nothing any more); set by the
	// reading goroutine itself, so that no further Read is started
	if r := b.findRule(kind, i.c, "stopRead"); r != nil {
		b.mu.Lock()
		i.noRead = true // this incarnation only: the peer the client redials is a healthy one
		b.mu.Unlock()
		b.rec.Log("Fault", "c", i.c, "do", "stopRead", "on", kind)
	}
	switch t := m.(type) {
	case *message.ConnectRequest:
		b.rec.Log("BRecvReq", "c", i.c, "kind", kind, "rid", int(t.RequestID),
			"token", t.AccessToken(),
			"pingI", int(t.PingInterval/time.Millisecond), "pingT", int(t.PingTimeout/time.Millisecond))
		i.respond(kind, uint32(t.RequestID), func(code message.ResultCode, rid uint32) message.Message {
			return &message.ConnectResponse{RequestID: message.RequestID(rid), ProtocolVersion: t.ProtocolVersion, ResultCode: code, ResultString: "x"}
		})
	case *message.Disconnect:
		b.rec.Log("BRecvDisconnect", "c", i.c, "code", int(t.ResultCode))
	case *message.Ping:
		b.rec.Log("BRecvPing", "c", i.c, "rid", int(t.RequestID))
		b.mu.Lock()
		off := b.pongOff || b.silent
		b.mu.Unlock()
		if off {
			return
		}
		if r := b.findRule("Ping", i.c, "drop", "delay"); r != nil {
			if r.Do == "drop" {
				return
			}
			d := time.Duration(r.Arg) * time.Millisecond
			go func() {
				select {
				case <-time.After(d):
					b.rec.Log("BPongQueued", "c", i.c, "rid", int(t.RequestID))
					i.send(&message.Pong{RequestID: t.RequestID}, "BSendPong", "rid", int(t.RequestID))
				case <-i.closed:
				}
			}()
			return
		}
		// the broker's answer = the pong put into its (ordered) output stream; BSendPong is logged when the client has taken it
		b.rec.Log("BPongQueued", "c", i.c, "rid", int(t.RequestID))
		i.send(&message.Pong{RequestID: t.RequestID}, "BSendPong", "rid", int(t.RequestID))
	case *message.Pong:
		b.rec.Log("BRecvPong", "c", i.c, "rid", int(t.RequestID))
	case *message.UpstreamOpenRequest:
		b.mu.Lock()
		u := &BUp{ID: uuid.New(), Session: t.SessionID, QoS: t.QoS, recv: map[uint32]map[int]bool{}, acked: map[uint32]map[int]bool{}, aliases: map[string]uint32{}}
		u.Sid = fmt.Sprintf("u%d", len(b.ups)+1)
		b.ups[u.ID] = u
		b.upBySid[u.Sid] = u
		i.nextAlias++
		alias := i.nextAlias
		if b.aliasReuse {
			// a broker that hands out the lowest stream alias not in use by an open upstream of this connection
			for a, old := range i.upAlias {
				if old.closed && a < alias {
					alias = a
				}
			}
		}
		i.upAlias[alias] = u
		b.mu.Unlock()
		ids := []string{}
		for _, d := range t.DataIDs {
			ids = append(ids, d.Name)
		}
		b.rec.Log("BRecvReq", "c", i.c, "kind", kind, "rid", int(t.RequestID), "sid", u.Sid, "session", t.SessionID,
			"qos", qosName(t.QoS), "ids", ids, "alias", int(alias))
		i.respond(kind, uint32(t.RequestID), func(code message.ResultCode, rid uint32) message.Message {
			return &message.UpstreamOpenResponse{RequestID: message.RequestID(rid), AssignedStreamID: u.ID, AssignedStreamIDAlias: alias,
				ResultCode: code, ResultString: "x", ServerTime: time.Unix(1, 0).UTC(), DataIDAliases: map[uint32]*message.DataID{}}
		}, "sid", u.Sid, "alias", int(alias))
	case *message.UpstreamResumeRequest:
		b.mu.Lock()
		u := b.ups[t.StreamID]
		sid := "?"
		var alias uint32
		if u != nil {
			sid = u.Sid
			i.nextAlias++
			alias = i.nextAlias
		}
		b.mu.Unlock()
		b.rec.Log("BRecvReq", "c", i.c, "kind", kind, "rid", int(t.RequestID), "sid", sid, "alias", int(alias))
		i.respond(kind, uint32(t.RequestID), func(code message.ResultCode, rid uint32) message.Message {
			if u == nil && code == message.ResultCodeSucceeded {
				code = message.ResultCodeStreamNotFound
			}
			if code == message.ResultCodeSucceeded {
				b.mu.Lock()
				i.upAlias[alias] = u
				b.mu.Unlock()
			}
			return &message.UpstreamResumeResponse{RequestID: message.RequestID(rid), AssignedStreamIDAlias: alias, ResultCode: code, ResultString: "x"}
		}, "sid", sid, "alias", int(alias))
	case *message.UpstreamCloseRequest:
		sid := b.SidOf(t.StreamID)
		b.rec.Log("BRecvReq", "c", i.c, "kind", kind, "rid", int(t.RequestID), "sid", sid,
			"total", int(t.TotalDataPoints), "final", int(t.FinalSequenceNumber))
		b.mu.Lock()
		if u := b.ups[t.StreamID]; u != nil {
			u.closed = true
		}
		b.mu.Unlock()
		i.respond(kind, uint32(t.RequestID), func(code message.ResultCode, rid uint32) message.Message {
			return &message.UpstreamCloseResponse{RequestID: message.RequestID(rid), ResultCode: code, ResultString: "x"}
		}, "sid", sid)
	case *message.UpstreamChunk:
		b.mu.Lock()
		u := i.upAlias[t.StreamIDAlias]
		sid := "?"
		if u != nil {
			sid = u.Sid
			if u.recv[t.StreamChunk.SequenceNumber] == nil {
				u.recv[t.StreamChunk.SequenceNumber] = map[int]bool{}
			}
			u.recv[t.StreamChunk.SequenceNumber][i.c] = true
			// every receipt is owed an acknowledgement: a chunk that arrives again after its result was sent (the
			// retransmission of a chunk whose first copy got through) counts as unacknowledged for the cooperative tail
			if u.acked[t.StreamChunk.SequenceNumber] != nil {
				delete(u.acked[t.StreamChunk.SequenceNumber], i.c)
			}
		}
		auto := b.ackMode == "auto" && !b.silent
		aliasName := func(a uint32) string {
			if u == nil {
				return "?"
			}
			for n, al := range u.aliases {
				if al == a {
					return n
				}
			}
			return "?"
		}
		groups := absGroups(t.StreamChunk.DataPointGroups, aliasName)
		ids := []string{}
		for _, d := range t.DataIDs {
			ids = append(ids, d.Name)
		}
		// the receipt is logged before the chunk becomes visible to the acknowledging side (still under b.mu): otherwise the cooperative
		// tail can acknowledge it, the client can finish its Close and the close request can be logged BEFORE this event
		b.rec.Log("BRecvChunk", "c", i.c, "alias", int(t.StreamIDAlias), "sid", sid, "seq", int(t.StreamChunk.SequenceNumber),
			"groups", groups, "ids", ids)
		b.mu.Unlock()
		if r := b.findRule("UpstreamChunk", i.c, "cutOnRecv"); r != nil {
			b.rec.Log("Fault", "c", i.c, "do", "cutOnRecv", "on", kind)
			i.cut("script")
			return
		}
		if auto && u != nil {
			i.ack(u, t.StreamIDAlias, []uint32{t.StreamChunk.SequenceNumber}, nil, nil)
		}
	case *message.UpstreamMetadata:
		name := fmt.Sprintf("%T", t.Metadata)
		tag := 0
		if bt, ok := t.Metadata.(*message.BaseTime); ok {
			name = "BaseTime"
			tag = int(bt.Priority)
		}
		b.rec.Log("BRecvReq", "c", i.c, "kind", kind, "rid", int(t.RequestID), "meta", name, "tag", tag)
		i.respond(kind, uint32(t.RequestID), func(code message.ResultCode, rid uint32) message.Message {
			return &message.UpstreamMetadataAck{RequestID: message.RequestID(rid), ResultCode: code, ResultString: fmt.Sprintf("tag%d", tag)}
		}, "tag", tag)
	case *message.UpstreamCall:
		b.rec.Log("BRecvCall", "c", i.c, "callID", t.CallID, "reqCallID", t.RequestCallID, "name", t.Name, "psum", sum30(t.Payload), "plen", len(t.Payload))
		b.mu.Lock()
		auto := b.callAck == "auto" && !b.silent
		b.mu.Unlock()
		if auto {
			code := message.ResultCodeSucceeded
			if r := b.findRule("UpstreamCall", i.c, "drop", "code"); r != nil {
				if r.Do == "drop" {
					return
				}
				code = message.ResultCode(r.Arg)
			}
			i.send(&message.UpstreamCallAck{CallID: t.CallID, ResultCode: code, ResultString: "x"}, "BSendCallAck", "callID", t.CallID, "code", int(code))
		}
	case *message.DownstreamOpenRequest:
		b.mu.Lock()
		d := &BDown{ID: uuid.New(), Alias: t.DesiredStreamIDAlias, QoS: t.QoS, annUp: map[string][]uint32{}, annId: map[string][]uint32{}}
		for a, id := range t.DataIDAliases {
			d.annId[id.Name] = append(d.annId[id.Name], a)
		}
		d.Sid = fmt.Sprintf("d%d", len(b.downs)+1)
		b.downs[d.ID] = d
		b.dnBySid[d.Sid] = d
		i.downAlias[d.Alias] = d
		b.mu.Unlock()
		srcs := []string{}
		for _, f := range t.DownstreamFilters {
			srcs = append(srcs, f.SourceNodeID)
		}
		al := [][]any{}
		for a, id := range t.DataIDAliases {
			al = append(al, []any{int(a), id.Name})
		}
		sort.Slice(al, func(x, y int) bool { return al[x][0].(int) < al[y][0].(int) })
		b.rec.Log("BRecvReq", "c", i.c, "kind", kind, "rid", int(t.RequestID), "sid", d.Sid, "alias", int(t.DesiredStreamIDAlias),
			"qos", qosName(t.QoS), "srcs", srcs, "idAliases", al)
		i.respond(kind, uint32(t.RequestID), func(code message.ResultCode, rid uint32) message.Message {
			return &message.DownstreamOpenResponse{RequestID: message.RequestID(rid), AssignedStreamID: d.ID, ResultCode: code, ResultString: "x", ServerTime: time.Unix(1, 0).UTC()}
		}, "sid", d.Sid)
	case *message.DownstreamResumeRequest:
		b.mu.Lock()
		d := b.downs[t.StreamID]
		sid := "?"
		if d != nil {
			sid = d.Sid
		}
		b.mu.Unlock()
		b.rec.Log("BRecvReq", "c", i.c, "kind", kind, "rid", int(t.RequestID), "sid", sid, "alias", int(t.DesiredStreamIDAlias))
		i.respond(kind, uint32(t.RequestID), func(code message.ResultCode, rid uint32) message.Message {
			if d == nil && code == message.ResultCodeSucceeded {
				code = message.ResultCodeStreamNotFound
			}
			if code == message.ResultCodeSucceeded {
				b.mu.Lock()
				i.downAlias[t.DesiredStreamIDAlias] = d
				b.mu.Unlock()
			}
			return &message.DownstreamResumeResponse{RequestID: message.RequestID(rid), ResultCode: code, ResultString: "x"}
		}, "sid", sid)
	case *message.DownstreamCloseRequest:
		sid := b.SidOf(t.StreamID)
		b.rec.Log("BRecvReq", "c", i.c, "kind", kind, "rid", int(t.RequestID), "sid", sid)
		b.mu.Lock()
		if d := b.downs[t.StreamID]; d != nil {
			d.closed = true
		}
		b.mu.Unlock()
		i.respond(kind, uint32(t.RequestID), func(code message.ResultCode, rid uint32) message.Message {
			return &message.DownstreamCloseResponse{RequestID: message.RequestID(rid), ResultCode: code, ResultString: "x"}
		}, "sid", sid)
	case *message.DownstreamChunkAck:
		b.mu.Lock()
		d := i.downAlias[t.StreamIDAlias]
		sid := "?"
		if d != nil {
			sid = d.Sid
		}
		b.mu.Unlock()
		results := [][]any{}
		for _, r := range t.Results {
			results = append(results, []any{b.upKeyOf(r.StreamIDOfUpstream), int(r.SequenceNumberInUpstream), int(r.ResultCode)})
		}
		ua := [][]any{}
		for a, info := range t.UpstreamAliases {
			name := b.upKeyOf(info.StreamID)
			ua = append(ua, []any{int(a), name, info.SessionID, info.SourceNodeID})
			if d != nil {
				b.mu.Lock()
				d.annUp[name] = append(d.annUp[name], a)
				b.mu.Unlock()
			}
		}
		sort.Slice(ua, func(x, y int) bool { return ua[x][0].(int) < ua[y][0].(int) })
		da := [][]any{}
		for a, id := range t.DataIDAliases {
			da = append(da, []any{int(a), id.Name})
			if d != nil {
				b.mu.Lock()
				d.annId[id.Name] = append(d.annId[id.Name], a)
				b.mu.Unlock()
			}
		}
		sort.Slice(da, func(x, y int) bool { return da[x][0].(int) < da[y][0].(int) })
		b.rec.Log("BRecvDownAck", "c", i.c, "alias", int(t.StreamIDAlias), "sid", sid, "ackID", int(t.AckID),
			"results", results, "upAliases", ua, "idAliases", da)
		b.mu.Lock()
		silent := b.silent
		b.mu.Unlock()
		if !silent {
			i.send(&message.DownstreamChunkAckComplete{StreamIDAlias: t.StreamIDAlias, AckID: t.AckID, ResultCode: message.ResultCodeSucceeded, ResultString: "x"}, "")
		}
	case *message.DownstreamMetadataAck:
		b.rec.Log("BRecvMetaAck", "c", i.c, "rid", int(t.RequestID), "code", int(t.ResultCode))
	default:
		b.rec.Log("BRecvOther", "c", i.c, "kind", kind)
	}
}

// upKeyOf maps an upstream-info stream id to its abstract name ("?" if unknown).
func (b *Broker) upKeyOf(id uuid.UUID) string {
	b.mu.Lock()
	defer b.mu.Unlock()
	for name, info := range b.upInfos {
		if info.StreamID == id {
			return name
		}
	}
	return "?"
}

// UpInfo returns (creating if needed) the upstream info for an abstract upstream name.
func (b *Broker) UpInfo(name string) *message.UpstreamInfo {
	b.mu.Lock()
	defer b.mu.Unlock()
	info, ok := b.upInfos[name]
	if !ok {
		info = &message.UpstreamInfo{SessionID: "s-" + name, SourceNodeID: "n-" + name, StreamID: uuid.New()}
		b.upInfos[name] = info
	}
	return info
}

// ack sends an UpstreamChunkAck. codes nil = all succeeded; aliases name->alias.
func (i *Inc) ack(u *BUp, alias uint32, seqs []uint32, codes []int, aliases map[string]uint32) error {
	b := i.b
	results := []*message.UpstreamChunkResult{}
	rl := [][]int{}
	for k, s := range seqs {
		code := message.ResultCodeSucceeded
		if k < len(codes) {
			code = message.ResultCode(codes[k])
		}
		results = append(results, &message.UpstreamChunkResult{SequenceNumber: s, ResultCode: code, ResultString: "r"})
		rl = append(rl, []int{int(s), int(code)})
	}
	am := map[uint32]*message.DataID{}
	al := [][]any{}
	b.mu.Lock()
	for n, a := range aliases {
		am[a] = DataID(n)
		al = append(al, []any{int(a), n})
		u.aliases[n] = a
	}
	for _, s := range seqs {
		if u.acked[s] == nil {
			u.acked[s] = map[int]bool{}
		}
		u.acked[s][i.c] = true
	}
	b.mu.Unlock()
	sort.Slice(al, func(x, y int) bool { return al[x][0].(int) < al[y][0].(int) })
	return i.sendSync(&message.UpstreamChunkAck{StreamIDAlias: alias, Results: results, DataIDAliases: am},
		"BSendAck", "alias", int(alias), "sid", u.Sid, "results", rl, "aliases", al)
}

// AliasOf returns the alias of upstream u on incarnation i (0 if none).
func (i *Inc) AliasOf(u *BUp) uint32 {
	i.b.mu.Lock()
	defer i.b.mu.Unlock()
	var best uint32
	for a, x := range i.upAlias {
		if x == u && a > best {
			best = a
		}
	}
	return best
}

func (b *Broker) Up(sid string) *BUp {
	b.mu.Lock()
	defer b.mu.Unlock()
	return b.upBySid[sid]
}

// AnnouncedUp returns the latest alias the client announced for an upstream name (0 if none).
func (b *Broker) AnnouncedUp(d *BDown, name string) uint32 {
	b.mu.Lock()
	defer b.mu.Unlock()
	if l := d.annUp[name]; len(l) > 0 {
		return l[len(l)-1]
	}
	return 0
}

// AnnouncedId returns the latest alias announced or pre-registered for a data id name (0 if none).
func (b *Broker) AnnouncedId(d *BDown, name string) uint32 {
	b.mu.Lock()
	defer b.mu.Unlock()
	if l := d.annId[name]; len(l) > 0 {
		return l[len(l)-1]
	}
	return 0
}

// AnnouncedIdAs reports whether the client announced alias a for data id name (open request or ack).
func (b *Broker) AnnouncedIdAs(d *BDown, name string, a uint32) bool {
	b.mu.Lock()
	defer b.mu.Unlock()
	for _, x := range d.annId[name] {
		if x == a {
			return true
		}
	}
	return false
}

func (b *Broker) Down(sid string) *BDown {
	b.mu.Lock()
	defer b.mu.Unlock()
	return b.dnBySid[sid]
}

// Received reports whether the broker has received seq of upstream u on incarnation c (0 = any).
func (b *Broker) Received(u *BUp, seq uint32, c int) bool {
	b.mu.Lock()
	defer b.mu.Unlock()
	if c == 0 {
		return len(u.recv[seq]) > 0
	}
	return u.recv[seq][c]
}

// Unacked lists the seqs of u received on incarnation c for which no result was sent on c, ascending.
func (b *Broker) Unacked(u *BUp, c int) []uint32 {
	b.mu.Lock()
	defer b.mu.Unlock()
	out := []uint32{}
	for s, on := range u.recv {
		if on[c] && !u.acked[s][c] {
			out = append(out, s)
		}
	}
	sort.Slice(out, func(x, y int) bool { return out[x] < out[y] })
	return out
}
