package h

import (
	"runtime"
	"time"
)

// Script steps added for C16 (end-to-end calls), registered through ExtraSteps.
//
//	settle {ms}: the settle point before Close. Like "quiesce" it waits for a window of ms (default 250) without any
//	event and then logs "Quiesced", but
//	  - keep-alive traffic (BRecvPing/BSendPong/BSendPing/BRecvPong) does not count as an event, so it also works on
//	    connections with a short ping interval;
//	  - the window is slept in 10 slices; if a slice oversleeps by more than its own length the process was not
//	    scheduled in time (CPU starvation, stop-the-world pause) and goroutines of the library may not have run either:
//	    the window is started again;
//	  - if no clean window is found within 20 windows the run is inconclusive (never a violation).
func init() {
	ExtraSteps["settle"] = func(d *Driver, st *Step, g string) {
		ms := st.Ms
		if ms == 0 {
			ms = 250
		}
		window := time.Duration(ms) * time.Millisecond
		slice := window / 10
		deadline := time.Now().Add(20 * window)
		busy := func() int {
			return d.rec.Count(func(e Ev) bool {
				switch e["ev"] {
				case "BRecvPing", "BSendPong", "BPongQueued", "BStrayPong", "BSendPing", "BRecvPong", "Stall":
					return false
				}
				return true
			})
		}
		stalls, windows, clean := 0, 0, false
		for !clean && time.Now().Before(deadline) {
			windows++
			last := busy()
			clean = true
			for k := 0; k < 10 && clean; k++ {
				t0 := time.Now()
				time.Sleep(slice)
				runtime.Gosched()
				if time.Since(t0) > 2*slice {
					stalls++
					clean = false
				}
				if busy() != last {
					clean = false
				}
			}
		}
		if !clean {
			d.inconclusive("settle: no quiet, unstalled window found")
		}
		d.rec.Log("Quiesced", "windows", windows, "stalls", stalls, "clean", clean)
	}
}
