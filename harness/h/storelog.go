package h

import (
	"context"
	"runtime"
	"strings"

	"github.com/aptpod/iscp-go/iscp"
	uuid "github.com/google/uuid"
)

// loggedStorage wraps the library's in-memory sent storage and records every operation (conn.storage = "logged").
// The caller's function name is recorded for Remove so that a removal can be attributed (ack / timeout / cancellation path).
type loggedStorage struct {
	inner iscp.VerifSentStorage
	d     *Driver
}

func callerChain() string {
	pcs := make([]uintptr, 8)
	n := runtime.Callers(3, pcs)
	fr := runtime.CallersFrames(pcs[:n])
	out := []string{}
	for {
		f, more := fr.Next()
		if strings.Contains(f.Function, "iscp-go/iscp.") {
			name := f.Function[strings.LastIndex(f.Function, ".")+1:]
			out = append(out, name)
		}
		if !more || len(out) >= 3 {
			break
		}
	}
	return strings.Join(out, "<")
}

func (s *loggedStorage) Store(ctx context.Context, id uuid.UUID, seq uint32, dps iscp.DataPointGroups) error {
	err := s.inner.Store(ctx, id, seq, dps)
	s.d.rec.Log("StoreOp", "op", "Store", "sid", s.d.b.SidOf(id), "seq", int(seq), "ok", err == nil)
	return err
}

func (s *loggedStorage) Remove(ctx context.Context, id uuid.UUID, seq uint32) (iscp.DataPointGroups, error) {
	r, err := s.inner.Remove(ctx, id, seq)
	s.d.rec.Log("StoreOp", "op", "Remove", "sid", s.d.b.SidOf(id), "seq", int(seq), "ok", err == nil, "by", callerChain())
	return r, err
}

func (s *loggedStorage) List(ctx context.Context, id uuid.UUID) (map[uint32]iscp.DataPointGroups, error) {
	s.d.b.HandlerHold("StorageList") // a slow storage (step holdHandler, mode StorageList): widens the window between two looks at the stream's state
	return s.inner.List(ctx, id)
}

func (s *loggedStorage) Clear(ctx context.Context, id uuid.UUID) error {
	err := s.inner.Clear(ctx, id)
	s.d.rec.Log("StoreOp", "op", "Clear", "sid", s.d.b.SidOf(id), "seq", 0, "ok", err == nil)
	return err
}
