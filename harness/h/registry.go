package h

// Runner runs one scenario and returns its recorder.
type Runner func(sc *Scenario) *Rec

// Kinds maps scenario kinds to runners. Component drivers register themselves in init().
var Kinds = map[string]Runner{
	"iscp": func(sc *Scenario) *Rec { return NewDriver(sc).Run() },
}
