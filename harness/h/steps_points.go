package h

import (
	"sync"
	"time"

	"github.com/aptpod/iscp-go/verifhook"
	uuid "github.com/google/uuid"
)

// Scheduling points (verifhook.Point in the library, active only with the verif tag): a scenario can hold the
// goroutine that reaches a named point until a gate is released. Holding a goroutine is a legal schedule.
//
//	{"a":"holdPoint","mode":"upstream.watch.start","nth":1,"gate":"w1"}   the nth goroutine of this scenario reaching the point waits for gate w1
var pointOnce sync.Once

type pointHold struct {
	name string
	nth  int
	gate string
	seen int
}

func installPoints() {
	pointOnce.Do(func() {
		verifhook.SetHandler(func(name string, args ...any) {
			if len(args) == 0 {
				return
			}
			idStr, _ := args[0].(string)
			id, err := uuid.Parse(idStr)
			if err != nil {
				return
			}
			brokersMu.Lock()
			var owner *Broker
			for _, b := range brokers {
				b.mu.Lock()
				_, up := b.ups[id]
				_, dn := b.downs[id]
				b.mu.Unlock()
				if up || dn {
					owner = b
					break
				}
			}
			brokersMu.Unlock()
			if owner == nil {
				return
			}
			owner.mu.Lock()
			var hit *pointHold
			for _, h := range owner.pointHolds {
				if h.name == name {
					h.seen++
					if h.nth == 0 || h.nth == h.seen {
						hit = h
						break
					}
				}
			}
			owner.mu.Unlock()
			if hit == nil {
				return
			}
			owner.rec.Log("PointHeld", "point", name, "sid", owner.SidOf(id), "gate", hit.gate)
			select {
			case <-owner.gate(hit.gate):
			case <-time.After(10 * time.Second):
			}
			owner.rec.Log("PointReleased", "point", name, "sid", owner.SidOf(id), "gate", hit.gate)
		})
	})
}

func init() {
	ExtraSteps["holdPoint"] = func(d *Driver, st *Step, g string) {
		installPoints()
		d.b.mu.Lock()
		d.b.pointHolds = append(d.b.pointHolds, &pointHold{name: st.Mode, nth: st.N, gate: st.Gate})
		d.b.mu.Unlock()
	}
}

// Application event handlers that take their time: {"a":"holdHandler","mode":"Disconnected","n":2,"gate":"d"} makes the nth call of the
// connection's Disconnected handler wait for gate d (bounded by 10 s). The library calls the handler synchronously on its supervisor.
type handlerHold struct {
	name string
	nth  int
	gate string
	seen int
}

func (b *Broker) HandlerHold(name string) {
	b.mu.Lock()
	var hit *handlerHold
	for _, h := range b.handlerHolds {
		if h.name == name {
			h.seen++
			if h.nth == h.seen {
				hit = h
				break
			}
		}
	}
	b.mu.Unlock()
	if hit == nil {
		return
	}
	b.rec.Log("HandlerHeld", "handler", name, "gate", hit.gate)
	select {
	case <-b.gate(hit.gate):
	case <-time.After(10 * time.Second):
	}
	b.rec.Log("HandlerReleased", "handler", name, "gate", hit.gate)
}

func init() {
	ExtraSteps["holdHandler"] = func(d *Driver, st *Step, g string) {
		d.b.mu.Lock()
		d.b.handlerHolds = append(d.b.handlerHolds, &handlerHold{name: st.Mode, nth: st.N, gate: st.Gate})
		d.b.mu.Unlock()
	}
}
