package h

import (
	"encoding/binary"
	"fmt"
	"sort"
	"sync"
	"time"

	"github.com/aptpod/iscp-go/verifhook"
)

// segment component driver (C14): lock-step replay of Segment.tla operations on the real
// internal/segment code. The package clock of internal/segment is global, so segment
// scenarios are serialised.
var segMu sync.Mutex

type dgSink struct{ out [][]byte }

func (s *dgSink) SendDatagram(b []byte) error {
	s.out = append(s.out, append([]byte(nil), b...))
	return nil
}

func segMsg(m, n int) []byte {
	b := make([]byte, n)
	for i := range b {
		b[i] = byte((m*131 + i*17 + i/251) & 0xff)
	}
	return b
}

func segSeq(m int) uint32 { return uint32(0xFFFFFFFE) + uint32(m) }

func init() {
	Kinds["segment"] = runSegment
}

func intsOf(v any) []int {
	out := []int{}
	if l, ok := v.([]any); ok {
		for _, x := range l {
			if f, ok := x.(float64); ok {
				out = append(out, int(f))
			}
		}
	}
	return out
}

func runSegment(sc *Scenario) *Rec {
	segMu.Lock()
	defer segMu.Unlock()
	rec := NewRec(sc.ID)
	lens := intsOf(sc.P["msgLens"])
	P := 1188
	if v, ok := sc.P["P"].(float64); ok {
		P = int(v)
	}
	expiryTicks := 1
	if v, ok := sc.P["expiry"].(float64); ok {
		expiryTicks = int(v)
	}
	rec.Log("Reset", "kind", sc.Kind, "p", Ev{"msgLens": lens, "P": P, "expiry": expiryTicks})
	now := time.Unix(1000, 0)
	verifhook.SegmentSetTimeNow(func() time.Time { return now })
	defer verifhook.SegmentSetTimeNow(time.Now)
	rb := verifhook.NewSegmentReadBuffers(time.Duration(expiryTicks) * time.Second)
	msgs := map[int][]byte{}
	dgs := map[[2]int][]byte{}
	table := func() [][]any {
		out := [][]any{}
		rb.Lock()
		for seq, b := range rb.ReadBuffer {
			m := 0
			for k := range lens {
				if segSeq(k+1) == seq {
					m = k + 1
				}
			}
			filled := []int{}
			for i, s := range b.Msgs {
				if s != nil {
					filled = append(filled, i)
				}
			}
			out = append(out, []any{m, b.SegCount, len(b.Msgs), filled})
		}
		rb.Unlock()
		sort.Slice(out, func(i, j int) bool { return out[i][0].(int) < out[j][0].(int) })
		return out
	}
	recv := func(bs []byte) (ret string, retm int) {
		defer func() {
			if r := recover(); r != nil {
				ret, retm = "panic", 0
				// the table lock may be held by the panicking call
				rb.TryLock()
				rb.Unlock()
			}
		}()
		got, ok, err := rb.Receive(bs)
		if err != nil {
			return "error", 0
		}
		if !ok {
			return "none", 0
		}
		for m, b := range msgs {
			if string(b) == string(got) && len(b) == len(got) {
				// several messages may have equal bytes only if equal length and m differs: content depends on m
				return "msg", m
			}
		}
		return "garbage", 0
	}
	for _, st := range sc.Steps {
		switch st.A {
		case "send":
			m := st.N
			if m < 1 || m > len(lens) {
				rec.Log("Inconclusive", "why", "bad message index")
				continue
			}
			msgs[m] = segMsg(m, lens[m-1])
			sink := &dgSink{}
			n, err := verifhook.SegmentSendTo(sink, segSeq(m), msgs[m])
			ret := "ok"
			if err != nil {
				ret = "error"
			}
			dl := [][]int{}
			total := 0
			for _, d := range sink.out {
				total += len(d)
				if len(d) < 8 {
					dl = append(dl, []int{-1, -1, len(d), 0})
					continue
				}
				seq := binary.BigEndian.Uint32(d[:4])
				max := int(binary.BigEndian.Uint16(d[4:6]))
				idx := int(binary.BigEndian.Uint16(d[6:8]))
				pay := d[8:]
				match := 0
				off := idx * P
				if seq == segSeq(m) && off <= len(msgs[m]) && off+len(pay) <= len(msgs[m]) && string(msgs[m][off:off+len(pay)]) == string(pay) {
					match = 1
				}
				dl = append(dl, []int{max, idx, len(pay), match})
				dgs[[2]int{m, idx}] = d
			}
			if err == nil && n != total {
				ret = fmt.Sprintf("count:%d/%d", n, total)
			}
			if len(dl) > 64 {
				// huge messages: log only a summary (first, last, count) -- the monitor's expectation is adapted by the scenario family
				rec.Log("SegOp", "a", "sendBig", "n", m, "ret", ret, "count", len(dl), "first", dl[0], "last", dl[len(dl)-1])
				continue
			}
			rec.Log("SegOp", "a", "send", "n", m, "ret", ret, "dgrams", dl)
		case "deliver":
			d, ok := dgs[[2]int{st.N, st.Seq}]
			if !ok {
				rec.Log("Inconclusive", "why", fmt.Sprintf("datagram %d/%d was never produced by SendTo", st.N, st.Seq))
				continue
			}
			ret, retm := recv(d)
			rec.Log("SegOp", "a", "deliver", "n", st.N, "seq", st.Seq, "ret", ret, "retm", retm, "table", table())
		case "deliverAll":
			// every datagram of message st.N, in order (huge messages): how many messages were handed up, at which datagram, exact bytes?
			handed, at, exact, ret := 0, 0, 0, "ok"
			for idx := 0; ; idx++ {
				d, ok := dgs[[2]int{st.N, idx}]
				if !ok {
					break
				}
				r, rm := recv(d)
				if r == "panic" {
					ret = "panic"
					break
				}
				if r != "none" {
					handed++
					at = idx + 1
					if r == "msg" && rm == st.N {
						exact = 1
					}
				}
			}
			rec.Log("SegOp", "a", "deliverAll", "n", st.N, "ret", ret, "handed", handed, "at", at, "exact", exact)
		case "lose":
			rec.Log("SegOp", "a", "lose", "n", st.N, "seq", st.Seq, "ret", "none", "retm", 0, "table", table())
		case "tick":
			now = now.Add(time.Second)
			rec.Log("SegOp", "a", "tick", "ret", "none", "retm", 0, "table", table())
		case "gc":
			rb.RemoveExpired()
			rec.Log("SegOp", "a", "gc", "ret", "none", "retm", 0, "table", table())
		case "bad":
			var d []byte
			switch st.Mode {
			case "short":
				d = []byte{0, 0, 0, 9, 0}
			case "idxOverInflight":
				// a datagram for a message that is being reassembled whose own header is self-consistent (index <= its count) but whose
				// index lies beyond the count announced by the segments received so far
				var seq uint32
				slots := -1
				rb.Lock()
				for k := range lens { // the in-flight message with the smallest message number
					if b, ok := rb.ReadBuffer[segSeq(k+1)]; ok {
						seq, slots = segSeq(k+1), len(b.Msgs)
						break
					}
				}
				rb.Unlock()
				if slots < 0 {
					rec.Log("Inconclusive", "why", "no message in flight for idxOverInflight")
					continue
				}
				d = make([]byte, 12)
				binary.BigEndian.PutUint32(d[:4], seq)
				binary.BigEndian.PutUint16(d[4:6], uint16(slots+5))
				binary.BigEndian.PutUint16(d[6:8], uint16(slots+2))
			default: // idxOver: index beyond the announced count, fresh sequence number
				d = make([]byte, 12)
				binary.BigEndian.PutUint32(d[:4], 777)
				binary.BigEndian.PutUint16(d[4:6], 1)
				binary.BigEndian.PutUint16(d[6:8], 5)
			}
			ret, retm := recv(d)
			rec.Log("SegOp", "a", "bad", "mode", st.Mode, "ret", ret, "retm", retm, "table", table())
		}
	}
	rec.Log("End")
	return rec
}
