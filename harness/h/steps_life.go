package h

import (
	"runtime"
	"strings"
	"time"
)

// libGoroutines counts goroutines that run library code and were not started on behalf of a harness call
// (no verifharness frame on their stack). It returns the count and the innermost library function of each.
func libGoroutines() (int, []string) {
	buf := make([]byte, 4<<20)
	n := runtime.Stack(buf, true)
	tops := []string{}
	for _, blk := range strings.Split(string(buf[:n]), "\n\n") {
		if !strings.Contains(blk, "github.com/aptpod/iscp-go/") || strings.Contains(blk, "verifharness/") {
			continue
		}
		top := ""
		for _, l := range strings.Split(blk, "\n") {
			if strings.HasPrefix(l, "github.com/aptpod/iscp-go/") {
				top = l
				if i := strings.Index(top, "("); i > 0 && !strings.HasPrefix(top[i:], "(*") {
					top = top[:i]
				}
				break
			}
		}
		if len(top) > 90 {
			top = top[:90]
		}
		tops = append(tops, top)
	}
	return len(tops), tops
}

func init() {
	// census: goroutine census after everything has been closed (bounded settle: retried for up to ms)
	ExtraSteps["census"] = func(d *Driver, st *Step, g string) {
		ms := st.Ms
		if ms == 0 {
			ms = 1500
		}
		deadline := time.Now().Add(time.Duration(ms) * time.Millisecond)
		var n int
		var tops []string
		for {
			n, tops = libGoroutines()
			if n == 0 || time.Now().After(deadline) {
				break
			}
			time.Sleep(20 * time.Millisecond)
		}
		if len(tops) > 12 {
			tops = tops[:12]
		}
		d.rec.Log("Census", "n", n, "tops", tops)
	}
	// stopReading / resumeReading: the broker stops (resumes) reading from its side of the transport
	ExtraSteps["stopReading"] = func(d *Driver, st *Step, g string) {
		d.b.mu.Lock()
		d.b.noRead = st.Mode != "off"
		d.b.mu.Unlock()
		d.rec.Log("BNoRead", "on", st.Mode != "off")
		time.Sleep(15 * time.Millisecond) // let the read loop finish a Read that is already in progress... it cannot: see note in c08.py
	}
	// mark: a plain marker event (phase boundaries for the monitors)
	ExtraSteps["mark"] = func(d *Driver, st *Step, g string) {
		d.rec.Log("Mark", "what", st.Mode)
	}
}
