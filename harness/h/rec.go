// Package h is the verification harness: recorder, in-memory scripted broker,
// scenario driver and component drivers. It records NDJSON traces of observable
// events that the TLA+ monitors / trace specs in /verif/spec validate.
package h

import (
	"encoding/json"
	"sync"
	"time"
)

// Ev is one observable event.
type Ev map[string]any

// Rec records the events of one scenario in a total order (one mutex).
type Rec struct {
	mu    sync.Mutex
	cond  *sync.Cond
	sc    string
	start time.Time
	evs   []Ev
	idle  int // number of periodic background events in evs
}

func NewRec(sc string) *Rec {
	r := &Rec{sc: sc, start: time.Now()}
	r.cond = sync.NewCond(&r.mu)
	return r
}

// Log appends an event. kv are alternating key, value.
func (r *Rec) Log(ev string, kv ...any) int {
	e := Ev{"ev": ev}
	for i := 0; i+1 < len(kv); i += 2 {
		e[kv[i].(string)] = kv[i+1]
	}
	r.mu.Lock()
	e["sc"] = r.sc
	e["i"] = len(r.evs) + 1
	e["t"] = int(time.Since(r.start) / time.Microsecond)
	r.evs = append(r.evs, e)
	switch ev {
	case "BRecvPing", "BSendPong", "BPongQueued", "BStrayPong", "BSendPing", "BRecvPong", "Stall":
		r.idle++ // periodic background events: they do not count as activity for "quiesce"
	}
	n := len(r.evs)
	r.cond.Broadcast()
	r.mu.Unlock()
	return n
}

// NowUs is the scenario-relative time in microseconds.
func (r *Rec) NowUs() int { return int(time.Since(r.start) / time.Microsecond) }

// Activity is the number of events so far that are not periodic background events (keep-alive traffic, stall reports).
func (r *Rec) Activity() int {
	r.mu.Lock()
	defer r.mu.Unlock()
	return len(r.evs) - r.idle
}

// Len is the number of events so far.
func (r *Rec) Len() int {
	r.mu.Lock()
	defer r.mu.Unlock()
	return len(r.evs)
}

// WaitFor blocks until an event at index >= from satisfies pred, or the timeout
// expires. It returns the matching event (nil on timeout).
func (r *Rec) WaitFor(from int, timeout time.Duration, pred func(Ev) bool) Ev {
	deadline := time.Now().Add(timeout)
	timer := time.AfterFunc(timeout, func() {
		r.mu.Lock()
		r.cond.Broadcast()
		r.mu.Unlock()
	})
	defer timer.Stop()
	r.mu.Lock()
	defer r.mu.Unlock()
	next := from
	for {
		for ; next < len(r.evs); next++ {
			if pred(r.evs[next]) {
				return r.evs[next]
			}
		}
		if !time.Now().Before(deadline) {
			return nil
		}
		r.cond.Wait()
	}
}

// Count counts events satisfying pred.
func (r *Rec) Count(pred func(Ev) bool) int {
	r.mu.Lock()
	defer r.mu.Unlock()
	n := 0
	for _, e := range r.evs {
		if pred(e) {
			n++
		}
	}
	return n
}

// Snapshot returns a copy of the event list.
func (r *Rec) Snapshot() []Ev {
	r.mu.Lock()
	defer r.mu.Unlock()
	return append([]Ev(nil), r.evs...)
}

// Lines renders the events as NDJSON lines.
func (r *Rec) Lines() [][]byte {
	evs := r.Snapshot()
	out := make([][]byte, 0, len(evs))
	for _, e := range evs {
		b, err := json.Marshal(e)
		if err != nil {
			b, _ = json.Marshal(Ev{"ev": "MarshalError", "sc": r.sc, "i": e["i"], "t": e["t"], "msg": err.Error()})
		}
		out = append(out, b)
	}
	return out
}
