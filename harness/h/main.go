// vh runs scenario scripts against the real library and writes NDJSON traces.
//
//	vh run -in scenarios.json -out traces.ndjson [-par N] [-isolate]
//	vh one -in scenarios.json -idx K            (child mode: one scenario to stdout)
package h

import (
	"bytes"
	"encoding/json"
	"flag"
	"fmt"
	"os"
	"os/exec"
	"runtime"
	"strings"
	"sync"
	"time"
)

func load(path string) []*Scenario {
	bs, err := os.ReadFile(path)
	if err != nil {
		fmt.Fprintln(os.Stderr, "read:", err)
		os.Exit(2)
	}
	var scs []*Scenario
	if err := json.Unmarshal(bs, &scs); err != nil {
		fmt.Fprintln(os.Stderr, "parse:", err)
		os.Exit(2)
	}
	return scs
}

func runOne(sc *Scenario) [][]byte {
	r, ok := Kinds[sc.Kind]
	if !ok {
		rec := NewRec(sc.ID)
		rec.Log("Reset", "kind", sc.Kind)
		rec.Log("Inconclusive", "why", "unknown scenario kind "+sc.Kind)
		rec.Log("End")
		return rec.Lines()
	}
	return r(sc).Lines()
}

func Main() {
	if len(os.Args) < 2 {
		fmt.Fprintln(os.Stderr, "usage: vh run|one ...")
		os.Exit(2)
	}
	fs := flag.NewFlagSet(os.Args[1], flag.ExitOnError)
	in := fs.String("in", "", "scenario file")
	out := fs.String("out", "", "trace file")
	par := fs.Int("par", runtime.NumCPU(), "parallel scenarios")
	idx := fs.Int("idx", 0, "scenario index (one)")
	isolate := fs.Bool("isolate", false, "run each scenario in a child process")
	childTimeout := fs.Int("childTimeoutS", 60, "child process timeout")
	fs.Parse(os.Args[2:])
	scs := load(*in)
	switch os.Args[1] {
	case "one":
		w := os.Stdout
		for _, l := range runOne(scs[*idx]) {
			w.Write(l)
			w.Write([]byte("\n"))
		}
		return
	case "run":
		res := make([][][]byte, len(scs))
		sem := make(chan struct{}, *par)
		var wg sync.WaitGroup
		for k := range scs {
			wg.Add(1)
			sem <- struct{}{}
			go func(k int) {
				defer wg.Done()
				defer func() { <-sem }()
				if !*isolate {
					res[k] = runOne(scs[k])
					return
				}
				cmd := exec.Command(os.Args[0], "one", "-in", *in, "-idx", fmt.Sprint(k))
				var so, se bytes.Buffer
				cmd.Stdout, cmd.Stderr = &so, &se
				cmd.Env = append(os.Environ(), "GOTRACEBACK=all")
				done := make(chan error, 1)
				start := time.Now()
				if err := cmd.Start(); err != nil {
					done <- err
				} else {
					go func() { done <- cmd.Wait() }()
				}
				status := 0
				timedOut := false
				select {
				case err := <-done:
					if err != nil {
						status = 1
						if ee, ok := err.(*exec.ExitError); ok {
							status = ee.ExitCode()
						}
					}
				case <-time.After(time.Duration(*childTimeout) * time.Second):
					cmd.Process.Kill()
					<-done
					timedOut = true
					status = -1
				}
				lines := [][]byte{}
				complete := false
				for _, l := range bytes.Split(so.Bytes(), []byte("\n")) {
					if len(l) == 0 {
						continue
					}
					var probe map[string]any
					if json.Unmarshal(l, &probe) != nil {
						continue
					}
					if probe["ev"] == "End" {
						complete = true
						continue // re-added below after Exit
					}
					lines = append(lines, l)
				}
				if len(lines) == 0 {
					b, _ := json.Marshal(Ev{"ev": "Reset", "sc": scs[k].ID, "i": 1, "t": 0, "kind": scs[k].Kind})
					lines = append(lines, b)
				}
				panicLine := ""
				for _, l := range strings.Split(se.String(), "\n") {
					if strings.HasPrefix(l, "panic:") || strings.HasPrefix(l, "fatal error:") {
						panicLine = l
						break
					}
				}
				if len(panicLine) > 200 {
					panicLine = panicLine[:200]
				}
				ex, _ := json.Marshal(Ev{"ev": "Exit", "sc": scs[k].ID, "i": len(lines) + 1, "t": int(time.Since(start) / time.Microsecond),
					"status": status, "panic": panicLine, "timedOut": timedOut, "complete": complete})
				lines = append(lines, ex)
				en, _ := json.Marshal(Ev{"ev": "End", "sc": scs[k].ID, "i": len(lines) + 1, "t": int(time.Since(start) / time.Microsecond)})
				lines = append(lines, en)
				res[k] = lines
			}(k)
		}
		wg.Wait()
		f, err := os.Create(*out)
		if err != nil {
			fmt.Fprintln(os.Stderr, "create:", err)
			os.Exit(2)
		}
		n := 0
		for _, ls := range res {
			for _, l := range ls {
				f.Write(l)
				f.Write([]byte("\n"))
				n++
			}
		}
		f.Close()
		fmt.Printf("scenarios=%d events=%d\n", len(scs), n)
	}
}
