package h

import (
	"context"
	stderrors "errors"
	"fmt"
	"sort"
	"strings"
	"sync"
	"time"

	"github.com/aptpod/iscp-go/errors"
	"github.com/aptpod/iscp-go/iscp"
	"github.com/aptpod/iscp-go/message"
	"github.com/aptpod/iscp-go/transport"
	uuid "github.com/google/uuid"
)

// TransportName under which the in-memory broker dialer is registered.
const MemTransport iscp.TransportName = "verifmem"

var (
	regOnce   sync.Once
	brokersMu sync.Mutex
	brokers   = map[string]*Broker{}
)

// routeDialer routes a dial to the broker of the scenario named by DialConfig.Address.
type routeDialer struct{}

func (routeDialer) Dial(dc transport.DialConfig) (transport.Transport, error) {
	brokersMu.Lock()
	b := brokers[dc.Address]
	brokersMu.Unlock()
	if b == nil {
		return nil, fmt.Errorf("no broker for %q", dc.Address)
	}
	return b.Dial(dc)
}

// Register must be called once before any scenario runs.
func Register() {
	regOnce.Do(func() {
		iscp.VerifRegisterDialer(MemTransport, func() transport.Dialer { return routeDialer{} })
	})
}

// ---------------------------------------------------------------------------
// scenario
// ---------------------------------------------------------------------------

type Policy struct {
	K    string `json:"k"` // none | interval | size | intervalOrSize | immediate
	Ms   int    `json:"ms,omitempty"`
	Size int    `json:"size,omitempty"`
}

type ChunkGroup struct {
	F   string  `json:"f"` // id | al
	ID  string  `json:"id,omitempty"`
	Al  int     `json:"al,omitempty"`
	Pts [][]int `json:"pts"`
}

// Step is one script step. Which fields are used depends on A.
type Step struct {
	A   string `json:"a"`
	G   string `json:"g,omitempty"`   // process name: the step runs on that process's goroutine
	Obj string `json:"obj,omitempty"` // script-local object name
	// API arguments
	QoS            string   `json:"qos,omitempty"`
	Policy         *Policy  `json:"policy,omitempty"`
	AckTimeoutMs   int      `json:"ackTimeoutMs,omitempty"`
	CloseTimeoutMs int      `json:"closeTimeoutMs,omitempty"`
	IDs            []string `json:"ids,omitempty"`
	ID             string   `json:"id,omitempty"`
	Pts            [][]int  `json:"pts,omitempty"`
	CtxMs          int      `json:"ctxMs,omitempty"`
	Srcs           []string `json:"srcs,omitempty"`
	AckFlushMs     int      `json:"ackFlushMs,omitempty"`
	HookReenter    bool     `json:"hookReenter,omitempty"` // openUp: the send / ack hooks call back into their stream (State())
	Tag            int      `json:"tag,omitempty"`
	Wait           bool     `json:"wait,omitempty"` // driver waits for completion before the next step
	Must           bool     `json:"must,omitempty"` // a failure makes the run inconclusive
	// broker actions
	Seqs    []int          `json:"seqs,omitempty"`
	Codes   []int          `json:"codes,omitempty"`
	Aliases map[string]int `json:"aliases,omitempty"`
	All     bool           `json:"all,omitempty"`
	Mode    string         `json:"mode,omitempty"`
	Rule    *Rule          `json:"rule,omitempty"`
	Dial    []DialStep     `json:"dial,omitempty"`
	Gate    string         `json:"gate,omitempty"`
	Up      string         `json:"up,omitempty"`   // sendChunk: upstream abstract name
	UpF     string         `json:"upF,omitempty"`  // info | alias
	UpAl    int            `json:"upAl,omitempty"` // alias number if UpF=alias
	Seq     int            `json:"seq,omitempty"`
	Groups  []ChunkGroup   `json:"groups,omitempty"`
	Src     string         `json:"src,omitempty"`
	CallID  string         `json:"callID,omitempty"`
	ReqID   string         `json:"reqID,omitempty"`
	Code    int            `json:"code,omitempty"`
	C       int            `json:"c,omitempty"` // incarnation (0 = current)
	// sync
	Ev    string         `json:"ev,omitempty"`
	Match map[string]any `json:"match,omitempty"`
	Ms    int            `json:"ms,omitempty"`
	N     int            `json:"n,omitempty"`
	// the bound that governs this call in ms (default: CtxMs); logged with ApiCall/ApiRet for the timing monitors
	BoundMs int `json:"boundMs,omitempty"`
}

type ConnCfg struct {
	PingMs         []int  `json:"pingMs,omitempty"` // [interval, timeout]
	DialDelayMs    int    `json:"dialDelayMs,omitempty"`
	Storage        string `json:"storage,omitempty"` // "" (library default) | payload | nopayload
	NodeID         string `json:"nodeID,omitempty"`
	CloseDelayMs   int    `json:"closeDelayMs,omitempty"`   // the client transport's Close blocks that long (closing handshake with a silent peer)
	Unreliable     bool   `json:"unreliable,omitempty"`     // offer a second, unreliable transport (AsUnreliable)
	Encoding       string `json:"encoding,omitempty"`       // "" = protobuf (library default) | "json"
	AliasReuse     bool   `json:"aliasReuse,omitempty"`     // the broker hands out the stream aliases of closed upstreams again
	OnReconnected  string `json:"onReconnected,omitempty"`  // "sendMeta": the application's Reconnected handler sends a metadata request
	OnDisconnected string `json:"onDisconnected,omitempty"` // "closeConn": the application's Disconnected handler closes the connection (again)
}

type Scenario struct {
	ID    string  `json:"id"`
	Kind  string  `json:"kind"`
	Conn  ConnCfg `json:"conn"`
	WdMs  int     `json:"wdMs,omitempty"` // watchdog for API calls (default 5000)
	Steps []Step  `json:"steps"`
	// free-form parameters for component drivers
	P map[string]any `json:"p,omitempty"`
}

// ErrClass classifies an error for the trace.
func ErrClass(err error) string {
	switch {
	case err == nil:
		return ""
	case errors.Is(err, errors.ErrStreamClosed):
		return "streamClosed"
	case errors.Is(err, errors.ErrConnectionClosed):
		return "connClosed"
	case stderrors.Is(err, context.DeadlineExceeded), stderrors.Is(err, context.Canceled):
		return "ctx"
	}
	if fe, ok := errors.AsFailedMessageError(err); ok {
		return fmt.Sprintf("failed:%d", int(fe.ResultCode))
	}
	var fe2 *errors.FailedMessageError
	if stderrors.As(err, &fe2) {
		return fmt.Sprintf("failed:%d", int(fe2.ResultCode))
	}
	s := err.Error()
	if len(s) > 60 {
		s = s[:60]
	}
	return "other:" + s
}

func isISCP(err error) bool { return err != nil && errors.Is(err, errors.ErrISCP) }

type proc struct {
	name string
	q    chan func()
	busy sync.WaitGroup
	mu   sync.Mutex
	n    int // steps in flight or queued
	cond *sync.Cond
}

// Driver runs one iscp-level scenario.
type Driver struct {
	arena []*message.DataPoint // backing array shared by the argument slices of all writes
	sc    *Scenario
	rec   *Rec
	b     *Broker
	conn  *iscp.Conn

	mu     sync.Mutex
	ups    map[string]*iscp.Upstream
	downs  map[string]*iscp.Downstream
	sids   map[string]string // obj -> sid
	procs  map[string]*proc
	incon  []string // reasons the run is inconclusive
	wd     time.Duration
	calls  map[string]string // tag -> callID
	bounds map[string]int    // process -> bound (ms) of the call it is executing
}

func NewDriver(sc *Scenario) *Driver {
	rec := NewRec(sc.ID)
	brk := NewBrokerEnc(rec, sc.Conn.Encoding)
	brk.SetAliasReuse(sc.Conn.AliasReuse)
	d := &Driver{sc: sc, rec: rec, b: brk,
		ups: map[string]*iscp.Upstream{}, downs: map[string]*iscp.Downstream{}, sids: map[string]string{},
		procs: map[string]*proc{}, calls: map[string]string{}}
	d.wd = 5 * time.Second
	if sc.WdMs > 0 {
		d.wd = time.Duration(sc.WdMs) * time.Millisecond
	}
	d.b.Unreliable = sc.Conn.Unreliable
	d.b.CloseDelayMs = sc.Conn.CloseDelayMs
	if sc.Conn.DialDelayMs > 0 {
		d.b.dialDef = DialStep{Do: "ok", DelayMs: sc.Conn.DialDelayMs}
	}
	return d
}

func (d *Driver) Rec() *Rec { return d.rec }

func (d *Driver) inconclusive(why string) {
	d.mu.Lock()
	d.incon = append(d.incon, why)
	d.mu.Unlock()
	d.rec.Log("Inconclusive", "why", why)
}

func (d *Driver) proc(name string) *proc {
	d.mu.Lock()
	defer d.mu.Unlock()
	p, ok := d.procs[name]
	if !ok {
		p = &proc{name: name, q: make(chan func(), 1024)}
		p.cond = sync.NewCond(&p.mu)
		d.procs[name] = p
		go func() {
			for f := range p.q {
				f()
				p.mu.Lock()
				p.n--
				p.cond.Broadcast()
				p.mu.Unlock()
			}
		}()
	}
	return p
}

// waitIdle waits until process p has no step in flight (bounded).
func (p *proc) waitIdle(timeout time.Duration) bool {
	deadline := time.Now().Add(timeout)
	t := time.AfterFunc(timeout, func() { p.mu.Lock(); p.cond.Broadcast(); p.mu.Unlock() })
	defer t.Stop()
	p.mu.Lock()
	defer p.mu.Unlock()
	for p.n > 0 {
		if !time.Now().Before(deadline) {
			return false
		}
		p.cond.Wait()
	}
	return true
}

func qosOf(s string) message.QoS {
	switch s {
	case "reliable":
		return message.QoSReliable
	case "partial":
		return message.QoSPartial
	default:
		return message.QoSUnreliable
	}
}

func (d *Driver) ctx(ms int) (context.Context, context.CancelFunc) {
	if ms < 0 { // a context that is already done when the call starts
		c, cancel := context.WithCancel(context.Background())
		cancel()
		return c, cancel
	}
	if ms > 0 {
		return context.WithTimeout(context.Background(), time.Duration(ms)*time.Millisecond)
	}
	return context.WithCancel(context.Background())
}

// bounded runs a context-less library call (State()) that must return at once; if it has not returned within the watchdog
// time this is recorded as an observation (Watchdog event) and the script goes on without its result.
func (d *Driver) bounded(op, obj string, f func()) bool {
	done := make(chan struct{})
	go func() {
		defer close(done)
		f()
	}()
	select {
	case <-done:
		return true
	case <-time.After(d.wd):
		d.rec.Log("Watchdog", "g", "main", "op", op, "obj", obj, "boundMs", int(d.wd/time.Millisecond))
		return false
	}
}

// api wraps one API call with ApiCall/ApiRet events and a watchdog.
func (d *Driver) api(g, op, obj string, kv []any, f func() (error, []any)) error {
	d.mu.Lock()
	bound := d.bounds[g]
	d.mu.Unlock()
	kv = append([]any{"g", g, "op", op, "obj", obj, "boundMs", bound}, kv...)
	ci := d.rec.Log("ApiCall", kv...)
	start := time.Now()
	done := make(chan struct{})
	go func() {
		select {
		case <-done:
		case <-time.After(d.wd):
			d.rec.Log("Watchdog", "g", g, "op", op, "obj", obj, "boundMs", int(d.wd/time.Millisecond))
		}
	}()
	var err error
	var res []any
	func() {
		defer func() {
			if r := recover(); r != nil {
				d.rec.Log("Panic", "g", g, "op", op, "obj", obj, "msg", fmt.Sprint(r))
				err = fmt.Errorf("panic: %v", r)
			}
		}()
		err, res = f()
	}()
	close(done)
	out := []any{"g", g, "op", op, "obj", obj, "err", ErrClass(err), "isISCP", isISCP(err), "durMs", int(time.Since(start) / time.Millisecond), "ci", ci, "boundMs", bound}
	out = append(out, res...)
	d.rec.Log("ApiRet", out...)
	return err
}

func sortedGroups(dpgs iscp.DataPointGroups) []Ev {
	out := make([]Ev, 0, len(dpgs))
	for _, g := range dpgs {
		name := g.DataID.Name
		if g.DataID.Type != "t" {
			name = g.DataID.Name + ":" + g.DataID.Type
		}
		out = append(out, Ev{"id": name, "pts": AbsPoints(g.DataPoints)})
	}
	sort.SliceStable(out, func(i, j int) bool { return out[i]["id"].(string) < out[j]["id"].(string) })
	return out
}

// Run executes the scenario and returns the recorder.
func (d *Driver) Run() *Rec {
	Register()
	brokersMu.Lock()
	brokers[d.sc.ID] = d.b
	brokersMu.Unlock()
	defer func() {
		brokersMu.Lock()
		delete(brokers, d.sc.ID)
		brokersMu.Unlock()
	}()
	params := d.sc.P
	if params == nil {
		params = map[string]any{}
	}
	d.rec.Log("Reset", "kind", d.sc.Kind, "p", params)
	for idx := range d.sc.Steps {
		st := &d.sc.Steps[idx]
		if st.G == "" {
			d.exec(st, "main")
			continue
		}
		p := d.proc(st.G)
		// issue order = script order: wait until the process is idle
		if !p.waitIdle(d.wd + 2*time.Second) {
			// a call that never returned is an observation (Watchdog/Stuck events), not a harness problem:
			// the rest of the script is skipped and the monitors judge what was recorded
			d.rec.Log("Stuck", "g", st.G, "at", idx)
			break
		}
		p.mu.Lock()
		p.n++
		p.mu.Unlock()
		started := make(chan struct{})
		p.q <- func() { close(started); d.exec(st, st.G) }
		<-started
		if st.Wait {
			p.waitIdle(d.wd + 2*time.Second)
		}
	}
	// wait for all processes (bounded)
	d.mu.Lock()
	ps := make([]*proc, 0, len(d.procs))
	for _, p := range d.procs {
		ps = append(ps, p)
	}
	d.mu.Unlock()
	for _, p := range ps {
		if !p.waitIdle(d.wd + 2*time.Second) {
			d.rec.Log("Stuck", "g", p.name, "at", -1)
		}
	}
	d.b.CloseAll()
	d.rec.Log("End")
	return d.rec
}

func (d *Driver) up(obj string) *iscp.Upstream {
	d.mu.Lock()
	defer d.mu.Unlock()
	return d.ups[obj]
}

func (d *Driver) down(obj string) *iscp.Downstream {
	d.mu.Lock()
	defer d.mu.Unlock()
	return d.downs[obj]
}

func (d *Driver) sid(obj string) string {
	d.mu.Lock()
	defer d.mu.Unlock()
	return d.sids[obj]
}

func (d *Driver) policyOpt(p *Policy) iscp.UpstreamOption {
	if p == nil {
		return iscp.WithUpstreamFlushPolicyNone()
	}
	switch p.K {
	case "default":
		// no option at all: the library's own default policy (one package-level instance shared by every stream that does not choose)
		return func(*iscp.UpstreamConfig) {}
	case "interval":
		return iscp.WithUpstreamFlushPolicyIntervalOnly(time.Duration(p.Ms) * time.Millisecond)
	case "size":
		return iscp.WithUpstreamFlushPolicyBufferSizeOnly(uint32(p.Size))
	case "intervalOrSize":
		return iscp.WithUpstreamFlushPolicyIntervalOrBufferSize(time.Duration(p.Ms)*time.Millisecond, uint32(p.Size))
	case "immediate":
		return iscp.WithUpstreamFlushPolicyImmediately()
	default:
		return iscp.WithUpstreamFlushPolicyNone()
	}
}

func matchEv(e Ev, ev string, m map[string]any) bool {
	if e["ev"] != ev {
		return false
	}
	for k, v := range m {
		x, ok := e[k]
		if !ok {
			return false
		}
		if fmt.Sprint(x) != fmt.Sprint(normNum(v)) {
			return false
		}
	}
	return true
}

func normNum(v any) any {
	if f, ok := v.(float64); ok && f == float64(int(f)) {
		return int(f)
	}
	return v
}

func (d *Driver) exec(st *Step, g string) {
	b := st.BoundMs
	if b == 0 {
		b = st.CtxMs
	}
	d.mu.Lock()
	if d.bounds == nil {
		d.bounds = map[string]int{}
	}
	d.bounds[g] = b
	d.mu.Unlock()
	switch st.A {
	case "connect":
		opts := []iscp.ConnOption{
			iscp.WithConnTokenSource(iscp.TokenSourceFunc(func() (iscp.Token, error) { return iscp.Token(d.b.NextToken()), nil })),
			iscp.WithConnDisconnectedEventHandler(iscp.DisconnectedEventHandlerFunc(func(*iscp.DisconnectedEvent) {
				d.rec.Log("Disconnected")
				d.b.HandlerHold("Disconnected") // an application handler may take its time (step holdHandler)
				if d.sc.Conn.OnDisconnected == "closeConn" && d.conn != nil {
					// a clean-up handler that closes whatever is left of the connection
					d.api("DH", "CloseConn", "conn", nil, func() (error, []any) {
						ctx, cancel := d.ctx(2000)
						defer cancel()
						return d.conn.Close(ctx), nil
					})
				}
			})),
			iscp.WithConnReconnectedEventHandler(iscp.ReconnectedEventHandlerFunc(func(*iscp.ReconnectedEvent) {
				d.rec.Log("Reconnected")
				d.b.HandlerHold("Reconnected") // an application handler may take its time (step holdHandler)
				if d.sc.Conn.OnReconnected == "sendMeta" {
					// an application that sends its base time again whenever the connection is back
					d.api("RH", "SendMeta", "conn", []any{"tag", 77}, func() (error, []any) {
						ctx, cancel := d.ctx(2000)
						defer cancel()
						return d.conn.SendBaseTime(ctx, &message.BaseTime{SessionID: "s", Name: "n", Priority: 77, BaseTime: time.Unix(1, 0).UTC()}), []any{"tag", 77}
					})
				}
			})),
			iscp.WithConnNodeID("node-" + d.sc.ID),
		}
		if d.sc.Conn.Encoding == "json" {
			opts = append(opts, iscp.WithConnEncoding(iscp.EncodingNameJSON))
		}
		if len(d.sc.Conn.PingMs) == 2 {
			opts = append(opts, iscp.WithConnPingInterval(time.Duration(d.sc.Conn.PingMs[0])*time.Millisecond),
				iscp.WithConnPingTimeout(time.Duration(d.sc.Conn.PingMs[1])*time.Millisecond))
		}
		switch d.sc.Conn.Storage {
		case "payload":
			opts = append(opts, iscp.VerifWithSentStorage(iscp.VerifNewInmemSentStorage()))
		case "logged":
			opts = append(opts, iscp.VerifWithSentStorage(&loggedStorage{inner: iscp.VerifNewInmemSentStorage(), d: d}))
		case "nopayload":
			opts = append(opts, iscp.VerifWithSentStorage(iscp.VerifNewInmemSentStorageNoPayload()))
		}
		err := d.api(g, "Connect", "conn", nil, func() (error, []any) {
			c, err := iscp.Connect(d.sc.ID, MemTransport, opts...)
			if err == nil {
				d.conn = c
			}
			return err, nil
		})
		if err != nil && st.Must {
			d.inconclusive("connect failed: " + err.Error())
		}
	case "openUp":
		obj := st.Obj
		opts := []iscp.UpstreamOption{
			iscp.WithUpstreamQoS(qosOf(st.QoS)),
			d.policyOpt(st.Policy),
			iscp.WithUpstreamSendDataPointsHooker(iscp.SendDataPointsHookerFunc(func(id uuid.UUID, c iscp.UpstreamChunk) {
				d.rec.Log("HookBefore", "sid", d.b.SidOf(id), "seq", int(c.SequenceNumber), "groups", sortedGroups(c.DataPointGroups))
				if st.HookReenter {
					if u := d.up(obj); u != nil {
						s := u.State()
						d.rec.Log("HookState", "sid", d.b.SidOf(id), "hook", "before", "total", int(s.TotalDataPoints))
					}
				}
			})),
			iscp.WithUpstreamReceiveAckHooker(iscp.ReceiveAckHookerFunc(func(id uuid.UUID, r iscp.UpstreamChunkResult) {
				d.rec.Log("HookAfter", "sid", d.b.SidOf(id), "seq", int(r.SequenceNumber), "code", int(r.ResultCode))
				d.b.HandlerHold("HookAfter") // an application hook may take its time (step holdHandler)
				if st.HookReenter {
					if u := d.up(obj); u != nil {
						s := u.State()
						d.rec.Log("HookState", "sid", d.b.SidOf(id), "hook", "after", "total", int(s.TotalDataPoints))
					}
				}
			})),
			iscp.WithUpstreamResumedEventHandler(iscp.UpstreamResumedEventHandlerFunc(func(ev *iscp.UpstreamResumedEvent) {
				d.rec.Log("UpResumed", "sid", d.b.SidOf(ev.ID))
				d.b.HandlerHold("UpResumed")
			})),
			iscp.WithUpstreamClosedEventHandler(iscp.UpstreamClosedEventHandlerFunc(func(ev *iscp.UpstreamClosedEvent) {
				d.rec.Log("UpClosed", "obj", obj, "sid", d.sid(obj), "err", ErrClass(ev.Err), "total", int(ev.State.TotalDataPoints), "lastSeq", int(ev.State.LastIssuedSequenceNumber))
				d.b.HandlerHold("UpClosed")
			})),
		}
		if st.AckTimeoutMs != 0 {
			opts = append(opts, iscp.WithUpstreamAckTimeout(time.Duration(st.AckTimeoutMs)*time.Millisecond))
		}
		if st.CloseTimeoutMs != 0 {
			opts = append(opts, iscp.WithUpstreamCloseTimeout(time.Duration(st.CloseTimeoutMs)*time.Millisecond))
		}
		if len(st.IDs) > 0 {
			ids := []*message.DataID{}
			for _, n := range st.IDs {
				ids = append(ids, DataID(n))
			}
			opts = append(opts, iscp.WithUpstreamDataIDs(ids))
		}
		pol := "none"
		if st.Policy != nil {
			pol = st.Policy.K
		}
		err := d.api(g, "OpenUpstream", obj, []any{"qos", st.QoS, "policy", pol, "closeTimeoutMs", st.CloseTimeoutMs, "ackTimeoutMs", st.AckTimeoutMs}, func() (error, []any) {
			ctx, cancel := d.ctx(st.CtxMs)
			defer cancel()
			u, err := d.conn.OpenUpstream(ctx, obj, opts...)
			if err != nil {
				return err, []any{"sid", ""}
			}
			sid := d.b.SidOf(u.ID)
			d.mu.Lock()
			d.ups[obj] = u
			d.sids[obj] = sid
			d.mu.Unlock()
			return nil, []any{"sid", sid, "closeTimeoutMs", st.CloseTimeoutMs, "ackTimeoutMs", st.AckTimeoutMs}
		})
		if err != nil && st.Must {
			d.inconclusive("openUp failed: " + err.Error())
		}
	case "write":
		u := d.up(st.Obj)
		if u == nil {
			d.rec.Log("Skip", "a", st.A, "obj", st.Obj)
			return
		}
		// the points of all writes of a scenario are sub-slices of one larger batch (spare capacity behind every argument slice), as an
		// application does that decodes a batch and hands out its parts: the library must not keep or append to the caller's slice
		d.mu.Lock()
		if d.arena == nil || len(d.arena)+len(st.Pts) > cap(d.arena) {
			d.arena = make([]*message.DataPoint, 0, 4096)
		}
		start := len(d.arena)
		for _, p := range st.Pts {
			d.arena = append(d.arena, MkPoint(p[0], p[1]))
		}
		pts := d.arena[start:len(d.arena)]
		d.mu.Unlock()
		d.api(g, "Write", st.Obj, []any{"sid", d.sid(st.Obj), "id", st.ID, "pts", AbsPoints(pts)}, func() (error, []any) {
			ctx, cancel := d.ctx(st.CtxMs)
			defer cancel()
			return u.WriteDataPoints(ctx, DataID(st.ID), pts...), []any{"sid", d.sid(st.Obj), "id", st.ID, "pts", AbsPoints(pts)}
		})
	case "flush":
		u := d.up(st.Obj)
		if u == nil {
			d.rec.Log("Skip", "a", st.A, "obj", st.Obj)
			return
		}
		d.api(g, "Flush", st.Obj, []any{"sid", d.sid(st.Obj)}, func() (error, []any) {
			ctx, cancel := d.ctx(st.CtxMs)
			defer cancel()
			err := u.Flush(ctx)
			s := u.State()
			return err, []any{"sid", d.sid(st.Obj), "total", int(s.TotalDataPoints), "lastSeq", int(s.LastIssuedSequenceNumber), "bufN", bufCount(s)}
		})
	case "closeUp":
		u := d.up(st.Obj)
		if u == nil {
			d.rec.Log("Skip", "a", st.A, "obj", st.Obj)
			return
		}
		d.api(g, "CloseUp", st.Obj, []any{"sid", d.sid(st.Obj)}, func() (error, []any) {
			ctx, cancel := d.ctx(st.CtxMs)
			defer cancel()
			return u.Close(ctx), []any{"sid", d.sid(st.Obj)}
		})
	case "state":
		if u := d.up(st.Obj); u != nil {
			var s *iscp.UpstreamState
			if !d.bounded("State", st.Obj, func() { s = u.State() }) {
				return
			}
			al := [][]any{}
			for a, id := range s.DataIDAliases {
				al = append(al, []any{int(a), id.Name})
			}
			sort.Slice(al, func(i, j int) bool { return al[i][0].(int) < al[j][0].(int) })
			d.rec.Log("State", "obj", st.Obj, "sid", d.sid(st.Obj), "total", int(s.TotalDataPoints), "lastSeq", int(s.LastIssuedSequenceNumber),
				"buf", sortedGroups(s.DataPointsBuffer), "bufN", bufCount(s), "aliases", al)
		}
	case "openDown":
		obj := st.Obj
		filters := []*message.DownstreamFilter{}
		for _, s := range st.Srcs {
			filters = append(filters, message.NewDownstreamFilterAllFor(s))
		}
		opts := []iscp.DownstreamOption{
			iscp.WithDownstreamQoS(qosOf(st.QoS)),
			iscp.WithDownstreamResumedEventHandler(iscp.DownstreamResumedEventHandlerFunc(func(ev *iscp.DownstreamResumedEvent) {
				d.rec.Log("DownResumed", "sid", d.b.SidOf(ev.ID))
				d.b.HandlerHold("DownResumed")
			})),
			iscp.WithDownstreamClosedEventHandler(iscp.DownstreamClosedEventHandlerFunc(func(ev *iscp.DownstreamClosedEvent) {
				d.rec.Log("DownClosed", "obj", obj, "sid", d.sid(obj), "err", ErrClass(ev.Err))
				d.b.HandlerHold("DownClosed")
			})),
		}
		if st.AckFlushMs > 0 {
			opts = append(opts, iscp.WithDownstreamAckFlushInterval(time.Duration(st.AckFlushMs)*time.Millisecond))
		}
		if len(st.IDs) > 0 {
			ids := []*message.DataID{}
			for _, n := range st.IDs {
				ids = append(ids, DataID(n))
			}
			opts = append(opts, iscp.WithDownstreamDataIDs(ids))
		}
		err := d.api(g, "OpenDownstream", obj, []any{"qos", st.QoS}, func() (error, []any) {
			ctx, cancel := d.ctx(st.CtxMs)
			defer cancel()
			dn, err := d.conn.OpenDownstream(ctx, filters, opts...)
			if err != nil {
				return err, []any{"sid", ""}
			}
			sid := d.b.SidOf(dn.ID)
			d.mu.Lock()
			d.downs[obj] = dn
			d.sids[obj] = sid
			d.mu.Unlock()
			return nil, []any{"sid", sid}
		})
		if err != nil && st.Must {
			d.inconclusive("openDown failed: " + err.Error())
		}
	case "read":
		dn := d.down(st.Obj)
		if dn == nil {
			d.rec.Log("Skip", "a", st.A, "obj", st.Obj)
			return
		}
		d.api(g, "Read", st.Obj, []any{"sid", d.sid(st.Obj)}, func() (error, []any) {
			ctx, cancel := d.ctx(st.CtxMs)
			defer cancel()
			c, err := dn.ReadDataPoints(ctx)
			if err != nil || c == nil {
				return err, []any{"sid", d.sid(st.Obj), "seq", 0, "up", "", "upSession", "", "upNode", "", "groups", []Ev{}}
			}
			gs := make([]Ev, 0, len(c.DataPointGroups))
			for _, g := range c.DataPointGroups {
				gs = append(gs, Ev{"id": g.DataID.Name, "pts": AbsPoints(g.DataPoints)})
			}
			return nil, []any{"sid", d.sid(st.Obj), "seq", int(c.SequenceNumber), "up", d.b.upKeyOf(c.UpstreamInfo.StreamID),
				"upSession", c.UpstreamInfo.SessionID, "upNode", c.UpstreamInfo.SourceNodeID, "groups", gs}
		})
	case "readMeta":
		dn := d.down(st.Obj)
		if dn == nil {
			d.rec.Log("Skip", "a", st.A, "obj", st.Obj)
			return
		}
		d.api(g, "ReadMeta", st.Obj, []any{"sid", d.sid(st.Obj)}, func() (error, []any) {
			ctx, cancel := d.ctx(st.CtxMs)
			defer cancel()
			m, err := dn.ReadMetadata(ctx)
			if err != nil || m == nil {
				return err, []any{"sid", d.sid(st.Obj), "src", "", "tag", 0}
			}
			tag := 0
			if nc, ok := m.Metadata.(*message.UpstreamNormalClose); ok {
				tag = int(nc.TotalDataPoints)
			}
			if bt, ok := m.Metadata.(*message.BaseTime); ok {
				tag = int(bt.ElapsedTime)
			}
			return nil, []any{"sid", d.sid(st.Obj), "src", m.SourceNodeID, "tag", tag}
		})
	case "downState":
		if dn := d.down(st.Obj); dn != nil {
			var s *iscp.DownstreamState
			if !d.bounded("DownState", st.Obj, func() { s = dn.State() }) {
				return
			}
			ua := [][]any{}
			for a, info := range s.UpstreamInfos {
				ua = append(ua, []any{int(a), d.b.upKeyOf(info.StreamID)})
			}
			sort.Slice(ua, func(i, j int) bool { return ua[i][0].(int) < ua[j][0].(int) })
			da := [][]any{}
			for a, id := range s.DataIDAliases {
				da = append(da, []any{int(a), id.Name})
			}
			sort.Slice(da, func(i, j int) bool { return da[i][0].(int) < da[j][0].(int) })
			d.rec.Log("DownState", "obj", st.Obj, "sid", d.sid(st.Obj), "upAliases", ua, "idAliases", da,
				"lastAck", int(s.LastIssuedChunkAckID), "lastUpAlias", int(s.LastIssuedUpstreamInfoAlias), "lastIdAlias", int(s.LastIssuedDataIDAlias))
		}
	case "closeDown":
		dn := d.down(st.Obj)
		if dn == nil {
			d.rec.Log("Skip", "a", st.A, "obj", st.Obj)
			return
		}
		d.api(g, "CloseDown", st.Obj, []any{"sid", d.sid(st.Obj)}, func() (error, []any) {
			ctx, cancel := d.ctx(st.CtxMs)
			defer cancel()
			return dn.Close(ctx), []any{"sid", d.sid(st.Obj)}
		})
	case "sendMeta":
		d.api(g, "SendMeta", "conn", []any{"tag", st.Tag}, func() (error, []any) {
			ctx, cancel := d.ctx(st.CtxMs)
			defer cancel()
			return d.conn.SendBaseTime(ctx, &message.BaseTime{SessionID: "s", Name: "n", Priority: uint8(st.Tag), BaseTime: time.Unix(1, 0).UTC()}), []any{"tag", st.Tag}
		})
	case "call", "callWait", "replyCall":
		payload := []byte(fmt.Sprintf("call-%s-%d", g, st.Tag))
		d.api(g, map[string]string{"call": "SendCall", "callWait": "SendCallWait", "replyCall": "SendReplyCall"}[st.A], "conn",
			[]any{"tag", st.Tag, "psum", sum30(payload)}, func() (error, []any) {
				ctx, cancel := d.ctx(st.CtxMs)
				defer cancel()
				switch st.A {
				case "call":
					id, err := d.conn.SendCall(ctx, &iscp.UpstreamCall{DestinationNodeID: "dst", Name: "nm", Type: "ty", Payload: payload})
					return err, []any{"tag", st.Tag, "callID", id, "psum", sum30(payload)}
				case "replyCall":
					id, err := d.conn.SendReplyCall(ctx, &iscp.UpstreamReplyCall{RequestCallID: st.ReqID, DestinationNodeID: "dst", Name: "nm", Type: "ty", Payload: payload})
					return err, []any{"tag", st.Tag, "callID", id, "psum", sum30(payload)}
				default:
					r, err := d.conn.SendCallAndWaitReplayCall(ctx, &iscp.UpstreamCall{DestinationNodeID: "dst", Name: "nm", Type: "ty", Payload: payload})
					if err != nil || r == nil {
						return err, []any{"tag", st.Tag, "psum", sum30(payload), "replyCallID", "", "replyReq", "", "replySum", 0}
					}
					return nil, []any{"tag", st.Tag, "psum", sum30(payload), "replyCallID", r.CallID, "replyReq", r.RequestCallID, "replySum", sum30(r.Payload)}
				}
			})
	case "recvCall", "recvReply":
		d.api(g, map[string]string{"recvCall": "ReceiveCall", "recvReply": "ReceiveReplyCall"}[st.A], "conn", nil, func() (error, []any) {
			ctx, cancel := d.ctx(st.CtxMs)
			defer cancel()
			if st.A == "recvCall" {
				c, err := d.conn.ReceiveCall(ctx)
				if err != nil || c == nil {
					return err, []any{"callID", "", "reqCallID", "", "psum", 0, "src", "", "name", ""}
				}
				return nil, []any{"callID", c.CallID, "reqCallID", "", "psum", sum30(c.Payload), "src", c.SourceNodeID, "name", c.Name}
			}
			c, err := d.conn.ReceiveReplyCall(ctx)
			if err != nil || c == nil {
				return err, []any{"callID", "", "reqCallID", "", "psum", 0, "src", "", "name", ""}
			}
			return nil, []any{"callID", c.CallID, "reqCallID", c.RequestCallID, "psum", sum30(c.Payload), "src", c.SourceNodeID, "name", c.Name}
		})
	case "closeConn":
		if d.conn == nil {
			return
		}
		d.api(g, "CloseConn", "conn", nil, func() (error, []any) {
			ctx, cancel := d.ctx(st.CtxMs)
			defer cancel()
			return d.conn.Close(ctx), nil
		})

	// ---------------- broker-side actions ----------------
	case "ackMode":
		d.b.mu.Lock()
		d.b.ackMode = st.Mode
		d.b.mu.Unlock()
	case "callAckMode":
		d.b.mu.Lock()
		d.b.callAck = st.Mode
		d.b.mu.Unlock()
	case "silent":
		d.b.mu.Lock()
		d.b.silent = st.Mode != "off"
		d.b.mu.Unlock()
		d.rec.Log("BSilent", "on", st.Mode != "off")
	case "pongOff":
		d.b.mu.Lock()
		d.b.pongOff = st.Mode != "off"
		d.b.mu.Unlock()
		d.rec.Log("BPongOff", "on", st.Mode != "off")
	case "rule":
		if st.Rule != nil {
			r := *st.Rule
			if r.Obj != "" {
				r.Sid = d.sid(r.Obj)
			}
			if r.Inc < 0 { // the incarnation that is current when the rule is installed
				if inc := d.b.CurInc(); inc != nil {
					r.Inc = inc.c
				}
			}
			d.b.AddRule(&r)
		}
	case "clearRules":
		d.b.ClearRules()
	case "dialPlan":
		d.b.mu.Lock()
		d.b.dialPlan = append(d.b.dialPlan, st.Dial...)
		d.b.mu.Unlock()
	case "release":
		d.rec.Log("Release", "gate", st.Gate)
		d.b.Release(st.Gate)
	case "cut":
		inc := d.b.CurInc()
		if st.C > 0 {
			inc = d.b.IncN(st.C)
		}
		if inc != nil {
			inc.cut("script")
		}
	case "ack":
		d.doAck(st)
	case "ackUntilIdle":
		// cooperative broker tail: acknowledge whatever is still unacknowledged until process st.Src is idle
		ms := st.Ms
		if ms == 0 {
			ms = 4000
		}
		deadline := time.Now().Add(time.Duration(ms) * time.Millisecond)
		p := d.proc(st.Src)
		for time.Now().Before(deadline) {
			if p.waitIdle(10 * time.Millisecond) {
				break
			}
			if u := d.b.Up(d.sid(st.Obj)); u != nil {
				if inc := d.b.CurInc(); inc != nil && inc.alive() {
					if seqs := d.b.Unacked(u, inc.c); len(seqs) > 0 {
						if al := inc.AliasOf(u); al != 0 {
							inc.ack(u, al, seqs, nil, nil)
						}
					}
				}
			}
		}
	case "sendChunk":
		d.doSendChunk(st)
	case "sendDownMeta":
		inc := d.b.CurInc()
		dn := d.b.Down(d.sid(st.Obj))
		if inc == nil || dn == nil {
			d.rec.Log("Skip", "a", st.A, "obj", st.Obj)
			return
		}
		d.b.mu.Lock()
		d.b.nextRid += 2
		rid := d.b.nextRid
		d.b.mu.Unlock()
		alias := dn.Alias
		if st.UpAl != 0 {
			alias = uint32(st.UpAl)
		}
		var md message.Metadata = &message.BaseTime{SessionID: "s", Name: "n", ElapsedTime: time.Duration(st.Tag), BaseTime: time.Unix(1, 0).UTC()}
		if st.Mode == "upClose" {
			// the upstream st.Up has finished normally (chunks of it may still be on their way to the consumer)
			info := d.b.UpInfo(st.Up)
			md = &message.UpstreamNormalClose{StreamID: info.StreamID, SessionID: info.SessionID, TotalDataPoints: uint64(st.Tag), FinalSequenceNumber: uint32(st.Tag)}
		}
		inc.sendSync(&message.DownstreamMetadata{RequestID: message.RequestID(rid), StreamIDAlias: alias, SourceNodeID: st.Src,
			Metadata: md},
			"BSendMeta", "sid", dn.Sid, "alias", int(alias), "src", st.Src, "tag", st.Tag, "rid", int(rid))
	case "sendCall":
		inc := d.b.CurInc()
		if inc == nil {
			return
		}
		payload := []byte(fmt.Sprintf("bcall-%d", st.Tag))
		inc.sendSync(&message.DownstreamCall{CallID: st.CallID, RequestCallID: d.resolveCall(st.ReqID), SourceNodeID: "srcnode", Name: "nm", Type: "ty", Payload: payload},
			"BSendCall", "callID", st.CallID, "reqCallID", d.resolveCall(st.ReqID), "psum", sum30(payload), "tag", st.Tag)
	case "sendCallAck":
		inc := d.b.CurInc()
		if inc == nil {
			return
		}
		code := st.Code
		if code == 0 {
			code = int(message.ResultCodeSucceeded)
		}
		id := d.resolveCall(st.CallID)
		inc.sendSync(&message.UpstreamCallAck{CallID: id, ResultCode: message.ResultCode(code), ResultString: "x"}, "BSendCallAck", "callID", id, "code", code)
	case "sendPing":
		inc := d.b.CurInc()
		if inc == nil {
			return
		}
		inc.sendSync(&message.Ping{RequestID: message.RequestID(st.Tag)}, "BSendPing", "rid", st.Tag)
	case "sendResp":
		// spurious response with an arbitrary request id
		inc := d.b.CurInc()
		if inc == nil {
			return
		}
		inc.sendSync(&message.UpstreamMetadataAck{RequestID: message.RequestID(st.Tag), ResultCode: message.ResultCodeSucceeded, ResultString: "spurious"},
			"BSendResp", "kind", "Spurious", "rid", st.Tag, "code", 1)

	// ---------------- synchronisation ----------------
	case "await":
		ms := st.Ms
		if ms == 0 {
			ms = 3000
		}
		n := st.N
		if n == 0 {
			n = 1
		}
		ok := d.awaitN(st.Ev, st.Match, n, time.Duration(ms)*time.Millisecond)
		if !ok {
			d.rec.Log("AwaitTimeout", "what", st.Ev, "match", fmt.Sprint(st.Match))
			if st.Must {
				d.inconclusive("await " + st.Ev + " timed out")
			}
		}
	case "join":
		if p := d.proc(st.Obj); !p.waitIdle(d.wd + 2*time.Second) {
			d.rec.Log("Stuck", "g", st.Obj, "at", -2)
		}
	case "sleep":
		time.Sleep(time.Duration(st.Ms) * time.Millisecond)
	case "quiesce":
		ms := st.Ms
		if ms == 0 {
			ms = 150
		}
		// settle: wait until no new events for ms (bounded by 20*ms)
		last := d.rec.Activity()
		deadline := time.Now().Add(time.Duration(20*ms) * time.Millisecond)
		for time.Now().Before(deadline) {
			time.Sleep(time.Duration(ms) * time.Millisecond)
			n := d.rec.Activity()
			if n == last {
				break
			}
			last = n
		}
		d.rec.Log("Quiesced")
	case "closeBroker":
		d.b.CloseAll()
	default:
		if f, ok := ExtraSteps[st.A]; ok {
			f(d, st, g)
			return
		}
		d.rec.Log("UnknownStep", "a", st.A)
		d.inconclusive("unknown step " + st.A)
	}
}

// ExtraSteps lets other files of this package add script steps without editing exec():
// register in init(): ExtraSteps["myStep"] = func(d *Driver, st *Step, g string) { ... }.
var ExtraSteps = map[string]func(d *Driver, st *Step, g string){}

// Accessors for step extensions.
func (d *Driver) Broker() *Broker  { return d.b }
func (d *Driver) Conn() *iscp.Conn { return d.conn }
func (d *Driver) API(g, op, obj string, kv []any, f func() (error, []any)) error {
	return d.api(g, op, obj, kv, f)
}
func (d *Driver) Ctx(ms int) (context.Context, context.CancelFunc) { return d.ctx(ms) }

func bufCount(s *iscp.UpstreamState) int {
	n := 0
	for _, g := range s.DataPointsBuffer {
		n += len(g.DataPoints)
	}
	return n
}

// resolveCall maps "@tag" to the call id observed at the broker for the call with that tag.
func (d *Driver) resolveCall(s string) string {
	if !strings.HasPrefix(s, "@") {
		return s
	}
	want := s[1:]
	for _, e := range d.rec.Snapshot() {
		if e["ev"] == "ApiCall" && (e["op"] == "SendCall" || e["op"] == "SendCallWait" || e["op"] == "SendReplyCall") && fmt.Sprint(e["tag"]) == want {
			ps := e["psum"]
			for _, f := range d.rec.Snapshot() {
				if f["ev"] == "BRecvCall" && f["psum"] == ps {
					return f["callID"].(string)
				}
			}
		}
	}
	return "unknown-" + want
}

func (d *Driver) awaitN(ev string, m map[string]any, n int, timeout time.Duration) bool {
	deadline := time.Now().Add(timeout)
	for {
		if d.rec.Count(func(e Ev) bool { return matchEv(e, ev, m) }) >= n {
			return true
		}
		left := time.Until(deadline)
		if left <= 0 {
			return false
		}
		from := d.rec.Len()
		d.rec.WaitFor(from, minDur(left, 50*time.Millisecond), func(e Ev) bool { return matchEv(e, ev, m) })
	}
}

func minDur(a, b time.Duration) time.Duration {
	if a < b {
		return a
	}
	return b
}

// doAck: broker acknowledges chunks of an upstream. Waits (bounded) until the seqs have been received.
func (d *Driver) doAck(st *Step) {
	sid := d.sid(st.Obj)
	u := d.b.Up(sid)
	if u == nil {
		d.rec.Log("Skip", "a", st.A, "obj", st.Obj)
		return
	}
	ms := st.Ms
	if ms == 0 {
		ms = 400
	}
	deadline := time.Now().Add(time.Duration(ms) * time.Millisecond)
	inc := d.b.CurInc()
	if st.C > 0 {
		inc = d.b.IncN(st.C)
	}
	if inc == nil {
		return
	}
	var seqs []uint32
	if st.All {
		time.Sleep(20 * time.Millisecond)
		seqs = d.b.Unacked(u, inc.c)
	} else {
		for _, s := range st.Seqs {
			for !d.b.Received(u, uint32(s), inc.c) && time.Now().Before(deadline) {
				time.Sleep(2 * time.Millisecond)
			}
			if !d.b.Received(u, uint32(s), inc.c) {
				// the real run took another (legal) path than the model behaviour the script came from:
				// the broker never acknowledges a chunk it has not received
				d.rec.Log("AckSkipped", "seq", s)
				if st.Must {
					d.inconclusive(fmt.Sprintf("ack: chunk %d never received", s))
				}
				continue
			}
			seqs = append(seqs, uint32(s))
		}
	}
	alias := inc.AliasOf(u)
	if st.UpAl != 0 {
		alias = uint32(st.UpAl) // misaddressed ack
	}
	al := map[string]uint32{}
	for n, a := range st.Aliases {
		al[n] = uint32(a)
	}
	if len(seqs) == 0 && len(al) == 0 {
		return
	}
	inc.ack(u, alias, seqs, st.Codes, al)
}

func (d *Driver) doSendChunk(st *Step) {
	inc := d.b.CurInc()
	dn := d.b.Down(d.sid(st.Obj))
	if inc == nil || dn == nil {
		d.rec.Log("Skip", "a", st.A, "obj", st.Obj)
		return
	}
	var uoa message.UpstreamOrAlias
	info := d.b.UpInfo(st.Up)
	// alias -1 = "the alias the client announced for this name": wait (bounded) for the announcement; a broker
	// never guesses an alias it has not been told (the property does not define that case) -> the step is skipped
	waitAlias := func(get func() uint32) uint32 {
		deadline := time.Now().Add(400 * time.Millisecond)
		for {
			if a := get(); a != 0 {
				return a
			}
			if time.Now().After(deadline) {
				return 0
			}
			time.Sleep(2 * time.Millisecond)
		}
	}
	if st.UpF == "alias" && st.UpAl < 0 {
		a := waitAlias(func() uint32 { return d.b.AnnouncedUp(dn, st.Up) })
		if a == 0 {
			d.rec.Log("SendSkipped", "why", "upstream alias not announced", "up", st.Up, "seq", st.Seq)
			return
		}
		st.UpAl = int(a)
	}
	for gi := range st.Groups {
		if st.Groups[gi].F == "al" && st.Groups[gi].Al < 0 {
			name := st.Groups[gi].ID
			a := waitAlias(func() uint32 { return d.b.AnnouncedId(dn, name) })
			if a == 0 {
				d.rec.Log("SendSkipped", "why", "data id alias not announced", "id", name, "seq", st.Seq)
				return
			}
			st.Groups[gi].Al = int(a)
		} else if st.Groups[gi].F == "al" && st.Groups[gi].Al > 0 && st.Groups[gi].Al < 90 {
			// an explicit alias number: the broker uses it only if the client announced exactly this number for this
			// data id (open request or an ack received so far); aliases >= 90 are the deliberately bogus ones
			name, want := st.Groups[gi].ID, uint32(st.Groups[gi].Al)
			if waitAlias(func() uint32 {
				if d.b.AnnouncedIdAs(dn, name, want) {
					return want
				}
				return 0
			}) == 0 {
				d.rec.Log("SendSkipped", "why", "data id alias not announced under this number", "id", name, "al", int(want), "seq", st.Seq)
				return
			}
		}
	}
	if st.UpF == "alias" {
		uoa = message.UpstreamAlias(uint32(st.UpAl))
	} else {
		cp := *info
		uoa = &cp
	}
	gs := []*message.DataPointGroup{}
	lg := []Ev{}
	for _, g := range st.Groups {
		pts := []*message.DataPoint{}
		for _, p := range g.Pts {
			pts = append(pts, MkPoint(p[0], p[1]))
		}
		var ioa message.DataIDOrAlias
		if g.F == "al" {
			ioa = message.DataIDAlias(uint32(g.Al))
		} else {
			ioa = DataID(g.ID)
		}
		gs = append(gs, &message.DataPointGroup{DataIDOrAlias: ioa, DataPoints: pts})
		lg = append(lg, Ev{"f": g.F, "id": g.ID, "al": g.Al, "pts": AbsPoints(pts)})
	}
	alias := dn.Alias
	if st.C != 0 {
		alias = uint32(st.C) // misaddressed chunk
	}
	msg := &message.DownstreamChunk{StreamIDAlias: alias, UpstreamOrAlias: uoa,
		StreamChunk: &message.StreamChunk{SequenceNumber: uint32(st.Seq), DataPointGroups: gs}}
	if inc.usrv != nil && dn.QoS == message.QoSUnreliable {
		d.rec.Log("BSendChunk", "c", inc.c, "sid", dn.Sid, "alias", int(alias), "up", st.Up, "upF", st.UpF, "upAl", st.UpAl, "seq", st.Seq, "groups", lg, "path", "unreliable")
		if err := inc.usrv.Write(msg); err != nil {
			d.rec.Log("BSendFail", "c", inc.c, "of", "BSendChunk")
		}
		return
	}
	inc.sendSync(msg,
		"BSendChunk", "sid", dn.Sid, "alias", int(alias), "up", st.Up, "upF", st.UpF, "upAl", st.UpAl, "seq", st.Seq, "groups", lg)
}
