package h

// Script steps of the keep-alive check (C15), added through the ExtraSteps registry.
//
//	atMs        {c, ms}        wait until ms milliseconds after the broker sent the connect response of
//	                           incarnation c (default 1); waits (bounded, 5 s) for that response first
//	sendPingCur {}             broker-initiated ping whose request id is the id of the latest client ping the
//	                           broker received on the current incarnation (an id the client itself has in use)
//	bpingEvery  {ms, n}        n broker-initiated pings, one every ms milliseconds, sent in the background
//	stallWatch  {ms, n, mode}  scheduling-stall detector: a goroutine sleeping ms (default 2) milliseconds in a
//	                           loop logs "Stall" whenever a sleep overshoots by more than n (default 10)
//	                           milliseconds; mode "off" stops it (it stops by itself after 120 s)

import (
	"sync"
	"time"

	"github.com/aptpod/iscp-go/message"
)

var (
	stallMu    sync.Mutex
	stallStops = map[*Driver]chan struct{}{}
)

func init() {
	ExtraSteps["atMs"] = stepAtMs
	ExtraSteps["sendPingCur"] = stepSendPingCur
	ExtraSteps["strayPong"] = stepStrayPong
	ExtraSteps["stallWatch"] = stepStallWatch
	ExtraSteps["bpingEvery"] = stepBPingEvery
}

// bpingEvery {ms, n}: the broker sends n keep-alive pings of its own on the current incarnation, one every ms milliseconds, in the
// background (a broker pings at the interval the client announced, whatever else it does); it stops when that link is down.
func stepBPingEvery(d *Driver, st *Step, g string) {
	inc := d.b.CurInc()
	if inc == nil {
		return
	}
	period := time.Duration(st.Ms) * time.Millisecond
	n := st.N
	go func() {
		for k := 0; k < n; k++ {
			select {
			case <-inc.closed:
				return
			case <-time.After(period):
			}
			rid := 100001 + 2*k
			inc.sendSync(&message.Ping{RequestID: message.RequestID(rid)}, "BSendPing", "rid", rid)
		}
	}()
}

func stepAtMs(d *Driver, st *Step, g string) {
	c := st.C
	if c == 0 {
		c = 1
	}
	isResp := func(e Ev) bool {
		return e["ev"] == "BSendResp" && e["kind"] == "ConnectRequest" && e["c"] == c
	}
	find := func() (int, bool) {
		for _, e := range d.rec.Snapshot() {
			if isResp(e) {
				return e["t"].(int), true
			}
		}
		return 0, false
	}
	t0, ok := find()
	if !ok {
		d.rec.WaitFor(0, 5*time.Second, isResp)
		if t0, ok = find(); !ok {
			d.rec.Log("AwaitTimeout", "what", "atMs", "match", "connect response of incarnation")
			return
		}
	}
	if left := time.Duration(t0+st.Ms*1000-d.rec.NowUs()) * time.Microsecond; left > 0 {
		time.Sleep(left)
	}
}

func stepSendPingCur(d *Driver, st *Step, g string) {
	inc := d.b.CurInc()
	if inc == nil {
		return
	}
	rid := 0
	for _, e := range d.rec.Snapshot() {
		if e["ev"] == "BRecvPing" && e["c"] == inc.c {
			rid = e["rid"].(int)
		}
	}
	inc.sendSync(&message.Ping{RequestID: message.RequestID(rid)}, "BSendPing", "rid", rid)
}

// strayPong {tag}: the broker sends a Pong nobody is waiting for: tag 0 = once more the id of the latest client ping it received (a
// duplicate of an answer already given), otherwise the given id (one the client never issued). Logged as BStrayPong - it answers nothing.
func stepStrayPong(d *Driver, st *Step, g string) {
	inc := d.b.CurInc()
	if inc == nil {
		return
	}
	rid := st.Tag
	if rid == 0 {
		for _, e := range d.rec.Snapshot() {
			if e["ev"] == "BRecvPing" && e["c"] == inc.c {
				rid = e["rid"].(int)
			}
		}
	}
	inc.sendSync(&message.Pong{RequestID: message.RequestID(rid)}, "BStrayPong", "rid", rid)
}

func stepStallWatch(d *Driver, st *Step, g string) {
	stallMu.Lock()
	old := stallStops[d]
	delete(stallStops, d)
	stallMu.Unlock()
	if old != nil {
		close(old)
	}
	if st.Mode == "off" {
		return
	}
	period := time.Duration(st.Ms) * time.Millisecond
	if period <= 0 {
		period = 2 * time.Millisecond
	}
	thr := time.Duration(st.N) * time.Millisecond
	if thr <= 0 {
		thr = 10 * time.Millisecond
	}
	stop := make(chan struct{})
	stallMu.Lock()
	stallStops[d] = stop
	stallMu.Unlock()
	go func() {
		end := time.Now().Add(120 * time.Second)
		for time.Now().Before(end) {
			t0 := time.Now()
			select {
			case <-stop:
				return
			case <-time.After(period):
			}
			if over := time.Since(t0) - period; over > thr {
				d.rec.Log("Stall", "ms", int(over/time.Millisecond))
			}
		}
	}()
}
