// Package reqreply is the component driver of C06: request / response correlation of
// wire.ClientConn. It runs directly on wire.Connect over transport.Pipe() wrapped in
// encoding.NewTransport (no iscp layer). n callers issue typed requests of mixed kinds
// concurrently; a scripted broker goroutine on the server end answers the handshake,
// collects the requests and answers them in the scripted order with scripted duplicates,
// spurious ids, delays; caller contexts are cancelled at scripted points.
//
// Responses are made distinguishable by stamping "rid=<id>;tag=<caller>;how=<ans|dup|spur>"
// into ResultString (open / resume responses also carry AssignedStreamID(Alias) derived
// from the caller tag). The broker learns which request belongs to which caller from a
// caller-specific request field (SessionID, DesiredStreamIDAlias, BaseTime.Name, StreamID).
//
// cross{n} = a response of another kind bearing caller n's request id.
// Script (sc.Steps): start{n} | startgrp{ids: tags started concurrently} | startall | cancel{n} | ans{n} (n = 0: the pong of the first
// keep-alive ping) | dup{n} | spur{seq: id} | ptimeout | sleep{ms}; every op may carry ms = delay
// before the op. sc.P: n, kinds[n], mode = "sync" (wait for the observable effect of every
// op: the environment projection with internal steps run to quiescence) | "burst" (no waits),
// idStart (position of the request id counter after the handshake), holdPong (the first pong is scripted), pingMs [interval, timeout], wdMs (watchdog), procs (GOMAXPROCS during the scenario), queued (the client end of the pipe is
// wrapped by a queue: the broker's writes never wait for the client, and the ops hold / release make the client's transport
// deliver everything the broker wrote in between back to back - a burst in the network).
package reqreply

import (
	"context"
	stderrors "errors"
	"fmt"
	"runtime"
	"strings"
	"sync"
	"time"

	"verifharness/h"

	"github.com/aptpod/iscp-go/encoding"
	"github.com/aptpod/iscp-go/encoding/protobuf"
	"github.com/aptpod/iscp-go/errors"
	"github.com/aptpod/iscp-go/message"
	"github.com/aptpod/iscp-go/transport"
	"github.com/aptpod/iscp-go/wire"
	uuid "github.com/google/uuid"
)

func init() {
	h.Kinds["reqreply"] = run
}

// qtr decouples the broker's writes from the client's reads: a pump goroutine moves every message of the inner transport into an
// unbounded queue (decoded: what is queued is handed to the connection without further work); Read hands them out in order,
// but not while the queue is held.
type qtr struct {
	wire.EncodingTransport
	mu   sync.Mutex
	cond *sync.Cond
	q    []message.Message
	err  error
	held bool
}

func newQtr(inner wire.EncodingTransport) *qtr {
	t := &qtr{EncodingTransport: inner}
	t.cond = sync.NewCond(&t.mu)
	go func() {
		for {
			bs, err := inner.Read()
			t.mu.Lock()
			if err != nil {
				t.err = err
				t.cond.Broadcast()
				t.mu.Unlock()
				return
			}
			t.q = append(t.q, bs)
			t.cond.Broadcast()
			t.mu.Unlock()
		}
	}()
	return t
}

func (t *qtr) Read() (message.Message, error) {
	t.mu.Lock()
	defer t.mu.Unlock()
	for {
		if t.err != nil && (len(t.q) == 0 || t.held) {
			return nil, t.err
		}
		if len(t.q) > 0 && !t.held {
			bs := t.q[0]
			t.q = t.q[1:]
			return bs, nil
		}
		t.cond.Wait()
	}
}

func (t *qtr) hold(on bool) {
	t.mu.Lock()
	t.held = on
	t.cond.Broadcast()
	t.mu.Unlock()
}

// queued reports how many messages wait in the queue.
func (t *qtr) queued() int {
	t.mu.Lock()
	defer t.mu.Unlock()
	return len(t.q)
}

var kindsAll = []string{"upOpen", "downOpen", "meta", "upClose", "downClose", "upResume", "downResume"}

// i32 is the int32 view of a request id: TLC's integers are 32 bit signed, ids at and above 2^31 are logged as negative numbers
// (parity and distinctness are preserved).
func i32(x uint32) int { return int(int32(x)) }

func tagUUID(t int) uuid.UUID {
	return uuid.MustParse(fmt.Sprintf("00000000-0000-4000-8000-%012d", t))
}

func uuidTag(u uuid.UUID) int {
	t := -1
	fmt.Sscanf(u.String(), "00000000-0000-4000-8000-%012d", &t)
	return t
}

func nameTag(s string) int {
	t := -1
	if strings.HasPrefix(s, "tag-") {
		fmt.Sscanf(s[4:], "%d", &t)
	}
	return t
}

func stamp(rid uint32, tag int, how string) string {
	return fmt.Sprintf("rid=%d;tag=%d;how=%s", rid, tag, how)
}

func parseStamp(s string) (rid, tag int, how string) {
	rid, tag, how = -1, -1, ""
	for _, f := range strings.Split(s, ";") {
		kv := strings.SplitN(f, "=", 2)
		if len(kv) != 2 {
			continue
		}
		switch kv[0] {
		case "rid":
			fmt.Sscanf(kv[1], "%d", &rid)
		case "tag":
			fmt.Sscanf(kv[1], "%d", &tag)
		case "how":
			how = kv[1]
		}
	}
	return
}

func errClass(err error) string {
	switch {
	case err == nil:
		return ""
	case stderrors.Is(err, context.Canceled), stderrors.Is(err, context.DeadlineExceeded):
		return "ctx"
	case errors.Is(err, errors.ErrConnectionClosed), errors.Is(err, transport.ErrAlreadyClosed), errors.Is(err, transport.EOF):
		return "closed"
	}
	return "other"
}

type reqInfo struct {
	rid  uint32
	kind string
}

type drv struct {
	sc   *h.Scenario
	rec  *h.Rec
	n    int
	dupN int      // copies sent per dup op
	kind []string // index = tag (1..n)
	sync bool
	wd   time.Duration

	srv wire.EncodingTransport
	wmu sync.Mutex // broker writes

	mu        sync.Mutex
	cond      *sync.Cond
	reqs      map[int]reqInfo // tag -> request seen by the broker
	firstPing int64           // rid of the first ping, -1 = none yet
	autoPongs int             // pongs written by the broker on its own
	holdPong  bool
	pongHeld  bool // the first pong is still withheld
	cliClosed bool // the broker saw the client end close
	closing   bool // the harness itself is closing

	conn      *wire.ClientConn
	cancels   map[int]context.CancelFunc
	ctxs      map[int]context.Context
	started   map[int]bool
	cancelled map[int]bool
	answered  map[int]bool
	done      map[int]chan struct{}
	stuck     map[int]bool
}

func intP(p map[string]any, k string, def int) int {
	if v, ok := p[k].(float64); ok {
		return int(v)
	}
	return def
}

// ---------------------------------------------------------------- broker

func (d *drv) bwrite(m message.Message) error {
	d.wmu.Lock()
	defer d.wmu.Unlock()
	return d.srv.Write(m)
}

func (d *drv) brokerLoop(wg *sync.WaitGroup) {
	defer wg.Done()
	for {
		msg, err := d.srv.Read()
		if err != nil {
			d.mu.Lock()
			d.cliClosed = true
			self := d.closing
			d.cond.Broadcast()
			d.mu.Unlock()
			if !self {
				d.rec.Log("ConnClosed")
			}
			return
		}
		switch m := msg.(type) {
		case *message.ConnectRequest:
			d.rec.Log("BRecv", "rid", i32(uint32(m.RequestID)), "kind", "connect", "tag", -1)
			d.bwrite(&message.ConnectResponse{RequestID: m.RequestID, ProtocolVersion: m.ProtocolVersion, ResultCode: message.ResultCodeSucceeded})
		case *message.Ping:
			d.mu.Lock()
			first := d.firstPing < 0
			if first {
				d.firstPing = int64(m.RequestID)
				d.pongHeld = d.holdPong
			}
			hold := first && d.holdPong
			d.cond.Broadcast()
			d.mu.Unlock()
			d.rec.Log("BRecv", "rid", i32(uint32(m.RequestID)), "kind", "ping", "tag", 0)
			if !hold {
				rid := m.RequestID
				// later keep-alive pings are answered at once (not part of the script)
				go func() {
					d.rec.Log("BSend", "rid", i32(uint32(rid)), "tag", 0, "how", "auto")
					d.bwrite(&message.Pong{RequestID: rid})
					d.mu.Lock()
					d.autoPongs++
					d.cond.Broadcast()
					d.mu.Unlock()
				}()
			}
		case *message.Pong:
		default:
			req, ok := msg.(message.Request)
			if !ok {
				d.rec.Log("BRecvOther", "type", fmt.Sprintf("%T", msg))
				continue
			}
			tag, kind := -1, "?"
			switch r := msg.(type) {
			case *message.UpstreamOpenRequest:
				tag, kind = nameTag(r.SessionID), "upOpen"
			case *message.DownstreamOpenRequest:
				tag, kind = int(r.DesiredStreamIDAlias)-100, "downOpen"
			case *message.UpstreamMetadata:
				kind = "meta"
				if bt, ok := r.Metadata.(*message.BaseTime); ok {
					tag = nameTag(bt.Name)
				}
			case *message.UpstreamCloseRequest:
				tag, kind = uuidTag(r.StreamID), "upClose"
			case *message.DownstreamCloseRequest:
				tag, kind = uuidTag(r.StreamID), "downClose"
			case *message.UpstreamResumeRequest:
				tag, kind = uuidTag(r.StreamID), "upResume"
			case *message.DownstreamResumeRequest:
				tag, kind = uuidTag(r.StreamID), "downResume"
			}
			d.rec.Log("BRecv", "rid", i32(uint32(req.GetRequestID())), "kind", kind, "tag", tag)
			d.mu.Lock()
			if _, dup := d.reqs[tag]; !dup {
				d.reqs[tag] = reqInfo{rid: req.GetRequestID(), kind: kind}
			}
			d.cond.Broadcast()
			d.mu.Unlock()
		}
	}
}

// waitCond waits (bounded) until f() holds; f is evaluated under d.mu.
func (d *drv) waitCond(timeout time.Duration, f func() bool) bool {
	deadline := time.Now().Add(timeout)
	t := time.AfterFunc(timeout, func() { d.mu.Lock(); d.cond.Broadcast(); d.mu.Unlock() })
	defer t.Stop()
	d.mu.Lock()
	defer d.mu.Unlock()
	for !f() {
		if !time.Now().Before(deadline) {
			return false
		}
		d.cond.Wait()
	}
	return true
}

func response(kind string, rid uint32, tag int, st string) message.Message {
	id := message.RequestID(rid)
	ok := message.ResultCodeSucceeded
	switch kind {
	case "upOpen":
		return &message.UpstreamOpenResponse{RequestID: id, AssignedStreamID: tagUUID(tag + 5000), AssignedStreamIDAlias: uint32(1000 + tag),
			ResultCode: ok, ResultString: st, ServerTime: time.Unix(1, 0).UTC()}
	case "downOpen":
		return &message.DownstreamOpenResponse{RequestID: id, AssignedStreamID: tagUUID(tag + 5000), ResultCode: ok, ResultString: st, ServerTime: time.Unix(1, 0).UTC()}
	case "meta":
		return &message.UpstreamMetadataAck{RequestID: id, ResultCode: ok, ResultString: st}
	case "upClose":
		return &message.UpstreamCloseResponse{RequestID: id, ResultCode: ok, ResultString: st}
	case "downClose":
		return &message.DownstreamCloseResponse{RequestID: id, ResultCode: ok, ResultString: st}
	case "upResume":
		return &message.UpstreamResumeResponse{RequestID: id, AssignedStreamIDAlias: uint32(1000 + tag), ResultCode: ok, ResultString: st}
	case "downResume":
		return &message.DownstreamResumeResponse{RequestID: id, ResultCode: ok, ResultString: st}
	case "ping":
		return &message.Pong{RequestID: id}
	}
	return &message.UpstreamMetadataAck{RequestID: id, ResultCode: ok, ResultString: st}
}

// ---------------------------------------------------------------- callers

func (d *drv) call(tag int) {
	kind := d.kind[tag]
	ctx := d.ctxs[tag]
	d.rec.Log("CallStart", "tag", tag, "kind", kind, "pre", ctx.Err() != nil)
	var (
		err      error
		rid      = -1
		st       string
		xok      = true
		panicked = false
	)
	func() {
		defer func() {
			if r := recover(); r != nil {
				panicked = true
			}
		}()
		switch kind {
		case "upOpen":
			var r *message.UpstreamOpenResponse
			r, err = d.conn.SendUpstreamOpenRequest(ctx, &message.UpstreamOpenRequest{SessionID: fmt.Sprintf("tag-%d", tag), QoS: message.QoSUnreliable})
			if err == nil {
				rid, st = i32(uint32(r.RequestID)), r.ResultString
				xok = r.AssignedStreamIDAlias == uint32(1000+tag) && r.AssignedStreamID == tagUUID(tag+5000)
			}
		case "downOpen":
			var r *message.DownstreamOpenResponse
			r, err = d.conn.SendDownstreamOpenRequest(ctx, &message.DownstreamOpenRequest{DesiredStreamIDAlias: uint32(100 + tag), QoS: message.QoSUnreliable})
			if err == nil {
				rid, st = i32(uint32(r.RequestID)), r.ResultString
				xok = r.AssignedStreamID == tagUUID(tag+5000)
			}
		case "meta":
			var r *message.UpstreamMetadataAck
			r, err = d.conn.SendUpstreamMetadata(ctx, &message.UpstreamMetadata{Metadata: &message.BaseTime{SessionID: "s", Name: fmt.Sprintf("tag-%d", tag), BaseTime: time.Unix(1, 0).UTC()}})
			if err == nil {
				rid, st = i32(uint32(r.RequestID)), r.ResultString
			}
		case "upClose":
			var r *message.UpstreamCloseResponse
			r, err = d.conn.SendUpstreamCloseRequest(ctx, &message.UpstreamCloseRequest{StreamID: tagUUID(tag)})
			if err == nil {
				rid, st = i32(uint32(r.RequestID)), r.ResultString
			}
		case "downClose":
			var r *message.DownstreamCloseResponse
			r, err = d.conn.SendDownstreamCloseRequest(ctx, &message.DownstreamCloseRequest{StreamID: tagUUID(tag)})
			if err == nil {
				rid, st = i32(uint32(r.RequestID)), r.ResultString
			}
		case "upResume":
			var r *message.UpstreamResumeResponse
			r, err = d.conn.SendUpstreamResumeRequest(ctx, &message.UpstreamResumeRequest{StreamID: tagUUID(tag)}, message.QoSUnreliable)
			if err == nil {
				rid, st = i32(uint32(r.RequestID)), r.ResultString
				xok = r.AssignedStreamIDAlias == uint32(1000+tag)
			}
		case "downResume":
			var r *message.DownstreamResumeResponse
			r, err = d.conn.SendDownstreamResumeRequest(ctx, &message.DownstreamResumeRequest{StreamID: tagUUID(tag), DesiredStreamIDAlias: uint32(100 + tag)})
			if err == nil {
				rid, st = i32(uint32(r.RequestID)), r.ResultString
			}
		default:
			err = fmt.Errorf("unknown kind")
		}
	}()
	cls := errClass(err)
	if panicked {
		cls = "panic"
	}
	srid, stag, how := parseStamp(st)
	if srid >= 0 {
		srid = i32(uint32(srid))
	}
	d.rec.Log("CallRet", "tag", tag, "kind", kind, "err", cls, "rid", rid, "srid", srid, "stag", stag, "how", how, "xok", xok)
	d.mu.Lock()
	close(d.done[tag])
	d.cond.Broadcast()
	d.mu.Unlock()
}

func (d *drv) isDone(tag int) bool {
	select {
	case <-d.done[tag]:
		return true
	default:
		return false
	}
}

// waitDone waits (bounded by the watchdog) for the return of caller tag; logs Stuck once.
func (d *drv) waitDone(tag int, why string) bool {
	if !d.started[tag] {
		return true
	}
	select {
	case <-d.done[tag]:
		return true
	case <-time.After(d.wd):
	}
	if !d.stuck[tag] {
		d.stuck[tag] = true
		d.rec.Log("Stuck", "tag", tag, "why", why, "boundMs", int(d.wd/time.Millisecond))
		// the scenario's verdict is decided (CallerStuck): do not spend the full bound on every further wait
		if d.wd > 300*time.Millisecond {
			d.wd = 300 * time.Millisecond
		}
	}
	return false
}

func (d *drv) start(tags []int) {
	for _, t := range tags {
		if t < 1 || t > d.n || d.started[t] {
			d.rec.Log("Inconclusive", "why", fmt.Sprintf("bad start %d", t))
			return
		}
		d.started[t] = true
	}
	for _, t := range tags {
		go d.call(t)
	}
	// the request reaches the broker (or the call returns early, e.g. on a closed connection)
	for _, t := range tags {
		t := t
		ok := d.waitCond(d.wd, func() bool {
			_, got := d.reqs[t]
			return got || d.isDone(t)
		})
		if !ok {
			d.rec.Log("Inconclusive", "why", fmt.Sprintf("request of caller %d never reached the broker", t))
		}
		if d.sync && d.cancelled[t] {
			d.waitDone(t, "cancelled before start")
		}
	}
}

func (d *drv) send(tag int, how string) {
	if tag == 0 {
		ok := d.waitCond(d.wd, func() bool { return d.firstPing >= 0 })
		if !ok {
			d.rec.Log("Inconclusive", "why", "no keep-alive ping seen")
			return
		}
		d.mu.Lock()
		rid := uint32(d.firstPing)
		if how == "ans" {
			d.pongHeld = false
		}
		d.mu.Unlock()
		d.rec.Log("BSend", "rid", i32(uint32(rid)), "tag", 0, "how", how)
		d.bwrite(&message.Pong{RequestID: message.RequestID(rid)})
		return
	}
	var ri reqInfo
	ok := d.waitCond(d.wd, func() bool {
		r, got := d.reqs[tag]
		ri = r
		return got
	})
	if !ok {
		d.rec.Log("Inconclusive", "why", fmt.Sprintf("no request of caller %d at the broker", tag))
		return
	}
	if how == "ans" {
		d.answered[tag] = true
	}
	d.rec.Log("BSend", "rid", i32(uint32(ri.rid)), "tag", tag, "how", how)
	if err := d.bwrite(response(ri.kind, ri.rid, tag, stamp(ri.rid, tag, how))); err != nil {
		d.rec.Log("BSendErr", "rid", i32(uint32(ri.rid)), "tag", tag)
	}
	if d.sync && how == "ans" && !d.cancelled[tag] {
		d.waitDone(tag, "answered")
	}
}

func run(sc *h.Scenario) *h.Rec {
	rec := h.NewRec(sc.ID)
	d := &drv{sc: sc, rec: rec, reqs: map[int]reqInfo{}, firstPing: -1,
		cancels: map[int]context.CancelFunc{}, ctxs: map[int]context.Context{}, started: map[int]bool{}, cancelled: map[int]bool{},
		answered: map[int]bool{}, done: map[int]chan struct{}{}, stuck: map[int]bool{}}
	d.cond = sync.NewCond(&d.mu)
	d.n = intP(sc.P, "n", 3)
	d.kind = make([]string, d.n+1)
	ks, _ := sc.P["kinds"].([]any)
	for t := 1; t <= d.n; t++ {
		d.kind[t] = kindsAll[(t-1)%len(kindsAll)]
		if t-1 < len(ks) {
			if s, ok := ks[t-1].(string); ok {
				d.kind[t] = s
			}
		}
	}
	mode, _ := sc.P["mode"].(string)
	d.sync = mode != "burst"
	d.wd = time.Duration(intP(sc.P, "wdMs", 3000)) * time.Millisecond
	if hp, ok := sc.P["holdPong"].(bool); ok {
		d.holdPong = hp
	}
	pingInt, pingTo := 3600*time.Second, 60*time.Second
	if pm, ok := sc.P["pingMs"].([]any); ok && len(pm) == 2 {
		pingInt = time.Duration(pm[0].(float64)) * time.Millisecond
		pingTo = time.Duration(pm[1].(float64)) * time.Millisecond
	}
	expectClose := false
	for _, st := range sc.Steps {
		if st.A == "ptimeout" {
			expectClose = true
		}
	}
	strayPong := false
	rec.Log("Reset", "kind", sc.Kind, "p", h.Ev{"n": d.n, "mode": mode, "holdPong": d.holdPong, "ptimeout": expectClose, "kinds": d.kind[1:]})
	for t := 1; t <= d.n; t++ {
		d.ctxs[t], d.cancels[t] = context.WithCancel(context.Background())
		d.done[t] = make(chan struct{})
	}

	if np := intP(sc.P, "procs", 0); np > 0 {
		// a single scheduler thread makes the order "dispatcher handles the next queued response before the caller it just
		// woke has run" the regular one (such scenarios are run one at a time)
		old := runtime.GOMAXPROCS(np)
		defer runtime.GOMAXPROCS(old)
	}
	srvtr, clitr := transport.Pipe()
	d.srv = encoding.NewTransport(&encoding.TransportConfig{Transport: srvtr, Encoding: protobuf.NewEncoding()})
	var cli wire.EncodingTransport = encoding.NewTransport(&encoding.TransportConfig{Transport: clitr, Encoding: protobuf.NewEncoding()})
	var cq *qtr
	if qd, _ := sc.P["queued"].(bool); qd {
		cq = newQtr(cli)
		cli = cq
	}
	d.dupN = intP(sc.P, "dupN", 1)
	var wg sync.WaitGroup
	wg.Add(1)
	go d.brokerLoop(&wg)

	conn, err := wire.Connect(&wire.ClientConnConfig{Transport: cli, ProtocolVersion: "2.0.0", NodeID: "node-c06", PingInterval: pingInt, PingTimeout: pingTo})
	if err != nil {
		rec.Log("Inconclusive", "why", "connect failed: "+err.Error())
		d.mu.Lock()
		d.closing = true
		d.mu.Unlock()
		d.srv.Close()
		cli.Close()
		wg.Wait()
		rec.Log("End")
		return rec
	}
	d.conn = conn
	// the keep-alive ping is issued by the connection itself right after the handshake
	if !d.waitCond(d.wd, func() bool { return d.firstPing >= 0 }) {
		rec.Log("Inconclusive", "why", "no keep-alive ping after the handshake")
	}

	if v, ok := sc.P["idStart"].(float64); ok {
		// position the request id counter (e.g. just below the uint32 boundary): ids issued from here on are those of a
		// connection that has already issued about 2^31 requests
		// (not while the first keep-alive ping is outstanding: the ids just above the boundary would collide with it)
		if !d.holdPong {
			d.waitCond(d.wd, func() bool { return d.autoPongs > 0 })
			time.Sleep(5 * time.Millisecond)
		}
		conn.VerifSetRequestIDCounter(uint32(v))
		rec.Log("IdCounterSet", "v", i32(uint32(v)))
	}
	for i := range sc.Steps {
		st := &sc.Steps[i]
		if st.Ms > 0 {
			time.Sleep(time.Duration(st.Ms) * time.Millisecond)
		}
		switch st.A {
		case "start":
			d.start([]int{st.N})
		case "startgrp":
			tags := []int{}
			for _, x := range st.IDs {
				t := 0
				fmt.Sscanf(x, "%d", &t)
				tags = append(tags, t)
			}
			d.start(tags)
		case "startall":
			tags := []int{}
			for t := 1; t <= d.n; t++ {
				if !d.started[t] {
					tags = append(tags, t)
				}
			}
			d.start(tags)
		case "cancel":
			if st.N < 1 || st.N > d.n {
				rec.Log("Inconclusive", "why", "bad cancel")
				continue
			}
			rec.Log("Cancel", "tag", st.N)
			d.cancelled[st.N] = true
			d.cancels[st.N]()
			if d.sync {
				d.waitDone(st.N, "cancelled")
			}
		case "ans":
			d.send(st.N, "ans")
		case "dup":
			for k := 0; k < d.dupN; k++ {
				d.send(st.N, "dup")
			}
		case "cross":
			// the broker answers caller N's request id with the response type of another caller's kind (it mixes up request ids)
			var ri reqInfo
			if !d.waitCond(d.wd, func() bool { r, got := d.reqs[st.N]; ri = r; return got }) {
				rec.Log("Inconclusive", "why", "no request to cross")
				continue
			}
			other := ""
			for t := 1; t <= d.n; t++ {
				if d.kind[t] != ri.kind {
					other = d.kind[t]
					break
				}
			}
			if other == "" {
				other = "ping"
			}
			rec.Log("BSend", "rid", i32(uint32(ri.rid)), "tag", st.N, "how", "cross")
			d.bwrite(response(other, ri.rid, st.N, stamp(ri.rid, st.N, "cross")))
			d.answered[st.N] = true // (the caller must return by itself)
			if d.sync {
				d.waitDone(st.N, "crossed")
			}
		case "spur":
			// a response with an id the client never issued; its type is the response type of some caller's kind
			k := d.kind[1+(i%d.n)]
			rec.Log("BSend", "rid", st.Seq, "tag", -1, "how", "spur")
			if st.Mode == "pong" {
				// a Pong nobody asked for: it must not be taken for the answer to the outstanding keep-alive ping
				strayPong = true
				d.bwrite(&message.Pong{RequestID: message.RequestID(uint32(st.Seq))})
				continue
			}
			d.bwrite(response(k, uint32(st.Seq), -1, stamp(uint32(st.Seq), -1, "spur")))
		case "ptimeout":
			// the pong is withheld until the client's ping deadline expires and its keep-alive loop closes the connection
			rec.Log("PingDeadline")
			if !d.waitCond(pingTo+d.wd, func() bool { return d.cliClosed }) {
				if strayPong {
					// the only thing that arrived for the keep-alive was a Pong with a foreign id, and the deadline (plus the watchdog) has passed
					rec.Log("PingNotTimedOut")
				} else {
					rec.Log("Inconclusive", "why", "client did not close after the ping deadline")
				}
			}
			if d.sync {
				for t := 1; t <= d.n; t++ {
					d.waitDone(t, "connection closed")
				}
			}
		case "hold":
			if cq != nil {
				cq.hold(true)
				rec.Log("Hold")
			}
		case "release":
			if cq != nil {
				n := cq.queued()
				cq.hold(false)
				rec.Log("Release", "queued", n)
			}
		case "sleep":
		default:
			rec.Log("Inconclusive", "why", "unknown op "+st.A)
		}
	}
	// every answered or cancelled caller must return by itself
	for t := 1; t <= d.n; t++ {
		if d.started[t] && (d.answered[t] || d.cancelled[t]) {
			d.waitDone(t, "end")
		}
	}
	if cq != nil {
		cq.hold(false)
	}
	rec.Log("Closing")
	d.mu.Lock()
	d.closing = true
	d.mu.Unlock()
	conn.Close()
	for t := 1; t <= d.n; t++ {
		d.waitDone(t, "closing")
	}
	d.srv.Close()
	wg.Wait()
	rec.Log("End")
	return rec
}
