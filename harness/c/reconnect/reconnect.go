// Package reconnect is the component driver for C18: the reconnectable transport
// (transport/reconnect) is driven by environment scripts produced by TLC from
// ReconnectTransport.tla. The underlying transports are scripted fakes:
//
//   - every underlying Write parks in a gate until the script releases it with `uw ok|fail`
//     (or the fake is closed: it then fails by itself, like a real closed connection);
//   - every underlying Read parks until the script releases it with `ur msg|ping|err`;
//   - redials are answered from the scenario's list p.dials (ok|fail|hsfail), not gated:
//     reconnect() runs under the transport's mutex and nothing else can interleave with it
//     in a way the property can see.
//
// The recorded history (WCall/WRet, UWrite, UDial, URead, RCall/RRet, Closed, Watchdog, Skip)
// is judged as a whole by spec/MonC18.tla; nothing here asserts anything, and no timing is
// interpreted except the watchdog: a driver-level Read/Write/Close that has not returned
// wdMs (2 s) after the end of the script is logged as a Watchdog event.
package reconnect

import (
	"errors"
	"fmt"
	"strconv"
	"strings"
	"sync"
	"time"

	ierrors "github.com/aptpod/iscp-go/errors"
	"github.com/aptpod/iscp-go/transport"
	rc "github.com/aptpod/iscp-go/transport/reconnect"

	"verifharness/h"
)

func init() {
	h.Kinds["reconnect"] = run
}

var errFake = errors.New("fake: scripted failure")
var errFakeClosed = errors.New("fake: closed")

const lateMax = 4 * time.Second

type gate struct {
	f   *fake
	tag int
	ch  chan string
}

type call struct {
	op   string
	tag  int
	done chan struct{}
}

type drv struct {
	mu       sync.Mutex
	rec      *h.Rec
	over     bool  // after End: nothing is recorded any more
	closeErr bool  // the underlying CloseWithStatus returns an error
	lateOk   bool  // a parked underlying Write does not fail by itself when its fake is closed: the script decides
	werr     error // what a scripted failing underlying Write returns (p.werr: "" generic, "normalClose": the peer closed normally)
	dials    []string
	ndial    int
	nextDial int
	firstTid transport.TransportID
	ninc     int
	fakes    []*fake
	parkedW  *gate
	parkedR  *gate
	calls    []*call
	wbusy    map[int]*call
	rbusy    *call
	msgN     int
	lastEv   time.Time
	after    string
}

func (d *drv) log(ev string, kv ...any) {
	d.mu.Lock()
	over := d.over
	d.lastEv = time.Now()
	d.mu.Unlock()
	if !over {
		d.rec.Log(ev, kv...)
	}
}

// syncDials waits until the library has performed at least n redials (the number the model
// performed before this step), i.e. until the reconnect the model already went through is under
// way in the real code as well. It gives up when nothing has been recorded for `quiet`
// (no reconnect is running: a running one dials every ~1 ms). Not asserted.
func (d *drv) syncDials(n int, quiet, max time.Duration) {
	deadline := time.Now().Add(max)
	for {
		d.mu.Lock()
		ok := d.nextDial >= n || time.Since(d.lastEv) >= quiet
		d.mu.Unlock()
		if ok || !time.Now().Before(deadline) {
			return
		}
		time.Sleep(50 * time.Microsecond)
	}
}

// settle waits until the goroutines of the library have come to rest: all scripted redials
// consumed (or nothing recorded for `quiet`) and nothing recorded for `tail`.
func (d *drv) settle(n int, tail, quiet, max time.Duration) {
	d.syncDials(n, quiet, max)
	deadline := time.Now().Add(max)
	for {
		d.mu.Lock()
		ok := time.Since(d.lastEv) >= tail
		d.mu.Unlock()
		if ok || !time.Now().Before(deadline) {
			return
		}
		time.Sleep(200 * time.Microsecond)
	}
}

// ---------------------------------------------------------------- fake underlying transport
type fake struct {
	d      *drv
	inc    int
	hs     string // "" no handshake expected, "ok", "fail"
	closed chan struct{}
	once   sync.Once
	mu     sync.Mutex
	hsDone bool
	wpos   int
}

var (
	_ transport.Transport = (*fake)(nil)
	_ transport.Closer    = (*fake)(nil)
)

func (f *fake) isClosed() bool {
	select {
	case <-f.closed:
		return true
	default:
		return false
	}
}

func (f *fake) Read() ([]byte, error) {
	f.mu.Lock()
	hs := ""
	if f.hs != "" && !f.hsDone {
		f.hsDone = true
		hs = f.hs
	}
	f.mu.Unlock()
	if hs == "fail" {
		f.d.log("URead", "inc", f.inc, "kind", "hsfail", "tag", 0)
		return nil, errFake
	}
	if hs == "ok" {
		f.d.log("URead", "inc", f.inc, "kind", "hs", "tag", 0)
		return []byte("hello"), nil
	}
	if f.isClosed() {
		f.d.log("URead", "inc", f.inc, "kind", "closed", "tag", 0)
		return nil, errFakeClosed
	}
	g := &gate{f: f, ch: make(chan string, 1)}
	f.d.mu.Lock()
	f.d.parkedR = g
	f.d.mu.Unlock()
	select {
	case v := <-g.ch:
		switch {
		case v == "ping":
			f.d.log("URead", "inc", f.inc, "kind", "ping", "tag", 0)
			return append([]byte(nil), rc.PingMessage...), nil
		case strings.HasPrefix(v, "msg:"):
			k, _ := strconv.Atoi(v[4:])
			f.d.log("URead", "inc", f.inc, "kind", "msg", "tag", k)
			return []byte("r" + v[4:]), nil
		default:
			f.d.log("URead", "inc", f.inc, "kind", "err", "tag", 0)
			return nil, errFake
		}
	case <-f.closed:
		f.d.mu.Lock()
		if f.d.parkedR == g {
			f.d.parkedR = nil
		}
		f.d.mu.Unlock()
		f.d.log("URead", "inc", f.inc, "kind", "closed", "tag", 0)
		return nil, errFakeClosed
	}
}

func tagOf(bs []byte) int {
	s := string(bs)
	if rc.IsPong(bs) {
		return 0
	}
	if strings.HasPrefix(s, "m") {
		if k, err := strconv.Atoi(s[1:]); err == nil && k > 0 {
			return k
		}
	}
	return -1
}

func (f *fake) Write(bs []byte) error {
	tag := tagOf(bs)
	f.d.log("UWEnter", "inc", f.inc, "tag", tag) // the write loop has taken this request from its queue
	if f.isClosed() {
		f.d.log("UWrite", "inc", f.inc, "tag", tag, "ok", false, "auto", true, "pos", 0)
		return errFakeClosed
	}
	g := &gate{f: f, tag: tag, ch: make(chan string, 1)}
	f.d.mu.Lock()
	f.d.parkedW = g
	f.d.mu.Unlock()
	closedC := f.closed
	if f.d.lateOk {
		closedC = nil // the script decides the outcome also after the connection was replaced (bounded by lateMax)
	}
	select {
	case <-time.After(lateMax):
		f.d.log("UWrite", "inc", f.inc, "tag", tag, "ok", false, "auto", true, "pos", 0)
		return errFakeClosed
	case v := <-g.ch:
		if v == "ok" {
			f.mu.Lock()
			f.wpos++
			pos := f.wpos
			f.mu.Unlock()
			f.d.log("UWrite", "inc", f.inc, "tag", tag, "ok", true, "auto", false, "pos", pos)
			return nil
		}
		f.d.log("UWrite", "inc", f.inc, "tag", tag, "ok", false, "auto", false, "pos", 0)
		if f.d.werr != nil {
			return f.d.werr
		}
		return errFake
	case <-closedC:
		f.d.mu.Lock()
		if f.d.parkedW == g {
			f.d.parkedW = nil
		}
		f.d.mu.Unlock()
		f.d.log("UWrite", "inc", f.inc, "tag", tag, "ok", false, "auto", true, "pos", 0)
		return errFakeClosed
	}
}

func (f *fake) Close() error { return f.CloseWithStatus(transport.CloseStatusNormal) }
func (f *fake) CloseWithStatus(transport.CloseStatus) error {
	f.once.Do(func() {
		close(f.closed)
		f.d.log("UClose", "inc", f.inc)
	})
	if f.d.closeErr {
		// the underlying connection's own close fails (peer silently gone, closing handshake fails): the connection is closed anyway
		return fmt.Errorf("scripted failure of the underlying close")
	}
	return nil
}
func (f *fake) AsUnreliable() (transport.UnreliableTransport, bool) { return nil, false }
func (f *fake) NegotiationParams() transport.NegotiationParams      { return transport.NegotiationParams{} }
func (f *fake) Name() transport.Name                                { return transport.Name("fake") }
func (f *fake) RxBytesCounterValue() uint64                         { return 0 }
func (f *fake) TxBytesCounterValue() uint64                         { return 0 }

// ---------------------------------------------------------------- scripted dialer
func (d *drv) Dial(c transport.DialConfig) (transport.Transport, error) {
	d.mu.Lock()
	d.ndial++
	n := d.ndial
	res, extra := "ok", false
	if n > 1 {
		if d.nextDial < len(d.dials) {
			res = d.dials[d.nextDial]
			d.nextDial++
		} else {
			res, extra = d.after, true // beyond the script: every further redial fails (or succeeds: p.after = "ok")
		}
	}
	tid := 0
	if n == 1 {
		d.firstTid = c.TransportID
		if c.TransportID != "" {
			tid = 1
		}
	} else if c.TransportID != "" && c.TransportID == d.firstTid {
		tid = 1
	}
	var f *fake
	switch res {
	case "ok":
		d.ninc++
		f = &fake{d: d, inc: d.ninc, closed: make(chan struct{})}
		if n > 1 {
			f.hs = "ok"
		}
		d.fakes = append(d.fakes, f)
	case "hsfail":
		f = &fake{d: d, inc: 0, hs: "fail", closed: make(chan struct{})}
		d.fakes = append(d.fakes, f)
	}
	d.mu.Unlock()
	d.log("UDial", "n", n, "re", c.Reconnect, "tid", tid, "res", res, "extra", extra)
	if f == nil {
		return nil, errFake
	}
	return f, nil
}

// waitFor polls cond (evaluated under d.mu) until it holds or the timeout expires.
func (d *drv) waitFor(timeout time.Duration, cond func() bool) bool {
	deadline := time.Now().Add(timeout)
	for {
		d.mu.Lock()
		ok := cond()
		d.mu.Unlock()
		if ok {
			return true
		}
		if !time.Now().Before(deadline) {
			return false
		}
		time.Sleep(50 * time.Microsecond)
	}
}

func isDone(c *call) bool {
	select {
	case <-c.done:
		return true
	default:
		return false
	}
}

func strsOf(v any) []string {
	out := []string{}
	if l, ok := v.([]any); ok {
		for _, x := range l {
			if s, ok := x.(string); ok {
				out = append(out, s)
			}
		}
	}
	return out
}

func intOf(v any, def int) int {
	if f, ok := v.(float64); ok {
		return int(f)
	}
	return def
}

func run(sc *h.Scenario) *h.Rec {
	rec := h.NewRec(sc.ID)
	budget := intOf(sc.P["budget"], 2)
	preMs := intOf(sc.P["preMs"], 300)
	wd := time.Duration(sc.WdMs) * time.Millisecond
	if sc.WdMs == 0 {
		wd = 2 * time.Second
	}
	tidCfg, _ := sc.P["tid"].(string)
	d := &drv{rec: rec, dials: strsOf(sc.P["dials"]), wbusy: map[int]*call{}, lastEv: time.Now(), after: "fail"}
	if a, _ := sc.P["after"].(string); a == "ok" {
		d.after = "ok"
	}
	if we, _ := sc.P["werr"].(string); we == "normalClose" {
		// what the coder websocket backend reports for a write after the peer's close frame with status 1000
		d.werr = fmt.Errorf("write: %w", ierrors.ErrConnectionNormalClose)
	}
	if lo, _ := sc.P["lateOk"].(bool); lo {
		d.lateOk = true
	}
	if ce, _ := sc.P["closeErr"].(bool); ce {
		d.closeErr = true
	}
	rec.Log("Reset", "kind", sc.Kind, "p", h.Ev{"budget": budget, "ndials": len(d.dials), "wdMs": int(wd / time.Millisecond)})
	pre := time.Duration(preMs) * time.Millisecond

	tr, err := rc.Dial(rc.DialConfig{
		Dialer:               d,
		DialConfig:           transport.DialConfig{Address: "fake", TransportID: transport.TransportID(tidCfg)},
		MaxReconnectAttempts: budget,
		ReconnectInterval:    time.Millisecond,
	})
	if err != nil {
		rec.Log("Inconclusive", "why", "initial dial failed: "+err.Error())
		rec.Log("End")
		return rec
	}

	start := func(op string, tag int, f func()) *call {
		c := &call{op: op, tag: tag, done: make(chan struct{})}
		d.mu.Lock()
		d.calls = append(d.calls, c)
		d.mu.Unlock()
		go func() {
			defer close(c.done)
			defer func() {
				if r := recover(); r != nil {
					d.log("Panic", "op", op, "tag", tag, "msg", fmt.Sprint(r))
				}
			}()
			f()
		}()
		return c
	}

	for _, st := range sc.Steps {
		// st.Seq = number of redials the model performed before this step
		d.syncDials(st.Seq, 50*time.Millisecond, pre)
		switch st.A {
		case "write":
			w, k := st.N, st.Tag
			// the model's writer is idle here: let the previous Write of this writer return first
			if c := d.wbusy[w]; c != nil && !d.waitFor(pre, func() bool { return isDone(c) }) {
				d.log("Skip", "a", "write", "why", "writer busy")
				continue
			}
			started := make(chan struct{})
			c := start("write", k, func() {
				d.log("WCall", "w", w, "tag", k)
				close(started)
				err := tr.Write([]byte("m" + strconv.Itoa(k)))
				d.log("WRet", "w", w, "tag", k, "ok", err == nil, "err", h.ErrClass(err))
			})
			d.wbusy[w] = c
			<-started
			// let the request reach the queue / the write loop (not asserted)
			d.waitFor(time.Millisecond, func() bool { return isDone(c) || (d.parkedW != nil && d.parkedW.tag == k) })
		case "uw":
			var g *gate
			ok := d.waitFor(pre, func() bool {
				if d.parkedW != nil && (d.lateOk || !d.parkedW.f.isClosed()) {
					g = d.parkedW
					d.parkedW = nil
					return true
				}
				return false
			})
			if !ok {
				d.log("Skip", "a", "uw", "why", "write loop is not inside an underlying Write")
				continue
			}
			g.ch <- st.Mode
			if st.Mode == "ok" && g.tag > 0 {
				var c *call
				d.mu.Lock()
				for _, x := range d.calls {
					if x.op == "write" && x.tag == g.tag {
						c = x
					}
				}
				d.mu.Unlock()
				if c != nil {
					d.waitFor(pre, func() bool { return isDone(c) })
				}
			} else {
				time.Sleep(200 * time.Microsecond)
			}
		case "ur":
			var g *gate
			ok := d.waitFor(pre, func() bool {
				if d.parkedR != nil && !d.parkedR.f.isClosed() {
					g = d.parkedR
					d.parkedR = nil
					return true
				}
				return false
			})
			if !ok {
				d.log("Skip", "a", "ur", "why", "read loop is not inside an underlying Read")
				continue
			}
			v := st.Mode
			if v == "msg" {
				d.msgN++
				v = "msg:" + strconv.Itoa(d.msgN)
			}
			g.ch <- v
			if st.Mode == "ping" {
				// the pong request travels ping loop -> queue -> write loop
				d.waitFor(2*time.Millisecond, func() bool { return d.parkedW != nil && d.parkedW.tag == 0 })
			} else {
				time.Sleep(300 * time.Microsecond)
			}
		case "read":
			if c := d.rbusy; c != nil && !d.waitFor(pre, func() bool { return isDone(c) }) {
				d.log("Skip", "a", "read", "why", "reader busy")
				continue
			}
			started := make(chan struct{})
			c := start("read", 0, func() {
				d.log("RCall")
				close(started)
				bs, err := tr.Read()
				switch {
				case err != nil:
					d.log("RRet", "kind", "err", "tag", 0, "err", h.ErrClass(err))
				case rc.IsPing(bs):
					d.log("RRet", "kind", "ping", "tag", 0)
				default:
					k := -1
					if s := string(bs); strings.HasPrefix(s, "r") {
						if n, e := strconv.Atoi(s[1:]); e == nil {
							k = n
						}
					}
					d.log("RRet", "kind", "msg", "tag", k)
				}
			})
			d.rbusy = c
			<-started
			d.waitFor(time.Millisecond, func() bool { return isDone(c) })
		case "close":
			d.settle(st.Seq, 5*time.Millisecond, 50*time.Millisecond, pre)
			c := start("close", 0, func() {
				d.log("CloseCall")
				tr.Close()
				d.log("Closed")
			})
			d.waitFor(pre+time.Duration(budget+1)*20*time.Millisecond, func() bool { return isDone(c) })
		}
	}

	d.settle(len(d.dials), 10*time.Millisecond, 100*time.Millisecond, time.Second)
	// watchdog: every driver-level call must have returned wd after the end of the script
	deadline := time.Now().Add(wd)
	d.mu.Lock()
	calls := append([]*call(nil), d.calls...)
	d.mu.Unlock()
	for _, c := range calls {
		rem := time.Until(deadline)
		if rem < 0 {
			rem = 0
		}
		select {
		case <-c.done:
		case <-time.After(rem):
			if !isDone(c) {
				d.log("Watchdog", "op", c.op, "tag", c.tag)
			}
		}
	}
	rec.Log("End")
	d.mu.Lock()
	d.over = true
	fakes := append([]*fake(nil), d.fakes...)
	d.mu.Unlock()
	// release everything that may still be parked (leaked goroutines of a blocked transport stay blocked)
	go tr.Close()
	for _, f := range fakes {
		f.once.Do(func() { close(f.closed) })
	}
	return rec
}
