// Package dgram is the component driver for the transport-level part of C14 (datagram messages are
// reassembled exactly or not at all): it wires two real quic.Transport values back to back over an
// in-memory quic-go Connection (in-order, loss-free datagram link), replays an environment script
// generated from spec/DgramLink.tla and records one event per step for the monitor spec/MonC14d.tla.
//
// Scenario parameters (sc.P):
//
//	script: list of steps {a: "write", n: message number, segs: number of segments, failAt: index of the
//	        SendDatagram call of this write that returns a quic DatagramTooLargeError (-1: none)} | {a: "drain"}
//	        (h.Step has no segs / failAt fields, so the script travels in the free-form parameters)
//	site:   datagram (AsUnreliable().Write) | transport (Transport.WriteUnreliable) | alt (odd messages
//	        through the first, even messages through the second; both share the transport's counter)
//
// Message n of s segments is (s-1)*1188 + 594 bytes of value n.  drain waits until the receiving transport
// has consumed every datagram that went out, closes it and reports everything datagram.Read handed up,
// each message decomposed into runs of equal bytes.
package dgram

import (
	"context"
	"encoding/binary"
	stderrors "errors"
	"fmt"
	"sync"
	"sync/atomic"
	"time"

	"github.com/aptpod/iscp-go/transport"
	tquic "github.com/aptpod/iscp-go/transport/quic"
	quicgo "github.com/quic-go/quic-go"

	"verifharness/h"
)

func init() {
	h.Kinds["dgram"] = run
}

const (
	segPayload = 1188 // payload bytes per segment (maxDatagramFrameSize - 8)
	tailLen    = 594  // payload of the last segment of every scripted message
	opTimeout  = 5 * time.Second
	maxRuns    = 32
)

// conn is an in-memory quic.Connection: only what transport/quic uses is implemented (the embedded nil
// interface covers the rest, as in the library's own fakes).
type conn struct {
	quicgo.Connection
	in        chan []byte
	send      func([]byte) error
	done      chan struct{}
	doneOnce  sync.Once
	recvCalls int64 // number of ReceiveDatagram calls entered
}

func newConn() *conn {
	return &conn{in: make(chan []byte, 4096), done: make(chan struct{})}
}

var errClosed = &quicgo.ApplicationError{ErrorCode: 0, ErrorMessage: "closed"}

func (c *conn) OpenUniStream() (quicgo.SendStream, error) { return nil, nil }

func (c *conn) AcceptUniStream(ctx context.Context) (quicgo.ReceiveStream, error) {
	select {
	case <-c.done:
		return nil, errClosed
	case <-ctx.Done():
		return nil, ctx.Err()
	}
}

func (c *conn) ReceiveDatagram(ctx context.Context) ([]byte, error) {
	atomic.AddInt64(&c.recvCalls, 1)
	select {
	case bs := <-c.in:
		return bs, nil
	case <-c.done:
		return nil, errClosed
	case <-ctx.Done():
		return nil, ctx.Err()
	}
}

func (c *conn) SendDatagram(p []byte) error {
	select {
	case <-c.done:
		return errClosed
	default:
	}
	return c.send(p)
}

func (c *conn) CloseWithError(quicgo.ApplicationErrorCode, string) error {
	c.doneOnce.Do(func() { close(c.done) })
	return nil
}

func (c *conn) Context() context.Context { return context.Background() }

type wstep struct {
	a      string
	n      int
	segs   int
	failAt int
}

func num(v any, def int) int {
	if f, ok := v.(float64); ok {
		return int(f)
	}
	return def
}

func parseScript(v any) ([]wstep, bool) {
	l, ok := v.([]any)
	if !ok {
		return nil, false
	}
	out := []wstep{}
	for _, x := range l {
		m, ok := x.(map[string]any)
		if !ok {
			return nil, false
		}
		a, _ := m["a"].(string)
		out = append(out, wstep{a: a, n: num(m["n"], 0), segs: num(m["segs"], 0), failAt: num(m["failAt"], -1)})
	}
	return out, true
}

func msgLen(segs int) int { return (segs-1)*segPayload + tailLen }

func errClass(err error) string {
	var tooLarge *quicgo.DatagramTooLargeError
	switch {
	case err == nil:
		return "ok"
	case stderrors.As(err, &tooLarge):
		return "tooLarge"
	case stderrors.Is(err, transport.ErrAlreadyClosed):
		return "closed"
	case stderrors.Is(err, transport.ErrInvalidMessage):
		return "invalid"
	}
	return "error"
}

// runs decomposes a message into runs of equal bytes: [[value, count], ...] (at most maxRuns).
func runs(b []byte) [][]int {
	out := [][]int{}
	for i := 0; i < len(b); {
		j := i
		for j < len(b) && b[j] == b[i] {
			j++
		}
		if len(out) == maxRuns {
			out = append(out, []int{-1, len(b) - i})
			break
		}
		out = append(out, []int{int(b[i]), j - i})
		i = j
	}
	return out
}

func run(sc *h.Scenario) *h.Rec {
	rec := h.NewRec(sc.ID)
	site, _ := sc.P["site"].(string)
	if site == "" {
		site = "datagram"
	}
	rec.Log("Reset", "kind", sc.Kind, "p", h.Ev{"P": segPayload, "tail": tailLen, "site": site})
	script, ok := parseScript(sc.P["script"])
	if !ok {
		rec.Log("Inconclusive", "why", "scenario has no script parameter")
		rec.Log("End")
		return rec
	}

	a, b := newConn(), newConn()
	var (
		lmu     sync.Mutex
		calls   int   // SendDatagram calls of the current write
		failAt  = -1  // call index of the current write that fails
		sent    int   // datagrams of the current write that went out
		wseq    []int // their wire sequence numbers
		enq     int64 // datagrams handed to the link in total
		linkErr string
	)
	a.send = func(p []byte) error {
		lmu.Lock()
		defer lmu.Unlock()
		i := calls
		calls++
		if i == failAt {
			return &quicgo.DatagramTooLargeError{MaxDatagramPayloadSize: 1000}
		}
		sent++
		if len(p) >= 4 {
			q := binary.BigEndian.Uint32(p[:4])
			if q < 1<<31 {
				wseq = append(wseq, int(q))
			} else {
				wseq = append(wseq, -1)
			}
		}
		select {
		case b.in <- append([]byte(nil), p...): // in-order, loss-free link
			enq++
		default:
			linkErr = "link queue full"
		}
		return nil
	}
	b.send = func([]byte) error { return nil }

	sender, err := tquic.New(tquic.Config{Connection: a})
	if err != nil {
		rec.Log("Inconclusive", "why", "quic.New (sender): "+err.Error())
		rec.Log("End")
		return rec
	}
	receiver, err := tquic.New(tquic.Config{Connection: b})
	if err != nil {
		sender.Close()
		rec.Log("Inconclusive", "why", "quic.New (receiver): "+err.Error())
		rec.Log("End")
		return rec
	}
	tx, okT := sender.AsUnreliable()
	rx, okR := receiver.AsUnreliable()
	if !okT || !okR {
		rec.Log("Inconclusive", "why", "AsUnreliable not offered")
	}
	closed := false
	closeAll := func() {
		if !closed {
			closed = true
			receiver.Close()
			sender.Close()
		}
	}
	defer closeAll()

	// reader: everything the receiving transport hands up, until it reports an error / end
	type got struct {
		msgs    [][]byte
		readErr string
	}
	var gmu sync.Mutex
	g := got{}
	readerDone := make(chan struct{})
	go func() {
		defer close(readerDone)
		defer func() {
			if r := recover(); r != nil {
				gmu.Lock()
				g.readErr = "panic"
				gmu.Unlock()
			}
		}()
		for {
			m, err := rx.Read()
			if err != nil {
				gmu.Lock()
				g.readErr = errClass(err)
				gmu.Unlock()
				return
			}
			gmu.Lock()
			g.msgs = append(g.msgs, append([]byte(nil), m...))
			gmu.Unlock()
		}
	}()

	drained := false
	for _, st := range script {
		switch st.a {
		case "write":
			if drained || st.segs < 1 || st.n < 1 || st.n > 255 {
				rec.Log("Inconclusive", "why", fmt.Sprintf("bad write step n=%d segs=%d (after drain: %v)", st.n, st.segs, drained))
				continue
			}
			msg := make([]byte, msgLen(st.segs))
			for i := range msg {
				msg[i] = byte(st.n)
			}
			lmu.Lock()
			calls, sent, wseq, failAt = 0, 0, []int{}, st.failAt
			lmu.Unlock()
			via := site
			if site == "alt" {
				via = "datagram"
				if st.n%2 == 0 {
					via = "transport"
				}
			}
			resC := make(chan string, 1)
			go func() {
				defer func() {
					if r := recover(); r != nil {
						resC <- "panic"
					}
				}()
				var err error
				if via == "transport" {
					err = sender.WriteUnreliable(msg)
				} else {
					err = tx.Write(msg)
				}
				resC <- errClass(err)
			}()
			ret := ""
			select {
			case ret = <-resC:
			case <-time.After(opTimeout):
				ret = "timeout"
			}
			lmu.Lock()
			c, s, ws, le := calls, sent, append([]int{}, wseq...), linkErr
			failAt = -1
			lmu.Unlock()
			rec.Log("DgOp", "a", "write", "n", st.n, "segs", st.segs, "failAt", st.failAt, "via", via, "ret", ret,
				"calls", c, "sent", s, "wseq", ws)
			if ret == "timeout" {
				rec.Log("Inconclusive", "why", "write did not return")
			}
			if le != "" {
				rec.Log("Inconclusive", "why", le)
			}
			if st.failAt >= 0 && c <= st.failAt {
				rec.Log("Inconclusive", "why", fmt.Sprintf("the write made %d SendDatagram calls: call %d could not be failed", c, st.failAt))
			}
		case "drain":
			if drained {
				rec.Log("Inconclusive", "why", "second drain")
				continue
			}
			drained = true
			// the receiving goroutine has consumed everything once it asks for datagram number enq+1
			lmu.Lock()
			want := enq + 1
			lmu.Unlock()
			deadline := time.Now().Add(opTimeout)
			quiesced := false
			for {
				if atomic.LoadInt64(&b.recvCalls) >= want && len(b.in) == 0 {
					quiesced = true
					break
				}
				if time.Now().After(deadline) {
					break
				}
				time.Sleep(100 * time.Microsecond)
			}
			// end of the link: the reader gets what is still queued inside the transport, then the end
			closeAll()
			readerEnded := true
			select {
			case <-readerDone:
			case <-time.After(opTimeout):
				readerEnded = false
			}
			gmu.Lock()
			list := []h.Ev{}
			for _, m := range g.msgs {
				list = append(list, h.Ev{"len": len(m), "runs": runs(m)})
			}
			readErr := g.readErr
			gmu.Unlock()
			rec.Log("DgOp", "a", "drain", "quiesced", quiesced, "readerEnded", readerEnded, "readErr", readErr,
				"consumed", int(want-1), "got", list)
			if !quiesced {
				rec.Log("Inconclusive", "why", "the receiving transport did not consume all datagrams in time")
			}
			if !readerEnded {
				rec.Log("Inconclusive", "why", "Read did not report the end of the transport")
			}
		default:
			rec.Log("Inconclusive", "why", "unknown step "+st.a)
		}
	}
	if !drained {
		rec.Log("Inconclusive", "why", "script without drain")
	}
	rec.Log("End")
	return rec
}
