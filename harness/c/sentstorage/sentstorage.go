// Package sentstorage is the component driver of C07a: lock-step replay of
// SentStorage.tla operation sequences on the two real in-memory sent-chunk stores
// (iscp.inmemSentStorage and iscp.inmemSentStorageNoPayload). After every operation
// the return value of the operation and List() of *every* stream are logged for both
// stores; the monitor MonC07a compares them with the model and with the lists before.
package sentstorage

import (
	"context"
	"fmt"
	"sort"
	"strings"
	"time"

	"verifharness/h"

	"github.com/aptpod/iscp-go/iscp"
	"github.com/aptpod/iscp-go/message"
	uuid "github.com/google/uuid"
)

func init() {
	h.Kinds["sentstorage"] = run
}

// stream n -> fixed uuid
func sid(n int) uuid.UUID {
	return uuid.MustParse(fmt.Sprintf("00000000-0000-4000-8000-%012d", n))
}

const nPoints = 2

func elapsed(s, q, v, k int) time.Duration {
	return time.Duration(s*1000000+q*10000+v*100+k) * time.Microsecond
}

func payload(s, q, v, k int) []byte {
	return []byte(fmt.Sprintf("payload-s%d-q%d-v%d-k%d", s, q, v, k))
}

// mkChunk builds the concrete chunk for the abstract value v stored at (s, q).
func mkChunk(s, q, v int) iscp.DataPointGroups {
	pts := iscp.DataPoints{}
	for k := 0; k < nPoints; k++ {
		pts = append(pts, &message.DataPoint{ElapsedTime: elapsed(s, q, v, k), Payload: payload(s, q, v, k)})
	}
	return iscp.DataPointGroups{&iscp.DataPointGroup{
		DataID:     &message.DataID{Name: fmt.Sprintf("d%d", v), Type: "t"},
		DataPoints: pts,
	}}
}

// absChunk decodes a chunk read back from stream s, sequence q: the abstract value
// (0 = structure / element times do not belong to any value stored at (s, q)) and the
// payload code: 1 = every payload intact, 0 = every payload empty, 2 = anything else.
func absChunk(s, q int, g iscp.DataPointGroups) (val int, pay int) {
	if len(g) != 1 || g[0] == nil || g[0].DataID == nil || len(g[0].DataPoints) != nPoints {
		return 0, 2
	}
	name := g[0].DataID.Name
	if !strings.HasPrefix(name, "d") || g[0].DataID.Type != "t" {
		return 0, 2
	}
	v := 0
	fmt.Sscanf(name[1:], "%d", &v)
	if v <= 0 {
		return 0, 2
	}
	full, none := 0, 0
	for k, p := range g[0].DataPoints {
		if p == nil || p.ElapsedTime != elapsed(s, q, v, k) {
			return 0, 2
		}
		switch {
		case string(p.Payload) == string(payload(s, q, v, k)):
			full++
		case len(p.Payload) == 0:
			none++
		}
	}
	switch {
	case full == nPoints:
		return v, 1
	case none == nPoints:
		return v, 0
	}
	return v, 2
}

type store struct {
	name string
	s    iscp.VerifSentStorage
}

// lists = List() of every stream: [{ret, ents: [[seq, val, pay], ...]}, ...] (index = stream-1)
func (st *store) lists(ns int) []h.Ev {
	out := make([]h.Ev, 0, ns)
	for s := 1; s <= ns; s++ {
		ret, ents := st.list(s)
		out = append(out, h.Ev{"ret": ret, "ents": ents})
	}
	return out
}

func (st *store) list(s int) (ret string, ents [][]int) {
	ents = [][]int{}
	defer func() {
		if r := recover(); r != nil {
			ret = "panic"
		}
	}()
	m, err := st.s.List(context.Background(), sid(s))
	if err != nil {
		return errClass(err), ents
	}
	for q, g := range m {
		v, p := absChunk(s, int(q), g)
		ents = append(ents, []int{int(q), v, p})
	}
	sort.Slice(ents, func(i, j int) bool { return ents[i][0] < ents[j][0] })
	return "ok", ents
}

func errClass(err error) string {
	switch {
	case err == nil:
		return "ok"
	case strings.Contains(err.Error(), "not found stream"):
		return "errStream"
	case strings.Contains(err.Error(), "not found sequence number"):
		return "errSeq"
	}
	return "errOther"
}

// apply executes one op; result = {ret, val, pay, ents}
func (st *store) apply(op *h.Step) (res h.Ev) {
	res = h.Ev{"ret": "ok", "val": 0, "pay": 0, "ents": [][]int{}}
	defer func() {
		if r := recover(); r != nil {
			res["ret"] = "panic"
		}
	}()
	ctx := context.Background()
	switch op.A {
	case "store":
		res["ret"] = errClass(st.s.Store(ctx, sid(op.N), uint32(op.Seq), mkChunk(op.N, op.Seq, op.Tag)))
	case "remove":
		g, err := st.s.Remove(ctx, sid(op.N), uint32(op.Seq))
		res["ret"] = errClass(err)
		if err == nil {
			res["val"], res["pay"] = absChunk(op.N, op.Seq, g)
		}
	case "list":
		ret, ents := st.list(op.N)
		res["ret"], res["ents"] = ret, ents
	case "clear":
		res["ret"] = errClass(st.s.Clear(ctx, sid(op.N)))
	}
	return res
}

func run(sc *h.Scenario) *h.Rec {
	rec := h.NewRec(sc.ID)
	ns := 2
	if v, ok := sc.P["streams"].(float64); ok {
		ns = int(v)
	}
	rec.Log("Reset", "kind", sc.Kind, "p", h.Ev{"streams": ns})
	sp := &store{"payload", iscp.VerifNewInmemSentStorage()}
	sn := &store{"nopayload", iscp.VerifNewInmemSentStorageNoPayload()}
	for i := range sc.Steps {
		op := &sc.Steps[i]
		switch op.A {
		case "store", "remove", "list", "clear":
		default:
			rec.Log("Inconclusive", "why", "unknown op "+op.A)
			continue
		}
		if op.N < 1 || op.N > ns {
			rec.Log("Inconclusive", "why", "bad stream index")
			continue
		}
		rp := sp.apply(op)
		lp := sp.lists(ns)
		rn := sn.apply(op)
		ln := sn.lists(ns)
		rec.Log("StOp", "a", op.A, "n", op.N, "seq", op.Seq, "tag", op.Tag, "rp", rp, "lp", lp, "rn", rn, "ln", ln)
	}
	rec.Log("End")
	return rec
}
